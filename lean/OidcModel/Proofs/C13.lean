/-
  C13 — remote JWKS key set under concurrency, rotation and failures: theorems.

  The model is the transition system of Model/Jwks.lean instantiated with what factgen regenerated from
  pkg/client/rp/jwks.go: `GenJwks.facts` (shape of keysFromRemote / updateKeys) and `GenJwks.logic`
  (VerifySignature, verifySignatureCached, exactMatch, verifySignatureRemote).  Part 1 bridges the
  regenerated definitions to hand-readable ones; part 2 is ONE invariant relating a reachable model state
  to the state of the monitor `C13.mstep` that has consumed the observations of the same run, proved by
  induction over ALL schedules (any number of calls, any length); part 3 states the property theorems
  (`jwks_model_satisfies_monitor` and the named clauses) as corollaries; part 4 shows, on the shape the file had
  before the two repairs, that each clause really depends on the extracted facts (witness schedules).
-/
import OidcModel.Generated.Jwks
import OidcModel.Spec.C13
import OidcModel.Proofs.C02
import OidcModel.GoTac

namespace C13
open Jwks Hand

theorem facts_bridge : GenJwks.facts = Jwks.fixedFacts := by decide

/-- what `verifySignatureCached` + the head of `VerifySignature` decide on the cached keys -/
inductive CacheAns
  | hit (p : Payload)
  | reject
  | miss
  deriving DecidableEq, Repr

def exact (skip : Bool) (jwkID jwsID : String) : Bool :=
  if jwkID == "" && jwsID == "" then skip else jwkID == jwsID

def cacheAns (skip : Bool) (cached : List JWK) (j : JWS) : CacheAns :=
  if cached.isEmpty then .miss else
  match FindMatchingKey (GetKeyIDAndAlg j).1 "sig" (GetKeyIDAndAlg j).2 cached with
  | .error _ => .miss
  | .ok k =>
    match jwsVerify j k with
    | .ok p => .hit p
    | .error _ => if exact skip k.KeyID (GetKeyIDAndAlg j).1 then .reject else .miss

@[simp] theorem go_nil_opt {α : Type} : (Go.nil : Option α) = none := rfl
@[simp] theorem go_notNil_some {α : Type} (x : α) : Go.notNil (some x) = true := rfl
@[simp] theorem go_notNil_none {α : Type} : Go.notNil (none : Option α) = false := rfl
@[simp] theorem go_isNil_some {α : Type} (x : α) : Go.isNil (some x) = false := rfl
@[simp] theorem go_isNil_none {α : Type} : Go.isNil (none : Option α) = true := rfl

theorem len_zero {α : Type} (l : List α) : (Go.len l == (0 : Int)) = l.isEmpty := by
  cases l with
  | nil => rfl
  | cons a t =>
    simp only [Go.len, Go.HasLen.len, List.length_cons, List.isEmpty_cons]
    have : ((t.length + 1 : Nat) : Int) ≠ 0 := by omega
    simpa using this

/-- `cacheAns` at an explicit key id / algorithm (what `verifySignatureCached` is called with) -/
def cacheAnsAt (skip : Bool) (cached : List JWK) (j : JWS) (kid alg : String) : CacheAns :=
  if cached.isEmpty then .miss else
  match FindMatchingKey kid "sig" alg cached with
  | .error _ => .miss
  | .ok k =>
    match jwsVerify j k with
    | .ok p => .hit p
    | .error _ => if exact skip k.KeyID kid then .reject else .miss

theorem cacheAns_at (skip : Bool) (cached : List JWK) (j : JWS) :
    cacheAns skip cached j = cacheAnsAt skip cached j (GetKeyIDAndAlg j).1 (GetKeyIDAndAlg j).2 := rfl

/-- the Go pair `verifySignatureCached` returns for each of the three answers -/
def cachedOut : CacheAns → GoPair
  | .hit p => (some p, none)
  | .reject => (none, some msgBadSig)
  | .miss => (none, none)

/-- characterisation of the regenerated `verifySignatureCached` (the only place where its shape matters) -/
theorem verifySignatureCached_char (cfg : JwksSet) (cached : List JWK) (j : JWS) (kid alg : String) :
    GenJwks.verifySignatureCached 0 cfg cached j kid alg = cachedOut (cacheAnsAt cfg.skipRemoteCheck cached j kid alg) := by
  unfold cachedOut cacheAnsAt GenJwks.verifySignatureCached GenJwks.exactMatch Hand.jwksFind Hand.jwksVerify exact
  simp only [len_zero]
  cases cached with
  | nil => simp
  | cons a t =>
    simp only [List.isEmpty_cons]
    cases hf : FindMatchingKey kid Const.KeyUseSignature alg (a :: t) with
    | error e => simp [Const.KeyUseSignature] at hf ⊢; simp [hf]
    | ok k =>
      simp [Const.KeyUseSignature] at hf ⊢
      simp only [hf]
      cases hv : jwsVerify j k with
      | ok p => simp
      | error e =>
        simp only [go_notNil_none]
        by_cases h1 : k.KeyID = "" <;> by_cases h2 : kid = "" <;> by_cases h3 : k.KeyID = kid <;>
          cases hs : cfg.skipRemoteCheck <;> simp_all [msgBadSig]

/-- characterisation of the regenerated `VerifySignature`: the head of the function is a case analysis on what the cache answers.
    Shape-independent in `VerifySignature` itself: after the call of `verifySignatureCached` has been replaced by its
    characterisation, every answer leaves a closed `if` / `match` over a literal Go pair, whatever the order and nesting of the
    tests (`payload != nil` first, or `payload == nil` with the rest nested, …). -/
theorem logic_cached (cfg : JwksSet) (hd : cfg.defaultAlg = "") (cached : List JWK) (remote : JWS → String → String → GoPair) (j : JWS) :
    GenJwks.logic.verifySignature cfg cached remote j =
      match cacheAns cfg.skipRemoteCheck cached j with
      | .hit p => (some p, none)
      | .reject => (none, some msgBadSig)
      | .miss => remote j (GetKeyIDAndAlg j).1 (GetKeyIDAndAlg j).2 := by
  unfold GenJwks.logic
  simp only
  rw [cacheAns_at]
  go_unfold GenJwks.VerifySignature
  rcases hg : GetKeyIDAndAlg j with ⟨kid, alg⟩
  simp only [verifySignatureCached_char, hd]
  by_cases ha : alg = ""
  · subst ha
    cases hans : cacheAnsAt cfg.skipRemoteCheck cached j kid "" <;> simp_all [cachedOut, msgBadSig]
  · cases hans : cacheAnsAt cfg.skipRemoteCheck cached j kid alg <;> simp_all [cachedOut, msgBadSig]

inductive RemoteAns
  | accept (p : Payload)
  | noKey
  | badSig
  deriving DecidableEq, Repr

def remoteAns (ks : List JWK) (j : JWS) : RemoteAns :=
  match FindMatchingKey (GetKeyIDAndAlg j).1 "sig" (GetKeyIDAndAlg j).2 ks with
  | .error _ => .noKey
  | .ok k =>
    match jwsVerify j k with
    | .ok p => .accept p
    | .error _ => .badSig

/-- `verifySignatureRemote` on the answer of the two library calls -/
def remoteOut (_cfg : JwksSet) (fm : Go.R JWK) (j : JWS) : GoPair :=
  match fm with
  | .error _ => (none, some msgNoKey)
  | .ok k =>
    match jwsVerify j k with
    | .ok p => (some p, none)
    | .error _ => (none, some msgBadSig)

theorem logic_remote_ok (cfg : JwksSet) (ks : List JWK) (j : JWS) :
    GenJwks.logic.verifySignatureRemote cfg (ks, none) j (GetKeyIDAndAlg j).1 (GetKeyIDAndAlg j).2 =
      match remoteAns ks j with
      | .accept p => (some p, none)
      | .noKey => (none, some msgNoKey)
      | .badSig => (none, some msgBadSig) := by
  have h1 : GenJwks.logic.verifySignatureRemote cfg (ks, none) j (GetKeyIDAndAlg j).1 (GetKeyIDAndAlg j).2
      = remoteOut cfg (FindMatchingKey (GetKeyIDAndAlg j).1 "sig" (GetKeyIDAndAlg j).2 ks) j := by
    unfold GenJwks.logic
    simp only
    unfold GenJwks.verifySignatureRemote Hand.jwksFind Hand.jwksVerify remoteOut
    simp only [go_notNil_none, Const.KeyUseSignature]
    obtain ⟨x, hx⟩ : ∃ x, FindMatchingKey (GetKeyIDAndAlg j).1 "sig" (GetKeyIDAndAlg j).2 ks = x := ⟨_, rfl⟩
    simp only [hx]
    cases x with
    | error e => simp [msgNoKey]
    | ok k =>
      simp only [go_notNil_none]
      cases hv : jwsVerify j k with
      | ok p => simp
      | error e => simp [msgBadSig]
  rw [h1]
  unfold remoteOut remoteAns
  generalize FindMatchingKey (GetKeyIDAndAlg j).1 "sig" (GetKeyIDAndAlg j).2 ks = x
  cases x with
  | error e => rfl
  | ok k => simp only []; cases jwsVerify j k <;> rfl

theorem logic_remote_err (cfg : JwksSet) (ks : List JWK) (e : String) (j : JWS) (kid alg : String) :
    GenJwks.logic.verifySignatureRemote cfg (ks, some e) j kid alg = (none, some msgFetch) := by
  unfold GenJwks.logic
  simp only
  unfold GenJwks.verifySignatureRemote
  simp [msgFetch]

/-- the reference verdict in terms of the same two library calls -/
theorem refAccepts_eq (ks : List JWK) (j : JWS) :
    refAccepts ks j = (match remoteAns ks j with | .accept _ => true | _ => false) := by
  unfold refAccepts KeySet.VerifySignature remoteAns
  simp only [Const.KeyUseSignature]
  cases hf : FindMatchingKey (GetKeyIDAndAlg j).1 "sig" (GetKeyIDAndAlg j).2 ks with
  | error e => simp [Except.toBool]
  | ok k =>
    cases hv : jwsVerify j k with
    | ok p => simp [Except.toBool, hv]
    | error e => simp [Except.toBool, hv]

theorem remoteAns_accept_payload {ks : List JWK} {j : JWS} {p : Payload} (h : remoteAns ks j = .accept p) : p = j.payload := by
  unfold remoteAns at h
  split at h
  · simp at h
  · rename_i k _
    split at h
    · rename_i p' hv
      simp at h; subst h
      obtain ⟨_, _, hp, _⟩ := C02.jwsVerify_ok hv
      exact hp
    · simp at h

theorem findMatchingKey_nil (kid use alg : String) : FindMatchingKey kid use alg [] = .error "ErrKeyNone" := rfl

theorem namedKeyRejects_eq (skip : Bool) (ks : List JWK) (j : JWS) :
    namedKeyRejects skip ks j =
      (match FindMatchingKey (GetKeyIDAndAlg j).1 "sig" (GetKeyIDAndAlg j).2 ks with
       | .ok k => !(jwsVerify j k).toBool && exact skip k.KeyID (GetKeyIDAndAlg j).1
       | .error _ => false) := rfl

/-- cached keys: relation between the code's answer and the reference verdict -/
theorem cacheAns_spec (skip : Bool) (cached : List JWK) (j : JWS) :
    match cacheAns skip cached j with
    | .hit p => p = j.payload ∧ refAccepts cached j = true
    | .reject => refAccepts cached j = false ∧ namedKeyRejects skip cached j = true ∧ cached ≠ []
    | .miss => refAccepts cached j = false := by
  rw [refAccepts_eq, namedKeyRejects_eq]
  unfold cacheAns remoteAns
  cases cached with
  | nil => simp [findMatchingKey_nil]
  | cons a t =>
    simp only [List.isEmpty_cons]
    cases hf : FindMatchingKey (GetKeyIDAndAlg j).1 "sig" (GetKeyIDAndAlg j).2 (a :: t) with
    | error e => simp
    | ok k =>
      cases hv : jwsVerify j k with
      | ok p =>
        obtain ⟨_, _, hp, _⟩ := C02.jwsVerify_ok hv
        simp [hv, hp]
      | error e =>
        simp only [hv, Except.toBool]
        cases hb : exact skip k.KeyID (GetKeyIDAndAlg j).1 <;> simp
/-! ## Part 2 — the invariant -/

def resOf : Option FetchRes → Option (EndKind × List JWK)
  | none => none
  | some (.keys ks) => some (.ok, ks)
  | some (.fail k) => some (k, [])

/-- **download classification.** What the code makes of an answer of the endpoint — as determined by the regenerated decision
    structure of `HttpRequest` (status test first, the WHOLE body through `json.Unmarshal`, its error returned) and of
    `jsonWebKeySet.UnmarshalJSON` (undecodable entries skipped) — is exactly what the specification says the answer is: a
    successful download of the document's known keys iff status 200 and the whole body is one JWKS document, a failed one otherwise. -/
theorem jwks_download_classification (a : Answer) :
    resOf (some (FetchRes.ofAnswer fixedFacts a)) = some (endOf (some a)) := by
  obtain ⟨st, wf, whole, first⟩ := a
  cases st <;> cases wf <;> cases whole <;> simp [FetchRes.ofAnswer, fixedFacts, endOf, Answer.served, resOf]

theorem ofAnswer_fail {a : Answer} {k : EndKind} (h : FetchRes.ofAnswer fixedFacts a = .fail k) : k ≠ .ok ∧ k ≠ .cancelled := by
  obtain ⟨st, wf, whole, first⟩ := a
  cases st <;> cases wf <;> cases whole <;> simp [FetchRes.ofAnswer, fixedFacts] at h <;> subst h <;> simp

/-- what is known of a finished call -/
def DoneOK (s : State) (tok : JWS) (live : Bool) : Outcome → Prop
  | .payload b => b = tok.payload.bytes ∧ ∃ f ks, f < s.nf ∧ (s.fetches f).res = some (.keys ks) ∧ refAccepts ks tok = true
  | .ctxErr => live = false
  | .fetchErr k => k ≠ .cancelled
  | _ => True

/-- model call vs. what the monitor remembers of it -/
def CallerInv (cfg : JwksSet) (s : State) (m : MState) (c : Cid) : Prop :=
  (m.callers c).started = ((s.callers c).pc != .idle) ∧
  (m.callers c).finished = (match (s.callers c).pc with | .done _ => true | _ => false) ∧
  ((s.callers c).pc ≠ .idle →
      (m.callers c).tok = (s.callers c).tok ∧ (m.callers c).cancelled = !(s.callers c).live ∧
      (∀ f, (m.callers c).stale f = true → m.announced f = true)) ∧
  (match (s.callers c).pc with
   | .idle => True
   | .atCache => (m.callers c).owned = 0 ∧ ((m.callers c).hit = true → refAccepts s.cached (s.callers c).tok = true) ∧
       (refAccepts s.cached (s.callers c).tok = true → (m.callers c).mayHit = true)
   | .atLock seen => (m.callers c).owned = 0 ∧ (m.callers c).hit = false ∧ cacheAns cfg.skipRemoteCheck seen (s.callers c).tok = .miss
   | .atSelect g seen =>
       (m.callers c).hit = false ∧ cacheAns cfg.skipRemoteCheck seen (s.callers c).tok = .miss ∧ g < s.nf ∧
       (m.callers c).stale g = false ∧ (m.callers c).asked g = false
   | .done o => DoneOK s (s.callers c).tok (s.callers c).live o)

structure Inv (cfg : JwksSet) (s : State) (m : MState) : Prop where
  noViol : m.viol = none
  noCrash : s.crashed = false
  skipEq : m.skip = cfg.skipRemoteCheck
  served : m.served = s.served
  nf : m.nf = s.nf
  begun : ∀ f : Nat, m.begun f = decide (f < s.nf)
  res : ∀ f : Nat, m.res f = resOf (s.fetches f).res
  resKind : ∀ (f : Nat) k, (s.fetches f).res = some (.fail k) → k ≠ .ok ∧ k ≠ .cancelled
  fresh : ∀ f : Nat, s.nf ≤ f → (s.fetches f).res = none ∧ (s.fetches f).upc = 0
  upc : ∀ f : Nat, (s.fetches f).upc ≤ 2 ∧ ((s.fetches f).res = none ↔ (s.fetches f).upc = 0)
  sig : ∀ f : Nat, (s.fetches f).sig = if (s.fetches f).upc = 2 then (s.fetches f).res else none
  ann : ∀ f : Nat, m.announced f = decide ((s.fetches f).upc = 2)
  infl : ∀ g : Nat, s.inflight = some g → g < s.nf ∧ (s.fetches g).upc ≤ 1
  others : ∀ f : Nat, f < s.nf → s.inflight ≠ some f → (s.fetches f).upc = 2
  cache : m.cacheExpect = s.cached
  cacheSafe : s.cached = [] ∨ ∃ f, f < s.nf ∧ (s.fetches f).res = some (.keys s.cached)
  owner : ∀ f : Nat, f < s.nf → (match (s.callers (s.fetches f).owner).pc with | .atSelect _ _ | .done _ => True | _ => False)
  ownerUniq : ∀ f g : Nat, f < s.nf → g < s.nf → (s.fetches f).owner = (s.fetches g).owner → f = g
  callers : ∀ c : Nat, CallerInv cfg s m c

theorem inv_init (cfg : JwksSet) : Inv cfg {} { skip := cfg.skipRemoteCheck } := by
  refine { noViol := rfl, noCrash := rfl, skipEq := rfl, served := rfl, nf := rfl, begun := ?_, res := ?_, resKind := ?_, fresh := ?_,
           upc := ?_, sig := ?_, ann := ?_, infl := ?_, others := ?_, cache := rfl, cacheSafe := Or.inl rfl, owner := ?_, ownerUniq := ?_, callers := ?_ }
  all_goals (intros; simp_all [resOf, CallerInv])


theorem mrun_cons (m : MState) (o : Obs) (os : List Obs) : mrun m (o :: os) = mrun (mstep m o) os := rfl
theorem mrun_nil (m : MState) : mrun m [] = m := rfl
theorem mrun_append (m : MState) (a b : List Obs) : mrun m (a ++ b) = mrun (mrun m a) b := by
  simp [mrun, List.foldl_append]

theorem callerInv_congr {cfg : JwksSet} {s s' : State} {m m' : MState} {c : Cid}
    (h : CallerInv cfg s m c)
    (hc : s'.callers c = s.callers c) (hm : m'.callers c = m.callers c)
    (hcached : s'.cached = s.cached) (hnf : s.nf ≤ s'.nf)
    (hres : ∀ f, f < s.nf → (s.fetches f).res ≠ none → (s'.fetches f).res = (s.fetches f).res)
    (hann : ∀ f, m.announced f = true → m'.announced f = true) : CallerInv cfg s' m' c := by
  unfold CallerInv at h ⊢
  rw [hc, hm, hcached]
  obtain ⟨h1, h2, h3, h4⟩ := h
  refine ⟨h1, h2, ?_, ?_⟩
  · intro hne
    obtain ⟨a, b, c'⟩ := h3 hne
    exact ⟨a, b, fun f hf => hann f (c' f hf)⟩
  · cases hpc : (s.callers c).pc with
    | idle => trivial
    | atCache => simpa [hpc] using h4
    | atLock seen => simpa [hpc] using h4
    | atSelect g seen =>
      simp only [hpc] at h4 ⊢
      exact ⟨h4.1, h4.2.1, Nat.lt_of_lt_of_le h4.2.2.1 hnf, h4.2.2.2.1, h4.2.2.2.2⟩
    | done o =>
      simp only [hpc] at h4 ⊢
      cases o with
      | payload b =>
        obtain ⟨hb, f, ks, hf, hr, ha⟩ := h4
        refine ⟨hb, f, ks, Nat.lt_of_lt_of_le hf hnf, ?_, ha⟩
        rw [hres f hf (by simp [hr]), hr]
      | _ => exact h4


theorem okKeys_of_res {m : MState} {f : Fid} {ks : List JWK} (h : m.res f = some (.ok, ks)) : okKeys m f = some ks := by
  simp [okKeys, h]

theorem acceptJustified_of_mayHit {m : MState} {mc : MCaller} (h : mc.mayHit = true) : acceptJustified m mc = true := by
  simp [acceptJustified, h]

theorem acceptJustified_of {m : MState} {mc : MCaller} {f : Fid} {ks : List JWK}
    (hf : f < m.nf) (hk : okKeys m f = some ks) (hs : mc.stale f = false) (ha : refAccepts ks mc.tok = true) : acceptJustified m mc = true := by
  unfold acceptJustified
  rw [Bool.or_eq_true, List.any_eq_true]
  exact Or.inr ⟨f, List.mem_range.mpr hf, by simp [hk, hs, ha]⟩

theorem rejectJustified_of {m : MState} {mc : MCaller} {f : Fid} {ks : List JWK}
    (hf : f < m.nf) (hk : okKeys m f = some ks)
    (ha : (mc.asked f = false ∧ refAccepts ks mc.tok = false) ∨ namedKeyRejects m.skip ks mc.tok = true) : rejectJustified m mc = true := by
  unfold rejectJustified
  rw [List.any_eq_true]
  refine ⟨f, List.mem_range.mpr hf, ?_⟩
  rcases ha with ⟨h1, h2⟩ | h
  · simp [hk, h1, h2]
  · simp [hk, h]

theorem fetchErrJustified_of {m : MState} {mc : MCaller} {f : Fid} {k : EndKind}
    (hf : f < m.nf) (hs : mc.asked f = false) (hk : failedWith m f k = true) : fetchErrJustified m mc k = true := by
  unfold fetchErrJustified
  rw [List.any_eq_true]
  exact ⟨f, List.mem_range.mpr hf, by simp [hs, hk]⟩

theorem classify_payload (p : Payload) (e : Option String) (c : Cause) : classify (some p, e) c = .payload p.bytes := rfl
theorem classify_badSig (c : Cause) : classify (none, some msgBadSig) c = .badSig := by
  have h1 : (msgBadSig == msgFetch) = false := by decide
  have h2 : (msgBadSig == msgNoKey) = false := by decide
  simp [classify, h1, h2]
theorem classify_noKey (c : Cause) : classify (none, some msgNoKey) c = .noKey := by
  have h1 : (msgNoKey == msgFetch) = false := by decide
  simp [classify, h1]
theorem classify_fetch_ctx : classify (none, some msgFetch) .ctx = .ctxErr := by simp [classify]
theorem classify_fetch_fail (k : EndKind) : classify (none, some msgFetch) (.fetch k) = .fetchErr k := by simp [classify]

theorem cachePhase_eq (cfg : JwksSet) (hd : cfg.defaultAlg = "") (cached : List JWK) (j : JWS) :
    cachePhase GenJwks.logic cfg cached j =
      match cacheAns cfg.skipRemoteCheck cached j with
      | .hit p => (some p, none)
      | .reject => (none, some msgBadSig)
      | .miss => (none, some needRemoteMark) := by
  unfold cachePhase
  rw [logic_cached cfg hd]
  try (cases cacheAns cfg.skipRemoteCheck cached j <;> rfl)

theorem fullVerify_miss (cfg : JwksSet) (hd : cfg.defaultAlg = "") (seen : List JWK) (rem : List JWK × Option String) (j : JWS)
    (h : cacheAns cfg.skipRemoteCheck seen j = .miss) :
    fullVerify GenJwks.logic cfg seen rem j = GenJwks.logic.verifySignatureRemote cfg rem j (GetKeyIDAndAlg j).1 (GetKeyIDAndAlg j).2 := by
  unfold fullVerify
  rw [logic_cached cfg hd, h]

/-- a step that changes nothing but one call (and what the monitor remembers of that call) -/
theorem inv_caller_update {cfg : JwksSet} {s s' : State} {m m' : MState} (hI : Inv cfg s m) (c : Cid)
    (hs : s' = { s with callers := s'.callers }) (hm : m' = { m with callers := m'.callers })
    (hso : ∀ c', c' ≠ c → s'.callers c' = s.callers c') (hmo : ∀ c', c' ≠ c → m'.callers c' = m.callers c')
    (hown : ∀ f, f < s.nf → (s.fetches f).owner = c → match (s'.callers c).pc with | .atSelect _ _ | .done _ => True | _ => False)
    (hc : CallerInv cfg s' m' c) : Inv cfg s' m' := by
  have e1 : s'.cached = s.cached := by rw [hs]
  have e2 : s'.nf = s.nf := by rw [hs]
  have e3 : s'.fetches = s.fetches := by rw [hs]
  have e4 : s'.inflight = s.inflight := by rw [hs]
  have e5 : s'.crashed = s.crashed := by rw [hs]
  have e6 : s'.served = s.served := by rw [hs]
  have f1 : m'.viol = m.viol := by rw [hm]
  have f2 : m'.skip = m.skip := by rw [hm]
  have f3 : m'.served = m.served := by rw [hm]
  have f4 : m'.nf = m.nf := by rw [hm]
  have f5 : m'.begun = m.begun := by rw [hm]
  have f6 : m'.res = m.res := by rw [hm]
  have f7 : m'.announced = m.announced := by rw [hm]
  have f8 : m'.cacheExpect = m.cacheExpect := by rw [hm]
  refine { noViol := f1 ▸ hI.noViol, noCrash := e5 ▸ hI.noCrash, skipEq := f2 ▸ hI.skipEq, served := by rw [f3, e6]; exact hI.served,
           nf := by rw [f4, e2]; exact hI.nf, begun := by rw [f5, e2]; exact hI.begun, res := by rw [f6, e3]; exact hI.res,
           resKind := by rw [e3]; exact hI.resKind, fresh := by rw [e3, e2]; exact hI.fresh, upc := by rw [e3]; exact hI.upc,
           sig := by rw [e3]; exact hI.sig, ann := by rw [f7, e3]; exact hI.ann, infl := by rw [e4, e2, e3]; exact hI.infl,
           others := by rw [e4, e2, e3]; exact hI.others, cache := by rw [f8, e1]; exact hI.cache,
           cacheSafe := by rw [e1, e2, e3]; exact hI.cacheSafe, owner := ?_, ownerUniq := by rw [e2, e3]; exact hI.ownerUniq, callers := ?_ }
  · intro f hf
    rw [e2] at hf
    rw [e3]
    by_cases ho : (s.fetches f).owner = c
    · rw [ho]; exact hown f hf ho
    · rw [hso _ ho]; exact hI.owner f hf
  · intro c'
    by_cases hcc : c' = c
    · subst hcc; exact hc
    · exact callerInv_congr (hI.callers c') (hso c' hcc) (hmo c' hcc) e1 (Nat.le_of_eq e2.symm) (fun f _ _ => by rw [e3]) (fun f h => by rw [f7]; exact h)

section steps
variable {cfg : JwksSet} (hd : cfg.defaultAlg = "") {s s' : State} {m : MState} {obs : List Obs}

theorem inv_start {c : Cid} {tok : JWS} (hI : Inv cfg s m)
    (hx : exec fixedFacts GenJwks.logic cfg s (.start c tok) = some (s', obs)) : Inv cfg s' (mrun m obs) := by
  simp only [exec] at hx
  split at hx
  · simp at hx
  · rename_i hcond
    simp only [Option.some.injEq, Prod.mk.injEq] at hx
    obtain ⟨rfl, rfl⟩ := hx
    have hidle : (s.callers c).pc = .idle := by
      simp only [Bool.or_eq_true, bne_iff_ne, ne_eq, not_or, Decidable.not_not] at hcond
      exact hcond.2
    have hns : (m.callers c).started = false := by
      have := (hI.callers c).1
      simpa [hidle] using this
    simp only [mrun_cons, mrun_nil, mstep, hns, Bool.false_eq_true, if_false]
    refine { noViol := hI.noViol, noCrash := hI.noCrash, skipEq := hI.skipEq, served := hI.served, nf := hI.nf, begun := hI.begun, res := hI.res,
             resKind := hI.resKind, fresh := hI.fresh, upc := hI.upc, sig := hI.sig, ann := hI.ann, infl := hI.infl, others := hI.others,
             cache := hI.cache, cacheSafe := hI.cacheSafe, owner := ?_, ownerUniq := hI.ownerUniq, callers := ?_ }
    · intro f hf
      have ho := hI.owner f hf
      by_cases hc : (s.fetches f).owner = c
      · rw [hc, hidle] at ho; exact ho.elim
      · simpa [upd, hc] using ho
    · intro c'
      by_cases hc : c' = c
      · subst hc
        simp [CallerInv, upd, hI.cache]
      · exact callerInv_congr (hI.callers c') (by simp [upd, hc]) (by simp [upd, hc]) rfl (Nat.le_refl _) (fun _ _ _ => rfl) (fun _ h => h)


theorem inv_rotate {ks : List ServedKey} (hI : Inv cfg s m)
    (hx : exec fixedFacts GenJwks.logic cfg s (.rotate ks) = some (s', obs)) : Inv cfg s' (mrun m obs) := by
  simp only [exec] at hx
  split at hx
  · simp at hx
  · simp only [Option.some.injEq, Prod.mk.injEq] at hx
    obtain ⟨rfl, rfl⟩ := hx
    simp only [mrun_cons, mrun_nil, mstep]
    refine { noViol := hI.noViol, noCrash := hI.noCrash, skipEq := hI.skipEq, served := rfl, nf := hI.nf, begun := hI.begun, res := hI.res,
             resKind := hI.resKind, fresh := hI.fresh, upc := hI.upc, sig := hI.sig, ann := hI.ann, infl := hI.infl, others := hI.others,
             cache := hI.cache, cacheSafe := hI.cacheSafe, owner := hI.owner, ownerUniq := hI.ownerUniq, callers := ?_ }
    intro c'
    exact callerInv_congr (hI.callers c') rfl rfl rfl (Nat.le_refl _) (fun _ _ _ => rfl) (fun _ h => h)

theorem inv_cancel {c : Cid} (hI : Inv cfg s m)
    (hx : exec fixedFacts GenJwks.logic cfg s (.cancel c) = some (s', obs)) : Inv cfg s' (mrun m obs) := by
  simp only [exec] at hx
  split at hx
  · simp at hx
  · rename_i hcond
    have hdet : (fixedFacts.spawnCtx == CtxKind.caller) = false := by decide
    simp only [hdet, Bool.false_eq_true, if_false, Option.some.injEq, Prod.mk.injEq] at hx
    obtain ⟨rfl, rfl⟩ := hx
    simp only [mrun_cons, mrun_nil, mstep]
    refine { noViol := hI.noViol, noCrash := hI.noCrash, skipEq := hI.skipEq, served := hI.served, nf := hI.nf, begun := hI.begun, res := hI.res,
             resKind := hI.resKind, fresh := hI.fresh, upc := hI.upc, sig := hI.sig, ann := hI.ann, infl := hI.infl, others := hI.others,
             cache := hI.cache, cacheSafe := hI.cacheSafe, owner := ?_, ownerUniq := hI.ownerUniq, callers := ?_ }
    · intro f hf
      have ho := hI.owner f hf
      by_cases hc : (s.fetches f).owner = c
      · simpa [upd, hc] using (hc ▸ ho)
      · simpa [upd, hc] using ho
    · intro c'
      by_cases hc : c' = c
      · subst hc
        have h := hI.callers c'
        unfold CallerInv at h ⊢
        obtain ⟨h1, h2, h3, h4⟩ := h
        simp only [upd_same]
        refine ⟨h1, h2, ?_, ?_⟩
        · intro hne
          obtain ⟨a, _, c3⟩ := h3 hne
          exact ⟨a, by simp, c3⟩
        · cases hpc : (s.callers c').pc with
          | idle => trivial
          | atCache => simpa [hpc] using h4
          | atLock seen => simpa [hpc] using h4
          | atSelect g seen => simpa [hpc] using h4
          | done o =>
            simp only [hpc] at h4 ⊢
            cases o <;> simp_all [DoneOK]
      · exact callerInv_congr (hI.callers c') (by simp [upd, hc]) (by simp [upd, hc]) rfl (Nat.le_refl _) (fun _ _ _ => rfl) (fun _ h => h)


/-- the deadline of a call's context passes: for the regenerated facts (`spawnCtx = detached`) this touches nothing but that call -/
theorem inv_expire {c : Cid} (hI : Inv cfg s m)
    (hx : exec fixedFacts GenJwks.logic cfg s (.expire c) = some (s', obs)) : Inv cfg s' (mrun m obs) := by
  simp only [exec] at hx
  split at hx
  · simp at hx
  · rename_i hcond
    have hdet : fixedFacts.spawnCtx.keepsDeadline = false := by decide
    simp only [hdet, Bool.false_eq_true, if_false, Option.some.injEq, Prod.mk.injEq] at hx
    obtain ⟨rfl, rfl⟩ := hx
    simp only [mrun_cons, mrun_nil, mstep]
    refine { noViol := hI.noViol, noCrash := hI.noCrash, skipEq := hI.skipEq, served := hI.served, nf := hI.nf, begun := hI.begun, res := hI.res,
             resKind := hI.resKind, fresh := hI.fresh, upc := hI.upc, sig := hI.sig, ann := hI.ann, infl := hI.infl, others := hI.others,
             cache := hI.cache, cacheSafe := hI.cacheSafe, owner := ?_, ownerUniq := hI.ownerUniq, callers := ?_ }
    · intro f hf
      have ho := hI.owner f hf
      by_cases hc : (s.fetches f).owner = c
      · simpa [upd, hc] using (hc ▸ ho)
      · simpa [upd, hc] using ho
    · intro c'
      by_cases hc : c' = c
      · subst hc
        have h := hI.callers c'
        unfold CallerInv at h ⊢
        obtain ⟨h1, h2, h3, h4⟩ := h
        simp only [upd_same]
        refine ⟨h1, h2, ?_, ?_⟩
        · intro hne
          obtain ⟨a, _, c3⟩ := h3 hne
          exact ⟨a, by simp, c3⟩
        · cases hpc : (s.callers c').pc with
          | idle => trivial
          | atCache => simpa [hpc] using h4
          | atLock seen => simpa [hpc] using h4
          | atSelect g seen => simpa [hpc] using h4
          | done o =>
            simp only [hpc] at h4 ⊢
            cases o <;> simp_all [DoneOK]
      · exact callerInv_congr (hI.callers c') (by simp [upd, hc]) (by simp [upd, hc]) rfl (Nat.le_refl _) (fun _ _ _ => rfl) (fun _ h => h)


theorem mark_ne_badSig : ((none, some msgBadSig) == ((none, some needRemoteMark) : GoPair)) = false := by decide

include hd in
theorem inv_cacheRead {c : Cid} (hI : Inv cfg s m)
    (hx : exec fixedFacts GenJwks.logic cfg s (.cacheRead c) = some (s', obs)) : Inv cfg s' (mrun m obs) := by
  simp only [exec] at hx
  split at hx
  · simp at hx
  · rename_i hcond
    have hpc : (s.callers c).pc = .atCache := by
      simp only [Bool.or_eq_true, bne_iff_ne, ne_eq, not_or, Decidable.not_not] at hcond
      exact hcond.2
    have hC := hI.callers c
    unfold CallerInv at hC
    rw [hpc] at hC
    simp only [ne_eq, reduceCtorEq, not_false_eq_true, forall_const, bne_iff_ne] at hC
    obtain ⟨hst, hfin, ⟨htok, hcan, hstale⟩, hown, hhit, hmay⟩ := hC
    replace hst : (m.callers c).started = true := by rw [hst]; decide
    rw [cachePhase_eq cfg hd] at hx
    have hspec := cacheAns_spec cfg.skipRemoteCheck s.cached (s.callers c).tok
    cases hans : cacheAns cfg.skipRemoteCheck s.cached (s.callers c).tok with
    | miss =>
      simp only [hans] at hx hspec
      simp only [beq_self_eq_true, if_true, Option.some.injEq, Prod.mk.injEq] at hx
      obtain ⟨rfl, rfl⟩ := hx
      simp only [mrun_cons, mrun_nil, mstep]
      refine inv_caller_update hI c rfl rfl (fun c' h => by simp [upd, h]) (fun _ _ => rfl) ?_ ?_
      · intro f hf ho
        have := hI.owner f hf
        rw [ho, hpc] at this
        exact this.elim
      · unfold CallerInv
        simp only [upd_same, hst, hfin, htok, hcan, hown, hans]
        have hh : (m.callers c).hit = false := by
          cases h : (m.callers c).hit with
          | false => rfl
          | true => rw [hhit h] at hspec; exact absurd hspec (by simp)
        simp [hpc, hh]
        exact hstale
    | hit p =>
      simp only [hans] at hx hspec
      have hne : (((some p, none) : GoPair) == (none, some needRemoteMark)) = false := by
        rw [Bool.eq_false_iff]
        intro h
        have := eq_of_beq h
        simp at this
      simp only [hne, Bool.false_eq_true, if_false, classify_payload, Option.some.injEq, Prod.mk.injEq] at hx
      obtain ⟨rfl, rfl⟩ := hx
      obtain ⟨hp, hacc⟩ := hspec
      have hne' : s.cached ≠ [] := by
        intro h
        rw [h] at hacc
        simp [refAccepts, KeySet.VerifySignature, findMatchingKey_nil, Except.toBool] at hacc
      obtain ⟨f, hf, hr⟩ := hI.cacheSafe.resolve_left hne'
      have hj : judge m c (.payload p.bytes) = none := by
        unfold judge
        simp only [hst, hfin, hpc, htok, hp]
        have : acceptJustified m (m.callers c) = true := acceptJustified_of_mayHit (hmay hacc)
        simp [this]
      simp only [mrun_cons, mrun_nil, mstep, hj]
      refine inv_caller_update hI c rfl rfl (fun c' h => by simp [upd, h]) (fun c' h => by simp [upd, h]) ?_ ?_
      · intro _ _ _; simp [upd]
      · unfold CallerInv
        simp only [upd_same, hst, htok, hcan, DoneOK]
        simp [hpc, hp]
        exact ⟨hstale, f, hf, s.cached, hr, hacc⟩
    | reject =>
      simp only [hans] at hx hspec
      simp only [mark_ne_badSig, Bool.false_eq_true, if_false, classify_badSig, Option.some.injEq, Prod.mk.injEq] at hx
      obtain ⟨rfl, rfl⟩ := hx
      obtain ⟨hrej, hnamed, hne'⟩ := hspec
      obtain ⟨f, hf, hr⟩ := hI.cacheSafe.resolve_left hne'
      have hh : (m.callers c).hit = false := by
        cases h : (m.callers c).hit with
        | false => rfl
        | true => rw [hhit h] at hrej; exact absurd hrej (by simp)
      have hj : judge m c .badSig = none := by
        unfold judge
        simp only [hst, hfin, hpc, hh]
        have : rejectJustified m (m.callers c) = true :=
          rejectJustified_of (f := f) (by rw [hI.nf]; exact hf) (okKeys_of_res (by rw [hI.res, hr]; rfl))
            (Or.inr (by rw [hI.skipEq, htok]; exact hnamed))
        simp [this]
      simp only [mrun_cons, mrun_nil, mstep, hj]
      refine inv_caller_update hI c rfl rfl (fun c' h => by simp [upd, h]) (fun c' h => by simp [upd, h]) ?_ ?_
      · intro _ _ _; simp [upd]
      · unfold CallerInv
        simp only [upd_same, hst, htok, hcan, DoneOK]
        simp [hpc]
        exact hstale


include hd in
theorem inv_wake {c : Cid} {viaCtx : Bool} (hI : Inv cfg s m)
    (hx : exec fixedFacts GenJwks.logic cfg s (.wake c viaCtx) = some (s', obs)) : Inv cfg s' (mrun m obs) := by
  simp only [exec] at hx
  split at hx
  case h_2 => simp at hx
  rename_i g seen hpc
  have hC := hI.callers c
  unfold CallerInv at hC
  rw [hpc] at hC
  simp only [ne_eq, reduceCtorEq, not_false_eq_true, forall_const] at hC
  obtain ⟨hst, hfin, ⟨htok, hcan, hstale⟩, hhit, hmiss, hg, hsg, hag⟩ := hC
  replace hst : (m.callers c).started = true := by rw [hst]; simp
  -- common tail: the call finishes with outcome `o`, which the monitor accepts
  have tail : ∀ o, judge m c o = none → DoneOK s (s.callers c).tok (s.callers c).live o →
      Inv cfg { s with callers := upd s.callers c { s.callers c with pc := .done o } } (mrun m [Obs.finish c o]) := by
    intro o hj hdone
    simp only [mrun_cons, mrun_nil, mstep, hj]
    refine inv_caller_update hI c rfl rfl (fun c' h => by simp [upd, h]) (fun c' h => by simp [upd, h]) ?_ ?_
    · intro _ _ _; simp [upd]
    · unfold CallerInv
      simp only [upd_same, hst, htok, hcan]
      simp
      exact ⟨hstale, hdone⟩
  split at hx
  · simp at hx
  · split at hx
    · -- the context case
      rename_i hvia
      split at hx
      · simp at hx
      · rename_i hlive
        have hl : (s.callers c).live = false := by
          simp only [Bool.or_eq_true, not_or, Bool.not_eq_true] at hlive
          exact hlive.1
        rw [fullVerify_miss cfg hd _ _ _ hmiss, logic_remote_err, classify_fetch_ctx] at hx
        simp only [Option.some.injEq, Prod.mk.injEq] at hx
        obtain ⟨rfl, rfl⟩ := hx
        refine tail .ctxErr ?_ hl
        unfold judge
        simp [hst, hfin, hcan, hl]
    · -- the request was signalled
      have hsig := hI.sig g
      split at hx
      · simp at hx
      · rename_i ks hs
        rw [hs] at hsig
        have hupc : (s.fetches g).upc = 2 := by
          by_cases h : (s.fetches g).upc = 2
          · exact h
          · simp [h] at hsig
        have hres : (s.fetches g).res = some (.keys ks) := by simpa [hupc] using hsig.symm
        have hok : okKeys m g = some ks := okKeys_of_res (by rw [hI.res, hres]; rfl)
        rw [fullVerify_miss cfg hd _ _ _ hmiss, logic_remote_ok] at hx
        have hra := refAccepts_eq ks (s.callers c).tok
        cases hr : remoteAns ks (s.callers c).tok with
        | accept p =>
          simp only [hr, classify_payload, Option.some.injEq, Prod.mk.injEq] at hx hra
          obtain ⟨rfl, rfl⟩ := hx
          have hp := remoteAns_accept_payload hr
          refine tail _ ?_ ⟨by rw [hp], g, ks, hg, hres, hra⟩
          unfold judge
          simp only [hst, hfin, htok, hp]
          have : acceptJustified m (m.callers c) = true := acceptJustified_of (by rw [hI.nf]; exact hg) hok hsg (by rw [htok]; exact hra)
          simp [this]
        | noKey =>
          simp only [hr, classify_noKey, Option.some.injEq, Prod.mk.injEq] at hx hra
          obtain ⟨rfl, rfl⟩ := hx
          refine tail _ ?_ trivial
          unfold judge
          simp only [hst, hfin, hhit]
          have : rejectJustified m (m.callers c) = true :=
            rejectJustified_of (by rw [hI.nf]; exact hg) hok (Or.inl ⟨hag, by rw [htok]; exact hra⟩)
          simp [this]
        | badSig =>
          simp only [hr, classify_badSig, Option.some.injEq, Prod.mk.injEq] at hx hra
          obtain ⟨rfl, rfl⟩ := hx
          refine tail _ ?_ trivial
          unfold judge
          simp only [hst, hfin, hhit]
          have : rejectJustified m (m.callers c) = true :=
            rejectJustified_of (by rw [hI.nf]; exact hg) hok (Or.inl ⟨hag, by rw [htok]; exact hra⟩)
          simp [this]
      · rename_i k hs
        rw [hs] at hsig
        have hupc : (s.fetches g).upc = 2 := by
          by_cases h : (s.fetches g).upc = 2
          · exact h
          · simp [h] at hsig
        have hres : (s.fetches g).res = some (.fail k) := by simpa [hupc] using hsig.symm
        obtain ⟨hk1, hk2⟩ := hI.resKind g k hres
        rw [fullVerify_miss cfg hd _ _ _ hmiss, logic_remote_err, classify_fetch_fail] at hx
        simp only [Option.some.injEq, Prod.mk.injEq] at hx
        obtain ⟨rfl, rfl⟩ := hx
        refine tail _ ?_ hk2
        unfold judge
        simp only [hst, hfin, hhit]
        have hfw : failedWith m g k = true := by
          unfold failedWith
          rw [hI.res, hres]
          simp [resOf, hk1]
        have : fetchErrJustified m (m.callers c) k = true := fetchErrJustified_of (by rw [hI.nf]; exact hg) hag hfw
        simp [this, hk2]


theorem anyOpen_false {m : MState} (h : ∀ g, g < m.nf → (m.res g).isSome = true) : anyOpen m = false := by
  unfold anyOpen
  rw [Bool.eq_false_iff]
  intro ha
  rw [List.any_eq_true] at ha
  obtain ⟨g, hg, hb⟩ := ha
  have := h g (List.mem_range.mp hg)
  simp only [Bool.and_eq_true, Option.isNone_iff_eq_none] at hb
  rw [hb.2] at this
  simp at this

theorem mstep_fetchBegin_ok {m : MState} {f : Fid} {c : Cid} (h1 : anyOpen m = false) (h2 : (m.callers c).started = true)
    (h3 : (m.callers c).owned = 0) (h4 : m.begun f = false) :
    mstep m (.fetchBegin f c) =
      { m with nf := max m.nf (f + 1), begun := upd m.begun f true, callers := upd m.callers c { m.callers c with owned := 1 } } := by
  simp [mstep, h1, h2, h3, h4]

theorem mstep_fetchEnd_ok {m : MState} {f : Fid} {a : Option Answer} (h1 : m.begun f = true) (h2 : m.res f = none) :
    mstep m (.fetchEnd f a) = { m with res := upd m.res f (some (endOf a)) } := by
  simp [mstep, h1, h2]

/-- the call turns to the endpoint: only the monitor's snapshot `asked` of that call changes -/
theorem inv_ask {c : Cid} {seen : List JWK} (hI : Inv cfg s m) (hpc : (s.callers c).pc = .atLock seen) :
    Inv cfg s (mstep m (.ask c)) := by
  simp only [mstep]
  refine inv_caller_update hI c rfl rfl (fun _ _ => rfl) (fun c' h => by simp [upd, h]) ?_ ?_
  · intro f hf ho
    have := hI.owner f hf
    rw [ho, hpc] at this
    exact this.elim
  · have hC := hI.callers c
    unfold CallerInv at hC ⊢
    rw [hpc] at hC ⊢
    simpa [upd] using hC

theorem inv_enter_core {c : Cid} (hI : Inv cfg s m) (hask : (m.callers c).asked = m.announced)
    (hx : exec fixedFacts GenJwks.logic cfg s (.enter c) = some (s', Obs.ask c :: obs)) : Inv cfg s' (mrun m obs) := by
  simp only [exec] at hx
  split at hx
  case h_2 => simp at hx
  rename_i seen hpc
  have hC := hI.callers c
  unfold CallerInv at hC
  rw [hpc] at hC
  simp only [ne_eq, reduceCtorEq, not_false_eq_true, forall_const] at hC
  obtain ⟨hst, hfin, ⟨htok, hcan, hstale⟩, hown, hhit, hmiss⟩ := hC
  replace hst : (m.callers c).started = true := by rw [hst]; simp
  have hnotowner : ∀ f, f < s.nf → (s.fetches f).owner ≠ c := by
    intro f hf ho
    have := hI.owner f hf
    rw [ho, hpc] at this
    exact this
  split at hx
  · simp at hx
  · have hdet : (fixedFacts.spawnCtx == CtxKind.caller) = false := by decide
    have hdet2 : (fixedFacts.spawnCtx == CtxKind.deadlineOnly) = false := by decide
    have hg : fixedFacts.guardNil = true := rfl
    have hsn : fixedFacts.storeNew = true := rfl
    have hsp : fixedFacts.spawnPoint = true := rfl
    simp only [hdet, hdet2, Bool.or_false, hg, hsn, hsp, Bool.not_true, Bool.false_or, Bool.false_and, Bool.and_false, Bool.and_true, Bool.false_eq_true, if_false, if_true,
      List.append_nil] at hx
    cases hinf : s.inflight with
    | some g =>
      simp only [hinf, Option.isNone_some, Bool.false_eq_true, if_false, hI.noCrash, List.nil_append, Option.some.injEq, Prod.mk.injEq,
        List.cons.injEq, true_and] at hx
      obtain ⟨rfl, rfl⟩ := hx
      simp only [mrun_cons, mrun_nil, mstep]
      obtain ⟨hgl, hgu⟩ := hI.infl g hinf
      have hna : m.announced g = false := by rw [hI.ann]; simp; omega
      refine inv_caller_update hI c (by simp [hinf, hI.noCrash]) rfl (fun c' h => by simp [upd, h]) (fun _ _ => rfl) ?_ ?_
      · intro _ _ _; simp [upd]
      · unfold CallerInv
        simp only [upd_same, hst, hfin, htok, hcan, hhit, hmiss]
        simp
        refine ⟨hstale, hgl, ?_, by rw [hask]; exact hna⟩
        cases hsg : (m.callers c).stale g with
        | false => rfl
        | true =>
          have := hstale g hsg
          rw [hna] at this
          simp at this
    | none =>
      simp only [hinf, Option.isNone_none, if_true, hI.noCrash, Bool.false_eq_true, if_false, List.append_assoc, List.cons_append, List.nil_append,
        Option.some.injEq, Prod.mk.injEq, List.cons.injEq, true_and] at hx
      obtain ⟨rfl, rfl⟩ := hx
      have hao : anyOpen m = false := anyOpen_false (fun g hg => by
        rw [hI.nf] at hg
        have h2 := hI.others g hg (by rw [hinf]; simp)
        have hu := (hI.upc g).2
        rw [hI.res]
        cases hr : (s.fetches g).res with
        | none => have := hu.mp hr; omega
        | some r => cases r <;> rfl)
      have hb : m.begun s.nf = false := by rw [hI.begun]; simp
      have hfr := hI.fresh s.nf (Nat.le_refl _)
      rw [mrun_cons, mstep_fetchBegin_ok hao hst hown hb]
      simp only [mrun_cons, mrun_nil, mstep]
      have hmax : max m.nf (s.nf + 1) = s.nf + 1 := by rw [hI.nf]; exact Nat.max_eq_right (by omega)
      refine { noViol := hI.noViol, noCrash := rfl, skipEq := hI.skipEq, served := hI.served, nf := hmax, begun := ?_, res := ?_,
               resKind := ?_, fresh := ?_, upc := ?_, sig := ?_, ann := ?_, infl := ?_, others := ?_,
               cache := hI.cache, cacheSafe := ?_, owner := ?_, ownerUniq := ?_, callers := ?_ }
      · intro f
        by_cases hf : f = s.nf
        · subst hf; simp [upd]
        · have : (f < s.nf + 1) ↔ (f < s.nf) := by omega
          simp [upd, hf, hI.begun, this]
      · intro f
        by_cases hf : f = s.nf
        · subst hf; simp [upd, hI.res, hfr.1, resOf]
        · simp [upd, hf, hI.res]
      · intro f k
        by_cases hf : f = s.nf
        · subst hf; simp [upd]
        · simpa [upd, hf] using hI.resKind f k
      · intro f hf
        dsimp only at hf
        have hf' : f ≠ s.nf := by omega
        simpa [upd, hf'] using hI.fresh f (by omega)
      · intro f
        by_cases hf : f = s.nf
        · subst hf; simp [upd]
        · simpa [upd, hf] using hI.upc f
      · intro f
        by_cases hf : f = s.nf
        · subst hf; simp [upd]
        · simpa [upd, hf] using hI.sig f
      · intro f
        by_cases hf : f = s.nf
        · subst hf; simp [upd, hI.ann, hfr.2]
        · simpa [upd, hf] using hI.ann f
      · intro g hg
        simp only [Option.some.injEq] at hg
        subst hg
        simp [upd]
      · intro f hf hne
        dsimp only at hf hne
        have hf' : f ≠ s.nf := fun h => hne (by rw [h])
        simp only [upd, hf', if_false]
        exact hI.others f (by omega) (by rw [hinf]; simp)
      · rcases hI.cacheSafe with h | ⟨f, hf, hr⟩
        · exact Or.inl h
        · refine Or.inr ⟨f, by dsimp only; omega, ?_⟩
          have hf' : f ≠ s.nf := by omega
          simpa [upd, hf'] using hr
      · intro f hf
        dsimp only at hf
        by_cases hf' : f = s.nf
        · subst hf'; simp [upd]
        · have hlt : f < s.nf := by omega
          have hno := hnotowner f hlt
          simp only [upd, hf', if_false, hno]
          exact hI.owner f hlt
      · intro f g hf hg ho
        dsimp only at hf hg ho
        by_cases hf' : f = s.nf <;> by_cases hg' : g = s.nf
        · rw [hf', hg']
        · have hlt : g < s.nf := by omega
          simp only [upd, hf', hg', if_true, if_false] at ho
          exact absurd ho.symm (hnotowner g hlt)
        · have hlt : f < s.nf := by omega
          simp only [upd, hf', hg', if_true, if_false] at ho
          exact absurd ho (hnotowner f hlt)
        · simp only [upd, hf', hg', if_false] at ho
          exact hI.ownerUniq f g (by omega) (by omega) ho
      · intro c'
        by_cases hc : c' = c
        · subst hc
          unfold CallerInv
          simp only [upd_same, hst, hfin, htok, hcan, hhit, hmiss]
          simp
          have hna : m.announced s.nf = false := by rw [hI.ann, hfr.2]; simp
          refine ⟨hstale, ?_, by rw [hask]; exact hna⟩
          cases hsg : (m.callers c').stale s.nf with
          | false => rfl
          | true =>
            have := hstale _ hsg
            rw [hna] at this
            simp at this
        · refine callerInv_congr (hI.callers c') (by simp [upd, hc]) (by simp [upd, hc]) rfl (by simp) ?_ (fun _ h => h)
          intro f hf _
          have hf' : f ≠ s.nf := by omega
          simp [upd, hf']


theorem inv_enter {c : Cid} (hI : Inv cfg s m)
    (hx : exec fixedFacts GenJwks.logic cfg s (.enter c) = some (s', obs)) : Inv cfg s' (mrun m obs) := by
  have hshape : ∃ seen obs', (s.callers c).pc = .atLock seen ∧ obs = Obs.ask c :: obs' := by
    simp only [exec] at hx
    split at hx
    · rename_i seen hpc
      refine ⟨seen, ?_⟩
      repeat' split at hx
      all_goals first
        | (simp at hx; done)
        | exact ⟨_, hpc, (Prod.mk.inj (Option.some.inj hx)).2.symm⟩
    · simp at hx
  obtain ⟨seen, obs', hpc, rfl⟩ := hshape
  rw [mrun_cons]
  have hask : ((mstep m (.ask c)).callers c).asked = (mstep m (.ask c)).announced := by simp [mstep]
  exact inv_enter_core (inv_ask hI hpc) hask hx

theorem upd_upd {α : Type} (t : Nat → α) (i : Nat) (a b : α) : upd (upd t i a) i b = upd t i b := by
  funext j; by_cases h : j = i <;> simp [upd, h]

theorem runBlock_fixed_0 {f : Fid} {s : State} (h : (s.fetches f).upc = 0) :
    runBlock fixedFacts f s =
      ({ s with fetches := upd s.fetches f { s.fetches f with upc := 1 } }, [Obs.point (.updater f) "fetched"]) := by
  simp [runBlock, fixedFacts, h, ublock, uop]

theorem inv_respond {f : Fid} {a : Answer} (hI : Inv cfg s m)
    (hx : exec fixedFacts GenJwks.logic cfg s (.respond f a) = some (s', obs)) : Inv cfg s' (mrun m obs) := by
  simp only [exec] at hx
  split at hx
  · simp at hx
  · rename_i hcond
    simp only [Bool.or_eq_true, not_or, Bool.not_eq_true, bne_eq_false_iff_eq, Bool.not_eq_false', decide_eq_true_eq, beq_eq_false_iff_ne, ne_eq] at hcond
    obtain ⟨⟨hcr, hf⟩, hres⟩ := hcond
    have hupc0 : (s.fetches f).upc = 0 := (hI.upc f).2.mp hres
    rw [runBlock_fixed_0 (by simpa [upd] using hupc0)] at hx
    simp only [Option.some.injEq, Prod.mk.injEq, List.cons_append, List.nil_append] at hx
    obtain ⟨rfl, rfl⟩ := hx
    have hb : m.begun f = true := by rw [hI.begun]; simpa using hf
    have hr0 : m.res f = none := by rw [hI.res, hres]; rfl
    rw [mrun_cons, mstep_fetchEnd_ok hb hr0]
    simp only [mrun_cons, mrun_nil, mstep, upd_same, upd_upd]
    have hofEnd := jwks_download_classification a
    refine { noViol := hI.noViol, noCrash := hI.noCrash, skipEq := hI.skipEq, served := hI.served, nf := hI.nf, begun := hI.begun, res := ?_,
             resKind := ?_, fresh := ?_, upc := ?_, sig := ?_, ann := ?_, infl := ?_, others := ?_,
             cache := hI.cache, cacheSafe := ?_, owner := ?_, ownerUniq := ?_, callers := ?_ }
    · intro g
      by_cases hg : g = f
      · subst hg; simp [upd, hofEnd]
      · simp [upd, hg, hI.res]
    · intro g k'
      by_cases hg : g = f
      · subst hg
        simp only [upd_same, Option.some.injEq]
        intro h
        exact ofAnswer_fail h
      · simpa [upd, hg] using hI.resKind g k'
    · intro g hg
      have hne : g ≠ f := by dsimp only at hg; intro h; rw [h] at hg; exact absurd hf (Nat.not_lt.mpr hg)
      simpa [upd, hne] using hI.fresh g hg
    · intro g
      by_cases hg : g = f
      · subst hg; simp [upd]
      · simpa [upd, hg] using hI.upc g
    · intro g
      by_cases hg : g = f
      · subst hg
        have := hI.sig g
        simp [upd, this, hupc0]
      · simpa [upd, hg] using hI.sig g
    · intro g
      by_cases hg : g = f
      · subst hg; simp [upd, hI.ann, hupc0]
      · simpa [upd, hg] using hI.ann g
    · intro g hg
      obtain ⟨h1, h2⟩ := hI.infl g hg
      refine ⟨h1, ?_⟩
      by_cases hgf : g = f
      · subst hgf; simp [upd]
      · simpa [upd, hgf] using h2
    · intro g hg hne
      have := hI.others g hg hne
      by_cases hgf : g = f
      · subst hgf; omega
      · simpa [upd, hgf] using this
    · rcases hI.cacheSafe with h | ⟨g, hg, hr⟩
      · exact Or.inl h
      · refine Or.inr ⟨g, hg, ?_⟩
        have hne : g ≠ f := by intro h; rw [h, hres] at hr; cases hr
        simpa [upd, hne] using hr
    · intro g hg
      by_cases hgf : g = f
      · subst hgf; simpa [upd] using hI.owner g hg
      · simpa [upd, hgf] using hI.owner g hg
    · intro g g' hg hg' ho
      have e : ∀ x, ((upd s.fetches f { owner := (s.fetches f).owner, res := some (FetchRes.ofAnswer fixedFacts a), upc := 1, sig := (s.fetches f).sig }) x).owner
          = (s.fetches x).owner := by
        intro x; by_cases hx : x = f
        · subst hx; simp [upd]
        · simp [upd, hx]
      rw [e, e] at ho
      exact hI.ownerUniq g g' hg hg' ho
    · intro c'
      refine callerInv_congr (hI.callers c') rfl rfl rfl (Nat.le_refl _) ?_ (fun _ h => h)
      intro g hg hr
      have hne : g ≠ f := by intro h; rw [h] at hr; exact hr hres
      simp [upd, hne]


def storeKeys (cached : List JWK) : Option FetchRes → List JWK
  | some (.keys ks) => ks
  | _ => cached

theorem runBlock_fixed_1 {f : Fid} {s : State} (h : (s.fetches f).upc = 1) (hi : s.inflight = some f) (hs : (s.fetches f).sig = none)
    (hc : s.crashed = false) :
    runBlock fixedFacts f s =
      ({ s with cached := storeKeys s.cached (s.fetches f).res, inflight := none,
                fetches := upd s.fetches f { s.fetches f with upc := 2, sig := (s.fetches f).res } },
       [Obs.point (.updater f) "ulocked", Obs.announce f, Obs.retire f]) := by
  cases hr : (s.fetches f).res with
  | none => simp [runBlock, fixedFacts, h, ublock, uop, hi, hs, hc, hr, storeKeys, upd_upd]
  | some r =>
    cases r <;> simp [runBlock, fixedFacts, h, ublock, uop, hi, hs, hc, hr, storeKeys, upd_upd]


theorem inv_upd {f : Fid} (hI : Inv cfg s m)
    (hx : exec fixedFacts GenJwks.logic cfg s (.upd f) = some (s', obs)) : Inv cfg s' (mrun m obs) := by
  simp only [exec] at hx
  split at hx
  · simp at hx
  · rename_i hcond
    have hlen : fixedFacts.updBlocks.length = 2 := rfl
    simp only [hlen, Bool.or_eq_true, not_or, Bool.not_eq_true, Bool.not_eq_false', decide_eq_true_eq, beq_eq_false_iff_ne, ne_eq] at hcond
    obtain ⟨⟨⟨⟨hcr, hf⟩, hres⟩, hu0⟩, hu2⟩ := hcond
    have hupc : (s.fetches f).upc = 1 := by omega
    have hinf : s.inflight = some f := by
      cases h : s.inflight with
      | none => have := hI.others f hf (by rw [h]; simp); omega
      | some g =>
        by_cases hg : g = f
        · rw [hg]
        · have := hI.others f hf (by rw [h]; simp; exact hg); omega
    have hsig : (s.fetches f).sig = none := by rw [hI.sig, hupc]; simp
    rw [runBlock_fixed_1 hupc hinf hsig hcr] at hx
    simp only [Option.some.injEq, Prod.mk.injEq] at hx
    obtain ⟨rfl, rfl⟩ := hx
    simp only [mrun_cons, mrun_nil, mstep]
    have hok : okKeys { m with announced := upd m.announced f true } f
        = (match (s.fetches f).res with | some (.keys ks) => some ks | _ => none) := by
      unfold okKeys
      simp only [hI.res]
      cases hr : (s.fetches f).res with
      | none => rfl
      | some r =>
        cases r with
        | keys ks => rfl
        | fail k =>
          have := (hI.resKind f k hr).1
          cases k <;> simp_all [resOf]
    have hcallersOld : ∀ c : Nat, CallerInv cfg s m c := hI.callers
    -- everything except the cache and the calls, for any rendering F' of the fetch table after the step
    have structural : ∀ (cached' : List JWK) (m' : MState) (F' : Nat → Fetch),
        (∀ g, (F' g).res = (s.fetches g).res) → (∀ g, (F' g).owner = (s.fetches g).owner) →
        (∀ g, (F' g).upc = if g = f then 2 else (s.fetches g).upc) →
        (∀ g, (F' g).sig = if g = f then (s.fetches f).res else (s.fetches g).sig) →
        m'.viol = m.viol → m'.skip = m.skip → m'.served = m.served → m'.nf = m.nf → m'.begun = m.begun → m'.res = m.res →
        m'.announced = upd m.announced f true → m'.cacheExpect = cached' →
        (cached' = [] ∨ ∃ g, g < s.nf ∧ (s.fetches g).res = some (.keys cached')) →
        (∀ c : Nat, CallerInv cfg { s with cached := cached', inflight := none, fetches := F' } m' c) →
        Inv cfg { s with cached := cached', inflight := none, fetches := F' } m' := by
      intro cached' m' F' eres eown eupc esig h1 h2 h3 h4 h5 h6 h7 h8 h9 h10
      refine { noViol := h1 ▸ hI.noViol, noCrash := hI.noCrash, skipEq := h2 ▸ hI.skipEq, served := h3 ▸ hI.served, nf := h4 ▸ hI.nf,
               begun := by rw [h5]; exact hI.begun, res := ?_, resKind := ?_, fresh := ?_, upc := ?_, sig := ?_, ann := ?_, infl := ?_, others := ?_,
               cache := h8, cacheSafe := ?_, owner := ?_, ownerUniq := ?_, callers := h10 }
      · intro g; rw [h6]; dsimp only; rw [eres]; exact hI.res g
      · intro g k; dsimp only; rw [eres]; exact hI.resKind g k
      · intro g hg
        dsimp only at hg ⊢
        have hne : g ≠ f := by intro h; rw [h] at hg; exact absurd hf (Nat.not_lt.mpr hg)
        rw [eres, eupc]; simp only [hne, if_false]; exact hI.fresh g hg
      · intro g
        dsimp only
        rw [eres, eupc]
        by_cases hg : g = f
        · subst hg; simpa using hres
        · simpa [hg] using hI.upc g
      · intro g
        dsimp only
        rw [esig, eupc, eres]
        by_cases hg : g = f
        · subst hg; simp
        · simpa [hg] using hI.sig g
      · intro g
        rw [h7]
        dsimp only
        rw [eupc]
        by_cases hg : g = f
        · subst hg; simp [upd]
        · simpa [upd, hg] using hI.ann g
      · intro g hg; simp at hg
      · intro g hg _
        dsimp only at hg ⊢
        rw [eupc]
        by_cases hgf : g = f
        · simp [hgf]
        · have := hI.others g hg (by rw [hinf]; simp; exact fun h => hgf h.symm)
          simpa [hgf] using this
      · rcases h9 with h | ⟨g, hg, hr⟩
        · exact Or.inl h
        · exact Or.inr ⟨g, hg, by dsimp only; rw [eres]; exact hr⟩
      · intro g hg; dsimp only at hg ⊢; rw [eown]; exact hI.owner g hg
      · intro g g' hg hg' ho; dsimp only at hg hg' ho; rw [eown, eown] at ho; exact hI.ownerUniq g g' hg hg' ho
    rw [hok]
    cases hr : (s.fetches f).res with
    | none => exact absurd hr hres
    | some r =>
      have eres : ∀ g, ((upd s.fetches f { owner := (s.fetches f).owner, res := some r, upc := 2, sig := some r }) g).res = (s.fetches g).res := by
        intro g; by_cases hg : g = f
        · subst hg; simp [upd, hr]
        · simp [upd, hg]
      have eown : ∀ g, ((upd s.fetches f { owner := (s.fetches f).owner, res := some r, upc := 2, sig := some r }) g).owner = (s.fetches g).owner := by
        intro g; by_cases hg : g = f
        · subst hg; simp [upd]
        · simp [upd, hg]
      have eupc : ∀ g, ((upd s.fetches f { owner := (s.fetches f).owner, res := some r, upc := 2, sig := some r }) g).upc = if g = f then 2 else (s.fetches g).upc := by
        intro g; by_cases hg : g = f
        · subst hg; simp [upd]
        · simp [upd, hg]
      have esig : ∀ g, ((upd s.fetches f { owner := (s.fetches f).owner, res := some r, upc := 2, sig := some r }) g).sig = if g = f then (s.fetches f).res else (s.fetches g).sig := by
        intro g; by_cases hg : g = f
        · subst hg; simp [upd, hr]
        · simp [upd, hg]
      cases r with
      | fail k =>
        simp only [storeKeys]
        refine structural s.cached _ _ eres eown eupc esig ?_ ?_ ?_ ?_ ?_ ?_ ?_ ?_ hI.cacheSafe ?_
        iterate 7 rfl
        · exact hI.cache
        intro c
        refine callerInv_congr (hcallersOld c) rfl rfl rfl (Nat.le_refl _) (fun g _ _ => by dsimp only; rw [eres]) ?_
        intro g hg
        by_cases hgf : g = f
        · subst hgf; simp [upd]
        · simpa [upd, hgf] using hg
      | keys ks =>
        simp only [storeKeys]
        refine structural ks _ _ eres eown eupc esig ?_ ?_ ?_ ?_ ?_ ?_ ?_ ?_ (Or.inr ⟨f, hf, hr⟩) ?_
        iterate 8 rfl
        intro c
        have h := hcallersOld c
        unfold CallerInv at h ⊢
        obtain ⟨h1, h2, h3, h4⟩ := h
        dsimp only
        refine ⟨h1, h2, ?_, ?_⟩
        · intro hne
          obtain ⟨a, b, c3⟩ := h3 hne
          refine ⟨a, b, ?_⟩
          intro g hg
          by_cases hgf : g = f
          · subst hgf; simp [upd]
          · simpa [upd, hgf] using c3 g hg
        · cases hpc : (s.callers c).pc with
          | idle => trivial
          | atCache =>
            simp only [hpc] at h4 ⊢
            have htk := (h3 (by rw [hpc]; simp)).1
            refine ⟨h4.1, ?_, ?_⟩
            · intro hh
              simp only [Bool.and_eq_true] at hh
              rw [← htk]
              exact hh.2
            · intro ha
              rw [← htk] at ha
              simp [ha]
          | atLock seen =>
            simp only [hpc] at h4 ⊢
            exact ⟨h4.1, by simp [h4.2.1], h4.2.2⟩
          | atSelect g seen =>
            simp only [hpc] at h4 ⊢
            exact ⟨by simp [h4.1], h4.2.1, h4.2.2.1, h4.2.2.2⟩
          | done o =>
            simp only [hpc] at h4 ⊢
            cases o with
            | payload b =>
              obtain ⟨hb, g, ks', hg, hrg, ha⟩ := h4
              exact ⟨hb, g, ks', hg, by rw [eres]; exact hrg, ha⟩
            | _ => exact h4

end steps
/-! ## Part 3 — the property theorems -/

theorem inv_step {cfg : JwksSet} (hd : cfg.defaultAlg = "") {s s' : State} {m : MState} {obs : List Obs} (hI : Inv cfg s m) (a : Act)
    (hx : exec fixedFacts GenJwks.logic cfg s a = some (s', obs)) : Inv cfg s' (mrun m obs) := by
  cases a with
  | start c tok => exact inv_start hI hx
  | cacheRead c => exact inv_cacheRead hd hI hx
  | enter c => exact inv_enter hI hx
  | wake c v => exact inv_wake hd hI hx
  | cancel c => exact inv_cancel hI hx
  | expire c => exact inv_expire hI hx
  | rotate ks => exact inv_rotate hI hx
  | respond f a => exact inv_respond hI hx
  | upd f => exact inv_upd hI hx

theorem inv_run {cfg : JwksSet} (hd : cfg.defaultAlg = "") (tr : List Act) :
    ∀ (s s' : State) (m : MState) (obs : List Obs), Inv cfg s m →
      run fixedFacts GenJwks.logic cfg s tr = some (s', obs) → Inv cfg s' (mrun m obs) := by
  induction tr with
  | nil =>
    intro s s' m obs hI hr
    simp only [run, Option.some.injEq, Prod.mk.injEq] at hr
    obtain ⟨rfl, rfl⟩ := hr
    exact hI
  | cons a rest ih =>
    intro s s' m obs hI hr
    simp only [run] at hr
    split at hr
    · simp at hr
    · rename_i s1 o1 h1
      split at hr
      · simp at hr
      · rename_i s2 o2 h2
        simp only [Option.some.injEq, Prod.mk.injEq] at hr
        obtain ⟨rfl, rfl⟩ := hr
        rw [mrun_append]
        exact ih s1 s2 (mrun m o1) o2 (inv_step hd hI a h1) h2

/-- every reachable state of the model (as regenerated from jwks.go) satisfies the invariant, together with the state of
    the monitor that has consumed the run's observations -/
theorem reach_inv (cfg : JwksSet) (hd : cfg.defaultAlg = "") {tr : List Act} {s : State} {obs : List Obs}
    (h : run GenJwks.facts GenJwks.logic cfg {} tr = some (s, obs)) :
    Inv cfg s (mrun { skip := cfg.skipRemoteCheck } obs) := by
  rw [facts_bridge] at h
  exact inv_run hd tr {} s _ obs (inv_init cfg) h

/-- **C13 (main theorem).** For EVERY schedule — any number of concurrent calls, any interleaving of cache reads, critical
    sections, downloads, faults (5xx, bad JSON, dropped unknown key types), rotations, cancellations and passing deadlines
    (`Act.cancel`, `Act.expire` of any call at any position), any `select` choice —
    the observations the model produces satisfy the monitor. -/
theorem jwks_model_satisfies_monitor (cfg : JwksSet) (hd : cfg.defaultAlg = "") (tr : List Act) (s : State) (obs : List Obs)
    (h : run GenJwks.facts GenJwks.logic cfg {} tr = some (s, obs)) :
    C13.monitor cfg.skipRemoteCheck obs = none :=
  (reach_inv cfg hd h).noViol

section clauses
variable (cfg : JwksSet) (hd : cfg.defaultAlg = "") {tr : List Act} {s : State} {obs : List Obs}
  (h : run GenJwks.facts GenJwks.logic cfg {} tr = some (s, obs))
include hd h

/-- single flight: at most one download is running, and it is the one recorded in `r.inflight` -/
theorem jwks_single_flight (f g : Nat) (hf : f < s.nf) (hg : g < s.nf)
    (h1 : (s.fetches f).res = none) (h2 : (s.fetches g).res = none) : f = g ∧ s.inflight = some f := by
  have hI := reach_inv cfg hd h
  have u1 := (hI.upc f).2.mp h1
  have u2 := (hI.upc g).2.mp h2
  have i1 : s.inflight = some f := by
    cases hi : s.inflight with
    | none => have := hI.others f hf (by rw [hi]; simp); omega
    | some x =>
      by_cases hx : x = f
      · rw [hx]
      · have := hI.others f hf (by rw [hi]; simp; exact hx); omega
  have i2 : s.inflight = some g := by
    cases hi : s.inflight with
    | none => have := hI.others g hg (by rw [hi]; simp); omega
    | some x =>
      by_cases hx : x = g
      · rw [hx]
      · have := hI.others g hg (by rw [hi]; simp; exact hx); omega
  rw [i1] at i2
  exact ⟨by simpa using i2, i1⟩

/-- cache safety: the cache is empty or holds exactly the key set of a SUCCESSFUL download (a failed or malformed download
    never replaces or discards it) -/
theorem jwks_cache_safe : s.cached = [] ∨ ∃ f, f < s.nf ∧ (s.fetches f).res = some (.keys s.cached) :=
  (reach_inv cfg hd h).cacheSafe

/-- soundness: a call returns a payload only if it is its token's payload and the token verifies (C02 semantics) against
    the key set of a successful download -/
theorem jwks_sound (c : Nat) (b : Nat) (hc : (s.callers c).pc = .done (.payload b)) :
    b = (s.callers c).tok.payload.bytes ∧
      ∃ f ks, f < s.nf ∧ (s.fetches f).res = some (.keys ks) ∧ refAccepts ks (s.callers c).tok = true := by
  have := (reach_inv cfg hd h).callers c
  unfold CallerInv at this
  rw [hc] at this
  exact this.2.2.2

/-- … hence (C02) a genuine signature by a key of that successfully downloaded set -/
theorem jwks_sound_key (c : Nat) (b : Nat) (hc : (s.callers c).pc = .done (.payload b)) :
    ∃ f ks sg k, f < s.nf ∧ (s.fetches f).res = some (.keys ks) ∧ (s.callers c).tok.Signatures = [sg] ∧
      C02.justifies { kind := .published, keys := ks } (s.callers c).tok sg k = true := by
  obtain ⟨_, f, ks, hf, hr, ha⟩ := jwks_sound cfg hd h c b hc
  unfold refAccepts at ha
  cases hv : KeySet.VerifySignature { kind := .published, keys := ks } (s.callers c).tok with
  | error e => simp [hv, Except.toBool] at ha
  | ok p =>
    obtain ⟨sg, k, hs, _, hj, _⟩ := C02.verifySignature_sound hv
    exact ⟨f, ks, sg, k, hf, hr, hs, hj⟩

/-- at most one refresh per call: a call owns at most one download -/
theorem jwks_one_refresh_per_call (f g : Nat) (hf : f < s.nf) (hg : g < s.nf)
    (ho : (s.fetches f).owner = (s.fetches g).owner) : f = g :=
  (reach_inv cfg hd h).ownerUniq f g hf hg ho

/-- an unknown or retired key id is rejected: if no successfully downloaded key set contains a key that the token's (non-empty)
    kid could select, the call does not return a payload -/
theorem jwks_unknown_kid_rejected (c : Nat) (o : Outcome) (hc : (s.callers c).pc = .done o)
    (hkid : (GetKeyIDAndAlg (s.callers c).tok).1 ≠ "")
    (hunk : ∀ f ks, (s.fetches f).res = some (.keys ks) → ∀ k ∈ ks, k.KeyID ≠ (GetKeyIDAndAlg (s.callers c).tok).1 ∧ k.KeyID ≠ "") :
    ∀ b, o ≠ .payload b := by
  intro b hb
  subst hb
  obtain ⟨_, f, ks, _, hr, ha⟩ := jwks_sound cfg hd h c b hc
  rw [refAccepts_eq] at ha
  unfold remoteAns at ha
  cases hfm : FindMatchingKey (GetKeyIDAndAlg (s.callers c).tok).1 "sig" (GetKeyIDAndAlg (s.callers c).tok).2 ks with
  | error e => simp [hfm] at ha
  | ok k =>
    obtain ⟨hmem, _, _, hk⟩ := C02.findMatchingKey_ok hfm
    obtain ⟨n1, n2⟩ := hunk f ks hr k hmem
    rcases hk with hk | hk | hk
    · exact n1 hk
    · exact n2 hk
    · exact hkid hk

/-- cancel isolation, for both kinds of ending of a context (`Act.cancel c`: `cancel()` is called; `Act.expire c`: its deadline passes;
    `live = false` after either): no download is ever aborted by the end of a call's context, a call fails with its own context error
    only if its own context has ended, and never with the end of another call's context (`fetchErr .cancelled` = the download it waited
    for ended with `context canceled` or `context deadline exceeded`). Position-explicit form: `jwks_own_context_isolation` (C13Trace). -/
theorem jwks_cancel_isolation :
    (∀ f : Nat, (s.fetches f).res ≠ some (.fail .cancelled)) ∧
    (∀ c : Nat, (s.callers c).pc = .done .ctxErr → (s.callers c).live = false) ∧
    (∀ (c : Nat) k, (s.callers c).pc = .done (.fetchErr k) → k ≠ .cancelled) := by
  have hI := reach_inv cfg hd h
  refine ⟨fun f hf => (hI.resKind f _ hf).2 rfl, ?_, ?_⟩
  · intro c hc
    have := hI.callers c
    unfold CallerInv at this
    rw [hc] at this
    exact this.2.2.2
  · intro c k hc
    have := hI.callers c
    unfold CallerInv at this
    rw [hc] at this
    exact this.2.2.2

/-- freshness: the request a call waits for had not been announced (`inflight.done`) when the call started, nor when it turned to
    the endpoint (`ask`, the instant in front of `keysFromRemote`'s critical section), and it is either
    still the in-flight one or completely finished (result published, signalled and released in one step) -/
theorem jwks_fresh (c g : Nat) (seen : List JWK) (hc : (s.callers c).pc = .atSelect g seen) :
    ((mrun { skip := cfg.skipRemoteCheck } obs).callers c).stale g = false ∧
    ((mrun { skip := cfg.skipRemoteCheck } obs).callers c).asked g = false ∧ g < s.nf ∧
      (s.inflight = some g ∨ ((s.fetches g).upc = 2 ∧ (s.fetches g).sig = (s.fetches g).res)) := by
  have hI := reach_inv cfg hd h
  have := hI.callers c
  unfold CallerInv at this
  rw [hc] at this
  obtain ⟨_, _, _, _, _, hg, hs, ha⟩ := this
  refine ⟨hs, ha, hg, ?_⟩
  by_cases hi : s.inflight = some g
  · exact Or.inl hi
  · have hu := hI.others g hg hi
    exact Or.inr ⟨hu, by rw [hI.sig, hu]; simp⟩

/-- no panic: the nil `*inflight` dereference and the double `close(doneCh)` are unreachable -/
theorem jwks_no_panic : s.crashed = false := (reach_inv cfg hd h).noCrash

end clauses

/-! ## Part 4 — non-vacuity and sensitivity to the extracted facts -/

def wk1 : JWK := { KeyID := "k1", Use := "sig", kty := .ec, keyNo := 2 }
def wk2 : JWK := { KeyID := "k2", Use := "sig", kty := .ec, keyNo := 3 }
def wtok (kid : String) (signer pid : Nat) : JWS :=
  { Signatures := [{ Header := { Algorithm := "ES256", KeyID := kid }, signer := some signer, signedAlg := "ES256", signedBytes := pid, signedHdr := { Algorithm := "ES256", KeyID := kid } }],
    payload := { bytes := pid, claims := none } }

/-- answers of the endpoint: the JWKS document of a key set; an error status; a 200 that is not JSON; a 200 whose body is the
    document of `ks` followed by other bytes -/
def ansOk (ks : List ServedKey) : Answer := { whole := some ks, first := some ks }
def ans5xx : Answer := { status200 := false, wellFormed := false }
def ansBad : Answer := { wellFormed := false }
def ansTrailing (ks : List ServedKey) : Answer := { wellFormed := false, whole := none, first := some ks }

def outcomes (obs : List Obs) : List (Cid × Outcome) :=
  obs.filterMap fun o => match o with
    | .finish c out => some (c, out)
    | _ => none

/-- verdict of the monitor on the run of a schedule (none: the schedule is not executable) -/
def verdict (F : Facts) (tr : List Act) : Option (Option String × List (Cid × Outcome)) :=
  (run F GenJwks.logic {} {} tr).map fun r => (C13.monitor false r.2, outcomes r.2)

/-- a run of the CURRENT code's model with a cache hit, a refresh after rotation that verifies, a retired kid rejected after
    one refresh, a failed download, and a cancelled waiter — all judged fine -/
def traceOK : List Act :=
  [.rotate [{ jwk := wk1 }], .start 0 (wtok "k1" 2 1), .cacheRead 0, .enter 0, .respond 0 (ansOk [{ jwk := wk1 }]), .upd 0, .wake 0 false,
   .start 1 (wtok "k1" 2 2), .cacheRead 1,
   .rotate [{ jwk := wk2 }], .start 2 (wtok "k2" 3 3), .cacheRead 2, .enter 2, .start 3 (wtok "k1" 2 4), .respond 1 (ansOk [{ jwk := wk2 }]), .upd 1, .wake 2 false,
   .cacheRead 3, .enter 3, .start 4 (wtok "k2" 3 5), .cacheRead 4, .start 5 (wtok "k7" 3 6), .cacheRead 5, .enter 5, .cancel 5, .wake 5 true,
   .respond 2 ans5xx, .upd 2, .wake 3 false]

example : verdict GenJwks.facts traceOK =
    some (none, [(0, .payload 1), (1, .payload 2), (2, .payload 3), (4, .payload 5), (5, .ctxErr), (3, .fetchErr .http5xx)]) := by rw [facts_bridge]; decide

/-- the schedule of finding F-C13a: the call that started the download is cancelled while another call waits for it -/
def traceA : List Act :=
  [.rotate [{ jwk := wk1 }], .start 0 (wtok "k1" 2 1), .start 1 (wtok "k1" 2 2), .cacheRead 0, .cacheRead 1,
   .enter 0, .enter 1, .cancel 0, .wake 0 true, .respond 0 (ansOk [{ jwk := wk1 }]), .upd 0, .wake 1 false]

/-- on the current code the waiter is unaffected … -/
example : verdict GenJwks.facts traceA = some (none, [(0, .ctxErr), (1, .payload 2)]) := by rw [facts_bridge]; decide

/-- … and the clause is not vacuous: with the download bound to the first caller's context (the shape before the repair)
    the same cancellation fails the waiter, and the monitor says so -/
def traceA' : List Act :=
  [.rotate [{ jwk := wk1 }], .start 0 (wtok "k1" 2 1), .start 1 (wtok "k1" 2 2), .cacheRead 0, .cacheRead 1,
   .enter 0, .enter 1, .cancel 0, .wake 0 true, .upd 0, .wake 1 false]
theorem jwks_cancel_isolation_needs_detached_ctx :
    verdict { fixedFacts with spawnCtx := .caller } traceA' = some (some "cancel-isolation", [(0, .ctxErr), (1, .fetchErr .cancelled)]) := by decide

/-- the schedule of finding F-C13b: a call starts after the waiters were signalled; with `done` before the critical section
    (the shape before the repair) it is answered from the finished download -/
def traceB : List Act :=
  [.rotate [{ jwk := wk1 }], .start 0 (wtok "k9" 2 1), .cacheRead 0, .enter 0, .respond 0 (ansOk [{ jwk := wk1 }]), .upd 0,
   .rotate [{ jwk := wk1 }, { jwk := wk2 }], .start 1 (wtok "k2" 3 2), .cacheRead 1, .enter 1, .wake 1 false]
theorem jwks_fresh_needs_done_under_lock :
    verdict { fixedFacts with updBlocks := legacyFacts.updBlocks } traceB = some (some "rejected-without-fresh-key-set", [(1, .noKey)]) := by decide

/-- on the current code that window does not exist: the late call starts its own download and verifies -/
def traceB' : List Act :=
  [.rotate [{ jwk := wk1 }], .start 0 (wtok "k9" 2 1), .cacheRead 0, .enter 0, .respond 0 (ansOk [{ jwk := wk1 }]), .upd 0,
   .rotate [{ jwk := wk1 }, { jwk := wk2 }], .start 1 (wtok "k2" 3 2), .cacheRead 1, .enter 1, .respond 1 (ansOk [{ jwk := wk1 }, { jwk := wk2 }]), .upd 1, .wake 1 false]
example : verdict GenJwks.facts traceB' = some (none, [(1, .payload 2)]) := by rw [facts_bridge]; decide

/-- single flight depends on the `r.inflight == nil` test -/
theorem jwks_single_flight_needs_nil_test :
    verdict { fixedFacts with guardNil := false }
      [.start 0 (wtok "k1" 2 1), .start 1 (wtok "k1" 2 2), .cacheRead 0, .cacheRead 1, .enter 0, .enter 1]
      = some (some "second-download-in-flight", []) := by decide

/-- cache safety depends on the `err == nil` guard of `r.cachedKeys = keys` -/
theorem jwks_cache_safe_needs_err_guard :
    verdict { fixedFacts with updBlocks := [[.point "fetched"], [.point "ulocked", .store false, .doneField, .point "done", .clear, .point "published"]] }
      [.rotate [{ jwk := wk1 }], .start 0 (wtok "k1" 2 1), .cacheRead 0, .enter 0, .respond 0 (ansOk [{ jwk := wk1 }]), .upd 0, .wake 0 false,
       .start 1 (wtok "k9" 2 2), .cacheRead 1, .enter 1, .respond 1 ans5xx, .upd 1, .wake 1 false,
       .start 2 (wtok "k1" 2 3), .cacheRead 2, .enter 2, .respond 2 ansBad, .upd 2, .wake 2 false]
      = some (some "cached-keys-discarded", [(0, .payload 1), (1, .fetchErr .http5xx), (2, .fetchErr .badJson)]) := by decide


/-- a key set followed by other bytes is a failed download on the current code: the waiting call fails, the cache keeps `k1`,
    nothing is accepted because of it … -/
def traceTrailing : List Act :=
  [.start 0 (wtok "k1" 2 1), .cacheRead 0, .enter 0, .respond 0 (ansOk [{ jwk := wk1 }]), .upd 0, .wake 0 false,
   .start 1 (wtok "k2" 3 2), .cacheRead 1, .enter 1, .respond 1 (ansTrailing [{ jwk := wk2 }]), .upd 1, .wake 1 false,
   .start 2 (wtok "k1" 2 3), .cacheRead 2]
example : verdict GenJwks.facts traceTrailing = some (none, [(0, .payload 1), (1, .fetchErr .badJson), (2, .payload 3)]) := by rw [facts_bridge]; decide

/-- … and this depends on `HttpRequest` decoding the WHOLE body: with a streaming decoder (`json.NewDecoder(resp.Body).Decode`,
    which stops after the first JSON value) the same answer is taken for a successful download of `k2`: the token is accepted,
    the cached `k1` is gone (call 2 misses the cache), and the monitor objects -/
theorem jwks_sound_needs_whole_body_decode :
    verdict { fixedFacts with http := { fixedFacts.http with decodesWholeBody := false } } traceTrailing
      = some (some "accepted-without-served-key", [(0, .payload 1), (1, .payload 2)]) := by decide

/-- a perfect key set under a status other than 200 is a failed download, because `HttpRequest` tests the status first -/
theorem jwks_sound_needs_status_check :
    verdict { fixedFacts with http := { fixedFacts.http with checksStatus := false } }
      [.start 0 (wtok "k1" 2 1), .cacheRead 0, .enter 0, .respond 0 { ansOk [{ jwk := wk1 }] with status200 := false }, .upd 0, .wake 0 false]
      = some (some "accepted-without-served-key", [(0, .payload 1)]) := by decide

/-- the statement skeleton of `HttpRequest` that the streaming refactoring produces is read as `decodesWholeBody := false` -/
example : HttpFacts.ofSkeleton
    ["resp, err := client.Do(req)", "if err != nil {", "return err", "}", "defer resp.Body.Close()",
     "if resp.StatusCode != http.StatusOK {", "body, err := io.ReadAll(resp.Body)", "if err != nil {",
     "return fmt.Errorf(\"unable to read response body: %v\", err)", "}", "var oidcErr oidc.Error", "err = json.Unmarshal(body, &oidcErr)",
     "if err != nil || oidcErr.ErrorType == \"\" {", "return fmt.Errorf(\"http status not ok: %s %s\", resp.Status, body)", "}", "return &oidcErr", "}",
     "err = json.NewDecoder(resp.Body).Decode(response)", "if err != nil {", "return fmt.Errorf(\"failed to unmarshal response: %v\", err)", "}", "return nil"]
    = some { checksStatus := true, decodesWholeBody := false, decodeErrReturned := true } := by decide

end C13
