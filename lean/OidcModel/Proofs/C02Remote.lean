/-
  C02 for a LONG-LIVED remote key set (`rp.NewRemoteKeySet`), sequential use with key rotation: "the key set the verifier
  trusts" is what its JWKS endpoint served it last.  Whatever a call accepts is signed by a key of the set the endpoint
  answered the verifier's LAST download with — in particular a key the OP has withdrawn is no longer believed once a later
  download has told the verifier so (a cache that merged instead of replacing would keep it).

  The call is assembled from what factgen regenerates from pkg/client/rp/jwks.go: the decision functions `GenJwks.logic`
  (`VerifySignature`, `verifySignatureCached`, `exactMatch`, `verifySignatureRemote`; Proofs/C02 bridges them to the regenerated
  `GetKeyIDAndAlg` / `FindMatchingKey`) and the blocks of `updateKeys` (`GenJwks.facts`), run by C13's transition system.
  Every interleaving of concurrent callers is C13's subject (`C13.jwks_sound_key`, `C13.jwks_cache_safe`); this file adds the
  sequential statement with the LAST served set, which is what the C02 stream's rotation histories are judged by.
-/
import OidcModel.Proofs.C13

namespace C02
open Jwks Hand

/-- `r.cachedKeys` after `updateKeys` has run to its end for a download that returned `res`: the regenerated blocks of
    `updateKeys`, run on a state in which that download (request 0) is the one in flight -/
def cacheAfterUpdate (F : Facts) (cached : List JWK) (res : FetchRes) : List JWK :=
  let s0 : State := { cached := cached, inflight := some 0, nf := 1, fetches := fun _ => { res := some res } }
  (F.updBlocks.foldl (fun s ops => (ublock 0 s ops).1) s0).cached

/-- a successful download REPLACES the cache -/
theorem cacheAfterUpdate_ok (cached ks : List JWK) : cacheAfterUpdate GenJwks.facts cached (.keys ks) = ks := by
  rw [C13.facts_bridge]; rfl

/-- a failed download leaves it alone -/
theorem cacheAfterUpdate_fail (cached : List JWK) (k : EndKind) : cacheAfterUpdate GenJwks.facts cached (.fail k) = cached := by
  rw [C13.facts_bridge]; rfl

structure RemoteSt where
  cached : List JWK := []
  lastServed : List JWK := []     -- what the endpoint answered the verifier's last download with
  deriving Repr

/-- one call of `VerifySignature` (no concurrent caller, the download succeeds): the cached keys decide, or the set is
    downloaded again, replaces the cache and decides -/
def remoteCall (cfg : JwksSet) (st : RemoteSt) (served : List JWK) (j : JWS) : GoPair × RemoteSt :=
  if cachePhase GenJwks.logic cfg st.cached j == ((none, some needRemoteMark) : GoPair) then
    (fullVerify GenJwks.logic cfg st.cached (served, none) j,
     { cached := cacheAfterUpdate GenJwks.facts st.cached (.keys served), lastServed := served })
  else (cachePhase GenJwks.logic cfg st.cached j, st)

/-- a history: before each call the endpoint publishes `served` -/
def remoteRun (cfg : JwksSet) : RemoteSt → List (List JWK × JWS) → List (JWS × GoPair × RemoteSt)
  | _, [] => []
  | st, (served, j) :: rest =>
    let r := remoteCall cfg st served j
    (j, r.1, r.2) :: remoteRun cfg r.2 rest

theorem accepted_justified {ks : List JWK} {j : JWS} (h : C13.refAccepts ks j = true) :
    ∃ s k, j.Signatures = [s] ∧ justifies { kind := .published, keys := ks } j s k = true := by
  unfold C13.refAccepts at h
  cases hv : KeySet.VerifySignature { kind := .published, keys := ks } j with
  | error e => simp [hv, Except.toBool] at h
  | ok p =>
    obtain ⟨s, k, hs, _, hj, _⟩ := verifySignature_sound hv
    exact ⟨s, k, hs, hj⟩

theorem remoteCall_sound (cfg : JwksSet) (hd : cfg.defaultAlg = "") (st : RemoteSt) (hinv : st.cached = st.lastServed)
    (served : List JWK) (j : JWS) :
    (remoteCall cfg st served j).2.cached = (remoteCall cfg st served j).2.lastServed ∧
    ∀ p, (remoteCall cfg st served j).1.1 = some p →
      p = j.payload ∧ ∃ s k, j.Signatures = [s] ∧
        justifies { kind := .published, keys := (remoteCall cfg st served j).2.lastServed } j s k = true := by
  unfold remoteCall
  rw [C13.cachePhase_eq cfg hd]
  have hspec := C13.cacheAns_spec cfg.skipRemoteCheck st.cached j
  cases hc : C13.cacheAns cfg.skipRemoteCheck st.cached j with
  | hit p0 =>
    rw [hc] at hspec
    have hne : (((some p0, none) : GoPair) == (none, some needRemoteMark)) = false := by simp
    simp only [hne, Bool.false_eq_true, if_false]
    refine ⟨hinv, ?_⟩
    intro p hp
    simp at hp; subst hp
    refine ⟨hspec.1, ?_⟩
    rw [← hinv]
    exact accepted_justified hspec.2
  | reject =>
    have hne : (((none, some msgBadSig) : GoPair) == (none, some needRemoteMark)) = false := C13.mark_ne_badSig
    simp only [hne, Bool.false_eq_true, if_false]
    exact ⟨hinv, by intro p hp; simp at hp⟩
  | miss =>
    simp only [beq_self_eq_true, if_true, cacheAfterUpdate_ok]
    refine ⟨trivial, ?_⟩
    intro p hp
    rw [C13.fullVerify_miss cfg hd _ _ _ hc, C13.logic_remote_ok] at hp
    cases hr : C13.remoteAns served j with
    | accept p1 =>
      rw [hr] at hp
      simp at hp; subst hp
      refine ⟨C13.remoteAns_accept_payload hr, ?_⟩
      apply accepted_justified
      rw [C13.refAccepts_eq, hr]
    | noKey => rw [hr] at hp; simp at hp
    | badSig => rw [hr] at hp; simp at hp

/-- **rotation.**  Along every history of sequential calls on one remote key set — any key sets published before each call, any
    tokens — each accepted token is its own payload, genuinely signed by a consistently selected key of the set the endpoint
    served the verifier LAST (at or before that call). -/
theorem c02_remote_rotation (cfg : JwksSet) (hd : cfg.defaultAlg = "") (steps : List (List JWK × JWS))
    (st : RemoteSt) (hinv : st.cached = st.lastServed) :
    ∀ x ∈ remoteRun cfg st steps, ∀ p, x.2.1.1 = some p →
      p = x.1.payload ∧ ∃ s k, x.1.Signatures = [s] ∧ justifies { kind := .published, keys := x.2.2.lastServed } x.1 s k = true := by
  induction steps generalizing st with
  | nil => intro x hx; simp [remoteRun] at hx
  | cons a rest ih =>
    obtain ⟨served, j⟩ := a
    intro x hx
    have hs := remoteCall_sound cfg hd st hinv served j
    simp only [remoteRun, List.mem_cons] at hx
    rcases hx with rfl | hx
    · exact hs.2
    · exact ih _ hs.1 x hx

/-- a key the OP has withdrawn (no set served to the verifier since contains a key that the token could select) is not believed -/
theorem c02_withdrawn_key_rejected (cfg : JwksSet) (hd : cfg.defaultAlg = "") (steps : List (List JWK × JWS)) :
    ∀ x ∈ remoteRun cfg {} steps, (∀ s k, x.1.Signatures = [s] → k ∈ x.2.2.lastServed → genuine x.1 s k = false) → x.2.1.1 = none := by
  intro x hx hno
  cases hp : x.2.1.1 with
  | none => rfl
  | some p =>
    obtain ⟨_, s, k, hs, hj⟩ := c02_remote_rotation cfg hd steps {} rfl x hx p hp
    simp only [justifies, Bool.and_eq_true, List.contains_eq_mem, decide_eq_true_eq] at hj
    have := hno s k hs hj.1.1
    rw [hj.1.2] at this
    cases this

/-! non-vacuity: A is cached, the OP moves to B and the verifier learns it, A is presented again -/
section examples
def rkA : JWK := { KeyID := "a", Use := "sig", kty := .rsa, keyNo := 1 }
def rkB : JWK := { KeyID := "b", Use := "sig", kty := .rsa, keyNo := 2 }
def rtok (kid : String) (signer : Nat) : JWS :=
  { Signatures := [{ Header := { Algorithm := "RS256", KeyID := kid }, signer := some signer, signedAlg := "RS256", signedBytes := 7,
                     signedHdr := { Algorithm := "RS256", KeyID := kid } }],
    payload := { bytes := 7, claims := none } }
def rotation : List (List JWK × JWS) := [([rkA], rtok "a" 1), ([rkB], rtok "b" 2), ([rkB], rtok "a" 1)]

example : (remoteRun {} {} rotation).map (fun x => (x.2.1.1.isSome, x.2.2.cached)) =
    [(true, [rkA]), (true, [rkB]), (false, [rkB])] := by decide
/-- a cache that kept the old keys next to the new ones would believe the withdrawn key: the third call hits the cache -/
example : (cachePhase GenJwks.logic {} [rkB, rkA] (rtok "a" 1)).1.isSome = true := by decide
end examples

end C02
