/-
  C05 - theorems about the COMPLETE endpoint decision function `EP.endpointDecision` (Model/EndpointFlow.lean), which only wires
  regenerated definitions (Generated/Endpoint.lean, EndpointCaps.lean, TokenEndpoint.lean, Device.lean, RPVerifier.lean):
  whatever the request, the registrations, the flags, the storage capabilities, the stored grants and the answers of every oracle
  (url.QueryUnescape, the JWT parsers, the grant logic behind authentication), the monitor `C05.judge` accepts the model's own
  response - a success names a client whose registration one of the request's credentials fits, for a grant that is registered
  for it and enabled; a refusal on the token endpoint is an OAuth error document with a status ≥ 400.
-/
import OidcModel.Proofs.C05
import OidcModel.Model.EndpointFlow
import OidcModel.GoTac
import OidcModel.Proofs.C05Shape
namespace C05
open Go Gen Hand Flow

/-- the monitor's configuration of a provider -/
def cfgOf (x : EPProvider) : Cfg :=
  { base := { issuer := x.issuer, clients := x.storage.base.clients, jwtMaxAgeIAT := 3600 * Go.second, jwtOffset := Go.second },
    post := x.config.AuthMethodPost, pkjwt := x.config.AuthMethodPrivateKeyJWT, refresh := x.config.GrantTypeRefreshToken,
    capCC := x.storage.is_ClientCredentialsStorage, capTE := x.storage.is_TokenExchangeStorage,
    capDevice := x.storage.is_DeviceAuthorizationStorage }

/-- the monitor's endpoint of a request -/
def specEndpoint (e : EP.Endpoint) (r : EPRequest) : Endpoint :=
  match e with
  | .token => .token (grantOf r)
  | .introspect => .introspect
  | .revoke => .revoke
  | .deviceAuthorization => .deviceAuthorization

/-- the monitor's observation of a (model) response -/
def obsOf : EPResp → Obs
  | .ok (.tokens _ c) => { status := 200, success := true, actor := c }
  | .ok (.introspection a c) => { status := 200, success := a, actor := c }
  | .ok (.revoked c) => { status := 200, success := true, actor := c }
  | .ok (.deviceCodes c) => { status := 200, success := true, actor := c }
  | .json _ s => { status := s.toNat, errorDoc := true }
  | .text _ s => { status := s.toNat }

/-! ## registrations and secrets -/

theorem find_id {cs : List OPClient} {id : String} {c : OPClient} (h : cs.find? (·.id == id) = some c) : c.id = id := by
  have := List.find?_some h; simpa using this

theorem getClient_find {x : EPProvider} {id : String} {c : OPClient} (h : x.storage.base.GetClientByClientID id = .ok c) :
    (cfgOf x).base.clients.find? (·.id == c.id) = some c := by
  obtain ⟨h1, h2⟩ := getClient_ok h
  rw [h2]; exact h1

/-- a correct secret fits the registration (the POST flag as far as the caller has checked it) -/
theorem fits_of_secret {x : EPProvider} {now : Int} {k : Creds} {id sec : String} {cl : OPClient}
    (hp : k.primary = some { clientID := id, secret := sec })
    (hget : x.storage.base.GetClientByClientID id = .ok cl)
    (hsec : x.storage.base.AuthorizeClientIDSecret id sec = .ok ())
    (hpost : cl.auth = Const.AuthMethodPost → x.config.AuthMethodPost = true) :
    credsFit (cfgOf x) now cl k = true := by
  obtain ⟨c, hc, hauth, hs⟩ := secret_ok hsec
  obtain ⟨hf, hid⟩ := getClient_ok hget
  rw [hc] at hf; cases hf
  unfold credsFit
  rw [hp]
  simp only [credentialFits, C04.callerIs, cfgOf]
  rcases hauth with ha | ha
  · simp [ha, hid, hs, Const.AuthMethodBasic]
  · have := hpost ha
    simp [ha, hid, hs, Const.AuthMethodPost, this]

/-- a public client identifies itself by its id -/
theorem fits_of_public {x : EPProvider} {now : Int} {k : Creds} {id sec : String} {cl : OPClient}
    (hp : k.primary = some { clientID := id, secret := sec })
    (hget : x.storage.base.GetClientByClientID id = .ok cl) (hnone : cl.auth = Const.AuthMethodNone) :
    credsFit (cfgOf x) now cl k = true := by
  obtain ⟨_, hid⟩ := getClient_ok hget
  unfold credsFit
  rw [hp]
  simp [credentialFits, C04.callerIs, hnone, hid, Const.AuthMethodNone]

/-- the storage's secret check (`EPStorage.AuthorizeClientIDSecret`): a registered client whose stored secret is the presented one
    and - unless the storage only compares secrets - which is registered for a secret method -/
theorem epSecret_ok {s : EPStorage} {id sec : String} (h : s.AuthorizeClientIDSecret id sec = .ok ()) :
    ∃ c, s.base.clients.find? (·.id == id) = some c ∧ c.secret = sec ∧
      (s.secretCompareOnly = true ∨ c.auth = Const.AuthMethodBasic ∨ c.auth = Const.AuthMethodPost) := by
  unfold EPStorage.AuthorizeClientIDSecret at h
  split at h
  · rename_i hl
    split at h
    · rename_i c hc
      split at h
      · rename_i hs
        exact ⟨c, hc, by simpa using hs, Or.inl hl⟩
      · simp at h
    · simp at h
  · obtain ⟨c, hc, hauth, hs⟩ := secret_ok h
    exact ⟨c, hc, hs, Or.inr hauth⟩

/-- a storage that does not only compare answers as the reference store does -/
theorem epSecret_strict {s : EPStorage} (hS : s.secretCompareOnly = false) (id sec : String) :
    s.AuthorizeClientIDSecret id sec = s.base.AuthorizeClientIDSecret id sec := by
  simp [EPStorage.AuthorizeClientIDSecret, hS]

/-- registrations without a secret method have no stored secret (what a storage that only compares secrets must be given so
    that a non-empty secret identifies a client registered for a secret method) -/
def NoStraySecrets (x : EPProvider) : Prop :=
  ∀ c ∈ x.storage.base.clients, (c.auth = Const.AuthMethodNone ∨ c.auth = Const.AuthMethodPrivateKeyJWT) → c.secret = ""

/-- the stored secret of a client that is not registered for private_key_jwt fits its registration (a public client: its id) -/
theorem fits_of_presented {x : EPProvider} {now : Int} {k : Creds} {p : C04.Presented} {cl : OPClient}
    (hp : k.primary = some p) (hid : cl.id = p.clientID) (hs : cl.secret = p.secret)
    (hk : cl.auth ≠ Const.AuthMethodPrivateKeyJWT)
    (hpost : cl.auth = Const.AuthMethodPost → x.config.AuthMethodPost = true) :
    credsFit (cfgOf x) now cl k = true := by
  unfold credsFit
  rw [hp]
  simp only [credentialFits, C04.callerIs, cfgOf]
  have hk' : (cl.auth == "private_key_jwt") = false := by simpa [Const.AuthMethodPrivateKeyJWT] using hk
  by_cases hn : cl.auth = Const.AuthMethodNone
  · have hn' : (cl.auth == "none") = true := by simpa [Const.AuthMethodNone] using hn
    have hpo : (cl.auth == "client_secret_post") = false := by rw [hn]; decide
    simp [hn', hid, hpo]
  · have hn' : (cl.auth == "none") = false := by simpa [Const.AuthMethodNone] using hn
    by_cases ha : cl.auth = Const.AuthMethodPost
    · have := hpost ha
      simp [hn', hk', hid, hs, this]
    · have ha' : (cl.auth == "client_secret_post") = false := by simpa [Const.AuthMethodPost] using ha
      simp [hn', hk', hid, hs, ha']

theorem fits_of_stored_secret {x : EPProvider} {now : Int} {k : Creds} {id sec : String} {cl : OPClient}
    (hp : k.primary = some { clientID := id, secret := sec }) (hid : cl.id = id) (hs : cl.secret = sec)
    (_hn : cl.auth ≠ Const.AuthMethodNone) (hk : cl.auth ≠ Const.AuthMethodPrivateKeyJWT)
    (hpost : cl.auth = Const.AuthMethodPost → x.config.AuthMethodPost = true) :
    credsFit (cfgOf x) now cl k = true :=
  fits_of_presented hp hid hs hk hpost

/-! ## assertions -/

theorem assertionOK_setAlg (issuer : String) (m off : Int) (b : Bool) (reg : List (String × JWK)) (t : Token) (now : Int)
    (c : Claims) (alg : String) :
    C14.assertionOK issuer m off b reg t now (c.SetSignatureAlgorithm alg) = C14.assertionOK issuer m off b reg t now c := by
  unfold C14.assertionOK C02.acceptedOK C14.claimClauses Claims.SetSignatureAlgorithm
  rfl

/-- an assertion the regenerated verifier accepts proves (in the monitor's sense) the client it names as issuer -/
theorem provesClient_of_verify {x : EPProvider} {now : Int} {t : Token} {j : Claims}
    (h : VerifyJWTAssertion now t (x.asProvider now).JWTProfileVerifier = .ok j) :
    C14.provesClient (cfgOf x).base.issuer (cfgOf x).base.jwtMaxAgeIAT (cfgOf x).base.jwtOffset (C04.registry (cfgOf x).base.clients) t now
      = some j.iss := by
  have hks : ((x.asProvider now).JWTProfileVerifier).keySet.kind = .nilSet := rfl
  have hsound := C14.c14_assertion_sound hks h
  obtain ⟨p, c0, hp, _, _, _, _, hsig⟩ := C14.verifyJWTAssertion_paths hks h
  obtain ⟨_, s, _, _, _, _, _, hc⟩ := C01.checkSignature_ok hsig
  obtain ⟨_, hmid, hcl⟩ := C01.parseToken_ok hp
  subst hc
  rw [assertionOK_setAlg] at hsound
  unfold C14.provesClient
  simp only [hmid, Option.bind, hcl]
  have : C14.assertionOK (cfgOf x).base.issuer (cfgOf x).base.jwtMaxAgeIAT (cfgOf x).base.jwtOffset true
      (C04.registry (cfgOf x).base.clients) t now c0 = none := hsound
  simp [this, Claims.SetSignatureAlgorithm]

theorem fits_of_assertion {x : EPProvider} {now : Int} {k : Creds} {t : Token} {cl : OPClient} {j : Claims}
    (ha : k.assertion = some t)
    (hv : VerifyJWTAssertion now t (x.asProvider now).JWTProfileVerifier = .ok j)
    (hget : x.storage.base.GetClientByClientID j.iss = .ok cl) (hpk : cl.auth = Const.AuthMethodPrivateKeyJWT) :
    credsFit (cfgOf x) now cl k = true := by
  obtain ⟨_, hid⟩ := getClient_ok hget
  have hpr := provesClient_of_verify hv
  unfold credsFit
  rw [ha]
  simp only [credentialFits, C04.callerIs]
  simp [hpk, Const.AuthMethodPrivateKeyJWT, hpr, hid]

/-- the string-level verifier of the endpoint layer is the regenerated verifier on what the parsers make of the string -/
theorem epVerify_ok {now : Int} {o : EPOracles} {s : String} {v : JWTProfileVerifier} {tr : EPJWTTokenRequest}
    (h : Hand.epVerifyJWTAssertion now o s v = .ok tr) :
    ∃ j, VerifyJWTAssertion now (o.tokenOf s) v = .ok j ∧ tr.Issuer = j.iss := by
  unfold Hand.epVerifyJWTAssertion at h
  split at h
  · rename_i c hc; simp at h; subst h; exact ⟨c, hc, rfl⟩
  · simp at h

/-- an accepted assertion was verified with a key the storage holds for the issuer -/
theorem registered_of_verify {x : EPProvider} {now : Int} {t : Token} {j : Claims}
    (h : VerifyJWTAssertion now t (x.asProvider now).JWTProfileVerifier = .ok j) :
    ∃ key, (j.iss, key) ∈ x.storage.base.keyRegistry := by
  have hks : ((x.asProvider now).JWTProfileVerifier).keySet.kind = .nilSet := rfl
  have hsound := C14.c14_assertion_sound hks h
  unfold C14.assertionOK at hsound
  split at hsound
  · simp at hsound
  · rename_i hacc
    unfold C02.acceptedOK at hacc
    repeat' (split at hacc <;> try (simp at hacc))
    rename_i hany _ _ _ _ _ _ _
    obtain ⟨key, hkey⟩ := Classical.not_forall.1 hany
    obtain ⟨hmem, _⟩ := Classical.not_imp.1 hkey
    simp only [C14.clientKeys, List.mem_map, List.mem_filter] at hmem
    obtain ⟨⟨id, k'⟩, ⟨hin, hid⟩, rfl⟩ := hmem
    simp at hid; subst hid
    exact ⟨k', hin⟩

theorem find_of_registered {x : EPProvider} {id : String} {key : JWK} (h : (id, key) ∈ x.storage.base.keyRegistry) :
    ∃ c, x.storage.base.clients.find? (·.id == id) = some c := by
  simp only [Store.keyRegistry, List.mem_flatMap, List.mem_map] at h
  obtain ⟨c, hc, k, _, hk⟩ := h
  simp at hk
  cases hf : x.storage.base.clients.find? (·.id == id) with
  | some c' => exact ⟨c', rfl⟩
  | none =>
    have := List.find?_eq_none.1 hf c hc
    simp [hk.1] at this

theorem getClient_of_find {s : Store} {id : String} {c : OPClient} (h : s.clients.find? (·.id == id) = some c) :
    s.GetClientByClientID id = .ok c := by
  unfold Store.GetClientByClientID; rw [h]

/-! ## what the monitor demands, as predicates on the model's response -/

/-- a token response for grant `g` naming client `actor` is justified -/
def TokensOK (c : Cfg) (now : Int) (k : Creds) (g actor : String) : Prop :=
  if g = Const.GrantTypeBearer then
    ∃ t, k.grantAssertion = some t ∧
      C14.provesClient c.base.issuer c.base.jwtMaxAgeIAT c.base.jwtOffset (C04.registry c.base.clients) t now = some actor
  else ∃ cl, c.base.clients.find? (·.id == actor) = some cl ∧
    (if g = Const.GrantTypeClientCredentials then
      c.capCC = true ∧ Const.GrantTypeClientCredentials ∈ cl.grants ∧ ∃ p, k.primary = some p ∧ p.clientID = cl.id ∧ cl.secret = p.secret
     else credsFit c now cl k = true ∧ grantEnabled c g = true ∧ g ∈ cl.grants)

def GoodToken (c : Cfg) (now : Int) (k : Creds) (g : String) : EPResp → Prop
  | .ok (.tokens _ a) => TokensOK c now k g a
  | .ok _ => False
  | .json _ s => s ≥ 400
  | .text _ _ => False

def GoodIntrospect (c : Cfg) (now : Int) (k : Creds) : EPResp → Prop
  | .ok (.introspection true a) => ∃ cl, c.base.clients.find? (·.id == a) = some cl ∧ cl.auth ≠ Const.AuthMethodNone ∧ credsFit c now cl k = true
  | .ok (.introspection false _) => True
  | .ok _ => False
  | _ => True

def GoodRevoke (c : Cfg) (now : Int) (k : Creds) : EPResp → Prop
  | .ok (.revoked a) => ∃ cl, c.base.clients.find? (·.id == a) = some cl ∧ credsFit c now cl k = true
  | .ok _ => False
  | _ => True

def GoodDevice (c : Cfg) : EPResp → Prop
  | .ok (.deviceCodes a) => ∃ cl, c.base.clients.find? (·.id == a) = some cl ∧ Const.GrantTypeDeviceCode ∈ cl.grants ∧ c.capDevice = true
  | .ok _ => False
  | .json _ s => s ≥ 400
  | .text _ s => s ≥ 400

theorem judge_token {c : Cfg} {now : Int} {k : Creds} {g : String} {resp : EPResp} (h : GoodToken c now k g resp) :
    judge c now (.token g) k (obsOf resp) = none := by
  match resp, h with
  | .json _ s, h =>
    simp only [GoodToken] at h
    have : ¬ (s.toNat < 400) := by omega
    simp [judge, obsOf, this]
  | .ok (.tokens _ a), h =>
    simp only [GoodToken, TokensOK] at h
    simp only [judge, obsOf]
    by_cases hj : g = Const.GrantTypeBearer
    · simp only [hj, if_true] at h
      obtain ⟨t, ht, hp⟩ := h
      simp [hj, Const.GrantTypeBearer, ht, hp]
    · simp only [hj, if_false] at h
      obtain ⟨cl, hf, h⟩ := h
      have hj' : (g == "urn:ietf:params:oauth:grant-type:jwt-bearer") = false := by simpa [Const.GrantTypeBearer] using hj
      by_cases hcc : g = Const.GrantTypeClientCredentials
      · simp only [hcc, if_true] at h
        obtain ⟨hcap, hgr, p, hp, hid, hs⟩ := h
        have hgr' : "client_credentials" ∈ cl.grants := by simpa [Const.GrantTypeClientCredentials] using hgr
        subst hcc
        simp [Const.GrantTypeClientCredentials, hf, hcap, hgr', hp, hid, hs] at hj' ⊢
      · simp only [hcc, if_false] at h
        obtain ⟨hfit, hen, hgr⟩ := h
        have hcc' : (g == "client_credentials") = false := by simpa [Const.GrantTypeClientCredentials] using hcc
        simp [hj', hf, hcc', hfit, hen, hgr]

theorem judge_introspect {c : Cfg} {now : Int} {k : Creds} {resp : EPResp} (h : GoodIntrospect c now k resp) :
    judge c now .introspect k (obsOf resp) = none := by
  match resp, h with
  | .json _ s, _ => simp [judge, obsOf]
  | .text _ s, _ => simp [judge, obsOf]
  | .ok (.introspection false a), _ => simp [judge, obsOf]
  | .ok (.introspection true a), h =>
    obtain ⟨cl, hf, hn, hfit⟩ := h
    have hn' : (cl.auth == "none") = false := by simpa [Const.AuthMethodNone] using hn
    simp [judge, obsOf, hf, hn', hfit]

theorem judge_revoke {c : Cfg} {now : Int} {k : Creds} {resp : EPResp} (h : GoodRevoke c now k resp) :
    judge c now .revoke k (obsOf resp) = none := by
  match resp, h with
  | .json _ s, _ => simp [judge, obsOf]
  | .text _ s, _ => simp [judge, obsOf]
  | .ok (.revoked a), h =>
    obtain ⟨cl, hf, hfit⟩ := h
    simp [judge, obsOf, hf, hfit]

theorem judge_device {c : Cfg} {resp : EPResp} {now : Int} {k : Creds} (h : GoodDevice c resp) :
    judge c now .deviceAuthorization k (obsOf resp) = none := by
  match resp, h with
  | .json _ s, h =>
    simp only [GoodDevice] at h
    have : ¬ (200 ≤ s.toNat ∧ s.toNat < 300) := by omega
    simp [judge, obsOf]; omega
  | .text _ s, h =>
    simp only [GoodDevice] at h
    simp [judge, obsOf]; omega
  | .ok (.deviceCodes a), h =>
    obtain ⟨cl, hf, hg, hcap⟩ := h
    have hg' : "urn:ietf:params:oauth:grant-type:device_code" ∈ cl.grants := by simpa [Const.GrantTypeDeviceCode] using hg
    simp [judge, obsOf, hf, hg', hcap]

/-! ## the status mapping (regenerated RequestError / WriteError / RevocationError) -/

theorem requestError_shape (now : Int) (r : EPRequest) (err : String) :
    ∃ e s, GenEP.RequestError now r err = .json e s ∧ s ≥ 400 := by
  rw [SpecEP.RequestError_eq]; unfold SpecEP.RequestError
  simp only []
  split
  · exact ⟨_, _, rfl, by decide⟩
  · exact ⟨_, _, rfl, by decide⟩

theorem decodeStatus_ge {e : String} {se : EPStatusError} (h : Hand.epDecodeStatus e = some se) : se.statusCode ≥ 400 := by
  unfold Hand.epDecodeStatus at h
  repeat' (split at h)
  all_goals (first | (simp only [Option.some.injEq] at h; subst h; simp) | simp at h)

theorem writeError_shape (now : Int) (r : EPRequest) (err : String) :
    ∃ e s, GenEP.WriteError now r err = .json e s ∧ s ≥ 400 := by
  rw [SpecEP.WriteError_eq]; unfold SpecEP.WriteError; simp only [SpecEP.writeError_eq]; unfold SpecEP.writeError
  try simp only []
  split
  · rename_i hs
    refine ⟨_, _, rfl, ?_⟩
    unfold Hand.epIsStatusError at hs
    unfold Hand.epStatusErrorOf
    cases hd : Hand.epDecodeStatus err with
    | none => simp [hd] at hs
    | some se => simpa using decodeStatus_ge hd
  · split
    · exact ⟨_, _, rfl, by decide⟩
    · exact ⟨_, _, rfl, by decide⟩

theorem goodToken_requestError (c : Cfg) (now : Int) (k : Creds) (g : String) (r : EPRequest) (err : String) :
    GoodToken c now k g (GenEP.RequestError now r err) := by
  obtain ⟨e, s, h, hs⟩ := requestError_shape now r err
  rw [h]; exact hs

theorem goodToken_writeError (c : Cfg) (now : Int) (k : Creds) (g : String) (r : EPRequest) (err : String) :
    GoodToken c now k g (GenEP.WriteError now r err) := by
  obtain ⟨e, s, h, hs⟩ := writeError_shape now r err
  rw [h]; exact hs

theorem goodDevice_requestError (c : Cfg) (now : Int) (r : EPRequest) (err : String) : GoodDevice c (GenEP.RequestError now r err) := by
  obtain ⟨e, s, h, hs⟩ := requestError_shape now r err
  rw [h]; exact hs

theorem goodDevice_writeError (c : Cfg) (now : Int) (r : EPRequest) (err : String) : GoodDevice c (GenEP.WriteError now r err) := by
  obtain ⟨e, s, h, hs⟩ := writeError_shape now r err
  rw [h]; exact hs

theorem goodIntrospect_writeError (c : Cfg) (now : Int) (k : Creds) (r : EPRequest) (err : String) : GoodIntrospect c now k (GenEP.WriteError now r err) := by
  obtain ⟨e, s, h, _⟩ := writeError_shape now r err
  rw [h]; trivial

theorem goodRevoke_writeError (c : Cfg) (now : Int) (k : Creds) (r : EPRequest) (err : String) : GoodRevoke c now k (GenEP.WriteError now r err) := by
  obtain ⟨e, s, h, _⟩ := writeError_shape now r err
  rw [h]; trivial

theorem goodRevoke_revocationRequestError (c : Cfg) (now : Int) (k : Creds) (r : EPRequest) (err : String) :
    GoodRevoke c now k (GenEP.RevocationRequestError now r err) := by
  rw [SpecEP.RevocationRequestError_eq]; unfold SpecEP.RevocationRequestError; trivial

/-! ## request parsing: what the regenerated parsers extract is what the request presents (`credsOf`) -/

theorem decode_ok {d : EPDecoder} {v : EPValues} {f : EPForm} (h : d.Decode v = .ok f) :
    f.ClientID = v.last "client_id" ∧ f.ClientSecret = v.last "client_secret" ∧ f.ClientAssertion = v.last "client_assertion" ∧
    f.Assertion = v.last "assertion" := by
  unfold EPDecoder.Decode at h
  split at h
  · simp at h
  · simp at h; subst h; exact ⟨rfl, rfl, rfl, rfl⟩

/-- `ParseAuthenticatedTokenRequest` (code and refresh grant of the Provider router) -/
theorem parseAuthenticated_ok {now : Int} {o : EPOracles} {r : EPRequest} {d : EPDecoder} {f0 f : EPForm}
    (h : GenEP.ParseAuthenticatedTokenRequest now o r d f0 = .ok f) :
    (credsOf o r).primary = some { clientID := f.ClientID, secret := f.ClientSecret } ∧
    f.ClientAssertion = r.Form.last "client_assertion" := by
  rw [SpecEP.ParseAuthenticatedTokenRequest_eq] at h; unfold SpecEP.ParseAuthenticatedTokenRequest at h
  split at h; · simp at h
  split at h; · simp at h
  rename_i f1 hdec
  obtain ⟨h1, h2, h3, _⟩ := decode_ok hdec
  unfold EPRequest.BasicAuth at h
  unfold credsOf
  cases hb : r.basic with
  | none =>
    simp [hb] at h
    subst h
    simp [h1, h2, h3]
  | some up =>
    obtain ⟨u, p⟩ := up
    simp only [hb] at h
    simp at h
    split at h; · simp at h
    rename_i id hu
    split at h; · simp at h
    rename_i sec hp
    simp at h; subst h
    simp [hu, hp, EPForm.SetClientID, EPForm.SetClientSecret, h3]

/-! ## Provider router, token endpoint -/

@[simp] theorem store_getClient (s : EPStorage) (id : String) : s.store.GetClientByClientID id = s.base.GetClientByClientID id := rfl
@[simp] theorem store_authSecret (s : EPStorage) (id sec : String) : s.store.AuthorizeClientIDSecret id sec = s.base.AuthorizeClientIDSecret id sec := rfl
@[simp] theorem asProvider_post (now : Int) (x : EPProvider) : (x.asProvider now).postSupported = x.config.AuthMethodPost := rfl
@[simp] theorem asProvider_store (now : Int) (x : EPProvider) : (x.asProvider now).store = x.storage.store := rfl

/-- the `Authenticated` of the code grant (Proofs/C04), read on the request's credentials -/
theorem fits_of_authenticated {x : EPProvider} {now : Int} {o : EPOracles} {k : Creds} {f : EPForm} {c : OPClient}
    (hp : k.primary = some { clientID := f.ClientID, secret := f.ClientSecret })
    (ha : k.assertion = some (o.tokenOf f.ClientAssertion))
    (h : C04.Authenticated now (x.asProvider now) (Hand.epAccessTokenRequest o f) c) :
    (cfgOf x).base.clients.find? (·.id == c.id) = some c ∧ credsFit (cfgOf x) now c k = true := by
  rcases h with ⟨_, _, _, j, hv, hget, hpk⟩ | ⟨_, hget, hauth⟩
  · simp only [asProvider_store, store_getClient] at hget
    exact ⟨getClient_find hget, fits_of_assertion ha hv hget hpk⟩
  · simp only [asProvider_store, store_getClient, Hand.epAccessTokenRequest] at hget
    refine ⟨getClient_find hget, ?_⟩
    rcases hauth with hnone | ⟨_, hpost, hsec⟩
    · exact fits_of_public hp hget hnone
    · simp only [asProvider_store, store_authSecret, Hand.epAccessTokenRequest, asProvider_post] at hsec hpost
      exact fits_of_secret hp hget hsec hpost

theorem goodToken_codeExchange {x : EPProvider} {now : Int} {o : EPOracles} {r : EPRequest} :
    GoodToken (cfgOf x) now (credsOf o r) Const.GrantTypeCode (GenEP.CodeExchange now o r x) := by
  rw [SpecEP.CodeExchange_eq]; unfold SpecEP.CodeExchange
  split; · exact goodToken_requestError ..
  rename_i f hparse
  split; · exact goodToken_requestError ..
  split; · exact goodToken_requestError ..
  rename_i a c hval
  unfold Hand.epCreateTokenResponse Hand.epIssue
  cases hct : x.storage.g.createTokens c.id with
  | error e => simp only []; exact goodToken_requestError ..
  | ok u =>
    simp only []
    rw [SpecEP.ParseAccessTokenRequest_eq] at hparse; unfold SpecEP.ParseAccessTokenRequest at hparse
    simp only [] at hparse
    split at hparse; · simp at hparse
    rename_i f' hpa
    simp at hparse; subst hparse
    obtain ⟨hprim, hass⟩ := parseAuthenticated_ok hpa
    obtain ⟨_, _, hgrant, _, _, _, hauth⟩ := C04.validateAccessTokenRequest_ok hval
    obtain ⟨hfind, hfit⟩ := fits_of_authenticated (k := credsOf o r) hprim (by rw [hass]; rfl) hauth
    show TokensOK _ _ _ _ _
    unfold TokensOK
    simp only [Const.GrantTypeCode, Const.GrantTypeBearer, Const.GrantTypeClientCredentials]
    refine ⟨c, hfind, hfit, by simp [grantEnabled], by simpa [Const.GrantTypeCode] using hgrant⟩

/-- "authenticated as / identifies as client c" for the refresh grant (the twin of `C04.Authenticated`) -/
def RefreshAuthenticated (now : Int) (p : Provider) (req : RefreshTokenRequest) (c : OPClient) : Prop :=
  (req.ClientAssertionType = Const.ClientAssertionTypeJWTAssertion ∧ p.pkjwtSupported = true ∧
      ∃ j, VerifyJWTAssertion now req.ClientAssertion p.JWTProfileVerifier = .ok j ∧
        p.store.GetClientByClientID j.iss = .ok c ∧ c.auth = Const.AuthMethodPrivateKeyJWT)
  ∨ (req.ClientAssertionType ≠ Const.ClientAssertionTypeJWTAssertion ∧ p.store.GetClientByClientID req.ClientID = .ok c ∧
      (c.auth = Const.AuthMethodNone ∨
        (c.auth ≠ Const.AuthMethodPrivateKeyJWT ∧ (c.auth = Const.AuthMethodPost → p.postSupported = true) ∧
          p.store.AuthorizeClientIDSecret req.ClientID req.ClientSecret = .ok ())))

theorem authorizeRefreshClient_auth {now req p r c} (h : AuthorizeRefreshClient now req p = .ok (r, c)) :
    RefreshAuthenticated now p req c := by
  rw [SpecTok.AuthorizeRefreshClient_eq] at h; unfold SpecTok.AuthorizeRefreshClient at h; simp only [SpecTok.AuthorizePrivateJWTKey_eq] at h; unfold SpecTok.AuthorizePrivateJWTKey at h; simp only [SpecTok.AuthorizeClientIDSecret_eq] at h; unfold SpecTok.AuthorizeClientIDSecret at h
  simp only [Provider.Storage, Provider.AuthMethodPrivateKeyJWTSupported, Provider.AuthMethodPostSupported, OPClient.AuthMethod,
    Claims.Issuer] at h
  repeat' (split at h <;> try (simp at h))
  all_goals (
    obtain ⟨_, rfl⟩ := h
    unfold RefreshAuthenticated
    first
      | (left; exact ⟨by simp_all, by simp_all, C04.match_pkjwt (by assumption)⟩)
      | (right; refine ⟨by simp_all, by assumption, ?_⟩
         first
           | (left; simp_all; done)
           | (right; exact ⟨by simp_all, by simp_all, C04.match_secret (by assumption)⟩)))

theorem fits_of_refreshAuthenticated {x : EPProvider} {now : Int} {o : EPOracles} {k : Creds} {f : EPForm} {c : OPClient}
    (hp : k.primary = some { clientID := f.ClientID, secret := f.ClientSecret })
    (ha : k.assertion = some (o.tokenOf f.ClientAssertion))
    (h : RefreshAuthenticated now (x.asProvider now) (Hand.epRefreshTokenRequest o f) c) :
    (cfgOf x).base.clients.find? (·.id == c.id) = some c ∧ credsFit (cfgOf x) now c k = true := by
  rcases h with ⟨_, _, j, hv, hget, hpk⟩ | ⟨_, hget, hauth⟩
  · simp only [asProvider_store, store_getClient] at hget
    exact ⟨getClient_find hget, fits_of_assertion ha hv hget hpk⟩
  · simp only [asProvider_store, store_getClient, Hand.epRefreshTokenRequest] at hget
    refine ⟨getClient_find hget, ?_⟩
    rcases hauth with hnone | ⟨_, hpost, hsec⟩
    · exact fits_of_public hp hget hnone
    · simp only [asProvider_store, store_authSecret, Hand.epRefreshTokenRequest, asProvider_post] at hsec hpost
      exact fits_of_secret hp hget hsec hpost

theorem validateRefresh_auth {now req p r c} (h : ValidateRefreshTokenRequest now req p = .ok (r, c)) :
    RefreshAuthenticated now p req c ∧ Const.GrantTypeRefreshToken ∈ c.grants := by
  rw [SpecTok.ValidateRefreshTokenRequest_eq] at h; unfold SpecTok.ValidateRefreshTokenRequest at h
  split at h; · simp at h
  cases hac : AuthorizeRefreshClient now req p with
  | error e => simp [hac] at h
  | ok rc =>
    obtain ⟨r0, c'⟩ := rc
    simp only [hac] at h
    split at h; · simp at h
    split at h; · simp at h
    simp at h
    obtain ⟨_, rfl⟩ := h
    exact ⟨authorizeRefreshClient_auth hac, (C07.authorizeRefreshClient_ok hac).2⟩

theorem goodToken_refreshTokenExchange {x : EPProvider} {now : Int} {o : EPOracles} {r : EPRequest}
    (hen : x.config.GrantTypeRefreshToken = true) :
    GoodToken (cfgOf x) now (credsOf o r) Const.GrantTypeRefreshToken (GenEP.RefreshTokenExchange now o r x) := by
  rw [SpecEP.RefreshTokenExchange_eq]; unfold SpecEP.RefreshTokenExchange
  split; · exact goodToken_requestError ..
  rename_i f hparse
  split; · exact goodToken_requestError ..
  rename_i rr c hval
  unfold Hand.epCreateRefreshResponse Hand.epIssue
  cases hct : x.storage.g.createTokens c.id with
  | error e => simp only []; exact goodToken_requestError ..
  | ok u =>
    simp only []
    rw [SpecEP.ParseRefreshTokenRequest_eq] at hparse; unfold SpecEP.ParseRefreshTokenRequest at hparse
    simp only [] at hparse
    split at hparse; · simp at hparse
    rename_i f' hpa
    simp at hparse; subst hparse
    obtain ⟨hprim, hass⟩ := parseAuthenticated_ok hpa
    obtain ⟨hauth, hgrant⟩ := validateRefresh_auth hval
    obtain ⟨hfind, hfit⟩ := fits_of_refreshAuthenticated (k := credsOf o r) hprim (by rw [hass]; rfl) hauth
    show TokensOK _ _ _ _ _
    unfold TokensOK
    simp only [Const.GrantTypeRefreshToken, Const.GrantTypeBearer, Const.GrantTypeClientCredentials]
    refine ⟨c, hfind, hfit, by simp [grantEnabled, cfgOf, hen], by simpa [Const.GrantTypeRefreshToken] using hgrant⟩

theorem clientCredentials_ok {s : Store} {id sec : String} {c : OPClient} (h : s.ClientCredentials id sec = .ok c) :
    s.clients.find? (·.id == id) = some c ∧ c.id = id ∧ c.secret = sec ∧ Const.GrantTypeClientCredentials ∈ c.grants := by
  unfold Store.ClientCredentials at h
  split at h
  · rename_i c' hc
    split at h
    · rename_i hcond
      simp at h; subst h
      simp at hcond
      exact ⟨hc, find_id hc, hcond.2, hcond.1⟩
    · simp at h
  · simp at h

/-- the secret-type credential after a Basic override (`if clientID, clientSecret, ok := r.BasicAuth(); ok {..}`) -/
theorem primary_of_basic_override {o : EPOracles} {r : EPRequest} {f1 : EPForm}
    (h1 : f1.ClientID = r.Form.last "client_id") (h2 : f1.ClientSecret = r.Form.last "client_secret") :
    (r.basic = none → (credsOf o r).primary = some { clientID := f1.ClientID, secret := f1.ClientSecret }) ∧
    (∀ u p id sec, r.basic = some (u, p) → o.unescape u = .ok id → o.unescape p = .ok sec →
      (credsOf o r).primary = some { clientID := id, secret := sec }) := by
  constructor
  · intro hb; unfold credsOf; simp [hb, h1, h2]
  · intro u p id sec hb hu hp; unfold credsOf; simp [hb, hu, hp]

theorem parseClientCredentialsRequest_ok {now : Int} {o : EPOracles} {r : EPRequest} {d : EPDecoder} {f : EPForm}
    (h : GenEP.ParseClientCredentialsRequest now o r d = .ok f) :
    (credsOf o r).primary = some { clientID := f.ClientID, secret := f.ClientSecret } := by
  rw [SpecEP.ParseClientCredentialsRequest_eq] at h; unfold SpecEP.ParseClientCredentialsRequest at h
  split at h; · simp at h
  split at h; · simp at h
  rename_i f1 hdec
  obtain ⟨h1, h2, _, _⟩ := decode_ok hdec
  obtain ⟨hnone, hsome⟩ := primary_of_basic_override (o := o) h1 h2
  unfold EPRequest.BasicAuth at h
  cases hb : r.basic with
  | none =>
    simp [hb] at h; subst h; exact hnone hb
  | some up =>
    obtain ⟨u, p⟩ := up
    simp only [hb] at h
    simp at h
    split at h; · simp at h
    rename_i id hu
    split at h; · simp at h
    rename_i sec hp
    simp at h; subst h
    exact hsome u p id sec hb hu hp

theorem goodToken_clientCredentialsExchange {x : EPProvider} {now : Int} {o : EPOracles} {r : EPRequest} :
    GoodToken (cfgOf x) now (credsOf o r) Const.GrantTypeClientCredentials (GenEP.ClientCredentialsExchange now o r x) := by
  rw [SpecEP.ClientCredentialsExchange_eq]; unfold SpecEP.ClientCredentialsExchange
  split; · exact goodToken_requestError ..
  rename_i f hparse
  split; · exact goodToken_requestError ..
  rename_i tr c hval
  unfold Hand.epCreateClientCredentialsTokenResponse Hand.epIssue
  cases hct : x.storage.g.createTokens c.id with
  | error e => simp only []; exact goodToken_requestError ..
  | ok u =>
    simp only []
    have hprim := parseClientCredentialsRequest_ok hparse
    rw [SpecEP.ValidateClientCredentialsRequest_eq] at hval; unfold SpecEP.ValidateClientCredentialsRequest at hval
    simp only [EPProvider.Storage] at hval
    have hcap : x.storage.is_ClientCredentialsStorage = true := by
      cases hc : x.storage.is_ClientCredentialsStorage with
      | true => rfl
      | false => simp [hc] at hval
    simp only [hcap, Bool.not_true, Bool.false_eq_true, if_false] at hval
    cases hauth : Hand.epAuthorizeClientCredentialsClient now f x.storage with
    | error e => simp [hauth] at hval
    | ok c' =>
    simp only [hauth] at hval
    split at hval; · simp at hval
    simp at hval
    obtain ⟨_, rfl⟩ := hval
    unfold Hand.epAuthorizeClientCredentialsClient at hauth
    obtain ⟨hcc, hgr⟩ := authorizeClientCredentialsClient_ok hauth
    obtain ⟨hfind, hid, hsec, _⟩ := clientCredentials_ok hcc
    show TokensOK _ _ _ _ _
    unfold TokensOK
    simp only [Const.GrantTypeClientCredentials, Const.GrantTypeBearer]
    refine ⟨c', ?_, ?_, ?_, _, hprim, ?_, ?_⟩
    · simpa [cfgOf, EPStorage.store, hid] using hfind
    · simpa [cfgOf] using hcap
    · simpa [Const.GrantTypeClientCredentials] using hgr
    · simpa using hid.symm
    · simpa using hsec

/-- registered client ids are not empty -/
def NoEmptyID (x : EPProvider) : Prop := ∀ c ∈ x.storage.base.clients, c.id ≠ ""

theorem genAuthorizeSecret_ok {now : Int} {id sec : String} {s : EPStorage} (h : GenEP.AuthorizeClientIDSecret now id sec s = .ok ()) :
    s.AuthorizeClientIDSecret id sec = .ok () := by
  rw [SpecEP.AuthorizeClientIDSecret_eq] at h; unfold SpecEP.AuthorizeClientIDSecret at h
  split at h <;> simp_all

theorem parseTokenExchangeRequest_ok {now : Int} {o : EPOracles} {r : EPRequest} {d : EPDecoder} {f : EPForm} {id sec : String}
    (h : GenEP.ParseTokenExchangeRequest now o r d = .ok (f, id, sec)) :
    (r.basic = none ∧ id = "") ∨ (credsOf o r).primary = some { clientID := id, secret := sec } := by
  rw [SpecEP.ParseTokenExchangeRequest_eq] at h; unfold SpecEP.ParseTokenExchangeRequest at h
  split at h; · simp at h
  split at h; · simp at h
  unfold EPRequest.BasicAuth at h
  cases hb : r.basic with
  | none => simp [hb] at h; exact Or.inl ⟨rfl, h.2.1⟩
  | some up =>
    obtain ⟨u, p⟩ := up
    simp only [hb] at h
    simp at h
    split at h; · simp at h
    rename_i id' hu
    split at h; · simp at h
    rename_i sec' hp
    simp at h
    obtain ⟨_, rfl, rfl⟩ := h
    right; unfold credsOf; simp [hb, hu, hp]

theorem goodToken_tokenExchange {x : EPProvider} {now : Int} {o : EPOracles} {r : EPRequest}
    (hW : NoEmptyID x) (hS : x.storage.secretCompareOnly = false) :
    GoodToken (cfgOf x) now (credsOf o r) Const.GrantTypeTokenExchange (GenEP.TokenExchange now o r x) := by
  rw [SpecEP.TokenExchange_eq]; unfold SpecEP.TokenExchange
  split; · exact goodToken_requestError ..
  rename_i f id sec hparse
  split; · exact goodToken_requestError ..
  rename_i er c hval
  unfold Hand.epCreateTokenExchangeResponse Hand.epIssue
  cases hct : x.storage.g.createTokens c.id with
  | error e => simp only []; exact goodToken_requestError ..
  | ok u =>
    simp only []
    rw [SpecEP.ValidateTokenExchangeRequest_eq] at hval; unfold SpecEP.ValidateTokenExchangeRequest at hval
    split at hval; · simp at hval
    split at hval; · simp at hval
    split at hval; · simp at hval
    split at hval; · simp at hval
    rename_i c' hauth
    split at hval; · simp at hval
    rename_i hgrant
    split at hval; · simp at hval
    split at hval; · simp at hval
    split at hval; · simp at hval
    split at hval; · simp at hval
    rename_i er' hcreate
    simp at hval
    obtain ⟨_, rfl⟩ := hval
    -- client authentication
    rw [SpecEP.AuthorizeTokenExchangeClient_eq] at hauth; unfold SpecEP.AuthorizeTokenExchangeClient at hauth
    simp only [EPProvider.Storage] at hauth
    split at hauth; · simp at hauth
    rename_i hsec0
    have hsec := genAuthorizeSecret_ok hsec0
    rw [epSecret_strict hS] at hsec
    split at hauth; · simp at hauth
    rename_i c0 hget
    simp only [EPStorage.GetClientByClientID] at hget
    have hpost : c0.auth = Const.AuthMethodPost → x.config.AuthMethodPost = true := by
      intro ha
      cases hflag : x.config.AuthMethodPost with
      | true => rfl
      | false => simp [OPClient.AuthMethod, ha, SpecEP.AuthMethodPostSupported_eq, SpecEP.AuthMethodPostSupported, hflag] at hauth
    split at hauth; · simp at hauth
    simp at hauth; subst hauth
    -- the token-exchange storage capability
    unfold Hand.epCreateTokenExchangeRequest at hcreate
    have hcap : x.storage.is_TokenExchangeStorage = true := by
      cases hc : x.storage.is_TokenExchangeStorage with
      | true => rfl
      | false => simp [hc] at hcreate
    have hgr : Const.GrantTypeTokenExchange ∈ c0.grants := C04.validateGrantType_iff.1 (by simpa using hgrant)
    have hprim : (credsOf o r).primary = some { clientID := id, secret := sec } := by
      rcases parseTokenExchangeRequest_ok hparse with ⟨_, hid⟩ | hp
      · subst hid
        obtain ⟨hf, hid0⟩ := getClient_ok hget
        exact absurd hid0 (hW c0 (List.mem_of_find?_eq_some hf))
      · exact hp
    show TokensOK _ _ _ _ _
    unfold TokensOK
    simp only [Const.GrantTypeTokenExchange, Const.GrantTypeBearer, Const.GrantTypeClientCredentials]
    refine ⟨c0, getClient_find hget, fits_of_secret hprim hget hsec hpost, ?_, ?_⟩
    · simp [grantEnabled, cfgOf, hcap]
    · simpa [Const.GrantTypeTokenExchange] using hgr

theorem jwtProfileVerifier_eq (now : Int) (x : EPProvider) : x.JWTProfileVerifier = (x.asProvider now).JWTProfileVerifier := rfl

theorem goodToken_jwtProfile {x : EPProvider} {now : Int} {o : EPOracles} {r : EPRequest} :
    GoodToken (cfgOf x) now (credsOf o r) Const.GrantTypeBearer (GenEP.JWTProfile now o r x) := by
  rw [SpecEP.JWTProfile_eq]; unfold SpecEP.JWTProfile
  split; · exact goodToken_requestError ..
  rename_i f hparse
  split; · exact goodToken_requestError ..
  rename_i tr hver
  split; · exact goodToken_requestError ..
  unfold Hand.epCreateJWTTokenResponse Hand.epIssue
  simp only []
  cases hct : x.storage.g.createTokens tr.Issuer with
  | error e => simp only []; exact goodToken_requestError ..
  | ok u =>
    simp only []
    rw [SpecEP.ParseJWTProfileGrantRequest_eq] at hparse; unfold SpecEP.ParseJWTProfileGrantRequest at hparse
    split at hparse; · simp at hparse
    split at hparse; · simp at hparse
    rename_i f1 hdec
    simp at hparse; subst hparse
    obtain ⟨_, _, _, hass⟩ := decode_ok hdec
    rw [jwtProfileVerifier_eq now] at hver
    obtain ⟨j, hv, hiss⟩ := epVerify_ok hver
    show TokensOK _ _ _ _ _
    unfold TokensOK
    simp only [if_true]
    refine ⟨o.tokenOf (r.Form.last "assertion"), rfl, ?_⟩
    rw [hiss, ← hass]
    exact provesClient_of_verify hv

/-! ## `ClientIDFromRequest` (Provider router: device authorization, device token, introspection) -/

theorem clientJWTAuth_ok {now : Int} {o : EPOracles} {ca : EPForm} {p : EPProvider} {id : String}
    (h : GenEP.ClientJWTAuth now o ca p = .ok id) :
    ∃ j, VerifyJWTAssertion now (o.tokenOf ca.ClientAssertion) (p.asProvider now).JWTProfileVerifier = .ok j ∧ id = j.iss := by
  rw [SpecEP.ClientJWTAuth_eq] at h; unfold SpecEP.ClientJWTAuth at h
  split at h; · simp at h
  split at h; · simp at h
  rename_i tr hver
  simp at h; subst h
  rw [jwtProfileVerifier_eq now] at hver
  obtain ⟨j, hv, hiss⟩ := epVerify_ok hver
  exact ⟨j, hv, hiss⟩

theorem clientBasicAuth_ok {now : Int} {o : EPOracles} {r : EPRequest} {s : EPStorage} {id : String}
    (h : GenEP.ClientBasicAuth now o r s = .ok id) :
    ∃ sec, (credsOf o r).primary = some { clientID := id, secret := sec } ∧ s.AuthorizeClientIDSecret id sec = .ok () := by
  rw [SpecEP.ClientBasicAuth_eq] at h; unfold SpecEP.ClientBasicAuth at h; unfold EPRequest.BasicAuth at h
  cases hb : r.basic with
  | none => simp [hb] at h
  | some up =>
    obtain ⟨u, p⟩ := up
    simp only [hb] at h
    simp at h
    split at h; · simp at h
    rename_i id' hu
    split at h; · simp at h
    rename_i sec hp
    split at h; · simp at h
    rename_i hsec
    simp at h; subst h
    refine ⟨sec, ?_, hsec⟩
    unfold credsOf; simp [hb, hu, hp]

theorem clientBasicAuth_noCredentials {now : Int} {o : EPOracles} {r : EPRequest} {s : EPStorage} {err : String}
    (h : GenEP.ClientBasicAuth now o r s = .error err) (hn : Hand.epErrorsIs err "ErrNoClientCredentials" = true) : r.basic = none := by
  rw [SpecEP.ClientBasicAuth_eq] at h; unfold SpecEP.ClientBasicAuth at h; unfold EPRequest.BasicAuth at h
  cases hb : r.basic with
  | none => rfl
  | some up =>
    obtain ⟨u, p⟩ := up
    simp only [hb] at h
    simp at h
    exfalso
    repeat' (split at h)
    all_goals (first | (simp at h; done) | (simp at h; subst h; revert hn; decide))

/-- `checkPrivateKeyJWTClient`: the client exists and is registered for private_key_jwt -/
theorem checkPrivateKeyJWTClient_ok {now : Int} {id : String} {s : EPStorage} (h : GenEP.checkPrivateKeyJWTClient now id s = .ok ()) :
    ∃ cl, s.base.GetClientByClientID id = .ok cl ∧ cl.auth = Const.AuthMethodPrivateKeyJWT := by
  rw [SpecEP.checkPrivateKeyJWTClient_eq] at h; unfold SpecEP.checkPrivateKeyJWTClient at h
  simp only [EPStorage.GetClientByClientID] at h
  split at h; · simp at h
  rename_i cl hget
  by_cases hpk : cl.auth = Const.AuthMethodPrivateKeyJWT
  · exact ⟨cl, hget, hpk⟩
  · simp [OPClient.AuthMethod, hpk] at h

/-- `checkAuthMethodPost`: a client registered for client_secret_post passes only when the method is enabled -/
theorem checkAuthMethodPost_ok {now : Int} {id : String} {p : EPProvider} (h : GenEP.checkAuthMethodPost now id p = .ok ()) :
    ∀ cl, p.storage.base.GetClientByClientID id = .ok cl → cl.auth = Const.AuthMethodPost → p.config.AuthMethodPost = true := by
  intro cl hget hpost
  rw [SpecEP.checkAuthMethodPost_eq] at h; unfold SpecEP.checkAuthMethodPost at h
  simp only [EPProvider.is_has_AuthMethodPostSupported, SpecEP.AuthMethodPostSupported_eq, SpecEP.AuthMethodPostSupported, EPProvider.Storage, EPStorage.GetClientByClientID,
    Bool.not_true, Bool.false_or] at h
  cases hflag : p.config.AuthMethodPost with
  | true => rfl
  | false =>
    simp [hflag, hget, OPClient.AuthMethod, hpost] at h

/-- the three ways `ClientIDFromRequest` yields a client id -/
theorem clientIDFromRequest_ok {now : Int} {o : EPOracles} {r : EPRequest} {p : EPProvider} {id : String} {auth : Bool}
    (h : GenEP.ClientIDFromRequest now o r p = .ok (id, auth)) :
    (auth = true ∧ ∃ j, VerifyJWTAssertion now (o.tokenOf (r.Form.last "client_assertion")) (p.asProvider now).JWTProfileVerifier = .ok j ∧ id = j.iss ∧
        ∃ cl, p.storage.base.GetClientByClientID id = .ok cl ∧ cl.auth = Const.AuthMethodPrivateKeyJWT)
    ∨ (auth = true ∧ (∃ sec, (credsOf o r).primary = some { clientID := id, secret := sec } ∧ p.storage.AuthorizeClientIDSecret id sec = .ok ()) ∧
        ∀ cl, p.storage.base.GetClientByClientID id = .ok cl → cl.auth = Const.AuthMethodPost → p.config.AuthMethodPost = true)
    ∨ (auth = false ∧ (credsOf o r).primary = some { clientID := id, secret := r.Form.last "client_secret" }) := by
  rw [SpecEP.ClientIDFromRequest_eq] at h; unfold SpecEP.ClientIDFromRequest at h
  split at h; · simp at h
  split at h; · simp at h
  rename_i data hdec
  obtain ⟨h1, _, h3, _⟩ := decode_ok hdec
  simp only [] at h
  split at h
  · -- assertion
    split at h; · simp at h
    rename_i id' hjwt
    split at h; · simp at h
    rename_i hpk
    simp at h
    obtain ⟨rfl, rfl⟩ := h
    obtain ⟨j, hv, hid⟩ := clientJWTAuth_ok hjwt
    left
    refine ⟨rfl, j, ?_, hid, checkPrivateKeyJWTClient_ok hpk⟩
    simpa [EPForm.ClientAssertionParams, h3] using hv
  · split at h
    · rename_i id' hba
      split at h; · simp at h
      rename_i hpost
      simp at h
      obtain ⟨rfl, rfl⟩ := h
      right; left
      exact ⟨rfl, clientBasicAuth_ok hba, checkAuthMethodPost_ok hpost⟩
    · rename_i err hba
      split at h; · simp at h
      rename_i hno
      split at h; · simp at h
      simp at h
      obtain ⟨rfl, rfl⟩ := h
      right; right
      have hb := clientBasicAuth_noCredentials hba (by simpa using hno)
      refine ⟨rfl, ?_⟩
      unfold credsOf; simp [hb, h1]

/-- a client authenticated through `ClientIDFromRequest`: registered, not public, and a credential of the request fits -/
theorem authenticated_clientID {now : Int} {o : EPOracles} {r : EPRequest} {x : EPProvider} {id : String}
    (h : GenEP.ClientIDFromRequest now o r x = .ok (id, true)) (hS : x.storage.secretCompareOnly = false) :
    ∃ cl, x.storage.base.GetClientByClientID id = .ok cl ∧ cl.auth ≠ Const.AuthMethodNone ∧ credsFit (cfgOf x) now cl (credsOf o r) = true := by
  rcases clientIDFromRequest_ok h with ⟨_, j, hv, hj, cl, hget, hpk⟩ | ⟨_, ⟨sec, hp, hsec⟩, hpost⟩ | ⟨hfalse, _⟩
  · subst hj
    exact ⟨cl, hget, by rw [hpk]; decide, fits_of_assertion (k := credsOf o r) rfl hv hget hpk⟩
  · rw [epSecret_strict hS] at hsec
    obtain ⟨c, hc, hauth, _⟩ := secret_ok hsec
    have hget := getClient_of_find hc
    refine ⟨c, hget, ?_, fits_of_secret hp hget hsec (hpost c hget)⟩
    rcases hauth with h' | h' <;> (rw [h']; decide)
  · simp at hfalse

/-- hypothesis of the `_partial` theorem for the device_code grant of the Provider router, which does not look at the client's
    registered grant types when it issues tokens (finding F-C05e): stored device authorizations belong to clients registered for the grant -/
def DeviceGrantsRegistered (x : EPProvider) : Prop :=
  ∀ d ∈ x.storage.devices, ∀ c, x.storage.base.clients.find? (·.id == d.state.ClientID) = some c → Const.GrantTypeDeviceCode ∈ c.grants

theorem checkDeviceState_ok {now : Int} {clientID code : String} {x : EPProvider} {st : DeviceAuthorizationState}
    (h : Hand.epCheckDeviceState now clientID code x = .ok st) :
    x.storage.is_DeviceAuthorizationStorage = true ∧ ∃ d ∈ x.storage.devices, d.state.ClientID = clientID := by
  unfold Hand.epCheckDeviceState at h; rw [SpecDev.CheckDeviceAuthorizationState_eq] at h; unfold SpecDev.CheckDeviceAuthorizationState at h; simp only [SpecDev.assertDeviceStorage_eq] at h; unfold SpecDev.assertDeviceStorage at h
  simp only [DevProvider.Storage, EPProvider.dev] at h
  split at h; · simp at h
  rename_i st0 hassert
  have hcap : x.storage.is_DeviceAuthorizationStorage = true := by
    cases hc : x.storage.is_DeviceAuthorizationStorage with
    | true => rfl
    | false => simp [hc] at hassert
  simp [hcap] at hassert; subst hassert
  split at h
  · split at h <;> simp at h
  · rename_i st1 hget
    refine ⟨hcap, ?_⟩
    unfold DevStore.GetDeviceAuthorizatonState at hget
    simp only [] at hget
    split at hget
    · rename_i e hf
      split at hget
      · rename_i hcl
        exact ⟨e, List.mem_of_find?_eq_some hf, by simpa using hcl⟩
      · simp at hget
    · simp at hget

theorem goodToken_deviceAccessToken {x : EPProvider} {now : Int} {o : EPOracles} {r : EPRequest}
    (hD : DeviceGrantsRegistered x) (hS : x.storage.secretCompareOnly = false) :
    GoodToken (cfgOf x) now (credsOf o r) Const.GrantTypeDeviceCode (GenEP.DeviceAccessToken now o r x) := by
  rw [SpecEP.DeviceAccessToken_eq]; unfold SpecEP.DeviceAccessToken
  split; · exact goodToken_requestError ..
  rename_i d hd
  rw [SpecEP.deviceAccessToken_eq] at hd; unfold SpecEP.deviceAccessToken at hd
  split at hd; · simp at hd
  rename_i id auth hcid
  split at hd; · simp at hd
  split at hd; · simp at hd
  rename_i st hst
  split at hd; · simp at hd
  rename_i client hget
  simp only [EPProvider.Storage, EPStorage.GetClientByClientID] at hget
  split at hd; · simp at hd
  rename_i hauth
  unfold Hand.epCreateDeviceTokenResponse Hand.epIssue at hd
  cases hct : x.storage.g.createTokens client.id with
  | error e => simp [hct] at hd
  | ok u =>
    simp [hct] at hd; subst hd
    obtain ⟨hcap, dv, hdv, hdc⟩ := checkDeviceState_ok hst
    obtain ⟨hfind0, hid⟩ := getClient_ok hget
    have hgr : Const.GrantTypeDeviceCode ∈ client.grants := hD dv hdv client (by rw [hdc]; exact hfind0)
    have hfit : credsFit (cfgOf x) now client (credsOf o r) = true := by
      cases auth with
      | true =>
        obtain ⟨cl, hgetcl, _, hfit⟩ := authenticated_clientID hcid hS
        rw [hget] at hgetcl; cases hgetcl; exact hfit
      | false =>
        rcases clientIDFromRequest_ok hcid with ⟨ht, _⟩ | ⟨ht, _⟩ | ⟨_, hp⟩
        · simp at ht
        · simp at ht
        · have hnone : client.auth = Const.AuthMethodNone := by
            simp only [OPClient.AuthMethod] at hauth
            simpa using hauth
          exact fits_of_public hp hget hnone
    show TokensOK _ _ _ _ _
    unfold TokensOK
    simp only [Const.GrantTypeDeviceCode, Const.GrantTypeBearer, Const.GrantTypeClientCredentials]
    refine ⟨client, getClient_find hget, hfit, ?_, ?_⟩
    · simp [grantEnabled, cfgOf, hcap]
    · simpa [Const.GrantTypeDeviceCode] using hgr

@[simp] theorem credsOf_parsed (o : EPOracles) (r : EPRequest) : credsOf o r.parsed = credsOf o r := rfl
@[simp] theorem grantOf_parsed (r : EPRequest) : grantOf r.parsed = grantOf r := rfl

/-- the grant switch of the Provider router: dispatch, flag / capability checks, and every grant handler -/
theorem goodToken_exchange {x : EPProvider} {now : Int} {o : EPOracles} {r : EPRequest}
    (hTE : grantOf r = Const.GrantTypeTokenExchange → NoEmptyID x)
    (hDev : grantOf r = Const.GrantTypeDeviceCode → DeviceGrantsRegistered x)
    (hS : grantOf r = Const.GrantTypeTokenExchange ∨ grantOf r = Const.GrantTypeDeviceCode → x.storage.secretCompareOnly = false) :
    GoodToken (cfgOf x) now (credsOf o r) (grantOf r) (GenEP.Exchange now o r x) := by
  rw [SpecEP.Exchange_eq]; unfold SpecEP.Exchange
  simp only []
  split
  · rename_i h; have h' : grantOf r = Const.GrantTypeCode := by simpa [grantOf, EPRequest.FormValue] using h
    rw [h']; exact goodToken_codeExchange
  split
  · rename_i _ h; have h' : grantOf r = Const.GrantTypeRefreshToken := by simpa [grantOf, EPRequest.FormValue] using h
    split
    · rename_i hen
      rw [h']; exact goodToken_refreshTokenExchange (by simpa [SpecEP.GrantTypeRefreshTokenSupported_eq, SpecEP.GrantTypeRefreshTokenSupported] using hen)
    · exact goodToken_requestError ..
  split
  · rename_i _ _ h; have h' : grantOf r = Const.GrantTypeBearer := by simpa [grantOf, EPRequest.FormValue] using h
    split
    · rw [h']; exact goodToken_jwtProfile
    · exact goodToken_requestError ..
  split
  · rename_i _ _ _ h; have h' : grantOf r = Const.GrantTypeTokenExchange := by simpa [grantOf, EPRequest.FormValue] using h
    split
    · rw [h']; exact goodToken_tokenExchange (hTE h') (hS (Or.inl h'))
    · exact goodToken_requestError ..
  split
  · rename_i _ _ _ _ h; have h' : grantOf r = Const.GrantTypeClientCredentials := by simpa [grantOf, EPRequest.FormValue] using h
    split
    · rw [h']; exact goodToken_clientCredentialsExchange
    · exact goodToken_requestError ..
  split
  · rename_i _ _ _ _ _ h; have h' : grantOf r = Const.GrantTypeDeviceCode := by simpa [grantOf, EPRequest.FormValue] using h
    split
    · rw [h']; exact goodToken_deviceAccessToken (hDev h') (hS (Or.inr h'))
    · exact goodToken_requestError ..
  split
  · exact goodToken_requestError ..
  · exact goodToken_requestError ..

/-! ## Provider router: introspection, revocation, device authorization -/

/-- a client authenticated by its secret, as `GoodIntrospect` / `GoodRevoke` need it -/
theorem secret_client {x : EPProvider} {now : Int} {k : Creds} {id sec : String}
    (hP : ∀ cl, x.storage.base.GetClientByClientID id = .ok cl → cl.auth = Const.AuthMethodPost → x.config.AuthMethodPost = true)
    (hp : k.primary = some { clientID := id, secret := sec }) (hsec : x.storage.AuthorizeClientIDSecret id sec = .ok ())
    (hS : x.storage.secretCompareOnly = true → sec ≠ "" ∧ NoStraySecrets x) :
    ∃ cl, (cfgOf x).base.clients.find? (·.id == id) = some cl ∧ cl.auth ≠ Const.AuthMethodNone ∧ credsFit (cfgOf x) now cl k = true := by
  obtain ⟨c, hc, hs, hauth⟩ := epSecret_ok hsec
  have hget := getClient_of_find hc
  have hmeth : c.auth ≠ Const.AuthMethodNone ∧ c.auth ≠ Const.AuthMethodPrivateKeyJWT := by
    rcases hauth with hl | h | h
    · -- the storage only compares: the presented secret is not empty, so the client has a stored secret
      obtain ⟨hne, hstray⟩ := hS hl
      have hmem := List.mem_of_find?_eq_some hc
      constructor
      · intro ha; exact hne (by rw [← hs]; exact hstray c hmem (Or.inl ha))
      · intro ha; exact hne (by rw [← hs]; exact hstray c hmem (Or.inr ha))
    · rw [h]; exact ⟨by decide, by decide⟩
    · rw [h]; exact ⟨by decide, by decide⟩
  exact ⟨c, hc, hmeth.1, fits_of_stored_secret hp (find_id hc) hs hmeth.1 hmeth.2 (hP c hget)⟩

theorem goodIntrospect_introspect {x : EPProvider} {now : Int} {o : EPOracles} {r : EPRequest}
    (hS : x.storage.secretCompareOnly = false) :
    GoodIntrospect (cfgOf x) now (credsOf o r) (GenEP.Introspect now o r x) := by
  rw [SpecEP.Introspect_eq]; unfold SpecEP.Introspect
  simp only []
  split; · trivial
  rename_i token clientID hparse
  split; · simp [Hand.epIntrospected]; trivial
  unfold EPStorage.SetIntrospectionFromToken
  split
  · simp [Hand.epIntrospected]; trivial
  · rename_i resp hset
    split at hset
    · simp at hset; subst hset
      simp only [Hand.epIntrospected]
      show ∃ cl, _
      rw [SpecEP.ParseTokenIntrospectionRequest_eq] at hparse; unfold SpecEP.ParseTokenIntrospectionRequest at hparse
      split at hparse; · simp at hparse
      rename_i id auth hcid
      split at hparse; · simp at hparse
      rename_i hauth
      split at hparse; · simp at hparse
      simp at hparse
      obtain ⟨_, rfl⟩ := hparse
      cases auth with
      | false => simp at hauth
      | true =>
        obtain ⟨cl, hget, hne, hfit⟩ := authenticated_clientID hcid hS
        obtain ⟨_, hid⟩ := getClient_ok hget
        exact ⟨cl, by simpa [hid] using getClient_find hget, hne, hfit⟩
    · simp at hset

theorem parseTokenRevocationRequest_ok {x : EPProvider} {now : Int} {o : EPOracles} {r : EPRequest} {tok hint id : String}
    (h : GenEP.ParseTokenRevocationRequest now o r x = .ok (tok, hint, id)) (hS : x.storage.secretCompareOnly = false) :
    ∃ cl, (cfgOf x).base.clients.find? (·.id == id) = some cl ∧ credsFit (cfgOf x) now cl (credsOf o r) = true := by
  rw [SpecEP.ParseTokenRevocationRequest_eq] at h; unfold SpecEP.ParseTokenRevocationRequest at h
  split at h; · simp at h
  split at h; · simp at h
  rename_i req hdec
  obtain ⟨h1, h2, h3, _⟩ := decode_ok hdec
  split at h
  · -- client assertion
    simp only [] at h
    split at h; · simp at h
    split at h; · simp at h
    rename_i tr hver
    split at h; · simp at h
    rename_i hpk
    simp at h
    obtain ⟨_, _, rfl⟩ := h
    rw [jwtProfileVerifier_eq now, h3] at hver
    obtain ⟨j, hv, hiss⟩ := epVerify_ok hver
    obtain ⟨cl, hget, hpkj⟩ := checkPrivateKeyJWTClient_ok hpk
    simp only [EPProvider.Storage] at hget
    rw [hiss] at hget ⊢
    obtain ⟨_, hid⟩ := getClient_ok hget
    exact ⟨cl, by simpa [hid] using getClient_find hget, fits_of_assertion (k := credsOf o r) rfl hv hget hpkj⟩
  · unfold EPRequest.BasicAuth at h
    obtain ⟨hnone, hsome⟩ := primary_of_basic_override (o := o) h1 h2
    cases hb : r.basic with
    | some up =>
      obtain ⟨u, p⟩ := up
      simp only [hb] at h
      simp at h
      split at h; · simp at h
      rename_i id' hu
      split at h; · simp at h
      rename_i sec hp
      split at h; · simp at h
      rename_i hsec
      split at h; · simp at h
      rename_i hpost
      simp at h
      obtain ⟨_, _, rfl⟩ := h
      obtain ⟨cl, hf, _, hfit⟩ := secret_client (now := now) (checkAuthMethodPost_ok hpost) (hsome u p id' sec hb hu hp) (genAuthorizeSecret_ok hsec)
        (fun hl => absurd hl (by simp [hS]))
      exact ⟨cl, hf, hfit⟩
    | none =>
      simp only [hb] at h
      simp at h
      have hprim := hnone hb
      split at h; · simp at h
      split at h; · simp at h
      rename_i client hget
      simp only [EPProvider.Storage, EPStorage.GetClientByClientID] at hget
      split at h
      · rename_i hempty
        by_cases hnone' : client.auth = Const.AuthMethodNone
        · simp [OPClient.AuthMethod, hnone'] at h
          obtain ⟨_, _, rfl⟩ := h
          obtain ⟨_, hid⟩ := getClient_ok hget
          exact ⟨client, by simpa [hid] using getClient_find hget, fits_of_public hprim hget hnone'⟩
        · simp [OPClient.AuthMethod, hnone'] at h
      · split at h; · simp at h
        rename_i hpost
        split at h; · simp at h
        rename_i hsec
        simp at h
        obtain ⟨_, _, rfl⟩ := h
        obtain ⟨_, hid⟩ := getClient_ok hget
        refine ⟨client, by simpa [hid] using getClient_find hget, fits_of_secret hprim hget (epSecret_strict hS _ _ ▸ genAuthorizeSecret_ok hsec) ?_⟩
        intro ha
        simp only [OPClient.AuthMethod, SpecEP.AuthMethodPostSupported_eq, SpecEP.AuthMethodPostSupported] at hpost
        simpa [ha] using hpost

theorem goodRevoke_revoke {x : EPProvider} {now : Int} {o : EPOracles} {r : EPRequest}
    (hS : x.storage.secretCompareOnly = false) :
    GoodRevoke (cfgOf x) now (credsOf o r) (GenEP.Revoke now o r x) := by
  rw [SpecEP.Revoke_eq]; unfold SpecEP.Revoke
  split; · exact goodRevoke_revocationRequestError ..
  rename_i tok hint id hparse
  have hok := parseTokenRevocationRequest_ok hparse hS
  have hdone : GoodRevoke (cfgOf x) now (credsOf o r) (Hand.epRevoked id Go.nil) := hok
  simp only []
  repeat' split
  all_goals first
    | exact goodRevoke_revocationRequestError ..
    | exact hdone

theorem goodDevice_deviceAuthorizationHandler {x : EPProvider} {now : Int} {o : EPOracles} {r : EPRequest} :
    GoodDevice (cfgOf x) (GenEP.DeviceAuthorizationHandler now o x r) := by
  rw [SpecEP.DeviceAuthorizationHandler_eq]; unfold SpecEP.DeviceAuthorizationHandler
  split; · exact goodDevice_requestError ..
  rename_i d hd
  rw [SpecEP.DeviceAuthorization_eq] at hd; unfold SpecEP.DeviceAuthorization at hd
  split at hd; · simp at hd
  rename_i req hparse
  split at hd; · simp at hd
  rename_i resp hcreate
  simp at hd; subst hd
  unfold Hand.epCreateDeviceAuthorization at hcreate
  have hcap : x.storage.is_DeviceAuthorizationStorage = true := by
    cases hc : x.storage.is_DeviceAuthorizationStorage with
    | true => rfl
    | false => simp [hc] at hcreate
  simp [hcap] at hcreate
  split at hcreate
  · simp at hcreate; subst hcreate
    rw [SpecEP.ParseDeviceCodeRequest_eq] at hparse; unfold SpecEP.ParseDeviceCodeRequest at hparse
    split at hparse; · simp at hparse
    rename_i id _ hcid
    split at hparse; · simp at hparse
    rename_i client hget
    simp only [EPProvider.Storage, EPStorage.GetClientByClientID] at hget
    split at hparse; · simp at hparse
    rename_i hgrant
    split at hparse; · simp at hparse
    simp at hparse; subst hparse
    obtain ⟨_, hid⟩ := getClient_ok hget
    have hgr : Const.GrantTypeDeviceCode ∈ client.grants := C04.validateGrantType_iff.1 (by simpa using hgrant)
    exact ⟨client, by simpa [hid] using getClient_find hget, hgr, hcap⟩
  · simp at hcreate

/-! ## Server router: `withClient` = parseClientCredentials + LegacyServer.VerifyClient + the registered-grant check -/

theorem parseClientCredentials_ok {now : Int} {o : EPOracles} {s : EPWebServer} {r : EPRequest} {cc : EPForm}
    (h : GenEP.parseClientCredentials now o s r = .ok cc) :
    (credsOf o r).primary = some { clientID := cc.ClientID, secret := cc.ClientSecret } ∧
    cc.ClientAssertion = r.Form.last "client_assertion" := by
  rw [SpecEP.parseClientCredentials_eq] at h; unfold SpecEP.parseClientCredentials at h
  split at h; · simp at h
  split at h; · simp at h
  rename_i f1 hdec
  obtain ⟨h1, h2, h3, _⟩ := decode_ok hdec
  obtain ⟨hnone, hsome⟩ := primary_of_basic_override (o := o) h1 h2
  unfold EPRequest.BasicAuth at h
  -- shape-independent from here on: every branch of the two guards is either an error or returns the (overridden) record
  cases hb : r.basic with
  | none =>
    simp only [hb] at h
    simp at h
    have hprim := hnone hb
    repeat' (split at h)
    all_goals first
      | (simp at h; done)
      | (simp at h; subst h; exact ⟨hprim, h3⟩)
  | some up =>
    obtain ⟨u, p⟩ := up
    simp only [hb] at h
    simp at h
    repeat' (split at h)
    all_goals first
      | (simp at h; done)
      | (simp at h; subst h; exact ⟨hsome u p _ _ hb (by assumption) (by assumption), h3⟩)

/-- characterisation of `LegacyServer.authenticateResourceClient` (shape-independent proof): an assertion, when present, decides
    alone (ClientJWTAuth + the private_key_jwt registration check); otherwise the storage's secret check + the POST-method check -/
theorem authenticateResourceClient_ok {now : Int} {o : EPOracles} {s : EPLegacyServer} {cc : EPForm} {id : String} :
    GenEP.authenticateResourceClient now o s cc = .ok id →
    (cc.ClientAssertion ≠ "" ∧ s.provider.is_ClientJWTProfile = true ∧
        GenEP.ClientJWTAuth now o ({ ClientAssertion := cc.ClientAssertion } : EPForm) s.provider = .ok id ∧
        GenEP.checkPrivateKeyJWTClient now id s.provider.Storage = .ok ())
    ∨ (cc.ClientAssertion = "" ∧ id = cc.ClientID ∧ s.provider.Storage.AuthorizeClientIDSecret cc.ClientID cc.ClientSecret = .ok () ∧
        GenEP.checkAuthMethodPost now cc.ClientID s.provider = .ok ()) := by
  rw [SpecEP.authenticateResourceClient_eq]; unfold SpecEP.authenticateResourceClient
  go_leaf

/-- hypothesis of the `_partial` theorem for finding F-C05g: every client registered for the client_credentials grant authenticates
    with a secret (and, if by client_secret_post, that method is enabled) - then the storage's secret comparison, to which a
    `grant_type=client_credentials` parameter switches VerifyClient at ANY endpoint, is the authentication it is registered for -/
def CCClientsBySecret (x : EPProvider) : Prop :=
  ∀ c ∈ x.storage.base.clients, Const.GrantTypeClientCredentials ∈ c.grants →
    c.auth ≠ Const.AuthMethodPrivateKeyJWT ∧ (c.auth = Const.AuthMethodPost → x.config.AuthMethodPost = true)

/-- what `withClient` knows about the client it hands to a handler, for a request whose `grant_type` parameter is `g` -/
def Verified (x : EPProvider) (now : Int) (k : Creds) (g : String) (c : OPClient) : Prop :=
  (cfgOf x).base.clients.find? (·.id == c.id) = some c ∧
  ((g = Const.GrantTypeClientCredentials ∧ x.storage.is_ClientCredentialsStorage = true ∧ Const.GrantTypeClientCredentials ∈ c.grants ∧
      ∃ p, k.primary = some p ∧ p.clientID = c.id ∧ c.secret = p.secret)
   ∨ (g ≠ Const.GrantTypeClientCredentials ∧ credsFit (cfgOf x) now c k = true))

theorem verifyRequestClient_ok {x : EPProvider} {now : Int} {o : EPOracles} {r : EPRequest} {c : OPClient}
    (h : GenEP.verifyRequestClient now o (EP.webServer x) r = .ok c) :
    Verified x now (credsOf o r) (grantOf r) c := by
  rw [SpecEP.verifyRequestClient_eq] at h; unfold SpecEP.verifyRequestClient at h
  split at h; · simp at h
  rename_i cc hparse
  obtain ⟨hprim, hass⟩ := parseClientCredentials_ok hparse
  unfold Hand.epVerifyClient at h
  split at h
  · rename_i c' hv
    simp at h; subst h
    have hform : (({ kv := r.Form.kv } : FormVals).Get "grant_type") = grantOf r := rfl
    by_cases hgcc : grantOf r = Const.GrantTypeClientCredentials
    · -- grant_type=client_credentials: VerifyClient is the storage's ClientCredentials
      have hv' := hv
      rw [SpecTok.LegacyVerifyClient_eq] at hv'; unfold SpecTok.LegacyVerifyClient at hv'
      simp only [hform, hgcc, beq_self_eq_true, if_true] at hv'
      simp only [Provider.Storage] at hv'
      have hcap : x.storage.is_ClientCredentialsStorage = true := by
        cases hc : x.storage.is_ClientCredentialsStorage with
        | true => rfl
        | false => simp [EP.webServer, EPStorage.store, hc] at hv'
      simp [EP.webServer, EPStorage.store, hcap] at hv'
      obtain ⟨hfind, hid, hsec, hgr⟩ := clientCredentials_ok hv'
      refine ⟨?_, Or.inl ⟨hgcc, hcap, hgr, _, hprim, ?_, ?_⟩⟩
      · simpa [cfgOf, hid, Hand.epClientCredentials] using hfind
      · simpa [Hand.epClientCredentials] using hid.symm
      · simpa [Hand.epClientCredentials] using hsec
    · rcases legacyVerifyClient_ok hv with ⟨hg, _, _⟩ | ⟨_, _, hpk⟩ | ⟨hget, hauth⟩
      · exact absurd (by simpa [hform] using hg) hgcc
      · obtain ⟨j, hvj, hgetj, hpkj, _⟩ := C14.c14_private_key_client hpk
        simp only [EP.webServer, asProvider_store, store_getClient, Hand.epClientCredentials] at hgetj hvj
        have hfit := fits_of_assertion (k := credsOf o r) (t := o.tokenOf cc.ClientAssertion) (by rw [hass]; rfl) hvj hgetj hpkj
        exact ⟨getClient_find hgetj, Or.inr ⟨hgcc, hfit⟩⟩
      · simp only [EP.webServer, asProvider_store, store_getClient, Hand.epClientCredentials] at hget
        refine ⟨getClient_find hget, Or.inr ⟨hgcc, ?_⟩⟩
        rcases hauth with hnone | ⟨_, hpost, hsec⟩
        · exact fits_of_public hprim hget hnone
        · simp only [EP.webServer, asProvider_store, store_authSecret, Hand.epClientCredentials, asProvider_post] at hsec hpost
          exact fits_of_secret hprim hget hsec hpost
  · split at h <;> simp at h

/-- `withClient` answers with an error document, or hands the request to its handler together with a verified client that is
    registered for the request's `grant_type` (when the request carries one) -/
theorem withClient_cases {x : EPProvider} {now : Int} {o : EPOracles} {r : EPRequest} {handler : EPRequest → OPClient → EPResp}
    (P : EPResp → Prop) (herr : ∀ err, P (GenEP.WriteError now r err))
    (hok : ∀ client, Verified x now (credsOf o r) (grantOf r) client → (grantOf r ≠ "" → grantOf r ∈ client.grants) → P (handler r client)) :
    P (GenEP.withClient now o (EP.webServer x) handler r) := by
  rw [SpecEP.withClient_eq]; unfold SpecEP.withClient
  split; · exact herr _
  rename_i client hv
  have hver := verifyRequestClient_ok hv
  simp only []
  split
  · rename_i hne
    split
    · exact herr _
    · rename_i hgr
      apply hok client hver
      intro _
      exact C04.validateGrantType_iff.1 (by simpa [grantOf] using hgr)
  · rename_i hempty
    apply hok client hver
    intro hne
    exact absurd (by simpa [grantOf] using hempty) hne

/-- the token response of a Server-router grant handler for the verified client -/
theorem tokensOK_of_verified {x : EPProvider} {now : Int} {k : Creds} {g : String} {c : OPClient}
    (hv : Verified x now k g c) (hg : g ∈ c.grants) (hne : g ≠ Const.GrantTypeBearer) (hen : grantEnabled (cfgOf x) g = true) :
    TokensOK (cfgOf x) now k g c.id := by
  unfold TokensOK
  simp only [hne, if_false]
  refine ⟨c, hv.1, ?_⟩
  rcases hv.2 with ⟨hcc, hcap, hgr, hp⟩ | ⟨hncc, hfit⟩
  · simp only [hcc, if_true]
    exact ⟨by simpa [cfgOf] using hcap, hgr, hp⟩
  · simp only [hncc, if_false]
    exact ⟨hfit, hen, hg⟩

/-! ## Server router: the grant handlers -/

theorem codeExchangeHandler_shape {x : EPProvider} {now : Int} {o : EPOracles} {r : EPRequest} {c : OPClient} :
    (∃ err, GenEP.codeExchangeHandler now o (EP.webServer x) r c = GenEP.WriteError now r err) ∨
    GenEP.codeExchangeHandler now o (EP.webServer x) r c = .ok (.tokens Const.GrantTypeCode c.id) := by
  rw [SpecEP.codeExchangeHandler_eq]; unfold SpecEP.codeExchangeHandler
  split; · exact Or.inl ⟨_, rfl⟩
  split; · exact Or.inl ⟨_, rfl⟩
  split; · exact Or.inl ⟨_, rfl⟩
  split
  · exact Or.inl ⟨_, rfl⟩
  · rename_i resp hresp
    right
    unfold Hand.epLegacyCodeExchange Hand.epIssue at hresp
    split at hresp
    · split at hresp
      · simp [Hand.epNewClientRequest] at hresp; subst hresp; rfl
      · simp at hresp
    · simp at hresp

theorem refreshTokenHandler_shape {x : EPProvider} {now : Int} {o : EPOracles} {r : EPRequest} {c : OPClient} :
    (∃ err, GenEP.refreshTokenHandler now o (EP.webServer x) r c = GenEP.WriteError now r err) ∨
    (GenEP.refreshTokenHandler now o (EP.webServer x) r c = .ok (.tokens Const.GrantTypeRefreshToken c.id) ∧
      x.config.GrantTypeRefreshToken = true) := by
  rw [SpecEP.refreshTokenHandler_eq]; unfold SpecEP.refreshTokenHandler
  split; · exact Or.inl ⟨_, rfl⟩
  split; · exact Or.inl ⟨_, rfl⟩
  split
  · exact Or.inl ⟨_, rfl⟩
  · rename_i resp hresp
    right
    unfold Hand.epLegacyRefreshToken Hand.epIssue at hresp
    split at hresp
    · rename_i i hi
      have hsup : x.config.GrantTypeRefreshToken = true := by
        rw [SpecTok.LegacyRefreshToken_eq] at hi; unfold SpecTok.LegacyRefreshToken at hi
        simp only [Provider.GrantTypeRefreshTokenSupported] at hi
        cases hc : x.config.GrantTypeRefreshToken with
        | true => rfl
        | false => simp [EP.webServer, EPProvider.asProvider, SpecEP.GrantTypeRefreshTokenSupported_eq, SpecEP.GrantTypeRefreshTokenSupported, hc] at hi
      split at hresp
      · simp [Hand.epNewClientRequest] at hresp; subst hresp; exact ⟨rfl, hsup⟩
      · simp at hresp
    · simp at hresp

theorem tokenExchangeHandler_shape {x : EPProvider} {now : Int} {o : EPOracles} {r : EPRequest} {c : OPClient} :
    (∃ err, GenEP.tokenExchangeHandler now o (EP.webServer x) r c = GenEP.WriteError now r err) ∨
    (GenEP.tokenExchangeHandler now o (EP.webServer x) r c = .ok (.tokens Const.GrantTypeTokenExchange c.id) ∧
      x.storage.is_TokenExchangeStorage = true) := by
  rw [SpecEP.tokenExchangeHandler_eq]; unfold SpecEP.tokenExchangeHandler
  split; · exact Or.inl ⟨_, rfl⟩
  split; · exact Or.inl ⟨_, rfl⟩
  split; · exact Or.inl ⟨_, rfl⟩
  split; · exact Or.inl ⟨_, rfl⟩
  split; · exact Or.inl ⟨_, rfl⟩
  split; · exact Or.inl ⟨_, rfl⟩
  split; · exact Or.inl ⟨_, rfl⟩
  split
  · exact Or.inl ⟨_, rfl⟩
  · rename_i resp hresp
    right
    rw [SpecEP.LegacyTokenExchange_eq] at hresp; unfold SpecEP.LegacyTokenExchange at hresp
    have hcap : x.storage.is_TokenExchangeStorage = true := by
      cases hc : x.storage.is_TokenExchangeStorage with
      | true => rfl
      | false => simp [EP.webServer, SpecEP.GrantTypeTokenExchangeSupported_eq, SpecEP.GrantTypeTokenExchangeSupported, hc] at hresp
    simp [EP.webServer, SpecEP.GrantTypeTokenExchangeSupported_eq, SpecEP.GrantTypeTokenExchangeSupported, hcap] at hresp
    split at hresp; · simp at hresp
    unfold Hand.epCreateTokenExchangeResponse Hand.epIssue at hresp
    split at hresp; · simp at hresp
    rename_i d hd
    split at hd
    · simp [Hand.epNewClientRequest, Hand.NewResponse] at hd hresp; subst hd; subst hresp; exact ⟨rfl, hcap⟩
    · simp at hd

theorem deviceTokenHandler_shape {x : EPProvider} {now : Int} {o : EPOracles} {r : EPRequest} {c : OPClient} :
    (∃ err, GenEP.deviceTokenHandler now o (EP.webServer x) r c = GenEP.WriteError now r err) ∨
    (GenEP.deviceTokenHandler now o (EP.webServer x) r c = .ok (.tokens Const.GrantTypeDeviceCode c.id) ∧
      x.storage.is_DeviceAuthorizationStorage = true) := by
  rw [SpecEP.deviceTokenHandler_eq]; unfold SpecEP.deviceTokenHandler
  split; · exact Or.inl ⟨_, rfl⟩
  split; · exact Or.inl ⟨_, rfl⟩
  split
  · exact Or.inl ⟨_, rfl⟩
  · rename_i resp hresp
    right
    rw [SpecEP.LegacyDeviceToken_eq] at hresp; unfold SpecEP.LegacyDeviceToken at hresp
    have hcap : x.storage.is_DeviceAuthorizationStorage = true := by
      cases hc : x.storage.is_DeviceAuthorizationStorage with
      | true => rfl
      | false => simp [EP.webServer, SpecEP.GrantTypeDeviceCodeSupported_eq, SpecEP.GrantTypeDeviceCodeSupported, hc] at hresp
    simp [EP.webServer, SpecEP.GrantTypeDeviceCodeSupported_eq, SpecEP.GrantTypeDeviceCodeSupported, hcap] at hresp
    split at hresp; · simp at hresp
    unfold Hand.epCreateDeviceTokenResponse Hand.epIssue at hresp
    split at hresp; · simp at hresp
    rename_i d hd
    split at hd
    · simp [Hand.epNewClientRequest, Hand.NewResponse] at hd hresp; subst hd; subst hresp; exact ⟨rfl, hcap⟩
    · simp at hd

theorem clientCredentialsHandler_shape {x : EPProvider} {now : Int} {o : EPOracles} {r : EPRequest} {c : OPClient} :
    (∃ err, GenEP.clientCredentialsHandler now o (EP.webServer x) r c = GenEP.WriteError now r err) ∨
    GenEP.clientCredentialsHandler now o (EP.webServer x) r c = .ok (.tokens Const.GrantTypeClientCredentials c.id) := by
  rw [SpecEP.clientCredentialsHandler_eq]; unfold SpecEP.clientCredentialsHandler
  split; · exact Or.inl ⟨_, rfl⟩
  split; · exact Or.inl ⟨_, rfl⟩
  split
  · exact Or.inl ⟨_, rfl⟩
  · rename_i resp hresp
    right
    rw [SpecEP.LegacyClientCredentialsExchange_eq] at hresp; unfold SpecEP.LegacyClientCredentialsExchange at hresp
    simp only [] at hresp
    split at hresp; · simp at hresp
    split at hresp; · simp at hresp
    unfold Hand.epCreateClientCredentialsTokenResponse Hand.epIssue at hresp
    split at hresp; · simp at hresp
    rename_i d hd
    split at hd
    · simp [Hand.epNewClientRequest, Hand.NewResponse] at hd hresp; subst hd; subst hresp; rfl
    · simp at hd

theorem goodToken_jwtProfileHandler {x : EPProvider} {now : Int} {o : EPOracles} {r : EPRequest} :
    GoodToken (cfgOf x) now (credsOf o r) Const.GrantTypeBearer (GenEP.jwtProfileHandler now o (EP.webServer x) r) := by
  rw [SpecEP.jwtProfileHandler_eq]; unfold SpecEP.jwtProfileHandler
  split; · exact goodToken_writeError ..
  rename_i f hdec
  split; · exact goodToken_writeError ..
  split; · exact goodToken_writeError ..
  rename_i resp hresp
  rw [SpecEP.LegacyJWTProfile_eq] at hresp; unfold SpecEP.LegacyJWTProfile at hresp
  simp only [] at hresp
  split at hresp; · simp at hresp
  split at hresp; · simp at hresp
  rename_i tr hver
  split at hresp; · simp at hresp
  unfold Hand.epCreateJWTTokenResponse Hand.epIssue at hresp
  simp only [] at hresp
  split at hresp; · simp at hresp
  rename_i d hd
  split at hd
  · simp [Hand.NewResponse] at hd hresp; subst hd; subst hresp
    rw [SpecEP.decodeRequest_eq] at hdec; unfold SpecEP.decodeRequest at hdec
    split at hdec; · simp at hdec
    simp only [Bool.false_eq_true, if_false] at hdec
    split at hdec; · simp at hdec
    rename_i f1 hd1
    simp at hdec; subst hdec
    obtain ⟨_, _, _, hass⟩ := decode_ok hd1
    simp only [EP.webServer, Hand.epNewRequest] at hver
    rw [jwtProfileVerifier_eq now] at hver
    obtain ⟨j, hv, hiss⟩ := epVerify_ok hver
    show TokensOK _ _ _ _ _
    unfold TokensOK
    simp only [if_true]
    refine ⟨o.tokenOf (r.Form.last "assertion"), rfl, ?_⟩
    rw [hiss, ← hass]
    exact provesClient_of_verify hv
  · simp at hd

/-- the grant switch of the Server router -/
theorem goodToken_tokensHandler {x : EPProvider} {now : Int} {o : EPOracles} {r : EPRequest} :
    GoodToken (cfgOf x) now (credsOf o r) (grantOf r) (GenEP.tokensHandler now o (EP.webServer x) r) := by
  rw [SpecEP.tokensHandler_eq]; unfold SpecEP.tokensHandler
  split; · exact goodToken_writeError ..
  simp only []
  split
  · rename_i h; have h' : grantOf r = Const.GrantTypeCode := by simpa [grantOf] using h
    apply withClient_cases (P := GoodToken (cfgOf x) now (credsOf o r) (grantOf r)) (fun err => goodToken_writeError ..)
    intro c hv hg
    rcases codeExchangeHandler_shape (x := x) (now := now) (o := o) (r := r) (c := c) with ⟨err, he⟩ | he
    · rw [he]; exact goodToken_writeError ..
    · rw [he]
      have hne : grantOf r ≠ "" := by rw [h']; decide
      exact h' ▸ tokensOK_of_verified hv (hg hne) (by rw [h']; decide) (by rw [h']; rfl)
  split
  · rename_i _ h; have h' : grantOf r = Const.GrantTypeRefreshToken := by simpa [grantOf] using h
    apply withClient_cases (P := GoodToken (cfgOf x) now (credsOf o r) (grantOf r)) (fun err => goodToken_writeError ..)
    intro c hv hg
    rcases refreshTokenHandler_shape (x := x) (now := now) (o := o) (r := r) (c := c) with ⟨err, he⟩ | ⟨he, hen⟩
    · rw [he]; exact goodToken_writeError ..
    · rw [he]
      have hne : grantOf r ≠ "" := by rw [h']; decide
      exact h' ▸ tokensOK_of_verified hv (hg hne) (by rw [h']; decide) (by rw [h']; simp [grantEnabled, cfgOf, hen, Const.GrantTypeRefreshToken])
  split
  · rename_i _ _ h; have h' : grantOf r = Const.GrantTypeClientCredentials := by simpa [grantOf] using h
    apply withClient_cases (P := GoodToken (cfgOf x) now (credsOf o r) (grantOf r)) (fun err => goodToken_writeError ..)
    intro c hv hg
    rcases clientCredentialsHandler_shape (x := x) (now := now) (o := o) (r := r) (c := c) with ⟨err, he⟩ | he
    · rw [he]; exact goodToken_writeError ..
    · rw [he]
      have hne : grantOf r ≠ "" := by rw [h']; decide
      have hcap : grantEnabled (cfgOf x) (grantOf r) = true := by
        rcases hv.2 with ⟨_, hcap, _⟩ | ⟨hncc, _⟩
        · rw [h']; simp [grantEnabled, cfgOf, hcap, Const.GrantTypeClientCredentials]
        · exact absurd h' hncc
      exact h' ▸ tokensOK_of_verified hv (hg hne) (by rw [h']; decide) hcap
  split
  · rename_i _ _ _ h; have h' : grantOf r = Const.GrantTypeBearer := by simpa [grantOf] using h
    rw [h']; exact goodToken_jwtProfileHandler
  split
  · rename_i _ _ _ _ h; have h' : grantOf r = Const.GrantTypeTokenExchange := by simpa [grantOf] using h
    apply withClient_cases (P := GoodToken (cfgOf x) now (credsOf o r) (grantOf r)) (fun err => goodToken_writeError ..)
    intro c hv hg
    rcases tokenExchangeHandler_shape (x := x) (now := now) (o := o) (r := r) (c := c) with ⟨err, he⟩ | ⟨he, hen⟩
    · rw [he]; exact goodToken_writeError ..
    · rw [he]
      have hne : grantOf r ≠ "" := by rw [h']; decide
      exact h' ▸ tokensOK_of_verified hv (hg hne) (by rw [h']; decide) (by rw [h']; simp [grantEnabled, cfgOf, hen, Const.GrantTypeTokenExchange])
  split
  · rename_i _ _ _ _ _ h; have h' : grantOf r = Const.GrantTypeDeviceCode := by simpa [grantOf] using h
    apply withClient_cases (P := GoodToken (cfgOf x) now (credsOf o r) (grantOf r)) (fun err => goodToken_writeError ..)
    intro c hv hg
    rcases deviceTokenHandler_shape (x := x) (now := now) (o := o) (r := r) (c := c) with ⟨err, he⟩ | ⟨he, hen⟩
    · rw [he]; exact goodToken_writeError ..
    · rw [he]
      have hne : grantOf r ≠ "" := by rw [h']; decide
      exact h' ▸ tokensOK_of_verified hv (hg hne) (by rw [h']; decide) (by rw [h']; simp [grantEnabled, cfgOf, hen, Const.GrantTypeDeviceCode])
  split
  · exact goodToken_writeError ..
  · exact goodToken_writeError ..

/-! ## Server router: introspection, revocation, device authorization -/

/-- what `webServer.introspectionHandler` computes, written by hand; `introspectionHandler_eq` (shape-independent proof) ties the
    regenerated definition to it, every theorem about the handler is proved on this function -/
def introspectionHandlerSpec (now : Int) (o : EPOracles) (s : EPWebServer) (r : EPRequest) : EPResp :=
  match GenEP.parseClientCredentials now o s r with
  | .error err => GenEP.WriteError now r err
  | .ok cc =>
    -- "client must be authenticated"
    if cc.ClientSecret = "" ∧ cc.ClientAssertion = "" then GenEP.WriteError now r "ErrInvalidClient" else
    match GenEP.decodeRequest now s.decoder r false with
    | .error err => GenEP.WriteError now r err
    | .ok request =>
      if request.Token = "" then GenEP.WriteError now r "ErrInvalidRequest" else
      match GenEP.LegacyIntrospect now o s.server (Hand.epNewRequest r (EPIntrospectionRequest.mk cc request)) with
      | .error err => GenEP.WriteError now r err
      | .ok resp => Hand.epIntrospected resp

theorem introspectionHandler_eq (now : Int) (o : EPOracles) (s : EPWebServer) (r : EPRequest) :
    GenEP.introspectionHandler now o s r = introspectionHandlerSpec now o s r := by
  rw [SpecEP.introspectionHandler_eq]; unfold SpecEP.introspectionHandler; unfold introspectionHandlerSpec
  go_leaf

theorem goodIntrospect_introspectionHandler {x : EPProvider} {now : Int} {o : EPOracles} {r : EPRequest}
    (hStray : x.storage.secretCompareOnly = true → NoStraySecrets x) :
    GoodIntrospect (cfgOf x) now (credsOf o r) (GenEP.introspectionHandler now o (EP.webServer x) r) := by
  rw [introspectionHandler_eq]
  unfold introspectionHandlerSpec
  split; · exact goodIntrospect_writeError ..
  rename_i cc hparse
  obtain ⟨hprim, hass⟩ := parseClientCredentials_ok hparse
  split; · exact goodIntrospect_writeError ..
  -- "client must be authenticated": past this guard the request carries a secret or an assertion
  rename_i hguard
  split; · exact goodIntrospect_writeError ..
  split; · exact goodIntrospect_writeError ..
  split; · exact goodIntrospect_writeError ..
  rename_i resp hresp
  rw [SpecEP.LegacyIntrospect_eq] at hresp; unfold SpecEP.LegacyIntrospect at hresp
  split at hresp; · simp at hresp
  rename_i clientID hauth
  simp only [Hand.epNewRequest] at hauth
  have hclient : ∃ cl, (cfgOf x).base.clients.find? (·.id == clientID) = some cl ∧ cl.auth ≠ Const.AuthMethodNone ∧
      credsFit (cfgOf x) now cl (credsOf o r) = true := by
    rcases authenticateResourceClient_ok hauth with ⟨_, _, hjwt, hpk⟩ | ⟨ha, hid, hsec, hpost⟩
    · obtain ⟨j, hv, hj⟩ := clientJWTAuth_ok hjwt
      simp only [hass] at hv
      obtain ⟨cl, hget, hpkj⟩ := checkPrivateKeyJWTClient_ok hpk
      simp only [EPProvider.Storage, EP.webServer] at hget
      subst hj
      obtain ⟨_, hid⟩ := getClient_ok hget
      exact ⟨cl, by simpa [hid] using getClient_find hget, by rw [hpkj]; decide, fits_of_assertion (k := credsOf o r) rfl hv hget hpkj⟩
    · subst hid
      have hne : cc.ClientSecret ≠ "" := by
        intro he
        simp [he, ha] at hguard
      exact secret_client (checkAuthMethodPost_ok hpost) hprim hsec (fun hl => ⟨hne, hStray hl⟩)
  simp only [] at hresp
  split at hresp
  · simp [Hand.NewResponse] at hresp; subst hresp; simp [Hand.epIntrospected]; trivial
  · unfold EPStorage.SetIntrospectionFromToken at hresp
    split at hresp
    · simp [Hand.NewResponse] at hresp; subst hresp; simp [Hand.epIntrospected]; trivial
    · rename_i resp' hset
      split at hset
      · simp at hset; subst hset
        simp [Hand.NewResponse] at hresp; subst hresp
        simp only [Hand.epIntrospected]
        exact hclient
      · simp at hset

theorem goodRevoke_revocationHandler {x : EPProvider} {now : Int} {o : EPOracles} {r : EPRequest} {c : OPClient}
    (hv : Verified x now (credsOf o r) (grantOf r) c) (hcc : grantOf r = Const.GrantTypeClientCredentials → CCClientsBySecret x) :
    GoodRevoke (cfgOf x) now (credsOf o r) (GenEP.revocationHandler now o (EP.webServer x) r c) := by
  have hfit : credsFit (cfgOf x) now c (credsOf o r) = true := by
    rcases hv.2 with ⟨hg, _, hgr, p, hp, hid, hsec⟩ | ⟨_, hfit⟩
    · -- `grant_type=client_credentials` in a revocation request: the storage compared the secret (F-C05g)
      obtain ⟨hnpk, hpost⟩ := hcc hg c (List.mem_of_find?_eq_some hv.1) hgr
      exact fits_of_presented hp hid.symm hsec hnpk hpost
    · exact hfit
  rw [SpecEP.revocationHandler_eq]; unfold SpecEP.revocationHandler
  split; · exact goodRevoke_writeError ..
  split; · exact goodRevoke_writeError ..
  split; · exact goodRevoke_writeError ..
  rename_i resp hresp
  have : resp = .revoked c.id := by
    rw [SpecEP.LegacyRevocation_eq] at hresp; unfold SpecEP.LegacyRevocation at hresp
    simp only [] at hresp
    repeat' (split at hresp)
    all_goals first
      | (simp at hresp; done)
      | (simp [Hand.epRevokedFor, Hand.epNewClientRequest] at hresp; exact hresp.symm)
  subst this
  exact ⟨c, hv.1, hfit⟩

theorem goodDevice_deviceAuthorizationHandler_legacy {x : EPProvider} {now : Int} {o : EPOracles} {r : EPRequest} {c : OPClient}
    {k : Creds} {g : String} (hv : Verified x now k g c) :
    GoodDevice (cfgOf x) (GenEP.deviceAuthorizationHandler now o (EP.webServer x) r c) := by
  rw [SpecEP.deviceAuthorizationHandler_eq]; unfold SpecEP.deviceAuthorizationHandler
  split; · exact goodDevice_writeError ..
  split; · exact goodDevice_writeError ..
  rename_i resp hresp
  rw [SpecEP.LegacyDeviceAuthorization_eq] at hresp; unfold SpecEP.LegacyDeviceAuthorization at hresp
  split at hresp; · simp at hresp
  rename_i hgrant
  split at hresp; · simp at hresp
  rename_i resp' hcreate
  simp [Hand.NewResponse] at hresp; subst hresp
  unfold Hand.epCreateDeviceAuthorization at hcreate
  have hcap : x.storage.is_DeviceAuthorizationStorage = true := by
    cases hc : x.storage.is_DeviceAuthorizationStorage with
    | true => rfl
    | false => simp [EP.webServer, hc] at hcreate
  simp [EP.webServer, hcap] at hcreate
  split at hcreate
  · simp [Hand.epNewClientRequest, OPClient.GetID] at hcreate; subst hcreate
    have hgr : Const.GrantTypeDeviceCode ∈ c.grants := C04.validateGrantType_iff.1 (by simpa [Hand.epNewClientRequest] using hgrant)
    exact ⟨c, hv.1, hgr, hcap⟩
  · simp at hcreate

/-! ## the routers: which regenerated handler answers which endpoint (read from the regenerated route tables) -/

theorem decision_provider_token (now : Int) (x : EPProvider) (o : EPOracles) (r : EPRequest) :
    EP.endpointDecision now .provider x o .token r = GenEP.Exchange now o r.parsed x := by
  simp [EP.endpointDecision, EP.routes, EP.routeKey, GenEP.providerRoutes, EP.handlerOf, SpecEP.tokenHandler_eq, SpecEP.tokenHandler]
theorem decision_provider_introspect (now : Int) (x : EPProvider) (o : EPOracles) (r : EPRequest) :
    EP.endpointDecision now .provider x o .introspect r = GenEP.Introspect now o r x := by
  simp [EP.endpointDecision, EP.routes, EP.routeKey, GenEP.providerRoutes, EP.handlerOf, SpecEP.providerIntrospectionHandler_eq, SpecEP.providerIntrospectionHandler]
theorem decision_provider_revoke (now : Int) (x : EPProvider) (o : EPOracles) (r : EPRequest) :
    EP.endpointDecision now .provider x o .revoke r = GenEP.Revoke now o r x := by
  simp [EP.endpointDecision, EP.routes, EP.routeKey, GenEP.providerRoutes, EP.handlerOf, SpecEP.providerRevocationHandler_eq, SpecEP.providerRevocationHandler]
theorem decision_provider_device (now : Int) (x : EPProvider) (o : EPOracles) (r : EPRequest) :
    EP.endpointDecision now .provider x o .deviceAuthorization r = GenEP.DeviceAuthorizationHandler now o x r := by
  simp [EP.endpointDecision, EP.routes, EP.routeKey, GenEP.providerRoutes, EP.handlerOf]
theorem decision_legacy_token (now : Int) (x : EPProvider) (o : EPOracles) (r : EPRequest) :
    EP.endpointDecision now .legacy x o .token r = GenEP.tokensHandler now o (EP.webServer x) r := by
  simp [EP.endpointDecision, EP.routes, EP.routeKey, GenEP.serverRoutes, EP.handlerOf]
theorem decision_legacy_introspect (now : Int) (x : EPProvider) (o : EPOracles) (r : EPRequest) :
    EP.endpointDecision now .legacy x o .introspect r = GenEP.introspectionHandler now o (EP.webServer x) r := by
  simp [EP.endpointDecision, EP.routes, EP.routeKey, GenEP.serverRoutes, EP.handlerOf]
theorem decision_legacy_revoke (now : Int) (x : EPProvider) (o : EPOracles) (r : EPRequest) :
    EP.endpointDecision now .legacy x o .revoke r =
      GenEP.withClient now o (EP.webServer x) (GenEP.revocationHandler now o (EP.webServer x)) r := by
  simp [EP.endpointDecision, EP.routes, EP.routeKey, GenEP.serverRoutes, EP.handlerOf]
theorem decision_legacy_device (now : Int) (x : EPProvider) (o : EPOracles) (r : EPRequest) :
    EP.endpointDecision now .legacy x o .deviceAuthorization r =
      GenEP.withClient now o (EP.webServer x) (GenEP.deviceAuthorizationHandler now o (EP.webServer x)) r := by
  simp [EP.endpointDecision, EP.routes, EP.routeKey, GenEP.serverRoutes, EP.handlerOf]

/-! ## the property -/

/-- What the code needs in order to satisfy the monitor: each hypothesis names the paths on which it omits a check
    (findings F-C05e and F-C05g, see `c05_*_witness`); on every other path the theorem holds without it.
    * `device`  - F-C05e: the device_code grant of the Provider router does not consult the client's registered grant types
    * `ccParam` - F-C05g: `grant_type=client_credentials` in a revocation request switches VerifyClient to the storage's ClientCredentials;
      harmless when every client registered for that grant authenticates with a secret (`CCClientsBySecret`)
    * `noEmpty` - registered client ids are not empty (token exchange of the Provider router ignores the form's client_id)
    * `compareOnly` - F-C05h: the Provider router takes a successful `Storage.AuthorizeClientIDSecret` as authentication without
      looking at the client's registered method (introspection, revocation, token exchange, device_code grant); with a storage
      that only compares secrets (example/server/storage) the EMPTY secret of a public / private_key_jwt client passes
    * `stray` - Server router, introspection, same kind of storage: the "client must be authenticated" guard (a secret or an
      assertion is present) is enough provided registrations without a secret method have no stored secret
    (F-C05d - client_secret_post served while POST is disabled - and F-C05f - an assertion accepted for a client that is not
    registered for private_key_jwt - are repaired in the source: their hypotheses are gone.) -/
structure Assumptions (rt : Router) (x : EPProvider) (e : EP.Endpoint) (r : EPRequest) : Prop where
  device : rt = .provider → e = .token → grantOf r = Const.GrantTypeDeviceCode → DeviceGrantsRegistered x
  noEmpty : rt = .provider → e = .token → grantOf r = Const.GrantTypeTokenExchange → NoEmptyID x
  ccParam : rt = .legacy → e = .revoke → grantOf r = Const.GrantTypeClientCredentials → CCClientsBySecret x
  compareOnly : rt = .provider → (e = .introspect ∨ e = .revoke ∨
      (e = .token ∧ (grantOf r = Const.GrantTypeTokenExchange ∨ grantOf r = Const.GrantTypeDeviceCode))) → x.storage.secretCompareOnly = false
  stray : rt = .legacy → e = .introspect → x.storage.secretCompareOnly = true → NoStraySecrets x

/-- **C05 (partial: outside the two findings left on record).**  For BOTH routers, EVERY provider configuration (flags, storage
    capabilities), every set of registrations, stored codes / refresh tokens / device authorizations, every request (all strings,
    Basic header and form in any combination, grant_type anywhere) and every answer of the oracles (url.QueryUnescape, the JWT
    parsers, the grant logic behind authentication), the monitor accepts the response of the regenerated endpoint layer:
    a success (tokens / active introspection / revocation / device codes) names a client such that one credential of the request
    fits its registration, the grant is registered for it and enabled; a refusal on the token endpoint is an OAuth error document
    with a status ≥ 400; a refusal of a device authorization never has a 2xx status. -/
theorem c05_auth_required_partial (now : Int) (rt : Router) (x : EPProvider) (o : EPOracles) (e : EP.Endpoint) (r : EPRequest)
    (h : Assumptions rt x e r) :
    judge (cfgOf x) now (specEndpoint e r) (credsOf o r) (obsOf (EP.endpointDecision now rt x o e r)) = none := by
  cases rt <;> cases e
  · -- provider / token
    rw [decision_provider_token]
    have := goodToken_exchange (x := x) (now := now) (o := o) (r := r.parsed)
      (fun hg => h.noEmpty rfl rfl hg)
      (fun hg => h.device rfl rfl hg)
      (fun hg => h.compareOnly rfl (Or.inr (Or.inr ⟨rfl, hg⟩)))
    simpa [specEndpoint] using judge_token this
  · rw [decision_provider_introspect]
    exact judge_introspect (goodIntrospect_introspect (h.compareOnly rfl (Or.inl rfl)))
  · rw [decision_provider_revoke]
    exact judge_revoke (goodRevoke_revoke (h.compareOnly rfl (Or.inr (Or.inl rfl))))
  · rw [decision_provider_device]
    exact judge_device goodDevice_deviceAuthorizationHandler
  · rw [decision_legacy_token]
    exact judge_token goodToken_tokensHandler
  · rw [decision_legacy_introspect]
    exact judge_introspect (goodIntrospect_introspectionHandler (h.stray rfl rfl))
  · rw [decision_legacy_revoke]
    apply judge_revoke
    apply withClient_cases (P := GoodRevoke (cfgOf x) now (credsOf o r)) (fun err => goodRevoke_writeError ..)
    intro c hv _
    exact goodRevoke_revocationHandler hv (h.ccParam rfl rfl)
  · rw [decision_legacy_device]
    apply judge_device
    apply withClient_cases (P := GoodDevice (cfgOf x)) (fun err => goodDevice_writeError ..)
    intro c hv _
    exact goodDevice_deviceAuthorizationHandler_legacy hv

/-! ## every answer of the token endpoint is a token response or an OAuth error document with a status ≥ 400 (no hypotheses) -/

def TokShape : EPResp → Prop
  | .ok (.tokens _ _) => True
  | .json _ s => s ≥ 400
  | _ => False

theorem tokShape_requestError (now : Int) (r : EPRequest) (err : String) : TokShape (GenEP.RequestError now r err) := by
  obtain ⟨e, s, h, hs⟩ := requestError_shape now r err
  rw [h]; exact hs
theorem tokShape_writeError (now : Int) (r : EPRequest) (err : String) : TokShape (GenEP.WriteError now r err) := by
  obtain ⟨e, s, h, hs⟩ := writeError_shape now r err
  rw [h]; exact hs

theorem epIssue_ok {x : EPProvider} {g c : String} {d : EPDone} (h : Hand.epIssue x g c = .ok d) : d = .tokens g c := by
  unfold Hand.epIssue at h
  split at h <;> simp at h
  exact h.symm

theorem tokShape_ok_issue {x : EPProvider} {g c : String} {d : EPDone} (h : Hand.epIssue x g c = .ok d) : TokShape (.ok d) := by
  rw [epIssue_ok h]; trivial

theorem tokShape_codeExchange (now : Int) (o : EPOracles) (r : EPRequest) (x : EPProvider) : TokShape (GenEP.CodeExchange now o r x) := by
  rw [SpecEP.CodeExchange_eq]; unfold SpecEP.CodeExchange
  repeat' split
  all_goals first
    | exact tokShape_requestError ..
    | (rename_i h; exact tokShape_ok_issue h)

theorem tokShape_refreshTokenExchange (now : Int) (o : EPOracles) (r : EPRequest) (x : EPProvider) : TokShape (GenEP.RefreshTokenExchange now o r x) := by
  rw [SpecEP.RefreshTokenExchange_eq]; unfold SpecEP.RefreshTokenExchange
  repeat' split
  all_goals first
    | exact tokShape_requestError ..
    | (rename_i h; exact tokShape_ok_issue h)

theorem tokShape_clientCredentialsExchange (now : Int) (o : EPOracles) (r : EPRequest) (x : EPProvider) : TokShape (GenEP.ClientCredentialsExchange now o r x) := by
  rw [SpecEP.ClientCredentialsExchange_eq]; unfold SpecEP.ClientCredentialsExchange
  repeat' split
  all_goals first
    | exact tokShape_requestError ..
    | (rename_i h; exact tokShape_ok_issue h)

theorem tokShape_tokenExchange (now : Int) (o : EPOracles) (r : EPRequest) (x : EPProvider) : TokShape (GenEP.TokenExchange now o r x) := by
  rw [SpecEP.TokenExchange_eq]; unfold SpecEP.TokenExchange
  repeat' split
  all_goals first
    | exact tokShape_requestError ..
    | (rename_i h; exact tokShape_ok_issue h)

theorem tokShape_jwtProfile (now : Int) (o : EPOracles) (r : EPRequest) (x : EPProvider) : TokShape (GenEP.JWTProfile now o r x) := by
  rw [SpecEP.JWTProfile_eq]; unfold SpecEP.JWTProfile
  split; · exact tokShape_requestError ..
  split; · exact tokShape_requestError ..
  split; · exact tokShape_requestError ..
  simp only []
  split; · exact tokShape_requestError ..
  rename_i h; exact tokShape_ok_issue h

theorem tokShape_deviceAccessToken (now : Int) (o : EPOracles) (r : EPRequest) (x : EPProvider) : TokShape (GenEP.DeviceAccessToken now o r x) := by
  rw [SpecEP.DeviceAccessToken_eq]; unfold SpecEP.DeviceAccessToken
  split
  · exact tokShape_requestError ..
  · rename_i d hd
    rw [SpecEP.deviceAccessToken_eq] at hd; unfold SpecEP.deviceAccessToken at hd
    repeat' (split at hd)
    all_goals first
      | (simp at hd; done)
      | (rename_i h; simp at hd; subst hd; exact tokShape_ok_issue h)

theorem tokShape_exchange (now : Int) (o : EPOracles) (r : EPRequest) (x : EPProvider) : TokShape (GenEP.Exchange now o r x) := by
  rw [SpecEP.Exchange_eq]; unfold SpecEP.Exchange
  simp only []
  repeat' split
  all_goals first
    | exact tokShape_requestError ..
    | exact tokShape_codeExchange ..
    | exact tokShape_refreshTokenExchange ..
    | exact tokShape_clientCredentialsExchange ..
    | exact tokShape_tokenExchange ..
    | exact tokShape_jwtProfile ..
    | exact tokShape_deviceAccessToken ..

theorem tokShape_withClient {now : Int} {o : EPOracles} {s : EPWebServer} {r : EPRequest} {handler : EPRequest → OPClient → EPResp}
    (hh : ∀ c, TokShape (handler r c)) : TokShape (GenEP.withClient now o s handler r) := by
  rw [SpecEP.withClient_eq]; unfold SpecEP.withClient
  split; · exact tokShape_writeError ..
  simp only []
  split
  · split
    · exact tokShape_writeError ..
    · exact hh _
  · exact hh _

theorem tokShape_of_shape {now : Int} {r : EPRequest} {resp : EPResp} {g c : String}
    (h : (∃ err, resp = GenEP.WriteError now r err) ∨ resp = .ok (.tokens g c)) : TokShape resp := by
  rcases h with ⟨err, h⟩ | h
  · rw [h]; exact tokShape_writeError ..
  · rw [h]; trivial

theorem tokShape_tokensHandler (now : Int) (o : EPOracles) (x : EPProvider) (r : EPRequest) :
    TokShape (GenEP.tokensHandler now o (EP.webServer x) r) := by
  rw [SpecEP.tokensHandler_eq]; unfold SpecEP.tokensHandler
  split; · exact tokShape_writeError ..
  simp only []
  repeat' split
  all_goals first
    | exact tokShape_writeError ..
    | exact tokShape_withClient (fun c => tokShape_of_shape codeExchangeHandler_shape)
    | exact tokShape_withClient (fun c => tokShape_of_shape (refreshTokenHandler_shape.imp id And.left))
    | exact tokShape_withClient (fun c => tokShape_of_shape clientCredentialsHandler_shape)
    | exact tokShape_withClient (fun c => tokShape_of_shape (tokenExchangeHandler_shape.imp id And.left))
    | exact tokShape_withClient (fun c => tokShape_of_shape (deviceTokenHandler_shape.imp id And.left))
    | (have := goodToken_jwtProfileHandler (x := x) (now := now) (o := o) (r := r)
       revert this
       generalize GenEP.jwtProfileHandler now o (EP.webServer x) r = resp
       intro this
       match resp, this with
       | .json _ s, h => exact h
       | .ok (.tokens _ _), _ => trivial)

/-- **C05, error documents.**  On the token endpoint of either router every response is a token response or an OAuth error document
    (JSON with an `error` member: `RequestError` / `WriteError`) whose status is ≥ 400 - for every request, configuration, store and
    oracle; no hypothesis.  (Status of a `StatusError`: the endpoint layer itself only attaches 400 / 401 / 500; StatusErrors of
    other codes handed out by a storage are outside the model, see Model/Endpoint.lean `epDecodeStatus`.) -/
theorem c05_error_document (now : Int) (rt : Router) (x : EPProvider) (o : EPOracles) (r : EPRequest) :
    TokShape (EP.endpointDecision now rt x o .token r) := by
  cases rt
  · rw [decision_provider_token]; exact tokShape_exchange ..
  · rw [decision_legacy_token]; exact tokShape_tokensHandler ..

/-! ## the findings on the unchanged code: concrete witnesses (each one replayed on the real handlers by the C05 stream) -/

namespace Witness
def postClient : OPClient := { id := "post", secret := "s3", auth := Const.AuthMethodPost, grants := [Const.GrantTypeCode, Const.GrantTypeDeviceCode] }
def pubClient : OPClient := { id := "pub", auth := Const.AuthMethodNone, grants := [Const.GrantTypeCode] }
def pkClient : OPClient := { id := "pk", secret := "", auth := Const.AuthMethodPrivateKeyJWT, grants := [Const.GrantTypeCode, Const.GrantTypeClientCredentials] }

/-- F-C05d: POST authentication disabled, a client registered for client_secret_post, its secret in a Basic header -/
def postProvider : EPProvider := { storage := { base := { clients := [postClient] } } }
def postRequest : EPRequest := { basic := some ("post", "s3"), Form := { kv := [("token", "at1")] }, PostForm := { kv := [("token", "at1")] } }

/-- F-C05e: an approved device authorization of a client that is not (any more) registered for the device_code grant -/
def deviceProvider : EPProvider :=
  { storage := { base := { clients := [pubClient] }, is_DeviceAuthorizationStorage := true,
                 devices := [{ deviceCode := "dc1", state := { ClientID := "pub", Done := true } }] } }
def deviceRequest : EPRequest :=
  { Form := { kv := [("grant_type", Const.GrantTypeDeviceCode), ("device_code", "dc1"), ("client_id", "pub")] },
    PostForm := { kv := [("grant_type", Const.GrantTypeDeviceCode), ("device_code", "dc1"), ("client_id", "pub")] } }

/-- F-C05g: `grant_type=client_credentials` in a revocation request of the Server router; the private_key_jwt client has the
    client_credentials grant and (like every private_key_jwt client) an empty secret -/
def ccProvider : EPProvider := { storage := { base := { clients := [pkClient] }, is_ClientCredentialsStorage := true } }
def ccRequest : EPRequest :=
  { Form := { kv := [("grant_type", Const.GrantTypeClientCredentials), ("client_id", "pk"), ("token", "at1")] },
    PostForm := { kv := [("grant_type", Const.GrantTypeClientCredentials), ("client_id", "pk"), ("token", "at1")] } }
end Witness

namespace Witness
def wkKey : JWK := { KeyID := "wk1", Use := "sig", kty := .rsa, keyNo := 7 }
/-- a client registered for client_secret_basic that also has a registered key -/
def webkeyClient : OPClient := { id := "webkey", secret := "s-wk", auth := Const.AuthMethodBasic, grants := [Const.GrantTypeCode], keys := [wkKey] }
def opIssuer := "https://op.example"
def wkClaims : Claims := { iss := "webkey", sub := "webkey", aud := [opIssuer], exp := 2000000600, iat := 2000000000 }
def wkPayload : Payload := { bytes := 1, claims := some wkClaims }
def wkHdr : JHeader := { Algorithm := "RS256", KeyID := "wk1" }
def wkSig : JSig := { Header := wkHdr, signer := some 7, signedAlg := "RS256", signedBytes := 1, signedHdr := wkHdr }
/-- a genuine assertion of `webkey`, signed with its registered key -/
def wkAssertion : Token := { segs := 3, middle := some wkPayload, jws := some { Signatures := [wkSig], payload := wkPayload } }
def wkNow : Int := 2000000100 * Go.second
def wkOracles : EPOracles := { tokenOf := fun s => if s == "assertion-of-webkey" then wkAssertion else default }
/-- F-C05f: an assertion is accepted for a client that is not registered for private_key_jwt (here: Server-router introspection) -/
def keysProvider : EPProvider := { issuer := opIssuer, storage := { base := { clients := [webkeyClient] } } }
def keysRequest : EPRequest :=
  { Form := { kv := [("client_assertion", "assertion-of-webkey"), ("client_assertion_type", Const.ClientAssertionTypeJWTAssertion), ("token", "at1")] },
    PostForm := { kv := [("client_assertion", "assertion-of-webkey"), ("client_assertion_type", Const.ClientAssertionTypeJWTAssertion), ("token", "at1")] } }
end Witness

open Witness in
theorem c05_device_grant_witness :
    judge (cfgOf deviceProvider) 0 (.token Const.GrantTypeDeviceCode) (credsOf {} deviceRequest)
        (obsOf (EP.endpointDecision 0 .provider deviceProvider {} .token deviceRequest))
      = some "grant-not-registered" := by
  decide

open Witness in
theorem c05_cc_param_witness :
    judge (cfgOf ccProvider) 0 .revoke (credsOf {} ccRequest)
        (obsOf (EP.endpointDecision 0 .legacy ccProvider {} .revoke ccRequest))
      = some "secret-accepted-for-a-private_key_jwt-client" := by
  decide

/-- F-C05d and F-C05f are repaired: the former witness requests (a client_secret_post client while POST is disabled; an assertion
    of a client registered for client_secret_basic) are refused with an error status on both routers -/
example : [Router.provider, Router.legacy].all (fun rt =>
    let o := obsOf (EP.endpointDecision 0 rt Witness.postProvider {} .introspect Witness.postRequest)
    !o.success && decide (o.status ≥ 400)) = true := by decide
example : [Router.provider, Router.legacy].all (fun rt =>
    let o := obsOf (EP.endpointDecision Witness.wkNow rt Witness.keysProvider Witness.wkOracles .introspect Witness.keysRequest)
    !o.success && decide (o.status ≥ 400)) = true := by decide

/-- the witnesses refute the unrestricted statement: `c05_auth_required_partial` cannot lose its hypotheses -/
theorem c05_auth_required_fails_unrestricted :
    ¬ ∀ (now : Int) (rt : Router) (x : EPProvider) (o : EPOracles) (e : EP.Endpoint) (r : EPRequest),
        judge (cfgOf x) now (specEndpoint e r) (credsOf o r) (obsOf (EP.endpointDecision now rt x o e r)) = none := by
  intro h
  have := h 0 .provider Witness.deviceProvider {} .token Witness.deviceRequest
  rw [show specEndpoint EP.Endpoint.token Witness.deviceRequest = Endpoint.token Const.GrantTypeDeviceCode from rfl, c05_device_grant_witness] at this
  exact absurd this (by decide)

/-! ## non-vacuity: for every endpoint of both routers a concrete request that is SERVED and accepted by the monitor, and a
    provider that meets the hypotheses of the partial theorem -/

namespace Demo
open Witness
def web : OPClient :=
  { id := "web", secret := "s-web", auth := Const.AuthMethodBasic,
    grants := [Const.GrantTypeCode, Const.GrantTypeRefreshToken, Const.GrantTypeClientCredentials, Const.GrantTypeTokenExchange, Const.GrantTypeDeviceCode] }
def pub : OPClient := { id := "pub", auth := Const.AuthMethodNone, grants := [Const.GrantTypeCode, Const.GrantTypeDeviceCode] }
def pk : OPClient := { id := "webkey", auth := Const.AuthMethodPrivateKeyJWT, grants := [Const.GrantTypeCode], keys := [wkKey] }
def provider : EPProvider :=
  { issuer := opIssuer,
    config := { AuthMethodPost := true, AuthMethodPrivateKeyJWT := true, GrantTypeRefreshToken := true },
    storage := { base := { clients := [web, pub, pk],
                           authReqs := [{ id := "ar1", clientID := "web", redirectURI := "https://rp.example/cb", done := true, subject := "u1" },
                                        { id := "ar2", clientID := "pub", redirectURI := "https://rp.example/cb", done := true, subject := "u1",
                                          challenge := some { Challenge := "S256(v1)", Method := "S256" } }],
                           codes := [("c1", "ar1"), ("c2", "ar2")],
                           refresh := [{ token := "rt1", clientID := "web", subject := "u1" }] },
                 devices := [{ deviceCode := "dc1", state := { ClientID := "pub", Done := true } }],
                 is_TokenExchangeStorage := true, is_ClientCredentialsStorage := true, is_DeviceAuthorizationStorage := true } }
def req (basic : Option (String × String)) (kv : List (String × String)) : EPRequest := { basic := basic, Form := { kv := kv }, PostForm := { kv := kv } }
def webBasic : Option (String × String) := some ("web", "s-web")
def served (now : Int) (rt : Router) (o : EPOracles) (e : EP.Endpoint) (r : EPRequest) : Bool :=
  let resp := EP.endpointDecision now rt provider o e r
  (obsOf resp).success && (judge (cfgOf provider) now (specEndpoint e r) (credsOf o r) (obsOf resp)).isNone

def both (now : Int) (o : EPOracles) (e : EP.Endpoint) (r : EPRequest) : Bool := served now .provider o e r && served now .legacy o e r
def refusedBoth (now : Int) (x : EPProvider) (r : EPRequest) : Bool :=
  [Router.provider, Router.legacy].all fun rt =>
    let resp := EP.endpointDecision now rt x {} .token r
    !(obsOf resp).success && decide ((obsOf resp).status ≥ 400) && (judge (cfgOf x) now (specEndpoint .token r) (credsOf {} r) (obsOf resp)).isNone

def codeReq := req webBasic [("grant_type", "authorization_code"), ("code", "c1"), ("redirect_uri", "https://rp.example/cb")]
def pkceReq := req none [("grant_type", "authorization_code"), ("code", "c2"), ("redirect_uri", "https://rp.example/cb"), ("code_verifier", "v1"), ("client_id", "pub")]
def refreshReq := req webBasic [("grant_type", "refresh_token"), ("refresh_token", "rt1")]
def ccReq := req webBasic [("grant_type", "client_credentials")]
def teReq := req webBasic [("grant_type", Const.GrantTypeTokenExchange), ("subject_token", "rt1"), ("subject_token_type", Gen.RefreshTokenType)]
def jwtReq := req none [("grant_type", Const.GrantTypeBearer), ("assertion", "assertion-of-webkey")]
def deviceReq := req none [("grant_type", Const.GrantTypeDeviceCode), ("device_code", "dc1"), ("client_id", "pub")]
def tokenReq := req webBasic [("token", "at1")]
def daReq := req none [("client_id", "pub"), ("scope", "openid")]
end Demo

open Demo in
example : both 0 {} .token codeReq = true ∧ both 0 {} .token pkceReq = true ∧ both 0 {} .token refreshReq = true := by decide
open Demo in
example : both 0 {} .token ccReq = true ∧ both 0 {} .token teReq = true ∧ both 0 {} .token deviceReq = true := by decide
open Demo in
example : both Witness.wkNow Witness.wkOracles .token jwtReq = true := by decide
open Demo in
example : both 0 {} .introspect tokenReq = true ∧ both 0 {} .revoke tokenReq = true ∧ both 0 {} .deviceAuthorization daReq = true := by decide

/-- refusals on both routers: wrong secret, no credential, a grant that is switched off (400 unsupported_grant_type) -/
example : Demo.refusedBoth 0 Demo.provider (Demo.req (some ("web", "wrong")) [("grant_type", "authorization_code"), ("code", "c1"), ("redirect_uri", "https://rp.example/cb")]) = true := by decide
example : Demo.refusedBoth 0 Demo.provider (Demo.req none [("grant_type", "refresh_token"), ("refresh_token", "rt1"), ("client_id", "web")]) = true := by decide
example : Demo.refusedBoth 0 { Demo.provider with config := {} } Demo.refreshReq = true := by decide

/-- the demo provider meets every hypothesis of the partial theorem (for any router, endpoint and request without the
    `grant_type=client_credentials` parameter at revocation) -/
example (rt : Router) (e : EP.Endpoint) (r : EPRequest) (h : grantOf r ≠ Const.GrantTypeClientCredentials) : Assumptions rt Demo.provider e r where
  device := fun _ _ _ => by
    intro d hd c hf
    have hd' : d = { deviceCode := "dc1", state := { ClientID := "pub", Done := true } } := by simpa [Demo.provider] using hd
    subst hd'
    have : Demo.provider.storage.base.clients.find? (·.id == "pub") = some Demo.pub := by decide
    rw [this] at hf; cases hf; decide
  noEmpty := fun _ _ _ => by
    intro c hc
    have : c = Demo.web ∨ c = Demo.pub ∨ c = Demo.pk := by simpa [Demo.provider] using hc
    rcases this with rfl | rfl | rfl <;> decide
  ccParam := fun _ _ hg => absurd hg h
  compareOnly := fun _ _ => rfl
  stray := fun _ _ hl => by simp [Demo.provider] at hl

/-- the regenerated route tables register the expected handler for the four endpoints (a re-wiring breaks the `decision_*` lemmas) -/
example : (GenEP.providerRoutes.find? (·.1 == "o.TokenEndpoint().Relative()")).map (·.2) = some "tokenHandler(o)" := by decide
example : (GenEP.serverRoutes.find? (·.1 == "s.endpoints.Revocation")).map (·.2) = some "s.withClient(s.revocationHandler)" := by decide

/-! ## the same, read directly (without the monitor) -/

theorem goodToken_decision (now : Int) (rt : Router) (x : EPProvider) (o : EPOracles) (r : EPRequest) (h : Assumptions rt x .token r) :
    GoodToken (cfgOf x) now (credsOf o r) (grantOf r) (EP.endpointDecision now rt x o .token r) := by
  cases rt
  · rw [decision_provider_token]
    have := goodToken_exchange (x := x) (now := now) (o := o) (r := r.parsed)
      (fun hg => h.noEmpty rfl rfl hg)
      (fun hg => h.device rfl rfl hg)
      (fun hg => h.compareOnly rfl (Or.inr (Or.inr ⟨rfl, hg⟩)))
    simpa using this
  · rw [decision_legacy_token]; exact goodToken_tokensHandler

/-- **C05, tokens.**  Whenever the token endpoint of either router answers with tokens for client `c` (grant types other than
    jwt-bearer and client_credentials, whose "client" is the assertion's issuer resp. authenticated by the storage): `c` is a
    registered client, some credential of the request fits its registration, the grant is enabled in the provider and registered
    for the client. -/
theorem c05_tokens_only_authenticated (now : Int) (rt : Router) (x : EPProvider) (o : EPOracles) (r : EPRequest)
    (h : Assumptions rt x .token r) {g c : String} (hresp : EP.endpointDecision now rt x o .token r = .ok (.tokens g c))
    (hb : grantOf r ≠ Const.GrantTypeBearer) (hcc : grantOf r ≠ Const.GrantTypeClientCredentials) :
    ∃ cl, x.storage.base.clients.find? (·.id == c) = some cl ∧ credsFit (cfgOf x) now cl (credsOf o r) = true ∧
      grantEnabled (cfgOf x) (grantOf r) = true ∧ grantOf r ∈ cl.grants := by
  have hg := goodToken_decision now rt x o r h
  rw [hresp] at hg
  simp only [GoodToken, TokensOK, hb, hcc, if_false] at hg
  exact hg

/-! ## "no secret and no assertion ⇒ refused" at the introspection endpoint of the Server router, WHATEVER the storage answers
    (the guard `cc.ClientSecret == "" && cc.ClientAssertion == ""` of `webServer.introspectionHandler`; the storage's
    `AuthorizeClientIDSecret` is never consulted for such a request) -/

/-- the request presents neither a secret (Basic password resp. `client_secret`, as `credsOf` reads them) nor a `client_assertion` -/
def NoCredentials (o : EPOracles) (r : EPRequest) : Prop :=
  (∀ p, (credsOf o r).primary = some p → p.secret = "") ∧ r.Form.last "client_assertion" = ""

theorem c05_no_credentials_refused (now : Int) (x : EPProvider) (o : EPOracles) (r : EPRequest) (h : NoCredentials o r) :
    ∃ e s, EP.endpointDecision now .legacy x o .introspect r = .json e s ∧ s ≥ 400 := by
  rw [decision_legacy_introspect, introspectionHandler_eq]
  unfold introspectionHandlerSpec
  split; · exact writeError_shape ..
  rename_i cc hparse
  obtain ⟨hprim, hass⟩ := parseClientCredentials_ok hparse
  have h1 : cc.ClientSecret = "" := h.1 _ hprim
  have h2 : cc.ClientAssertion = "" := by rw [hass]; exact h.2
  simp only [h1, h2, and_self, if_true]
  exact writeError_shape ..

/-- revocation of either router, read directly -/
theorem goodRevoke_decision (now : Int) (rt : Router) (x : EPProvider) (o : EPOracles) (r : EPRequest) (h : Assumptions rt x .revoke r) :
    GoodRevoke (cfgOf x) now (credsOf o r) (EP.endpointDecision now rt x o .revoke r) := by
  cases rt
  · rw [decision_provider_revoke]
    exact goodRevoke_revoke (h.compareOnly rfl (Or.inr (Or.inl rfl)))
  · rw [decision_legacy_revoke]
    apply withClient_cases (P := GoodRevoke (cfgOf x) now (credsOf o r)) (fun err => goodRevoke_writeError ..)
    intro c hv _
    exact goodRevoke_revocationHandler hv (h.ccParam rfl rfl)

/-- a request without a secret whose `client_assertion` proves nobody fits only a registration that needs no credential: a
    public client, or a client whose registered secret is the empty string -/
theorem credsFit_no_credentials {c : Cfg} {now : Int} {cl : OPClient} {k : Creds} (hfit : credsFit c now cl k = true)
    (hs : ∀ p, k.primary = some p → p.secret = "")
    (ha : ∀ t, k.assertion = some t →
      C14.provesClient c.base.issuer c.base.jwtMaxAgeIAT c.base.jwtOffset (C04.registry c.base.clients) t now = none) :
    cl.auth = "none" ∨ (cl.auth ≠ "private_key_jwt" ∧ cl.secret = "") := by
  by_cases hn : cl.auth = "none"
  · exact Or.inl hn
  right
  have hn' : (cl.auth == "none") = false := by simpa using hn
  unfold credsFit at hfit
  by_cases hk : cl.auth = "private_key_jwt"
  · -- a private_key_jwt registration is only fitted by a proving assertion
    exfalso
    have hk' : (cl.auth == "private_key_jwt") = true := by simpa using hk
    cases hka : k.assertion with
    | none =>
      cases hkp : k.primary with
      | none => simp [hka, hkp] at hfit
      | some p => simp [hka, hkp, credentialFits, C04.callerIs, hn', hk'] at hfit
    | some t =>
      have := ha t hka
      cases hkp : k.primary with
      | none => simp [hka, hkp, credentialFits, C04.callerIs, hn', hk', this] at hfit
      | some p => simp [hka, hkp, credentialFits, C04.callerIs, hn', hk', this] at hfit
  · refine ⟨hk, ?_⟩
    have hk' : (cl.auth == "private_key_jwt") = false := by simpa using hk
    cases hkp : k.primary with
    | none =>
      cases hka : k.assertion with
      | none => simp [hka, hkp] at hfit
      | some t => simp [hka, hkp, credentialFits, C04.callerIs, hn', hk'] at hfit
    | some p =>
      have hp := hs p hkp
      cases hka : k.assertion with
      | none =>
        simp [hka, hkp, credentialFits, C04.callerIs, hn', hk', hp] at hfit
        exact hfit.1.2
      | some t =>
        simp [hka, hkp, credentialFits, C04.callerIs, hn', hk', hp] at hfit
        exact hfit.1.2

/-- **"no secret and no assertion ⇒ refused", revocation of both routers** (Server router: `withClient` = `verifyRequestClient` /
    `parseClientCredentials` / `VerifyClient` in front of `revocationHandler`): a revocation performed for a request that carries
    neither a secret nor a proving assertion acted for a client that is registered as public (or whose registered secret is empty) -/
theorem c05_no_credentials_only_public (now : Int) (rt : Router) (x : EPProvider) (o : EPOracles) (r : EPRequest)
    (h : Assumptions rt x .revoke r) (hno : NoCredentials o r)
    (hjunk : C14.provesClient x.issuer (3600 * Go.second) Go.second (C04.registry x.storage.base.clients) (o.tokenOf "") now = none)
    {c : String} (hresp : EP.endpointDecision now rt x o .revoke r = .ok (.revoked c)) :
    ∃ cl, x.storage.base.clients.find? (·.id == c) = some cl ∧ (cl.auth = "none" ∨ (cl.auth ≠ "private_key_jwt" ∧ cl.secret = "")) := by
  have hg := goodRevoke_decision now rt x o r h
  rw [hresp] at hg
  obtain ⟨cl, hf, hfit⟩ := hg
  refine ⟨cl, hf, credsFit_no_credentials hfit hno.1 ?_⟩
  intro t ht
  have : t = o.tokenOf "" := by
    have : (credsOf o r).assertion = some (o.tokenOf (r.Form.last "client_assertion")) := rfl
    rw [this, hno.2] at ht
    exact (Option.some.inj ht).symm
  rw [this]; exact hjunk

/-- the oracle hypothesis of `c05_no_credentials_only_public` is satisfiable: what the default parser oracle makes of the empty
    string proves no client of the demo provider -/
example : C14.provesClient Demo.provider.issuer (3600 * Go.second) Go.second (C04.registry Demo.provider.storage.base.clients)
    (({} : EPOracles).tokenOf "") 0 = none := by decide

/-! finding F-C05h (hypothesis `compareOnly` of `c05_auth_required_partial`): with a storage whose `AuthorizeClientIDSecret` only
    compares the stored secret, the Provider router answers a PUBLIC client that sends `Authorization: Basic base64("pub:")`
    with an active introspection document -/
namespace Witness
def compareProvider : EPProvider := { storage := { base := { clients := [pubClient, pkClient] }, secretCompareOnly := true } }
def tokenForm (kv : List (String × String)) : EPValues := { kv := ("token", "at1") :: kv }
def emptyBasic (id : String) : EPRequest := { basic := some (id, ""), Form := tokenForm [], PostForm := tokenForm [] }
/-- the partially filled presentation: `client_id` and `client_assertion_type`, but neither an assertion nor a secret -/
def typeOnly (id : String) : EPRequest :=
  { Form := tokenForm [("client_id", id), ("client_assertion_type", Const.ClientAssertionTypeJWTAssertion)],
    PostForm := tokenForm [("client_id", id), ("client_assertion_type", Const.ClientAssertionTypeJWTAssertion)] }
end Witness

open Witness in
theorem c05_compare_only_witness :
    judge (cfgOf compareProvider) 0 .introspect (credsOf {} (emptyBasic "pub"))
        (obsOf (EP.endpointDecision 0 .provider compareProvider {} .introspect (emptyBasic "pub")))
      = some "unauthenticated-introspection" := by
  decide

/-- the Server router refuses the same storage's public and private_key_jwt clients at introspection: Basic header with an empty
    password, `client_id` alone, and `client_id` + `client_assertion_type` without an assertion (concrete instances of
    `c05_no_credentials_refused`; they stop evaluating to `true` when the guard of `introspectionHandler` looks at another field) -/
example : [Witness.emptyBasic "pub", Witness.emptyBasic "pk", Witness.typeOnly "pub", Witness.typeOnly "pk",
      { Form := Witness.tokenForm [("client_id", "pub")], PostForm := Witness.tokenForm [("client_id", "pub")] }].all (fun r =>
    let o := obsOf (EP.endpointDecision 0 .legacy Witness.compareProvider {} .introspect r)
    !o.success && decide (o.status ≥ 400)) = true := by decide
/-- ... while a client registered for a secret method is served by it (both routers, both kinds of storage) -/
example : [true, false].all (fun cmp => [Router.provider, Router.legacy].all fun rt =>
    let x : EPProvider := { Demo.provider with storage := { Demo.provider.storage with secretCompareOnly := cmp } }
    let resp := EP.endpointDecision 0 rt x {} .introspect Demo.tokenReq
    (obsOf resp).success && (judge (cfgOf x) 0 .introspect (credsOf {} Demo.tokenReq) (obsOf resp)).isNone) = true := by decide
/-- revocation, Server router, comparing storage: a public client may revoke with its id alone, a private_key_jwt client may not -/
example :
    (obsOf (EP.endpointDecision 0 .legacy Witness.compareProvider {} .revoke
      { Form := Witness.tokenForm [("client_id", "pub")], PostForm := Witness.tokenForm [("client_id", "pub")] })).success = true ∧
    (obsOf (EP.endpointDecision 0 .legacy Witness.compareProvider {} .revoke
      { Form := Witness.tokenForm [("client_id", "pk")], PostForm := Witness.tokenForm [("client_id", "pk")] })).success = false ∧
    (obsOf (EP.endpointDecision 0 .legacy Witness.compareProvider {} .revoke (Witness.emptyBasic "pk"))).success = false := by decide

end C05
