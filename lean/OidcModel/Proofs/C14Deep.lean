/-
  C14 (deep 3) — top proof module of the property: sequences through one verifier object, and the library's own client helpers.

  Part 1 (this section): composition of the history theorem of Proofs/C14Reuse.lean (`c14_verifier_reuse`: a reused verifier
  answers like a fresh one) with soundness (`c14_assertion_sound`) and completeness (`c14_proper_accepted_any`, the accepting
  direction for ANY verifier settings): along every sequence of assertions handed to ONE verifier object, every single answer
  satisfies the executable monitor `C14.sequenceStepOK`, which judges it without looking at the history.
-/
import OidcModel.Proofs.C14Endpoints
import OidcModel.Proofs.C14Reuse
namespace C14
open Go Gen Hand

/-! ### the accepting direction for any verifier (generalises `c14_proper_assertion_accepted` from the provider's settings) -/

/-- the signature check on a well-formed single-signature token: an admitted algorithm, the presented payload is the signed one,
    and the key the storage hands out for the header's key id and the client named as issuer made the signature -/
theorem checkSignature_genuine {now : Int} {t : Token} {p : Payload} {j : JWS} {s : JSig} {c0 : Claims} {reg : List (String × JWK)} {k : JWK}
    (hjws : t.jws = some j) (hsig : j.Signatures = [s]) (hin : Gen.defaultSigAlgs.contains s.Header.Algorithm = true)
    (hbytes : p.bytes = j.payload.bytes)
    (hfind : (clientKeys reg c0.iss).keys.find? (fun k => k.KeyID == s.Header.KeyID) = some k) (hgen : C02.genuine j s k = true) :
    CheckSignature now t p c0 [] (clientKeys reg c0.iss) = .ok (c0.SetSignatureAlgorithm s.Header.Algorithm) := by
  unfold CheckSignature
  have hall : joseParseSigned t (toJoseSignatureAlgorithms []) = .ok j := by
    unfold joseParseSigned toJoseSignatureAlgorithms; simp [hjws, hsig]; simpa using hin
  have hv : (clientKeys reg c0.iss).VerifySignature j = .ok j.payload := by
    unfold KeySet.VerifySignature GetKeyIDAndAlg
    simp only [hsig, clientKeys] at hfind ⊢
    simp only [hfind, jwsVerify, hsig]
    have : sigVerifies j s k = true := by simpa [C02.genuine, sigVerifies] using hgen
    simp [this]
  simp [hall, hsig, Go.len, HasLen.len, Go.index, hv, Go.bytesEqual, hbytes]

/-- an assertion properly made for the verifier's issuer / max age / offset - by the key the storage hands out for its key id
    and issuer, admitted algorithm, claim conditions met with the half-second margin - is accepted by every verifier with the
    storage-backed key set and the default subject check -/
theorem c14_proper_accepted_any {now : Int} {v : JWTProfileVerifier} {t : Token} {c : Claims} {alg : String}
    (hks : v.keySet.kind = .nilSet) (hcs : v.CheckSubject = none)
    (h : properlyMade v.Issuer v.MaxAgeIAT v.Offset v.Storage t now = some (c, alg)) :
    VerifyJWTAssertion now t v = .ok (c.SetSignatureAlgorithm alg) := by
  unfold properlyMade at h
  split at h; · simp at h
  rename_i hsegs
  split at h
  · rename_i p j hmid hjws
    split at h
    · rename_i c0 s hc0 hsig
      split at h
      · rename_i hcond
        simp at h
        obtain ⟨hc, halg⟩ := h
        subst hc halg
        simp only [Bool.and_eq_true, beq_iff_eq, List.all_eq_true] at hcond
        obtain ⟨⟨⟨hin, hbytes⟩, hkey⟩, hcl⟩ := hcond
        have cl := fun x hx => hcl x hx
        simp only [claimClauses, List.mem_cons, List.mem_nil_iff, or_false] at cl
        have haud := cl _ (Or.inl rfl)
        have hexp := cl _ (Or.inr (Or.inl rfl))
        have hiatp := cl _ (Or.inr (Or.inr (Or.inl rfl)))
        have hiatf := cl _ (Or.inr (Or.inr (Or.inr (Or.inl rfl))))
        have hiato := cl _ (Or.inr (Or.inr (Or.inr (Or.inr (Or.inl rfl)))))
        have hsub := cl _ (Or.inr (Or.inr (Or.inr (Or.inr (Or.inr rfl)))))
        simp only [decide_eq_true_eq, bne_iff_ne, ne_eq, Bool.or_eq_true, beq_iff_eq, Bool.not_true, Bool.false_or] at haud hexp hiatp hiatf hiato hsub
        have r1 := C01.tRound_second_bounds (now + v.Offset)
        have r2 := C01.tRound_second_bounds (now - v.MaxAgeIAT)
        have e1 : ParseToken now t = .ok (p, c0) := by
          unfold ParseToken; simp [hsegs, hmid, hc0]
        have e2 : CheckAudience now c0 v.Issuer = .ok () := C01.checkAudience_ok.2 (by simpa using haud)
        have e3 : CheckExpiration now c0 v.Offset = .ok () := by
          rw [C01.checkExpiration_ok]; simp only [C01.ns, halfSecond, second] at *; omega
        have e4 : CheckIssuedAt now c0 v.MaxAgeIAT v.Offset = .ok () := by
          rw [C01.checkIssuedAt_ok]
          simp only [C01.ns, C01.halfSecond, halfSecond, second] at *
          refine ⟨hiatp, by omega, ?_⟩
          rcases hiato with h0 | h0
          · left; exact h0
          · right; omega
        have e5 : applySubjectCheck (SubjectIsIssuer now) v.CheckSubject c0 = .ok () := by
          simp only [hcs, applySubjectCheck]; exact subjectIsIssuer_ok.2 hsub.symm
        obtain ⟨k, hfind, hgen⟩ : ∃ k, (clientKeys v.Storage c0.iss).keys.find? (fun k => k.KeyID == s.Header.KeyID) = some k ∧ C02.genuine j s k = true := by
          cases hf : (clientKeys v.Storage c0.iss).keys.find? (fun k => k.KeyID == s.Header.KeyID) with
          | none => simp [hf] at hkey
          | some k => exact ⟨k, rfl, by simpa [hf] using hkey⟩
        have e6 : CheckSignature now t p c0 [] (assertionKeys v c0.iss) = .ok (c0.SetSignatureAlgorithm s.Header.Algorithm) := by
          have hn : Go.isNil v.keySet = true := by simp [Go.isNil, Nilable.isNil, hks]
          simp only [assertionKeys, hn, if_true, clientKeys_eq]
          exact checkSignature_genuine hjws hsig hin hbytes hfind hgen
        exact verifyJWTAssertion_ok.2 ⟨p, c0, e1, e2, e3, e4, e5, e6⟩
      · simp at h
    · simp at h
  · simp at h

/-! ### every answer along a sequence satisfies the monitor -/

/-- SOUNDNESS ALONG A SEQUENCE: whatever a verifier object (storage-backed key set) was asked before, an assertion it accepts
    at position `i` is signed with a key the storage holds for the client THAT assertion names as issuer, targets the verifier's
    issuer, lies in its time window and passes its subject check -/
theorem c14_reused_verifier_sound {v : JWTProfileVerifier} {ops : List (Int × Token)} {i : Nat} {c : Claims}
    (hks : v.keySet.kind = .nilSet) (hi : i < ops.length) (h : (runVerifier v ops).1[i]? = some (.ok c)) :
    assertionOK v.Issuer v.MaxAgeIAT v.Offset v.CheckSubject.isNone v.Storage ops[i].2 ops[i].1 c = none := by
  rw [c14_reused_answer v ops i hi] at h
  exact c14_assertion_sound hks (by simpa using h)

/-- COMPLETENESS ALONG A SEQUENCE: whatever the object was asked before, an assertion properly made for its settings is accepted
    at position `i` (so a genuine client is never locked out by an earlier caller) -/
theorem c14_reused_verifier_complete {v : JWTProfileVerifier} {ops : List (Int × Token)} {i : Nat} {c : Claims} {alg : String}
    (hks : v.keySet.kind = .nilSet) (hcs : v.CheckSubject = none) (hi : i < ops.length)
    (h : properlyMade v.Issuer v.MaxAgeIAT v.Offset v.Storage ops[i].2 ops[i].1 = some (c, alg)) :
    (runVerifier v ops).1[i]? = some (.ok (c.SetSignatureAlgorithm alg)) := by
  rw [c14_reused_answer v ops i hi, c14_proper_accepted_any hks hcs h]

/-- THE MONITOR ALONG A SEQUENCE (the form the stream evaluates on the real object): for every verifier with the storage-backed
    key set and the default subject check, every sequence of calls and every position, the answer given there - accepted claims
    or a refusal - satisfies `C14.sequenceStepOK`, which has no history argument (`helperMade := false`: provenance is a fact
    about the input that the model does not have; helper-made assertions are the subject of Part 2) -/
theorem c14_sequence_monitor {v : JWTProfileVerifier} {ops : List (Int × Token)} {i : Nat}
    (hks : v.keySet.kind = .nilSet) (hcs : v.CheckSubject = none) (hi : i < ops.length) :
    ∃ a, (runVerifier v ops).1[i]? = some a ∧
      sequenceStepOK v.Issuer v.MaxAgeIAT v.Offset true v.Storage ops[i].2 false ops[i].1 ops[i].1 a.toOption = none := by
  refine ⟨_, c14_reused_answer v ops i hi, ?_⟩
  cases hr : VerifyJWTAssertion ops[i].1 ops[i].2 v with
  | ok c =>
    have hs := c14_assertion_sound hks hr
    simp only [hcs, Option.isNone_none] at hs
    simp [sequenceStepOK, Except.toOption, hs]
  | error e =>
    simp only [sequenceStepOK, Except.toOption]
    cases hp : properlyMade v.Issuer v.MaxAgeIAT v.Offset v.Storage ops[i].2 ops[i].1 with
    | none => simp
    | some ca =>
      obtain ⟨c, alg⟩ := ca
      rw [c14_proper_accepted_any hks hcs hp] at hr
      cases hr

/-! ### non-vacuity: the sequence "M, then A forged with M's key, then A genuine" through one object -/

namespace SeqDemo
def keyA : JWK := { KeyID := "a1", Use := "sig", kty := .rsa, keyNo := 1 }
def keyM : JWK := { KeyID := "m1", Use := "sig", kty := .rsa, keyNo := 2 }
def registry : List (String × JWK) := [("client-A", keyA), ("client-M", keyM)]
def claimsOf (id : String) : Claims := { iss := id, sub := id, aud := ["https://op.example"], iat := 1000, exp := 1300 }
def tokenOf (id : String) (bytes : Nat) (kid : String) (signer : Nat) : Token :=
  let p : Payload := { bytes := bytes, claims := some (claimsOf id) }
  let hdr : JHeader := { Algorithm := "RS256", KeyID := kid }
  { segs := 3, middle := some p,
    jws := some { Signatures := [{ Header := hdr, signer := some signer, signedBytes := bytes, signedHdr := hdr, signedAlg := "RS256" }], payload := p } }
def genuineM : Token := tokenOf "client-M" 1 "m1" 2
def forgedA : Token := tokenOf "client-A" 2 "m1" 2      -- names A, signed by M under M's key id
def genuineA : Token := tokenOf "client-A" 3 "a1" 1
def v : JWTProfileVerifier := { Issuer := "https://op.example", MaxAgeIAT := 3600 * Go.second, Offset := Go.second, Storage := registry }
def now : Int := 1010 * Go.second
def ops : List (Int × Token) := [(now, genuineM), (now, forgedA), (now, genuineA), (now, genuineM)]
end SeqDemo

/-- through ONE object: M accepted, the forgery refused, A's genuine assertion accepted, M again accepted; object unchanged -/
example : ((runVerifier SeqDemo.v SeqDemo.ops).1.map fun a => a.toOption.map (·.iss)) = [some "client-M", none, some "client-A", some "client-M"] := by decide
/-- the monitor would flag an acceptance of the forgery (what a verifier with a sticky key set answers) … -/
example : sequenceStepOK "https://op.example" (3600 * Go.second) Go.second true SeqDemo.registry SeqDemo.forgedA false SeqDemo.now SeqDemo.now
    (some (SeqDemo.claimsOf "client-A")) = some "signature:no-trusted-key" := by decide
/-- … and a refusal of A's genuine assertion -/
example : sequenceStepOK "https://op.example" (3600 * Go.second) Go.second true SeqDemo.registry SeqDemo.genuineA false SeqDemo.now SeqDemo.now
    none = some "proper-assertion-rejected" := by decide
example : (properlyMade "https://op.example" (3600 * Go.second) Go.second SeqDemo.registry SeqDemo.genuineA SeqDemo.now).isSome = true := by decide

end C14
