/-
  C10 — non-vacuity examples that PIN THE SHAPE of regenerated trees: concrete executions of the regenerated handlers along a
  script of choices (`execFn`, sound by `exec_sound`).  They are kept outside Proofs/C10.lean (the module `./check C10` audits):
  a harmless rewrite of the Go code (extract function, another call order) changes the script that reaches a given path and
  would otherwise be reported as a broken proof.  Built with the root module (`lake build OidcModel`).
-/
import OidcModel.Proofs.C10

namespace C10
open C10.Flow

/-- `/keys` with a failing KeySet (a timeout): the failure is followed by the error responder and nothing else -/
example : execFn GenC10.fns audit "Keys" [.fail .deadline] =
    some ([.sfail (GenC10.fns.findIdx (·.name == "Keys")) 0 .deadline, .resp "httphelper.MarshalJSONWithStatus"], .nil) := by decide

/-- … and without a fault it builds the key set -/
example : (execFn GenC10.fns audit "Keys" [.ok]).map (fun r => r.1.map Ev.isSucc) = some [false, true] := by decide

/-- the token endpoint, authorization_code grant: AuthRequestByCode fails three functions below the handler
    (CodeExchange → ValidateAccessTokenRequest → AuthorizeCodeClient → AuthRequestByCode); the error travels up and is answered -/
example : (execFn GenC10.fns audit "CodeExchange"
      [.val .nil, .right, .pick "ValidateAccessTokenRequest", .pick "AuthorizeCodeClient", .pick "AuthRequestByCode", .fail .oidc]).map
      (fun r => (r.1.map Ev.isFail, r.1.map Ev.isResp, r.1.any Ev.isSucc)) = some ([true, false], [false, true], false) := by decide

example : (GenC10.fns.any fun F => F.name == "CreateTokenResponse" && F.sites.contains "Storage.DeleteAuthRequest") = true := by decide

/-! ### the sentinel assumption is load-bearing (known finding F-C10b) -/

/-- `benignSentinels` ASSUMES that a failing storage call does not return these values.  If `AuthorizeClientIDSecret` does answer
    with an error that matches `ErrNoClientCredentials` (class `sent`: the model does not count it as a failure), ClientBasicAuth
    hands it on, `ClientIDFromRequest` takes it for "no Basic header was sent" and returns the form's client_id without an error.
    The stream injects exactly this value (kinds `ErrNoClientCredentials`, `wrap:ErrNoClientCredentials`) and the real handlers
    then issue device codes: known-findings.jsonl F-C10b. -/
example : (execFn GenC10.fns audit "ClientIDFromRequest"
    [.val .nil, .val .nil, .right, .pick "ClientBasicAuth", .left, .right, .right, .sent, .left, .right]).map (fun r => (r.1.any Ev.isFail, r.2)) =
    some (false, .nil) := by decide

/-- `/ready` with three probes, the third fails (a schedule with one fault at index 2): two iterations of the loop function, then
    the failure is answered with the error responder and `ok` is never built -/
example : (execFn GenC10.fns audit "Readiness"
      [.pick "Readiness.loop1", .left, .ok, .pick "Readiness.loop1", .left, .ok, .pick "Readiness.loop1", .left, .fail .deadline]).map
      (fun r => (callOutcomes r.1, r.1.map Ev.isResp, r.1.any Ev.isSucc)) =
    some ([none, none, some .deadline], [false, false, false, true], false) := by decide

/-- … and with all probes passing it is -/
example : (execFn GenC10.fns audit "Readiness" [.pick "Readiness.loop1", .left, .ok, .pick "Readiness.loop1", .right]).map
      (fun r => (callOutcomes r.1, r.1.any Ev.isSucc)) = some ([none], true) := by decide

/-- the storage's Health is a call site (the probe `ReadyStorage(storage)`) -/
example : (GenC10.fns.any fun F => F.name == "ReadyStorage.func1" && F.sites == ["Storage.Health"]) = true := by decide

/-- the readiness probe loops (`for _, probe := range probes`) are loop functions of the program -/
example : GenC10.loopFns = [("Readiness.loop1", "Readiness"), ("LegacyServer.Ready.loop1", "LegacyServer.Ready")] := by decide

end C10
