/-
  C01 (round 3) — the CONSTRUCTION PATH of a relying party.

  The regenerated `GenC01.NewRelyingPartyOIDC` / `NewRelyingPartyOAuth`, the `rp.Option` functions, the lazy
  `(*relyingParty).IDTokenVerifier()`, `NewIDTokenVerifier` and its `VerifierOption`s, and `verifyTokenResponse` (the way from
  `CodeExchange` / `RefreshTokens` into `VerifyTokens`) are proved to hand the token to a verifier that carries EXACTLY what the
  application configured: issuer, client id, key set (remote key set over the configured http client and the discovered
  `jwks_uri`) and every requirement (offset, iat max age, auth-time max age, nonce function, ACR verifier, allow-list), for
  EVERY list of options — any combination, any order, duplicates (the last one of a kind wins).

  Two layers: one characterisation lemma per regenerated definition (`*_eq`, proved with `go_char` / `go_leaf`), everything
  else uses only those.
-/
import OidcModel.Proofs.C01
import OidcModel.Model.RPConstructGen
import OidcModel.Generated.ClaimGetters
import OidcModel.GoTac

namespace C01
open Go Gen Hand GenC01

/-! ### "the last option of a kind wins" -/

theorem lastOf_nil {α β : Type} (sel : β → Option α) (d : α) : lastOf sel [] d = d := rfl

theorem lastOf_cons {α β : Type} (sel : β → Option α) (o : β) (os : List β) (d : α) :
    lastOf sel (o :: os) d = lastOf sel os ((sel o).getD d) := by
  unfold lastOf
  simp only [List.reverse_cons, List.findSome?_append, List.findSome?_cons, List.findSome?_nil]
  cases os.reverse.findSome? sel <;> cases sel o <;> simp

theorem lastOf_snoc {α β : Type} (sel : β → Option α) (o : β) (os : List β) (d : α) :
    lastOf sel (os ++ [o]) d = (sel o).getD (lastOf sel os d) := by
  unfold lastOf
  simp only [List.reverse_append, List.reverse_cons, List.reverse_nil, List.nil_append, List.singleton_append, List.findSome?_cons]
  cases sel o <;> simp

/-! ### verifier options -/

/-! characterisation lemmas of the regenerated option constructors and of the constructor -/

theorem withIssuedAtOffset_eq (now d : Int) (v : RPCVerifierGo) : WithIssuedAtOffset now d v = { v with Offset := d } := by
  go_char WithIssuedAtOffset
theorem withIssuedAtMaxAge_eq (now d : Int) (v : RPCVerifierGo) : WithIssuedAtMaxAge now d v = { v with MaxAgeIAT := d } := by
  go_char WithIssuedAtMaxAge
theorem withNonce_eq (now : Int) (f : Option (Unit → String)) (v : RPCVerifierGo) : WithNonce now f v = { v with Nonce := f } := by
  go_char WithNonce
theorem withACRVerifier_eq (now : Int) (f : Option (String → Go.R Unit)) (v : RPCVerifierGo) : WithACRVerifier now f v = { v with ACR := f } := by
  go_char WithACRVerifier
theorem withAuthTimeMaxAge_eq (now d : Int) (v : RPCVerifierGo) : WithAuthTimeMaxAge now d v = { v with MaxAge := d } := by
  go_char WithAuthTimeMaxAge
theorem withSupportedSigningAlgorithms_eq (now : Int) (l : List String) (v : RPCVerifierGo) :
    WithSupportedSigningAlgorithms now l v = { v with SupportedSignAlgs := l } := by
  go_char WithSupportedSigningAlgorithms

/-- `NewIDTokenVerifier`: the defaults, then every option in order -/
theorem newIDTokenVerifier_eq (now : Int) (issuer clientID : String) (ks : RPCKeySet) (options : List RPCVerifierOpt) :
    NewIDTokenVerifier now issuer clientID ks options = options.foldl (fun v o => o v) (verifierDefaults issuer clientID ks) := by
  go_char NewIDTokenVerifier GoX.foldList verifierDefaults

theorem configuredFrom_nil (v0 : RPCVerifierGo) : configuredFrom v0 [] = v0 := by
  cases v0; simp [configuredFrom, lastOf_nil]

theorem configuredFrom_cons (now : Int) (o : VOptD) (os : List VOptD) (v0 : RPCVerifierGo) :
    configuredFrom v0 (o :: os) = configuredFrom (o.denote now v0) os := by
  unfold configuredFrom
  simp only [lastOf_cons]
  cases o <;>
    simp [VOptD.denote, withIssuedAtOffset_eq, withIssuedAtMaxAge_eq, withNonce_eq, withACRVerifier_eq, withAuthTimeMaxAge_eq,
      withSupportedSigningAlgorithms_eq, VOptD.offset?, VOptD.iatMaxAge?, VOptD.nonce?, VOptD.acr?, VOptD.authMaxAge?, VOptD.algs?]

theorem fold_configured (now : Int) (opts : List VOptD) (v0 : RPCVerifierGo) :
    (opts.map (VOptD.denote now)).foldl (fun v o => o v) v0 = configuredFrom v0 opts := by
  induction opts generalizing v0 with
  | nil => simp [configuredFrom_nil]
  | cons o os ih => simp only [List.map_cons, List.foldl_cons]; rw [ih, ← configuredFrom_cons]

/-- C01, construction of a verifier: for EVERY list of verifier options — any combination, any order, duplicates —
    `rp.NewIDTokenVerifier` yields exactly the configured verifier. -/
theorem c01_verifier_carries (now : Int) (issuer clientID : String) (ks : RPCKeySet) (opts : List VOptD) :
    NewIDTokenVerifier now issuer clientID ks (opts.map (VOptD.denote now)) = configured issuer clientID ks opts := by
  rw [newIDTokenVerifier_eq, fold_configured]; rfl

/-! ### relying-party options -/

/-- the relying party after the option loop, in closed form (`vo` : the verifier-option list in force before) -/
def afterOptions (now : Int) (rp0 : RPCRelyingParty) (opts : List ROptD) : RPCRelyingParty :=
  { issuer := rp0.issuer, endpoints := rp0.endpoints, oauthConfig := rp0.oauthConfig, oauth2Only := rp0.oauth2Only,
    idTokenVerifier := rp0.idTokenVerifier,
    DiscoveryEndpoint := lastOf ROptD.url? opts rp0.DiscoveryEndpoint,
    pkce := lastOf ROptD.pkce? opts rp0.pkce,
    useSigningAlgsFromDiscovery := lastOf ROptD.algsFromDiscovery? opts rp0.useSigningAlgsFromDiscovery,
    httpClient := lastOf ROptD.httpClient? opts rp0.httpClient,
    cookieHandler := lastOf ROptD.cookie? opts rp0.cookieHandler,
    oauthAuthStyle := lastOf ROptD.authStyle? opts rp0.oauthAuthStyle,
    errorHandler := lastOf ROptD.errorHandler? opts rp0.errorHandler,
    unauthorizedHandler := lastOf ROptD.unauthorizedHandler? opts rp0.unauthorizedHandler,
    verifierOpts := lastOf (fun o => (ROptD.vopts? o).map (List.map (VOptD.denote now))) opts rp0.verifierOpts,
    signer := lastOf ROptD.signer? opts rp0.signer,
    logger := lastOf ROptD.logger? opts rp0.logger }

/-- the option loop of both constructors: every option in order, the first error ends the construction -/
def applyAll : List RPCOption → RPCRelyingParty → Go.R RPCRelyingParty
  | [], rp => .ok rp
  | o :: os, rp =>
    match o rp with
    | .error e => .error e
    | .ok rp' => applyAll os rp'

theorem loopCtl_opts (options : List RPCOption) (rp : RPCRelyingParty)
    (body : RPCRelyingParty → RPCOption → GoX.Ctl RPCRelyingParty (Go.R RPCRelyingParty))
    (hb : ∀ rp o, body rp o = match o rp with | .error e => GoX.Ctl.ret (.error e) | .ok r => GoX.Ctl.next r) :
    GoX.loopCtl options rp body = match applyAll options rp with | .error e => .inl (.error e) | .ok r => .inr r := by
  induction options generalizing rp with
  | nil => simp [GoX.loopCtl, applyAll]
  | cons o os ih =>
    simp only [GoX.loopCtl, applyAll, hb]
    cases o rp with
    | error e => simp
    | ok r => simp [ih]

/-! characterisation lemmas of the regenerated relying-party options -/

theorem withCustomDiscoveryUrl_eq (now u rp) : WithCustomDiscoveryUrl now u rp = .ok { rp with DiscoveryEndpoint := u } := by
  go_char WithCustomDiscoveryUrl
theorem withCookieHandler_eq (now h rp) : WithCookieHandler now h rp = .ok { rp with cookieHandler := h } := by
  go_char WithCookieHandler
theorem withPKCE_eq (now h rp) : WithPKCE now h rp = .ok { rp with pkce := true, cookieHandler := h } := by
  go_char WithPKCE
theorem withHTTPClient_eq (now c rp) : WithHTTPClient now c rp = .ok { rp with httpClient := c } := by
  go_char WithHTTPClient
theorem withErrorHandler_eq (now h rp) : WithErrorHandler now h rp = .ok { rp with errorHandler := h } := by
  go_char WithErrorHandler
theorem withUnauthorizedHandler_eq (now h rp) : WithUnauthorizedHandler now h rp = .ok { rp with unauthorizedHandler := h } := by
  go_char WithUnauthorizedHandler
theorem withAuthStyle_eq (now s rp) : WithAuthStyle now s rp = .ok { rp with oauthAuthStyle := s } := by
  go_char WithAuthStyle
theorem withVerifierOpts_eq (now l rp) : WithVerifierOpts now l rp = .ok { rp with verifierOpts := l } := by
  go_char WithVerifierOpts
theorem withJWTProfile_eq (now s rp) :
    WithJWTProfile now s rp = (match s with | .error e => .error e | .ok k => .ok { rp with signer := some k }) := by
  go_char WithJWTProfile
theorem withLogger_eq (now l rp) : WithLogger now l rp = .ok { rp with logger := l } := by
  go_char WithLogger
theorem withSigningAlgsFromDiscovery_eq (now rp) : WithSigningAlgsFromDiscovery now rp = .ok { rp with useSigningAlgsFromDiscovery := true } := by
  go_char WithSigningAlgsFromDiscovery

theorem afterOptions_nil (now : Int) (rp0 : RPCRelyingParty) : afterOptions now rp0 [] = rp0 := by
  cases rp0; simp [afterOptions, lastOf_nil]

/-- one option that does not fail, as a step on the relying party -/
theorem denote_step (now : Int) (o : ROptD) (os : List ROptD) (rp0 : RPCRelyingParty) :
    o.denote now rp0 = (match o.error? with
      | some e => .error e
      | none => .ok (afterOptions now rp0 [o])) ∧
    (o.error? = none → afterOptions now rp0 (o :: os) = afterOptions now (afterOptions now rp0 [o]) os) := by
  cases rp0
  cases o <;>
    (try rename_i s; try cases s) <;>
    simp [ROptD.denote, ROptD.error?, afterOptions, lastOf_cons, lastOf_nil, withCustomDiscoveryUrl_eq, withCookieHandler_eq, withPKCE_eq,
      withHTTPClient_eq, withErrorHandler_eq, withUnauthorizedHandler_eq, withAuthStyle_eq, withVerifierOpts_eq, withJWTProfile_eq,
      withLogger_eq, withSigningAlgsFromDiscovery_eq, ROptD.url?, ROptD.cookie?, ROptD.pkce?, ROptD.httpClient?, ROptD.errorHandler?,
      ROptD.unauthorizedHandler?, ROptD.authStyle?, ROptD.vopts?, ROptD.signer?, ROptD.logger?, ROptD.algsFromDiscovery?]

/-- the option loop in closed form: the first failing option's error, else every field the last option of its kind -/
theorem applyAll_eq (now : Int) (opts : List ROptD) (rp0 : RPCRelyingParty) :
    applyAll (opts.map (ROptD.denote now)) rp0 =
      (match opts.findSome? ROptD.error? with
       | some e => .error e
       | none => .ok (afterOptions now rp0 opts)) := by
  induction opts generalizing rp0 with
  | nil => simp [applyAll, afterOptions_nil]
  | cons o os ih =>
    obtain ⟨h1, h2⟩ := denote_step now o os rp0
    simp only [List.map_cons, applyAll, h1, List.findSome?_cons]
    cases he : o.error? with
    | some e => simp
    | none => simp only []; rw [ih, h2 he]

/-! ### the lazy getter, discovery, the constructors -/

/-- the verifier `rp.IDTokenVerifier()` answers with: the memoised one, else a new one over the remote key set
    (configured http client, JWKS URL of the endpoints) with the verifier options in force -/
def verifierOf (now : Int) (rp : RPCRelyingParty) : RPCVerifierGo :=
  rp.idTokenVerifier.getD
    (NewIDTokenVerifier now rp.issuer rp.oauthConfig.ClientID (.remote rp.httpClient rp.endpoints.JKWsURL) rp.verifierOpts)

/-- `(*relyingParty).IDTokenVerifier()`: hands out `verifierOf` and memoises it -/
theorem relyingPartyIDTokenVerifier_eq (now : Int) (rp : RPCRelyingParty) :
    relyingPartyIDTokenVerifier now rp = (some (verifierOf now rp), { rp with idTokenVerifier := some (verifierOf now rp) }) := by
  unfold relyingPartyIDTokenVerifier verifierOf
  cases rp with
  | mk a b c d e f g h i j k l idv n o p =>
    cases idv <;> simp [Go.isNil, Go.notNil, Nilable.isNil]

theorem relyingPartyErrorHandler_eq (now : Int) (rp : RPCRelyingParty) :
    relyingPartyErrorHandler now rp =
      (some (rp.errorHandler.getD Const.RPCDefaultErrorHandler), { rp with errorHandler := some (rp.errorHandler.getD Const.RPCDefaultErrorHandler) }) := by
  unfold relyingPartyErrorHandler
  cases rp with
  | mk a b c d e f g h i j eh l idv n o p =>
    cases eh <;> simp [Go.isNil, Go.notNil, Nilable.isNil]

theorem relyingPartyUnauthorizedHandler_eq (now : Int) (rp : RPCRelyingParty) :
    relyingPartyUnauthorizedHandler now rp =
      (some (rp.unauthorizedHandler.getD Const.RPCDefaultUnauthorizedHandler),
       { rp with unauthorizedHandler := some (rp.unauthorizedHandler.getD Const.RPCDefaultUnauthorizedHandler) }) := by
  unfold relyingPartyUnauthorizedHandler
  cases rp with
  | mk a b c d e f g h i j eh uh idv n o p =>
    cases uh <;> simp [Go.isNil, Go.notNil, Nilable.isNil]

/-- a second call hands out the same verifier and changes nothing any more -/
theorem relyingPartyIDTokenVerifier_stable (now : Int) (rp : RPCRelyingParty) :
    relyingPartyIDTokenVerifier now (relyingPartyIDTokenVerifier now rp).2 = relyingPartyIDTokenVerifier now rp := by
  simp [relyingPartyIDTokenVerifier_eq, verifierOf]

theorem getEndpoints_jwks (now : Int) (d : RPCDiscoveryConfiguration) : (GetEndpoints now d).JKWsURL = d.JwksURI := by
  go_char GetEndpoints

/-- the relying party `NewRelyingPartyOIDC` starts from -/
def initOIDC (issuer clientID clientSecret redirectURI : String) (scopes : List String) : RPCRelyingParty :=
  { issuer := issuer, oauthConfig := { ClientID := clientID, ClientSecret := clientSecret, RedirectURL := redirectURI, Scopes := scopes },
    httpClient := Const.RPCDefaultHTTPClient, oauth2Only := false, oauthAuthStyle := Const.RPCAuthStyleAutoDetect }

/-- the verifier options in force after discovery -/
def voptsAfterDiscovery (now : Int) (rp : RPCRelyingParty) (d : RPCDiscoveryConfiguration) : List RPCVerifierOpt :=
  if rp.useSigningAlgsFromDiscovery then rp.verifierOpts ++ [WithSupportedSigningAlgorithms now d.IDTokenSigningAlgValuesSupported]
  else rp.verifierOpts

/-- what `NewRelyingPartyOIDC` makes of the relying party `rp1` the options left and the discovery document `d`,
    as far as the ID Token verifier is concerned -/
structure OIDCResult (now : Int) (rp1 : RPCRelyingParty) (d : RPCDiscoveryConfiguration) (rp : RPCRelyingParty) : Prop where
  issuer : rp.issuer = rp1.issuer
  clientID : rp.oauthConfig.ClientID = rp1.oauthConfig.ClientID
  httpClient : rp.httpClient = rp1.httpClient
  oauth2Only : rp.oauth2Only = rp1.oauth2Only
  jwks : rp.endpoints.JKWsURL = d.JwksURI
  verifierOpts : rp.verifierOpts = voptsAfterDiscovery now rp1 d
  verifier : rp.idTokenVerifier = some (rp1.idTokenVerifier.getD
    (NewIDTokenVerifier now rp1.issuer rp1.oauthConfig.ClientID (.remote rp1.httpClient d.JwksURI) (voptsAfterDiscovery now rp1 d)))

/-- `NewRelyingPartyOIDC`: the option loop, discovery with the issuer / http client / custom URL the options left, then the
    verifier is built (and memoised) with the verifier options in force -/
theorem newRelyingPartyOIDC_eq (now : Int) (w : RPCWorld) (issuer clientID clientSecret redirectURI : String) (scopes : List String)
    (options : List RPCOption) :
    (∀ e, NewRelyingPartyOIDC now w issuer clientID clientSecret redirectURI scopes options = .error e ↔
      (applyAll options (initOIDC issuer clientID clientSecret redirectURI scopes) = .error e ∨
       ∃ rp1, applyAll options (initOIDC issuer clientID clientSecret redirectURI scopes) = .ok rp1 ∧
         w.discover rp1.issuer rp1.httpClient rp1.DiscoveryEndpoint = .error e)) ∧
    (∀ rp, NewRelyingPartyOIDC now w issuer clientID clientSecret redirectURI scopes options = .ok rp →
      ∃ rp1 d, applyAll options (initOIDC issuer clientID clientSecret redirectURI scopes) = .ok rp1 ∧
        w.discover rp1.issuer rp1.httpClient rp1.DiscoveryEndpoint = .ok d ∧ OIDCResult now rp1 d rp) := by
  unfold NewRelyingPartyOIDC initOIDC
  simp only []
  rw [loopCtl_opts _ _ _ (by intro rp o; cases o rp <;> rfl)]
  generalize applyAll options _ = r
  cases r with
  | error e0 => simp
  | ok rp1 =>
    simp only []
    cases hd : w.discover rp1.issuer rp1.httpClient rp1.DiscoveryEndpoint with
    | error e1 => simp [hd]
    | ok d =>
      simp only [relyingPartyIDTokenVerifier_eq, relyingPartyErrorHandler_eq, relyingPartyUnauthorizedHandler_eq]
      -- (shape-independent: whether the Go text joins the two cases of `useSigningAlgsFromDiscovery` or repeats the rest in both)
      cases hu : rp1.useSigningAlgsFromDiscovery <;>
        (refine ⟨by simp [hd, hu], ?_⟩
         intro rp hrp
         simp only [hu, Bool.not_false, Bool.not_true, Bool.false_eq_true, reduceIte, Except.ok.injEq] at hrp ⊢
         refine ⟨rp1, d, rfl, hd, ?_⟩
         subst hrp
         constructor <;> simp [hu, verifierOf, voptsAfterDiscovery, getEndpoints_jwks, Go.append, GoX.copyInto])

/-! ### the theorems: what the relying party's verifier carries -/

theorem lastOf_map {α β γ : Type} (sel : β → Option α) (f : α → γ) (l : List β) (d : α) :
    lastOf (fun o => (sel o).map f) l (f d) = f (lastOf sel l d) := by
  induction l generalizing d with
  | nil => rfl
  | cons o os ih =>
    simp only [lastOf_cons]
    cases h : sel o with
    | none => simpa using ih d
    | some x => simpa using ih x

/-- C01, construction of a relying party: for EVERY list of `rp.Option`s (any combination, any order, duplicates, verifier
    options given through `WithVerifierOpts` with or without `WithSigningAlgsFromDiscovery` before or after it), if
    `NewRelyingPartyOIDC` succeeds then discovery answered (for the configured issuer, through the configured http client, at
    the configured URL) with some document `d`, and `rp.IDTokenVerifier()` hands out EXACTLY the configured verifier — issuer,
    client id, remote key set over the configured client and `d`'s `jwks_uri`, every requirement — and leaves the relying party
    as it is. -/
theorem c01_rp_verifier_carries (now : Int) (w : RPCWorld) (issuer clientID clientSecret redirectURI : String) (scopes : List String)
    (opts : List ROptD) (rp : RPCRelyingParty)
    (h : NewRelyingPartyOIDC now w issuer clientID clientSecret redirectURI scopes (opts.map (ROptD.denote now)) = .ok rp) :
    ∃ d, w.discover issuer (clientOf opts) (lastOf ROptD.url? opts "") = .ok d ∧ rp.oauth2Only = false ∧
      ∀ now', relyingPartyIDTokenVerifier now' rp = (some (rpConfigured issuer clientID opts d), rp) := by
  obtain ⟨rp1, d, hA, hD, hR⟩ := (newRelyingPartyOIDC_eq now w issuer clientID clientSecret redirectURI scopes _).2 rp h
  rw [applyAll_eq] at hA
  cases he : opts.findSome? ROptD.error? with
  | some e => simp [he] at hA
  | none =>
    simp only [he, Except.ok.injEq] at hA
    subst hA
    have hv : rp.idTokenVerifier = some (rpConfigured issuer clientID opts d) := by
      rw [hR.verifier]
      have hvo : voptsAfterDiscovery now (afterOptions now (initOIDC issuer clientID clientSecret redirectURI scopes) opts) d
          = (effectiveVOpts opts d).map (VOptD.denote now) := by
        have hm := lastOf_map ROptD.vopts? (List.map (VOptD.denote now)) opts []
        simp only [List.map_nil] at hm
        unfold voptsAfterDiscovery effectiveVOpts
        simp only [afterOptions, initOIDC, hm]
        cases lastOf ROptD.algsFromDiscovery? opts false <;> simp [VOptD.denote]
      rw [hvo]
      simp only [afterOptions, initOIDC, Option.getD_none, c01_verifier_carries]
      rfl
    refine ⟨d, by simpa [afterOptions, initOIDC, clientOf] using hD, by simpa [afterOptions, initOIDC] using hR.oauth2Only, ?_⟩
    intro now'
    rw [relyingPartyIDTokenVerifier_eq]
    have hvo' : verifierOf now' rp = rpConfigured issuer clientID opts d := by simp [verifierOf, hv]
    rw [hvo']
    cases rp
    simp_all

/-- ... spelled out requirement by requirement: issuer and client id are the constructor's arguments, the key set is the remote key
    set over the configured http client and the discovered `jwks_uri`; offset, iat max age, auth-time max age, nonce function and ACR
    verifier are those of the last option of their kind in the last `WithVerifierOpts` (else the library default); the allow-list is
    the discovered one when `WithSigningAlgsFromDiscovery` was given, else the last `WithSupportedSigningAlgorithms`, else the default -/
theorem c01_rp_requirements (issuer clientID : String) (opts : List ROptD) (d : RPCDiscoveryConfiguration) :
    let vo := lastOf ROptD.vopts? opts []
    let v := rpConfigured issuer clientID opts d
    v.Issuer = issuer ∧ v.ClientID = clientID ∧ v.KeySet = .remote (clientOf opts) d.JwksURI ∧
    v.Offset = lastOf VOptD.offset? vo second ∧ v.MaxAgeIAT = lastOf VOptD.iatMaxAge? vo 0 ∧ v.MaxAge = lastOf VOptD.authMaxAge? vo 0 ∧
    v.Nonce = lastOf VOptD.nonce? vo (some (fun _ => "")) ∧ v.ACR = lastOf VOptD.acr? vo none ∧
    v.SupportedSignAlgs = (if lastOf ROptD.algsFromDiscovery? opts false then d.IDTokenSigningAlgValuesSupported else lastOf VOptD.algs? vo []) := by
  simp only [rpConfigured, configured, configuredFrom, verifierDefaults, effectiveVOpts]
  cases lastOf ROptD.algsFromDiscovery? opts false <;>
    simp [lastOf_snoc, VOptD.offset?, VOptD.iatMaxAge?, VOptD.authMaxAge?, VOptD.nonce?, VOptD.acr?, VOptD.algs?]

/-- C01 for a relying party: whatever `rp.VerifyIDToken` / `rp.VerifyTokens` answer with the verifier a relying party hands out
    satisfies the monitor for the configuration the application ASKED for (every token, access token, instant, option list) -/
theorem c01_rp_holds (now : Int) (w : RPCWorld) (issuer clientID clientSecret redirectURI : String) (scopes : List String)
    (opts : List ROptD) (rp : RPCRelyingParty)
    (h : NewRelyingPartyOIDC now w issuer clientID clientSecret redirectURI scopes (opts.map (ROptD.denote now)) = .ok rp)
    (t : Token) (withAT : Option String) (now' : Int) :
    ∃ d, w.discover issuer (clientOf opts) (lastOf ROptD.url? opts "") = .ok d ∧
      monitor ((rpConfigured issuer clientID opts d).toVerifier w) t withAT now'
        (run ((Go.getOpt (relyingPartyIDTokenVerifier now' rp).1).toVerifier w) t withAT now').toOption = none := by
  obtain ⟨d, hd, _, hv⟩ := c01_rp_verifier_carries now w issuer clientID clientSecret redirectURI scopes opts rp h
  refine ⟨d, hd, ?_⟩
  rw [hv now']
  exact c01_holds _ t withAT now'

/-! ### the way from a token response (CodeExchange, RefreshTokens) into the verifier -/

/-- `verifyTokenResponse`: an OAuth-only relying party verifies nothing and returns no claims; otherwise the `id_token` member must be
    a string, and it is verified TOGETHER WITH the access token of the same response by the verifier `rp.IDTokenVerifier()` hands out -/
theorem verifyTokenResponse_eq (now : Int) (w : RPCWorld) (token : RPCOAuthToken) (rp : RPCRelyingParty) :
    verifyTokenResponse now w token rp =
      (if rp.oauth2Only then .ok { Token := token } else
       if token.idToken.is_string then
         (match Gen.VerifyTokens now token.AccessToken token.idToken.tok ((verifierOf now rp).toVerifier w) with
          | .error e => .error e
          | .ok c => .ok { Token := token, IDTokenClaims := some c, IDToken := token.idToken })
       else .error "ErrMissingIDToken") := by
  unfold verifyTokenResponse Hand.rpcVerifyTokens Hand.rpcExtra
  simp only [relyingPartyIDTokenVerifier_eq, Go.getOpt, Option.getD_some]
  go_leaf

/-- C01 on the code-exchange / refresh path: the claims a relying party returns for a token response are claims of the response's
    own ID token that satisfy every condition for the configuration the application asked for, with a present at_hash binding the
    access token OF THE SAME RESPONSE; and a response whose ID token is correctly signed and meets the conditions with margin is
    not refused. -/
theorem c01_token_response_holds (now : Int) (w : RPCWorld) (issuer clientID clientSecret redirectURI : String) (scopes : List String)
    (opts : List ROptD) (rp : RPCRelyingParty)
    (h : NewRelyingPartyOIDC now w issuer clientID clientSecret redirectURI scopes (opts.map (ROptD.denote now)) = .ok rp)
    (token : RPCOAuthToken) (now' : Int) :
    ∃ d, w.discover issuer (clientOf opts) (lastOf ROptD.url? opts "") = .ok d ∧
      (match verifyTokenResponse now' w token rp with
       | .ok toks => token.idToken.is_string = true ∧ toks.IDToken = token.idToken ∧ toks.IDTokenClaims.isSome = true ∧
           monitor ((rpConfigured issuer clientID opts d).toVerifier w) token.idToken.tok (some token.AccessToken) now' toks.IDTokenClaims = none
       | .error _ => token.idToken.is_string = true →
           monitor ((rpConfigured issuer clientID opts d).toVerifier w) token.idToken.tok (some token.AccessToken) now' none = none) := by
  obtain ⟨d, hd, ho, hv⟩ := c01_rp_verifier_carries now w issuer clientID clientSecret redirectURI scopes opts rp h
  refine ⟨d, hd, ?_⟩
  have hvo : verifierOf now' rp = rpConfigured issuer clientID opts d := by
    have := hv now'
    rw [relyingPartyIDTokenVerifier_eq] at this
    simpa using congrArg Prod.fst this
  rw [verifyTokenResponse_eq, ho, hvo]
  simp only [Bool.false_eq_true, if_false]
  have hm := c01_holds ((rpConfigured issuer clientID opts d).toVerifier w) token.idToken.tok (some token.AccessToken) now'
  simp only [run] at hm
  cases hs : token.idToken.is_string with
  | false => simp
  | true =>
    simp only [if_true]
    cases hr : Gen.VerifyTokens now' token.AccessToken token.idToken.tok ((rpConfigured issuer clientID opts d).toVerifier w) with
    | error e => simp only [hr, Except.toOption] at hm; intro _; exact hm
    | ok c => simp only [hr, Except.toOption] at hm; exact ⟨by simp, rfl, rfl, hm⟩

/-! ### the OAuth-only constructor -/

/-- the relying party `NewRelyingPartyOAuth` starts from -/
def initOAuth (config : RPCOAuthConfig) : RPCRelyingParty :=
  { oauthConfig := config, httpClient := Const.RPCDefaultHTTPClient, oauth2Only := true,
    unauthorizedHandler := some Const.RPCDefaultUnauthorizedHandler, oauthAuthStyle := Const.RPCAuthStyleAutoDetect }

/-- `NewRelyingPartyOAuth`: the option loop; no discovery; the verifier is built (and memoised) with the verifier options in force -/
theorem newRelyingPartyOAuth_eq (now : Int) (config : RPCOAuthConfig) (options : List RPCOption) :
    (∀ e, NewRelyingPartyOAuth now config options = .error e ↔ applyAll options (initOAuth config) = .error e) ∧
    (∀ rp, NewRelyingPartyOAuth now config options = .ok rp →
      ∃ rp1, applyAll options (initOAuth config) = .ok rp1 ∧ rp.oauth2Only = rp1.oauth2Only ∧
        rp.idTokenVerifier = some (verifierOf now rp1)) := by
  unfold NewRelyingPartyOAuth initOAuth
  simp only []
  rw [loopCtl_opts _ _ _ (by intro rp o; cases o rp <;> rfl)]
  generalize applyAll options _ = r
  cases r with
  | error e0 => simp
  | ok rp1 =>
    simp only [relyingPartyIDTokenVerifier_eq, relyingPartyErrorHandler_eq, relyingPartyUnauthorizedHandler_eq]
    refine ⟨by simp, ?_⟩
    intro rp hrp
    simp only [Except.ok.injEq] at hrp ⊢
    refine ⟨rp1, rfl, ?_⟩
    subst hrp
    simp [verifierOf]

/-- an OAuth-only relying party (`NewRelyingPartyOAuth`, any options): its verifier still carries the configured requirements
    (client id of the config, remote key set over the configured client, the last `WithVerifierOpts`), and — whatever the token
    response contains — `verifyTokenResponse` returns the tokens WITHOUT ID Token claims: nothing unverified is ever presented as
    verified claims. -/
theorem c01_oauth_relying_party (now : Int) (config : RPCOAuthConfig) (opts : List ROptD) (rp : RPCRelyingParty)
    (h : NewRelyingPartyOAuth now config (opts.map (ROptD.denote now)) = .ok rp) :
    rp.idTokenVerifier = some (configured "" config.ClientID (.remote (clientOf opts) "") (lastOf ROptD.vopts? opts [])) ∧
    ∀ now' w token, verifyTokenResponse now' w token rp = .ok { Token := token } := by
  obtain ⟨rp1, hA, ho, hv⟩ := (newRelyingPartyOAuth_eq now config _).2 rp h
  rw [applyAll_eq] at hA
  cases he : opts.findSome? ROptD.error? with
  | some e => simp [he] at hA
  | none =>
    simp only [he, Except.ok.injEq] at hA
    subst hA
    constructor
    · rw [hv]
      have hm := lastOf_map ROptD.vopts? (List.map (VOptD.denote now)) opts []
      simp only [List.map_nil] at hm
      simp only [verifierOf, afterOptions, initOAuth, hm, Option.getD_none, c01_verifier_carries]
      rfl
    · intro now' w token
      rw [verifyTokenResponse_eq, ho]
      simp [afterOptions, initOAuth]

/-! ### non-vacuity: concrete option lists -/
section examples
/-- the option list of the seeded change C01-H / of example/client/app: verifier options, then the discovered algorithms -/
def exOpts : List ROptD :=
  [.verifierOpts [.acr (some fun a => if a == "gold" then .ok () else .error "acr"), .authMaxAge (300 * second), .iatMaxAge (600 * second)],
   .httpClient 7, .signingAlgsFromDiscovery]
def exDisc : RPCDiscoveryConfiguration := { Issuer := "https://op", JwksURI := "https://op/keys", IDTokenSigningAlgValuesSupported := ["RS256", "ES256"] }
def exWorld : RPCWorld := { discover := fun _ _ _ => .ok exDisc, jwks := fun _ _ => { kind := .published, keys := [exKey] } }

/-- the construction succeeds, and the verifier handed out demands what was configured -/
example : (NewRelyingPartyOIDC 0 exWorld "https://op" "rp" "s" "cb" ["openid"] (exOpts.map (ROptD.denote 0))).toBool = true := by decide
example : (rpConfigured "https://op" "rp" exOpts exDisc).MaxAge = 300 * second ∧ (rpConfigured "https://op" "rp" exOpts exDisc).MaxAgeIAT = 600 * second ∧
    (rpConfigured "https://op" "rp" exOpts exDisc).SupportedSignAlgs = ["RS256", "ES256"] ∧ (rpConfigured "https://op" "rp" exOpts exDisc).Offset = second ∧
    (rpConfigured "https://op" "rp" exOpts exDisc).KeySet = .remote 7 "https://op/keys" ∧
    ((rpConfigured "https://op" "rp" exOpts exDisc).ACR.map (fun f => (f "silver").toBool)) = some false := by decide
/-- a failing `WithJWTProfile` ends the construction -/
example : (NewRelyingPartyOIDC 0 exWorld "https://op" "rp" "s" "cb" ["openid"] ((exOpts ++ [ROptD.jwtProfile (.error "no key")]).map (ROptD.denote 0))).toBool = false := by decide
/-- later options win: two `WithVerifierOpts`, the second replaces the first as a whole -/
example : (rpConfigured "https://op" "rp" (exOpts ++ [ROptD.verifierOpts [.offset 0]]) exDisc).MaxAge = 0 ∧
    (rpConfigured "https://op" "rp" (exOpts ++ [ROptD.verifierOpts [.offset 0]]) exDisc).Offset = 0 := by decide
end examples

/-! ### the claim getters the verifier reads -/

/-- the regenerated getters of `*oidc.TokenClaims` / `*oidc.IDTokenClaims` are the model's getters (Model/Token.lean, which every
    theorem of C01 / C02 / C14 speaks about): each returns the field that holds the claim of that name, nothing else, whatever other
    claims (`client_id`, `nbf`, `jti`, …) the token carries -/
theorem c01_getters_faithful (now : Int) (g : RPCClaimsGo) (alg : String) :
    GenC01.GetIssuer now g = g.toClaims.GetIssuer ∧ GenC01.GetSubject now g = g.toClaims.GetSubject ∧
    GenC01.GetAudience now g = g.toClaims.GetAudience ∧ GenC01.GetExpiration now g = g.toClaims.GetExpiration ∧
    GenC01.GetIssuedAt now g = g.toClaims.GetIssuedAt ∧ GenC01.GetNonce now g = g.toClaims.GetNonce ∧
    GenC01.GetAuthTime now g = g.toClaims.GetAuthTime ∧ GenC01.GetAuthorizedParty now g = g.toClaims.GetAuthorizedParty ∧
    GenC01.GetSignatureAlgorithm now g = g.toClaims.GetSignatureAlgorithm ∧
    GenC01.GetAuthenticationContextClassReference now g = g.toClaims.GetAuthenticationContextClassReference ∧
    GenC01.GetAccessTokenHash now g = g.toClaims.GetAccessTokenHash ∧
    (GenC01.SetSignatureAlgorithm now g alg).toClaims = g.toClaims.SetSignatureAlgorithm alg := by
  refine ⟨?_, ?_, ?_, ?_, ?_, ?_, ?_, ?_, ?_, ?_, ?_, ?_⟩ <;>
    go_char GenC01.GetIssuer GenC01.GetSubject GenC01.GetAudience GenC01.GetExpiration GenC01.GetIssuedAt GenC01.GetNonce GenC01.GetAuthTime
      GenC01.GetAuthorizedParty GenC01.GetSignatureAlgorithm GenC01.GetAuthenticationContextClassReference GenC01.GetAccessTokenHash
      GenC01.SetSignatureAlgorithm RPCClaimsGo.toClaims Claims.GetIssuer Claims.GetSubject Claims.GetAudience Claims.GetExpiration
      Claims.GetIssuedAt Claims.GetNonce Claims.GetAuthTime Claims.GetAuthorizedParty Claims.GetSignatureAlgorithm
      Claims.GetAuthenticationContextClassReference Claims.GetAccessTokenHash Claims.SetSignatureAlgorithm

/-- the Go fields that decode from / encode to the JSON member `name` -/
def fieldsTagged (name : String) : List String := (GenC01.tokenClaimsTags.filter (fun p => p.2 == name)).map (·.1)

/-- the struct ↔ JSON mapping (extracted from the struct tags on every run): each claim the RP verifier judges is carried by exactly
    the field the model's `toClaims` reads it from, and the signature algorithm is not part of the JSON object.  (A finite table:
    checked by evaluation.) -/
theorem c01_claim_tags :
    fieldsTagged "iss" = ["TokenClaims.Issuer"] ∧ fieldsTagged "sub" = ["TokenClaims.Subject"] ∧ fieldsTagged "aud" = ["TokenClaims.Audience"] ∧
    fieldsTagged "azp" = ["TokenClaims.AuthorizedParty"] ∧ fieldsTagged "exp" = ["TokenClaims.Expiration"] ∧ fieldsTagged "iat" = ["TokenClaims.IssuedAt"] ∧
    fieldsTagged "auth_time" = ["TokenClaims.AuthTime"] ∧ fieldsTagged "nonce" = ["TokenClaims.Nonce"] ∧
    fieldsTagged "acr" = ["TokenClaims.AuthenticationContextClassReference"] ∧ fieldsTagged "client_id" = ["TokenClaims.ClientID"] ∧
    fieldsTagged "at_hash" = ["IDTokenClaims.AccessTokenHash"] ∧ fieldsTagged "c_hash" = ["IDTokenClaims.CodeHash"] ∧
    GenC01.tokenClaimsTags.contains ("TokenClaims.SignatureAlg", "-") = true := by decide

/-! ### the ACR verifier applications hand to `WithACRVerifier` -/

/-- `oidc.DefaultACRVerifier(values)` accepts exactly the listed values -/
theorem defaultACRVerifier_ok (now : Int) (values : List String) (acr : String) :
    GenC01.DefaultACRVerifier now values acr = .ok () ↔ acr ∈ values := by
  go_char GenC01.DefaultACRVerifier Go.ok Go.contains

/-- a verifier configured with `WithACRVerifier(DefaultACRVerifier(values))` demands, in the monitor's terms, an acr among `values` -/
theorem acrOK_default (now : Int) (values : List String) (v : Verifier) (c : Claims)
    (h : v.ACR = some (GenC01.DefaultACRVerifier now values)) : acrOK v c = values.contains c.acr := by
  unfold acrOK
  rw [h]
  simp only []
  by_cases hm : c.acr ∈ values
  · have := (defaultACRVerifier_ok now values c.acr).2 hm
    simp [this, Except.toBool, hm]
  · have h2 : GenC01.DefaultACRVerifier now values c.acr ≠ .ok () := fun hh => hm ((defaultACRVerifier_ok now values c.acr).1 hh)
    cases hr : GenC01.DefaultACRVerifier now values c.acr with
    | ok u => exact absurd hr h2
    | error e => simp [Except.toBool, hm]

/-! ### a relying party in use: a whole history of verifications through one relying-party object -/

/-- one use of the relying party: ask it for its verifier (the lazy getter may write the relying party), verify a token -/
def rpUse (w : RPCWorld) (rp : RPCRelyingParty) (call : Token × Option String × Int) : Option Claims × RPCRelyingParty :=
  let (vg, rp') := relyingPartyIDTokenVerifier call.2.2 rp
  ((run ((Go.getOpt vg).toVerifier w) call.1 call.2.1 call.2.2).toOption, rp')

/-- the answers of a sequence of uses, the relying party threaded through -/
def rpHistory (w : RPCWorld) : RPCRelyingParty → List (Token × Option String × Int) → List (Option Claims) × RPCRelyingParty
  | rp, [] => ([], rp)
  | rp, call :: rest =>
    let (a, rp') := rpUse w rp call
    let (as, rp'') := rpHistory w rp' rest
    (a :: as, rp'')

/-- C01 over histories: through ONE relying-party object built from any option list, for every sequence of tokens / access tokens /
    instants, every answer satisfies the monitor for the configuration asked for, and the object is the same afterwards: no
    verification (accepted or rejected) loosens or changes what the next one is judged by. -/
theorem c01_rp_history (now : Int) (w : RPCWorld) (issuer clientID clientSecret redirectURI : String) (scopes : List String)
    (opts : List ROptD) (rp : RPCRelyingParty)
    (h : NewRelyingPartyOIDC now w issuer clientID clientSecret redirectURI scopes (opts.map (ROptD.denote now)) = .ok rp)
    (calls : List (Token × Option String × Int)) :
    ∃ d, w.discover issuer (clientOf opts) (lastOf ROptD.url? opts "") = .ok d ∧
      (rpHistory w rp calls).2 = rp ∧ (rpHistory w rp calls).1.length = calls.length ∧
      ∀ p ∈ calls.zip (rpHistory w rp calls).1,
        monitor ((rpConfigured issuer clientID opts d).toVerifier w) p.1.1 p.1.2.1 p.1.2.2 p.2 = none := by
  obtain ⟨d, hd, _, hv⟩ := c01_rp_verifier_carries now w issuer clientID clientSecret redirectURI scopes opts rp h
  refine ⟨d, hd, ?_⟩
  induction calls with
  | nil => simp [rpHistory]
  | cons call rest ih =>
    obtain ⟨ih1, ih2, ih3⟩ := ih
    have hu : rpUse w rp call = ((run ((rpConfigured issuer clientID opts d).toVerifier w) call.1 call.2.1 call.2.2).toOption, rp) := by
      simp [rpUse, hv, Go.getOpt]
    simp only [rpHistory, hu]
    refine ⟨ih1, by simp [ih2], ?_⟩
    intro p hp
    simp only [List.zip_cons_cons, List.mem_cons] at hp
    rcases hp with hp | hp
    · subst hp
      exact c01_holds _ _ _ _
    · exact ih3 p hp

end C01
