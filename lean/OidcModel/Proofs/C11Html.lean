/-
  C11, part 2: html/template.  The attribute escaper cannot be broken out of and is inverted by the user
  agent's character-reference decoder (all byte strings without NUL); the URL normaliser keeps the target;
  the page rendered from the REGENERATED form_post template tokenises to exactly the expected start tags,
  whatever the redirect URI and the parameter values are.
-/
import OidcModel.Proofs.C11Url

namespace C11
open UA

-- ---------------------------------------------------------------- attribute escaper

theorem attrEscape_cons (c : UInt8) (s : Bytes) : AR.attrEscape (c :: s) = AR.attrEscapeByte c ++ AR.attrEscape s := by
  simp [AR.attrEscape]

/-- bytes that end a double-quoted attribute value or open markup -/
def breaksOut (b : UInt8) : Bool := b == 0x22 || b == 0x3C || b == 0x3E || b == 0x27

set_option maxRecDepth 100000 in
theorem attrEscapeByte_safe : ∀ n : Fin 256, (fun c => (AR.attrEscapeByte c).all (fun b => !breaksOut b)) (UInt8.ofNat n.val) = true := by decide

/-- **no break-out**: whatever the value, its escaped form contains no `"`, `'`, `<`, `>` -/
theorem c11_attr_no_breakout (v : Bytes) : ∀ b ∈ AR.attrEscape v, breaksOut b = false := by
  induction v with
  | nil => simp [AR.attrEscape]
  | cons c v ih =>
    intro b hb
    rw [attrEscape_cons, List.mem_append] at hb
    rcases hb with hb | hb
    · have := byteAll (fun c => (AR.attrEscapeByte c).all (fun b => !breaksOut b)) attrEscapeByte_safe c
      simp only [List.all_eq_true, Bool.not_eq_true'] at this
      exact this b hb
    · exact ih b hb

set_option maxRecDepth 100000 in
theorem attrEscapeByte_noCR : ∀ n : Fin 256, (fun c => c == 0x0D || (AR.attrEscapeByte c).all (fun b => b != 0x0D)) (UInt8.ofNat n.val) = true := by decide

theorem attrEscape_noCR (v : Bytes) (h : ∀ c ∈ v, c ≠ 0x0D) : ∀ b ∈ AR.attrEscape v, b ≠ 0x0D := by
  induction v with
  | nil => simp [AR.attrEscape]
  | cons c v ih =>
    intro b hb
    rw [attrEscape_cons, List.mem_append] at hb
    rcases hb with hb | hb
    · have := byteAll (fun c => c == 0x0D || (AR.attrEscapeByte c).all (fun b => b != 0x0D)) attrEscapeByte_noCR c
      simp only [Bool.or_eq_true, beq_iff_eq, List.all_eq_true, bne_iff_ne, ne_eq] at this
      rcases this with h1 | h1
      · exact absurd h1 (h c (by simp))
      · exact h1 b hb
    · exact ih (fun c hc => h c (by simp [hc])) b hb

theorem ascii_34 : AR.ascii "&#34;" = [0x26, 0x23, 0x33, 0x34, 0x3B] := by decide
theorem ascii_39 : AR.ascii "&#39;" = [0x26, 0x23, 0x33, 0x39, 0x3B] := by decide
theorem ascii_43 : AR.ascii "&#43;" = [0x26, 0x23, 0x34, 0x33, 0x3B] := by decide
theorem ascii_amp : AR.ascii "&amp;" = [0x26, 0x61, 0x6D, 0x70, 0x3B] := by decide
theorem ascii_lt : AR.ascii "&lt;" = [0x26, 0x6C, 0x74, 0x3B] := by decide
theorem ascii_gt : AR.ascii "&gt;" = [0x26, 0x67, 0x74, 0x3B] := by decide
theorem lookup_amp : lookupRef [0x61, 0x6D, 0x70] = some (0x26, true) := by decide
theorem lookup_lt : lookupRef [0x6C, 0x74] = some (0x3C, true) := by decide
theorem lookup_gt : lookupRef [0x67, 0x74] = some (0x3E, true) := by decide

/-- one escaped byte is read back as that byte (NUL excepted: it is replaced by U+FFFD) -/
theorem attrUnescapeAux_escByte (f : Nat) (c : UInt8) (r : Bytes) (hc : c ≠ 0) :
    attrUnescapeAux (f + 1) (AR.attrEscapeByte c ++ r) = c :: attrUnescapeAux f r := by
  unfold AR.attrEscapeByte
  split
  · rename_i h; exact absurd (beq_iff_eq.mp h) hc
  split
  · rename_i _ h; rw [beq_iff_eq.mp h, ascii_34]
    simp [attrUnescapeAux, isDigit, hexVal, digitsVal, fixCodePoint, utf8Encode]
  split
  · rename_i _ _ h; rw [beq_iff_eq.mp h, ascii_amp]
    simp [attrUnescapeAux, isAlnum, isDigit, isLetter, lookup_amp, utf8Encode]
  split
  · rename_i _ _ _ h; rw [beq_iff_eq.mp h, ascii_39]
    simp [attrUnescapeAux, isDigit, hexVal, digitsVal, fixCodePoint, utf8Encode]
  split
  · rename_i _ _ _ _ h; rw [beq_iff_eq.mp h, ascii_43]
    simp [attrUnescapeAux, isDigit, hexVal, digitsVal, fixCodePoint, utf8Encode]
  split
  · rename_i _ _ _ _ _ h; rw [beq_iff_eq.mp h, ascii_lt]
    simp [attrUnescapeAux, isAlnum, isDigit, isLetter, lookup_lt, utf8Encode]
  split
  · rename_i _ _ _ _ _ _ h; rw [beq_iff_eq.mp h, ascii_gt]
    simp [attrUnescapeAux, isAlnum, isDigit, isLetter, lookup_gt, utf8Encode]
  · rename_i _ _ h26 _ _ _ _
    have : (c != 0x26) = true := by simpa using h26
    simp [attrUnescapeAux, this]

theorem attrUnescapeAux_attrEscape (v : Bytes) (hv : ∀ c ∈ v, c ≠ 0) (f : Nat) (hf : v.length ≤ f) :
    attrUnescapeAux f (AR.attrEscape v) = v := by
  induction v generalizing f with
  | nil => cases f <;> simp [AR.attrEscape, attrUnescapeAux]
  | cons c v ih =>
    cases f with
    | zero => simp at hf
    | succ f =>
      rw [attrEscape_cons, attrUnescapeAux_escByte f c _ (hv c (by simp)),
        ih (fun c hc => hv c (by simp [hc])) f (by simpa using hf)]

theorem attrEscapeByte_length (c : UInt8) : 1 ≤ (AR.attrEscapeByte c).length := by
  unfold AR.attrEscapeByte
  repeat' split
  all_goals simp [AR.ascii]

theorem attrEscape_length (v : Bytes) : v.length ≤ (AR.attrEscape v).length := by
  induction v with
  | nil => simp
  | cons c v ih =>
    rw [attrEscape_cons, List.length_append, List.length_cons]
    have := attrEscapeByte_length c
    omega

/-- **the user agent's character-reference decoding inverts html/template's attribute escaper**, for every
    byte string without NUL (NUL cannot be carried by HTML: it becomes U+FFFD) -/
theorem c11_attr_roundtrip (v : Bytes) (hv : ∀ c ∈ v, c ≠ 0) : attrUnescape (AR.attrEscape v) = v := by
  unfold attrUnescape
  exact attrUnescapeAux_attrEscape v hv _ (by have := attrEscape_length v; omega)

-- ---------------------------------------------------------------- the tokenizer on a rendered page

def run (st : TState) (bs : Bytes) : TState := bs.foldl step st

theorem run_append (st : TState) (a b : Bytes) : run st (a ++ b) = run (run st a) b := by simp [run]
theorem run_cons (st : TState) (c : UInt8) (r : Bytes) : run st (c :: r) = run (step st c) r := rfl

/-- the tags found so far are never inspected: they can be framed out -/
def addOut (st : TState) (o : List Tag) : TState := { st with out := st.out ++ o }

theorem step_addOut (st : TState) (c : UInt8) (o : List Tag) : step (addOut st o) c = addOut (step st c) o := by
  obtain ⟨mode, name, attrs, an, av, out⟩ := st
  cases mode <;> simp only [step, addOut, TState.emit, TState.pushAttr] <;> (repeat' split) <;> rfl

theorem run_addOut (st : TState) (bs : Bytes) (o : List Tag) : run (addOut st o) bs = addOut (run st bs) o := by
  induction bs generalizing st with
  | nil => rfl
  | cons c bs ih => rw [run_cons, step_addOut, ih, run_cons]

/-- **inside a double-quoted attribute value, bytes other than `"` are value bytes and nothing else** -/
theorem run_valueDQ (st : TState) (hs : st.mode = .valueDQ) (x : Bytes) (hx : ∀ b ∈ x, b ≠ 0x22) :
    run st x = { st with av := x.reverse ++ st.av } := by
  induction x generalizing st with
  | nil => rfl
  | cons c x ih =>
    have hc : (c == 0x22) = false := by simpa using hx c (by simp)
    have hstep : step st c = { st with av := c :: st.av } := by
      obtain ⟨mode, name, attrs, an, av, out⟩ := st
      simp only at hs; subst hs
      simp [step, hc]
    rw [run_cons, hstep, ih { st with av := c :: st.av } hs (fun b hb => hx b (by simp [hb]))]
    simp

theorem attrEscape_noquote (v : Bytes) : ∀ b ∈ AR.attrEscape v, b ≠ 0x22 := by
  intro b hb heq
  have := c11_attr_no_breakout v b hb
  subst heq
  simp [breaksOut] at this

-- what a well-formed form_post template looks like to the tokenizer (all conditions are decidable and are
-- evaluated by the kernel on the template `factgen` regenerates)

/-- inside `<form method="post" action="`, the fixed part of the page already found -/
def formOpen : TState :=
  { mode := .valueDQ, name := (s "form").reverse, attrs := [(s "method", s "post")], an := (s "action").reverse, av := [], out := pageFrame.reverse }

/-- inside `<input type="hidden" name="<name>" value="` -/
def inputOpen (name : Bytes) : TState :=
  { mode := .valueDQ, name := (s "input").reverse, attrs := [(s "name", name), (s "type", s "hidden")], an := (s "value").reverse, av := [], out := [] }

def closesInput (post : Bytes) : Bool := post == [0x22, 0x2F, 0x3E] || post == [0x22, 0x20, 0x2F, 0x3E]

def noCR (b : Bytes) : Bool := b.all (· != 0x0D)

def restOK : List AR.Node → Bool
  | [] => true
  | .text t :: rest => (run {} t == ({} : TState)) && noCR t && restOK rest
  | .withParam name pre post :: rest =>
    (run {} pre == inputOpen name) && closesInput post && noCR pre && (attrUnescape name == name) && restOK rest
  | .redirectURI :: _ => false

def templateOK (tmpl : List AR.Node) : Bool :=
  match tmpl with
  | .text t0 :: .redirectURI :: .text t1 :: rest =>
    (run {} t0 == formOpen) && (t1.take 2 == [0x22, 0x3E]) && (run {} (t1.drop 2) == ({} : TState)) && noCR t0 && noCR t1 && restOK rest
  | _ => false

def formTag (action : Bytes) : Tag := { name := s "form", attrs := [(s "method", s "post"), (s "action", action)] }
def inputTag (name v : Bytes) : Tag := { name := s "input", attrs := [(s "type", s "hidden"), (s "name", name), (s "value", v)] }

/-- the hidden inputs a template renders for a response, in template order, values as given by `f` -/
def restTags (f : Bytes → Bytes) (params : AR.Values) : List AR.Node → List Tag
  | [] => []
  | .withParam name _ _ :: rest =>
    (match params.get name with | [] => [] | v :: _ => [inputTag name (f v)]) ++ restTags f params rest
  | _ :: rest => restTags f params rest

theorem run_closeInput (name x : Bytes) (post : Bytes) (hp : closesInput post = true) (o : List Tag) :
    run (addOut { inputOpen name with av := x.reverse } o) post = addOut {} (inputTag name x :: o) := by
  simp only [closesInput, Bool.or_eq_true, beq_iff_eq] at hp
  rcases hp with hp | hp <;> subst hp <;>
    simp [run, step, addOut, inputOpen, inputTag, TState.pushAttr, TState.emit, isSpace]

theorem run_rest (uri : Bytes) (params : AR.Values) (rest : List AR.Node) (h : restOK rest = true) (o : List Tag) :
    run (addOut {} o) (rest.flatMap (AR.renderNode true uri params))
      = addOut {} ((restTags AR.attrEscape params rest).reverse ++ o) := by
  induction rest generalizing o with
  | nil => simp [run, restTags]
  | cons n rest ih =>
    cases n with
    | text t =>
      simp only [restOK, Bool.and_eq_true, beq_iff_eq] at h
      rw [List.flatMap_cons, run_append]
      show run (run (addOut {} o) t) _ = _
      rw [run_addOut, h.1.1, ih h.2]
      rfl
    | redirectURI => simp [restOK] at h
    | withParam name pre post =>
      simp only [restOK, Bool.and_eq_true, beq_iff_eq] at h
      obtain ⟨⟨⟨⟨h1, h2⟩, _⟩, _⟩, h5⟩ := h
      rw [List.flatMap_cons, run_append]
      simp only [AR.renderNode, restTags]
      cases hg : params.get name with
      | nil => simpa [run] using ih h5 o
      | cons v vs =>
        simp only [if_true]
        rw [run_append, run_append, run_addOut, h1]
        have hq := run_valueDQ (addOut (inputOpen name) o) rfl (AR.attrEscape v) (attrEscape_noquote v)
        rw [hq]
        have : ({ addOut (inputOpen name) o with av := (AR.attrEscape v).reverse ++ (addOut (inputOpen name) o).av } : TState)
            = addOut { inputOpen name with av := (AR.attrEscape v).reverse } o := by
          simp [addOut, inputOpen]
        rw [this, run_closeInput name _ post h2 o, ih h5]
        simp

theorem normalizeNL_id (x : Bytes) (h : ∀ b ∈ x, b ≠ 0x0D) : normalizeNL false x = x := by
  induction x with
  | nil => rfl
  | cons c x ih =>
    have hc : (c == 0x0D) = false := by simpa using h c (by simp)
    simp [normalizeNL, hc, ih (fun b hb => h b (by simp [hb]))]

set_option maxRecDepth 100000 in
theorem urlNormalize_byte_clean : ∀ n : Fin 256,
    (fun c => (AR.pctLower c).all (fun b => b != 0x0D && b != 0x00) && (!AR.urlKeeps c || (c != 0x0D && c != 0x00))) (UInt8.ofNat n.val) = true := by decide

/-- the URL normaliser never outputs CR or NUL -/
theorem urlNormalize_clean (u : Bytes) : ∀ b ∈ AR.urlNormalize u, b ≠ 0x0D ∧ b ≠ 0x00 := by
  induction u with
  | nil => simp [AR.urlNormalize]
  | cons c u ih =>
    intro b hb
    simp only [AR.urlNormalize, List.mem_append] at hb
    have hc := byteAll (fun c => (AR.pctLower c).all (fun b => b != 0x0D && b != 0x00) && (!AR.urlKeeps c || (c != 0x0D && c != 0x00))) urlNormalize_byte_clean c
    simp only [Bool.and_eq_true, List.all_eq_true, bne_iff_ne, ne_eq, Bool.or_eq_true, Bool.not_eq_true'] at hc
    rcases hb with hb | hb
    · by_cases hk : (AR.urlKeeps c || (c == 0x25 && AR.startsHexHex u)) = true
      · rw [if_pos hk] at hb
        simp only [List.mem_singleton] at hb
        subst hb
        simp only [Bool.or_eq_true, Bool.and_eq_true, beq_iff_eq] at hk
        rcases hk with hk | hk
        · rcases hc.2 with h | h
          · rw [h] at hk; exact absurd hk (by decide)
          · exact h
        · rw [hk.1]; decide
      · rw [if_neg hk] at hb
        exact hc.1 b hb
    · exact ih b hb

theorem urlFilter_normalize_clean (uri : Bytes) : ∀ b ∈ AR.attrEscape (AR.urlNormalize (AR.urlFilter uri)), b ≠ 0x0D :=
  attrEscape_noCR _ (fun c hc => (urlNormalize_clean _ c hc).1)

theorem closesInput_noCR (post : Bytes) (h : closesInput post = true) : ∀ b ∈ post, b ≠ 0x0D := by
  simp only [closesInput, Bool.or_eq_true, beq_iff_eq] at h
  rcases h with h | h <;> subst h <;> decide

theorem noCR_mem (x : Bytes) (h : noCR x = true) : ∀ b ∈ x, b ≠ 0x0D := by
  simpa [noCR] using h

theorem rest_noCR (uri : Bytes) (params : AR.Values) (hv : ∀ name, ∀ v ∈ params.get name, ∀ c ∈ v, c ≠ 0x0D)
    (rest : List AR.Node) (h : restOK rest = true) : ∀ b ∈ rest.flatMap (AR.renderNode true uri params), b ≠ 0x0D := by
  induction rest with
  | nil => simp
  | cons n rest ih =>
    intro b hb
    rw [List.flatMap_cons, List.mem_append] at hb
    cases n with
    | text t =>
      simp only [restOK, Bool.and_eq_true] at h
      rcases hb with hb | hb
      · exact noCR_mem t h.1.2 b hb
      · exact ih h.2 b hb
    | redirectURI => simp [restOK] at h
    | withParam name pre post =>
      simp only [restOK, Bool.and_eq_true] at h
      obtain ⟨⟨⟨⟨_, h2⟩, h3⟩, _⟩, h5⟩ := h
      rcases hb with hb | hb
      · simp only [AR.renderNode] at hb
        cases hg : params.get name with
        | nil => simp [hg] at hb
        | cons v vs =>
          simp only [hg, if_true, List.mem_append] at hb
          rcases hb with (hb | hb) | hb
          · exact noCR_mem pre h3 b hb
          · exact attrEscape_noCR v (hv name v (by simp [hg])) b hb
          · exact closesInput_noCR post h2 b hb
      · exact ih h5 b hb

/-- **the page rendered from a well-formed template tokenises to exactly: the page frame, ONE form tag whose
    action is the escaped (filtered, normalised) redirect URI, and one hidden input per listed parameter that the
    response carries — for every redirect URI and all parameter values (values without CR: HTML cannot carry it).
    Nothing a value or the URI contains becomes an element or an attribute.** -/
theorem tokenize_render (t0 t1 : Bytes) (rest : List AR.Node)
    (h : templateOK (.text t0 :: .redirectURI :: .text t1 :: rest) = true)
    (uri : Bytes) (params : AR.Values) (hv : ∀ name, ∀ v ∈ params.get name, ∀ c ∈ v, c ≠ 0x0D) :
    tokenize (AR.render true (.text t0 :: .redirectURI :: .text t1 :: rest) uri params)
      = pageFrame ++ formTag (AR.attrEscape (AR.urlNormalize (AR.urlFilter uri))) :: restTags AR.attrEscape params rest := by
  simp only [templateOK, Bool.and_eq_true, beq_iff_eq] at h
  obtain ⟨⟨⟨⟨⟨h0, h1⟩, h1'⟩, hc0⟩, hc1⟩, hr⟩ := h
  have ht1 : t1 = [0x22, 0x3E] ++ t1.drop 2 := by rw [← h1, List.take_append_drop]
  have hpage : AR.render true (.text t0 :: .redirectURI :: .text t1 :: rest) uri params
      = t0 ++ (AR.attrEscape (AR.urlNormalize (AR.urlFilter uri)) ++ (t1 ++ rest.flatMap (AR.renderNode true uri params))) := by
    simp [AR.render, AR.renderNode]
  have hnocr : ∀ b ∈ AR.render true (.text t0 :: .redirectURI :: .text t1 :: rest) uri params, b ≠ 0x0D := by
    intro b hb
    rw [hpage] at hb
    simp only [List.mem_append] at hb
    rcases hb with hb | hb | hb | hb
    · exact noCR_mem t0 hc0 b hb
    · exact urlFilter_normalize_clean uri b hb
    · exact noCR_mem t1 hc1 b hb
    · exact rest_noCR uri params hv rest hr b hb
  unfold tokenize normalizeNewlines
  rw [normalizeNL_id _ hnocr, hpage]
  show (run {} _).out.reverse = _
  rw [run_append, h0, run_append,
    run_valueDQ formOpen rfl _ (attrEscape_noquote _), ht1, List.append_assoc, run_append, run_append]
  have hform : run { formOpen with av := (AR.attrEscape (AR.urlNormalize (AR.urlFilter uri))).reverse ++ formOpen.av } [0x22, 0x3E]
      = addOut {} (formTag (AR.attrEscape (AR.urlNormalize (AR.urlFilter uri))) :: pageFrame.reverse) := by
    simp [run, step, addOut, formOpen, formTag, TState.pushAttr, TState.emit, isSpace]
  rw [hform, run_addOut, h1', run_rest uri params rest hr]
  simp [addOut]

-- ---------------------------------------------------------------- the URL normaliser keeps the target

def prefixOf : Pct → Bytes
  | .none => []
  | .pct => pct25
  | .pct1 a => pct25 ++ [a]

theorem canonS_nil (st : Pct) : canonS st [] = prefixOf st := by cases st <;> rfl

/-- a byte that is no hex digit ends any pending escape -/
theorem canonS_flush (st : Pct) (c : UInt8) (r : Bytes) (hc : hexVal c = none) :
    canonS st (c :: r) = prefixOf st ++ canonS .none (c :: r) := by
  cases st with
  | none => simp [prefixOf]
  | pct => simp [canonS, prefixOf, hc]
  | pct1 a =>
    simp only [canonS, prefixOf, hc]
    cases hexVal a <;> simp

theorem hexVal_pct : hexVal 0x25 = none := by decide

theorem ne_pct_of_hex {a : UInt8} {x : Nat} (h : hexVal a = some x) : (a == 0x25) = false := by
  rw [beq_eq_false_iff_ne]; intro heq; rw [heq, hexVal_pct] at h; cases h

/-- a `%` that starts no escape is spelled `%25` -/
theorem canonS_pct_invalid (r : Bytes) (h : AR.startsHexHex r = false) : canonS .pct r = pct25 ++ canonS .none r := by
  match r with
  | [] => rfl
  | a :: r1 =>
    cases ha : hexVal a with
    | none => exact canonS_flush .pct a r1 ha
    | some x =>
      have hne := ne_pct_of_hex ha
      match r1 with
      | [] => simp [canonS, ha, hne, pct25]
      | b :: r2 =>
        have hb : hexVal b = none := by
          cases hb : hexVal b with
          | none => rfl
          | some y =>
            have : AR.startsHexHex (a :: b :: r2) = true := by simp [AR.startsHexHex, unhex_eq, ha, hb]
            rw [this] at h; cases h
        have h1 : canonS .pct (a :: b :: r2) = canonS (.pct1 a) (b :: r2) := by simp [canonS, ha]
        rw [h1, canonS_flush (.pct1 a) b r2 hb]
        simp [canonS, prefixOf, hne]

/-- per byte: what the URL normaliser does to a byte it does not keep (other than `%`) -/
def normByteOK (c : UInt8) : Bool :=
  AR.urlKeeps c || c == 0x25 ||
    ((hexVal c).isNone && !structural c &&
      (match AR.pctLower c with
       | [p, h1, h2] => p == 0x25 && (match hexVal h1, hexVal h2 with | some x, some y => UInt8.ofNat (x * 16 + y) == c | _, _ => false)
       | _ => false))

set_option maxRecDepth 100000 in
theorem normByteOK_all : ∀ n : Fin 256, normByteOK (UInt8.ofNat n.val) = true := by decide

set_option maxRecDepth 100000 in
theorem urlKeeps_pct : AR.urlKeeps 0x25 = false := by decide

theorem pctLower_pct : AR.pctLower 0x25 = [0x25, 0x32, 0x35] := by decide

/-- **html/template's URL normaliser does not change the target** -/
theorem canonS_urlNormalize (u : Bytes) : ∀ st, canonS st (AR.urlNormalize u) = canonS st u := by
  induction u with
  | nil => intro st; rfl
  | cons c r ih =>
    intro st
    simp only [AR.urlNormalize]
    by_cases hpct : c = 0x25
    · subst hpct
      by_cases hh : AR.startsHexHex r = true
      · -- a valid escape is kept
        simp only [urlKeeps_pct, hh, Bool.false_or, beq_self_eq_true, Bool.and_self, if_true, List.singleton_append]
        rw [canonS_flush st _ _ hexVal_pct, canonS_flush st _ _ hexVal_pct]
        simp [canonS, ih]
      · have hh' : AR.startsHexHex r = false := by simpa using hh
        simp only [urlKeeps_pct, hh', Bool.false_or, beq_self_eq_true, Bool.and_false, Bool.false_eq_true, if_false, pctLower_pct]
        show canonS st (0x25 :: 0x32 :: 0x35 :: AR.urlNormalize r) = _
        rw [canonS_flush st _ _ hexVal_pct, canonS_flush st _ _ hexVal_pct]
        have : canonS .none (0x25 :: 0x32 :: 0x35 :: AR.urlNormalize r) = pct25 ++ canonS .none (AR.urlNormalize r) := by
          simp [canonS, hexVal, structural, upperHex, pct25]
        rw [this, ih, show canonS .none (0x25 :: r) = canonS .pct r from by simp [canonS], canonS_pct_invalid r hh']
    · have hpct' : (c == 0x25) = false := by simpa using hpct
      by_cases hk : AR.urlKeeps c = true
      · simp only [hk, Bool.true_or, if_true, List.singleton_append]
        cases st with
        | none => simp [canonS, hpct', ih]
        | pct => simp [canonS, hpct', ih]
        | pct1 a => simp only [canonS, hpct', ih]
      · have hk' : AR.urlKeeps c = false := by simpa using hk
        have hb := byteAll normByteOK normByteOK_all c
        simp only [normByteOK, hk', hpct', Bool.false_or, Bool.and_eq_true, Option.isNone_iff_eq_none, Bool.not_eq_true'] at hb
        obtain ⟨⟨hhex, hstr⟩, hshape⟩ := hb
        simp only [hk', hpct', Bool.false_and, Bool.or_self, Bool.false_eq_true, if_false]
        match hpl : AR.pctLower c, hshape with
        | [p, h1, h2], hshape =>
          simp only [Bool.and_eq_true, beq_iff_eq] at hshape
          obtain ⟨hp, hv⟩ := hshape
          subst hp
          cases hx : hexVal h1 with
          | none => simp [hx] at hv
          | some x =>
            cases hy : hexVal h2 with
            | none => simp [hx, hy] at hv
            | some y =>
              simp only [hx, hy, beq_iff_eq] at hv
              show canonS st (0x25 :: h1 :: h2 :: AR.urlNormalize r) = _
              rw [canonS_flush st _ _ hexVal_pct, canonS_flush st c r hhex]
              simp [canonS, hx, hy, hv, hstr, hpct', ih]

theorem canon_urlNormalize (u : Bytes) : canon (AR.urlNormalize u) = canon u := canonS_urlNormalize u .none

/-- the form's action addresses the redirect URI whenever html/template's URL filter lets its scheme through -/
theorem c11_form_action_target (uri : Bytes) (h : AR.isSafeURL uri = true) :
    sameTarget (AR.urlNormalize (AR.urlFilter uri)) uri = true := by
  simp [sameTarget, AR.urlFilter, h, canon_urlNormalize]

end C11
