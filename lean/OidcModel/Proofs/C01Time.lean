/-
  C01, round 4 (seeded C01-P) — the link between the JSON payload and the verifier's time guards:

      the instant a time guard of the verifier sees  =  the value of what is WRITTEN in the payload.

  `(*oidc.Time).UnmarshalJSON` (the decoder of exp / iat / auth_time), `Time.AsTime` (what GetExpiration / GetIssuedAt /
  GetAuthTime hand to the guards) and `FromTime` are REGENERATED from pkg/oidc/types.go on every run into this slice's own
  namespace (`GenC01T`, Generated/C01Time.lean; the same translation as the codec slice's).  encoding/json on `any`
  (the value of a JSON number: its floor and whether it has a fraction) and time.Parse are oracles, quantified over.

  Layer 1 (the only lemmas that unfold regenerated definitions): `timeUnmarshalJSON_eq`, `timeAsTime_eq`, `fromTime_eq`.
  Layer 2: `c01_time_as_written` (decoded = written, for every JSON document), `c01_guard_instant` (the guards' instant),
  `c01_holds_as_written` (the C01 monitor, judged by the claims AS WRITTEN, holds for the verifier run on the claims AS
  DECODED), `c01_future_iat_refused` / `c01_expired_refused` / `c01_written_valid_accepted` (the statement's time clauses
  spelled out for any spelling).
  The int64 edge (finding F-C01a, fixed): `numberSeconds_not_wrapped`, `c01_decoded_number_not_wrapped`, `c01_wrap_zone_refused` -
  a NumericDate whose instant `time.Unix` would wrap around is not a time and is refused by the regenerated decoder, so the
  statements above hold for every number without an assumption about the top of the int64 range.
-/
import OidcModel.Proofs.C01
import OidcModel.Proofs.C01Construct
import OidcModel.Spec.C01Time
import OidcModel.Generated.C01Time
import OidcModel.GoTac

namespace C01
open Go Gen Hand Cdc

/-! ### layer 1: characterisation of the regenerated functions -/

/-! atomic facts about the comparisons the range guard is made of (whatever their order, polarity or nesting in the Go text) -/
theorem two63 : GoX.shl 1 63 = 9223372036854775808 := by decide
theorem F64.bne_self' (a : F64) : (a != a) = a.nan := by
  show (!(!a.nan && !a.nan && a.floor == a.floor && a.frac == a.frac)) = a.nan
  cases a.nan <;> simp
theorem F64.beq_self' (a : F64) : (a == a) = !a.nan := by
  show (!a.nan && !a.nan && a.floor == a.floor && a.frac == a.frac) = !a.nan
  cases a.nan <;> simp
theorem F64.neg_int (n : Int) : -({ floor := n } : F64) = { floor := -n } := rfl
theorem F64.ge_int (a : F64) (n : Int) : decide (a ≥ ({ floor := n } : F64)) = (!a.nan && decide (n ≤ a.floor)) := by
  show decide (F64.le { floor := n } a = true) = _
  rw [Bool.eq_iff_iff]; cases h : a.nan <;> simp [F64.le, h] <;> omega
theorem F64.lt_int (a : F64) (n : Int) : decide (a < ({ floor := n } : F64)) = (!a.nan && decide (a.floor < n)) := by
  show decide (F64.lt a { floor := n } = true) = _
  rw [Bool.eq_iff_iff]; cases h : a.nan <;> simp [F64.lt, h]
theorem F64.int_le (a : F64) (n : Int) : decide (({ floor := n } : F64) ≤ a) = (!a.nan && decide (n ≤ a.floor)) := F64.ge_int a n
theorem F64.int_gt (a : F64) (n : Int) : decide (({ floor := n } : F64) > a) = (!a.nan && decide (a.floor < n)) := F64.lt_int a n

/-- the conversion `Time(x)` / `int64(x)` of a float, wherever it stands in the guard -/
theorem F64.toInt64_mk (fl : Int) (fr nan : Bool) :
    F64.toInt64 { floor := fl, frac := fr, nan := nan } = if fl < 0 ∧ fr = true then fl + 1 else fl := rfl

theorem numberSeconds_mk (fl : Int) (fr nan : Bool) :
    numberSeconds { floor := fl, frac := fr, nan := nan } =
      if nan = false ∧ -9223372036854775808 ≤ fl ∧ fl ≤ 9223371974719179007 then
        some (if fl < 0 ∧ fr = true then fl + 1 else fl) else none := rfl

set_option linter.unusedSimpArgs false in
/-- `(*oidc.Time).UnmarshalJSON`, for every document, every answer of encoding/json and of time.Parse: the result is what
    is written (`writtenTime`), an error when that is not a time -/
theorem timeUnmarshalJSON_eq (now : Int) (o : Oracles) (ts0 : Int) (data : String) :
    (GenC01T.TimeUnmarshalJSON now o ts0 data).toOption =
      (o.jsonAny data).toOption.bind (writtenTime fun s => (o.timeParse s).toOption) := by
  unfold GenC01T.TimeUnmarshalJSON
  cases h : o.jsonAny data with
  | error e => rfl
  | ok doc =>
    cases doc with
    | num x =>
      rcases x with ⟨fl, fr, nan⟩
      simp only [two63, F64.neg_int, F64.bne_self', F64.beq_self', F64.ge_int, F64.lt_int, F64.int_le, F64.int_gt, F64.toInt64_mk,
        writtenTime, numberSeconds_mk, Except.toOption, Option.bind_some]
      cases nan <;> go_leaf
    | str s =>
      simp only []
      cases ht : o.timeParse s <;> simp [writtenTime, Except.toOption, instantSeconds, Go.fromTime, Go.tIsZero, Go.tToUnix, ht]
    | _ => simp [writtenTime, Except.toOption]

theorem collect_strings {β : Type} (f : JVal → Sum β String) (E : β) (hs : ∀ s, f (.str s) = .inr s)
    (hn : ∀ a, (match a with | .str _ => False | _ => True) → f a = .inl E) (l : List JVal) :
    GoX.collect l f = if allStrings l = true then .inr (stringsOf l) else .inl E := by
  induction l with
  | nil => rfl
  | cons a rest ih =>
    rw [GoX.collect]
    cases a with
    | str s =>
      rw [hs, ih]
      by_cases hr : allStrings rest = true <;> simp [hr, allStrings, stringsOf]
    | _ => rw [hn _ trivial]; simp [allStrings]

/-- `(*oidc.Audience).UnmarshalJSON` into a fresh value, for every document and every answer of encoding/json: the audience
    that is written (`writtenAudience`), an error when an array member is not a string -/
theorem audienceUnmarshalJSON_eq (now : Int) (o : Oracles) (text : String) :
    (GenC01T.AudienceUnmarshalJSON now o [] text).toOption = (o.jsonAny text).toOption.bind writtenAudience := by
  unfold GenC01T.AudienceUnmarshalJSON
  cases h : o.jsonAny text with
  | error e => rfl
  | ok doc =>
    cases doc with
    | arr v =>
      have hc := collect_strings (β := Go.R (List String))
        (f := fun audience => match JVal.asString audience with
          | (value, ok) => if (!ok) = true then Sum.inl (Except.error "error:oidc audience: unsupported member type: %T") else Sum.inr value)
        (E := Except.error "error:oidc audience: unsupported member type: %T") (fun s => rfl)
        (fun a ha => by cases a <;> first | exact False.elim ha | rfl) v
      simp only [hc]
      by_cases hv : allStrings v = true <;> simp [hv, writtenAudience, Except.toOption]
    | _ => simp [writtenAudience, Except.toOption]

/-- `Time.AsTime`, regenerated = the instant `ns` of the monitor (absent = the zero time) -/
theorem timeAsTime_eq (now ts : Int) : GenC01T.TimeAsTime now ts = ns ts := by
  unfold GenC01T.TimeAsTime Cdw.timeUnix ns Go.asTime
  by_cases h : ts = 0 <;> simp [h]

/-- `FromTime`, regenerated = whole seconds of the instant -/
theorem fromTime_eq (now t : Int) : GenC01T.FromTime now t = instantSeconds t := by
  unfold GenC01T.FromTime instantSeconds Go.tIsZero Go.tToUnix
  by_cases h : t = zeroTime <;> simp [h]

/-! ### layer 2 -/

/-- how the time members of a payload are decoded: each present member by the regenerated `Time.UnmarshalJSON`, into a zero field -/
def decodeMember (now : Int) (o : Oracles) : Option String → Option Int
  | none => some 0
  | some text => (GenC01T.TimeUnmarshalJSON now o 0 text).toOption

/-- how the `aud` member is decoded: by the regenerated `Audience.UnmarshalJSON`, into an empty value -/
def decodeAud (now : Int) (o : Oracles) (base : Claims) : Option String → Option (List String)
  | none => some base.aud
  | some text => (GenC01T.AudienceUnmarshalJSON now o [] text).toOption

def claimsAsDecoded (now : Int) (o : Oracles) (base : Claims) (w : TimeTexts) : Option Claims :=
  withAud (withTimes base (decodeMember now o w.exp) (decodeMember now o w.iat) (decodeMember now o w.auth)) (decodeAud now o base w.aud)

theorem decodeAud_eq (now : Int) (o : Oracles) (base : Claims) (m : Option String) :
    decodeAud now o base m = writtenAud (fun d => (o.jsonAny d).toOption) base m := by
  cases m with
  | none => rfl
  | some text => simp only [decodeAud, writtenAud, audienceUnmarshalJSON_eq]

theorem decodeMember_eq (now : Int) (o : Oracles) (m : Option String) :
    decodeMember now o m = writtenMember (fun d => (o.jsonAny d).toOption) (fun s => (o.timeParse s).toOption) m := by
  cases m with
  | none => rfl
  | some text => simp only [decodeMember, writtenMember, timeUnmarshalJSON_eq]

/-- **decoded = written**: for every payload text, every JSON reader and every RFC 3339 parser, the time claims the
    verifier works with are the values of what is written - whatever the spelling -/
theorem c01_time_as_written (now : Int) (o : Oracles) (base : Claims) (w : TimeTexts) :
    claimsAsDecoded now o base w =
      claimsAsWritten (fun d => (o.jsonAny d).toOption) (fun s => (o.timeParse s).toOption) base w := by
  simp only [claimsAsDecoded, claimsAsWritten, decodeMember_eq, decodeAud_eq]

/-- the instant a time guard sees (`GetExpiration` = `Expiration.AsTime()` of the decoded field) for a claim written as a
    JSON NUMBER is the instant of the number's whole seconds -/
theorem c01_guard_instant (now : Int) (o : Oracles) (text : String) (x : F64) (s : Int)
    (hj : o.jsonAny text = .ok (.num x)) (hs : numberSeconds x = some s) :
    (GenC01T.TimeUnmarshalJSON now o 0 text).toOption.map (GenC01T.TimeAsTime now) = some (ns s) := by
  rw [timeUnmarshalJSON_eq, hj]
  simp [Except.toOption, writtenTime, hs, timeAsTime_eq]

/-! ### the int64 edge (finding F-C01a, fixed): no decoded number is an instant `time.Unix` wraps around

  The model's instants (`ns`, `Cdw.timeUnix`) are unbounded integers; Go's `time.Unix(sec, 0)` adds 62135596800 to `sec` in
  int64 arithmetic (`unixInternalSeconds`).  The two agree exactly when that sum does not wrap around.  Up to the fix the
  decoder admitted every int64 and the theorems of this file spoke about the real guards only under the (unstated) assumption
  that no claim lies in the last 62135596800 seconds of the int64 range; now the regenerated decoder refuses those, so the
  statements hold for EVERY JSON number. -/

/-- a number that names whole seconds (`numberSeconds`) names an instant `time.Unix` computes without wrap-around -/
theorem numberSeconds_not_wrapped (x : F64) (s : Int) (h : numberSeconds x = some s) :
    -9223372036854775808 ≤ s ∧ s ≤ maxInstantSeconds ∧ unixInternalSeconds s = s + 62135596800 := by
  rcases x with ⟨fl, fr, nan⟩
  rw [numberSeconds_mk] at h
  unfold maxInstantSeconds unixInternalSeconds
  split at h
  · simp only [Option.some.injEq] at h
    split at h <;> omega
  · cases h

/-- every value the regenerated `Time.UnmarshalJSON` hands out for a JSON NUMBER - whatever the number, whatever encoding/json
    answers - is a second count whose `time.Unix` does not wrap around: the instant the real guards compare is `ns s` -/
theorem c01_decoded_number_not_wrapped (now : Int) (o : Oracles) (ts0 : Int) (text : String) (x : F64) (s : Int)
    (hj : o.jsonAny text = .ok (.num x)) (hd : (GenC01T.TimeUnmarshalJSON now o ts0 text).toOption = some s) :
    s ≤ maxInstantSeconds ∧ unixInternalSeconds s = s + 62135596800 ∧
      (unixInternalSeconds s - 62135596800) * second = Cdw.timeUnix s 0 := by
  rw [timeUnmarshalJSON_eq, hj] at hd
  simp only [Except.toOption, Option.bind_some, writtenTime] at hd
  obtain ⟨_, h2, h3⟩ := numberSeconds_not_wrapped x s hd
  refine ⟨h2, h3, ?_⟩
  rw [h3]; simp [Cdw.timeUnix, Go.tUnix]

/-- a JSON number whose whole seconds lie beyond the last instant `time.Time` can hold is REFUSED by the regenerated decoder
    (it is not a time: the payload is not a decodable ID Token) - this is the theorem that stops checking when the range
    guard of `Time.UnmarshalJSON` admits the wrap zone again -/
theorem c01_wrap_zone_refused (now : Int) (o : Oracles) (ts0 : Int) (text : String) (x : F64)
    (hj : o.jsonAny text = .ok (.num x)) (hx : maxInstantSeconds < x.floor) :
    (GenC01T.TimeUnmarshalJSON now o ts0 text).toOption = none := by
  rw [timeUnmarshalJSON_eq, hj]
  rcases x with ⟨fl, fr, nan⟩
  simp only [Except.toOption, Option.bind_some, writtenTime, numberSeconds_mk]
  unfold maxInstantSeconds at hx
  simp only at hx
  split
  · omega
  · rfl

/-- **C01 for tokens as written**: the verifier, run on the claims as DECODED by the regenerated decoder, satisfies the
    monitor that judges by the claims as WRITTEN - for every configuration, token, spelling of the time claims, JSON reader,
    RFC 3339 parser and instant -/
theorem c01_holds_as_written (v : Verifier) (t : Token) (withAT : Option String) (now : Int) (o : Oracles) (base : Claims) (w : TimeTexts) :
    monitor v (withClaims t (claimsAsWritten (fun d => (o.jsonAny d).toOption) (fun s => (o.timeParse s).toOption) base w)) withAT now
      (run v (withClaims t (claimsAsDecoded now o base w)) withAT now).toOption = none := by
  rw [c01_time_as_written]
  exact c01_holds _ _ _ _

/-- the same for a RELYING PARTY (any option list): the verifier it hands out, run on the claims as decoded, satisfies the
    monitor for the configuration the application asked for, judged by the claims as written -/
theorem c01_rp_holds_as_written (now : Int) (w : RPCWorld) (issuer clientID clientSecret redirectURI : String) (scopes : List String)
    (opts : List ROptD) (rp : RPCRelyingParty)
    (h : GenC01.NewRelyingPartyOIDC now w issuer clientID clientSecret redirectURI scopes (opts.map (ROptD.denote now)) = .ok rp)
    (t : Token) (withAT : Option String) (now' : Int) (o : Oracles) (base : Claims) (wt : TimeTexts) :
    ∃ d, w.discover issuer (clientOf opts) (lastOf ROptD.url? opts "") = .ok d ∧
      monitor ((rpConfigured issuer clientID opts d).toVerifier w)
        (withClaims t (claimsAsWritten (fun d => (o.jsonAny d).toOption) (fun s => (o.timeParse s).toOption) base wt)) withAT now'
        (run ((Go.getOpt (GenC01.relyingPartyIDTokenVerifier now' rp).1).toVerifier w) (withClaims t (claimsAsDecoded now' o base wt)) withAT now').toOption = none := by
  rw [c01_time_as_written]
  exact c01_rp_holds now w issuer clientID clientSecret redirectURI scopes opts rp h _ withAT now'

theorem payloadClaims_withClaims (t : Token) (c : Option Claims) (p : Payload) (h : t.middle = some p) :
    payloadClaims (withClaims t c) = c := by
  simp [payloadClaims, withClaims, h]

/-- what acceptance means for the time claims AS WRITTEN (soundness, spelled out): the token is not expired and was not
    issued in the future, up to clock rounding, by the values written in the payload -/
theorem c01_accepted_times_as_written (v : Verifier) (t : Token) (withAT : Option String) (now : Int) (o : Oracles) (base : Claims)
    (w : TimeTexts) (c : Claims) (h : run v (withClaims t (claimsAsDecoded now o base w)) withAT now = .ok c) :
    ∃ pc, claimsAsWritten (fun d => (o.jsonAny d).toOption) (fun s => (o.timeParse s).toOption) base w = some pc ∧
      now + v.Offset < ns pc.exp ∧ ns pc.iat ≠ zeroTime ∧ ns pc.iat - halfSecond ≤ now + v.Offset := by
  rw [c01_time_as_written] at h
  have hid : VerifyIDToken now (withClaims t (claimsAsWritten (fun d => (o.jsonAny d).toOption) (fun s => (o.timeParse s).toOption) base w)) v = .ok c := by
    cases withAT with
    | none => exact h
    | some atk => exact (verifyTokens_ok.1 h).1
  obtain ⟨pc, alg, hpc, _, hok⟩ := c01_sound hid
  have hw : claimsAsWritten (fun d => (o.jsonAny d).toOption) (fun s => (o.timeParse s).toOption) base w = some pc := by
    cases hm : t.middle with
    | none => simp [payloadClaims, withClaims, hm] at hpc
    | some p => rw [payloadClaims_withClaims t _ p hm] at hpc; exact hpc
  refine ⟨pc, hw, ?_⟩
  simp only [idTokenOK, clauses, List.all_cons, List.all_nil, Bool.and_true, Bool.and_eq_true, decide_eq_true_eq, bne_iff_ne, ne_eq] at hok
  obtain ⟨_, _, _, _, _, hexp, hiat, hfut, _⟩ := hok
  have hhalf : max (-halfSecond) 0 = 0 := by unfold halfSecond; omega
  rw [hhalf] at hexp
  refine ⟨by omega, hiat, by omega⟩

/-- a token whose iat AS WRITTEN lies in the future (by more than clock rounding) is refused, whatever its spelling -/
theorem c01_future_iat_refused (v : Verifier) (t : Token) (withAT : Option String) (now : Int) (o : Oracles) (base : Claims)
    (w : TimeTexts) (pc : Claims)
    (hw : claimsAsWritten (fun d => (o.jsonAny d).toOption) (fun s => (o.timeParse s).toOption) base w = some pc)
    (hfut : now + v.Offset + halfSecond < ns pc.iat) :
    (run v (withClaims t (claimsAsDecoded now o base w)) withAT now).toOption = none := by
  cases h : run v (withClaims t (claimsAsDecoded now o base w)) withAT now with
  | error e => rfl
  | ok c =>
    obtain ⟨pc', hw', _, _, hle⟩ := c01_accepted_times_as_written v t withAT now o base w c h
    rw [hw] at hw'; cases hw'
    omega

/-- a token whose exp AS WRITTEN has passed is refused, whatever its spelling -/
theorem c01_expired_refused (v : Verifier) (t : Token) (withAT : Option String) (now : Int) (o : Oracles) (base : Claims)
    (w : TimeTexts) (pc : Claims)
    (hw : claimsAsWritten (fun d => (o.jsonAny d).toOption) (fun s => (o.timeParse s).toOption) base w = some pc)
    (hexp : ns pc.exp ≤ now + v.Offset) :
    (run v (withClaims t (claimsAsDecoded now o base w)) withAT now).toOption = none := by
  cases h : run v (withClaims t (claimsAsDecoded now o base w)) withAT now with
  | error e => rfl
  | ok c =>
    obtain ⟨pc', hw', hlt, _, _⟩ := c01_accepted_times_as_written v t withAT now o base w c h
    rw [hw] at hw'; cases hw'
    omega

/-- completeness for tokens as written: a correctly signed token whose claims AS WRITTEN meet every condition with margin
    is accepted, whatever the spelling of its time claims -/
theorem c01_written_valid_accepted (v : Verifier) (t : Token) (now : Int) (o : Oracles) (base : Claims) (w : TimeTexts) (pc : Claims) (alg : String)
    (hs : correctlySigned v (withClaims t (claimsAsWritten (fun d => (o.jsonAny d).toOption) (fun s => (o.timeParse s).toOption) base w)) = some (pc, alg))
    (hm : idTokenOKMargin v pc now = true) :
    run v (withClaims t (claimsAsDecoded now o base w)) none now = .ok (pc.SetSignatureAlgorithm alg) := by
  rw [c01_time_as_written]
  exact c01_complete_margin hs hm

/-! ### non-vacuity: the spellings of seeded C01-P -/
section examples
/-- a JSON reader that knows four documents: `1.790768359e+09`, `17e8`, `1790768359.999`, `-1.5` -/
def exJson : Oracles :=
  { jsonAny := fun d =>
      if d == "1.790768359e+09" then .ok (.num { floor := 1790768359 })
      else if d == "17e8" then .ok (.num { floor := 1700000000 })
      else if d == "1790768359.999" then .ok (.num { floor := 1790768359, frac := true })
      else if d == "-1.5" then .ok (.num { floor := -2, frac := true })
      else if d == "\"1790768359\"" then .ok (.str "1790768359")
      else if d == "null" then .ok .null
      else .error "json",
    timeParse := fun s => if s == "2026-09-30T10:59:19Z" then .ok (1790765959 * second) else .error "time" }

example : (GenC01T.TimeUnmarshalJSON 0 exJson 0 "1.790768359e+09").toOption = some 1790768359 := by decide
example : (GenC01T.TimeUnmarshalJSON 0 exJson 0 "17e8").toOption = some 1700000000 := by decide
example : (GenC01T.TimeUnmarshalJSON 0 exJson 0 "1790768359.999").toOption = some 1790768359 := by decide
example : (GenC01T.TimeUnmarshalJSON 0 exJson 0 "-1.5").toOption = some (-1) := by decide
example : (GenC01T.TimeUnmarshalJSON 0 exJson 0 "\"1790768359\"").toOption = none := by decide
example : (GenC01T.TimeUnmarshalJSON 0 exJson 7 "null").toOption = some 0 := by decide
/-- F-C01a: `"iat":9223372036854774784` (a second `time.Unix` wraps around to a date in the far past) is refused; the last
    second before the wrap zone is decoded, and `time.Unix`'s int64 sum wraps exactly from the next one on -/
example : (GenC01T.TimeUnmarshalJSON 0 { jsonAny := fun _ => .ok (.num { floor := 9223372036854774784 }) } 0 "9223372036854774784").toOption = none := by decide
example : (GenC01T.TimeUnmarshalJSON 0 { jsonAny := fun _ => .ok (.num { floor := 9223371974719179008 }) } 0 "").toOption = none := by decide
example : (GenC01T.TimeUnmarshalJSON 0 { jsonAny := fun _ => .ok (.num { floor := 9223371974719179007, frac := true }) } 0 "").toOption = some 9223371974719179007 := by decide
example : (GenC01T.TimeUnmarshalJSON 0 { jsonAny := fun _ => .ok (.num { floor := -9223372036854775808 }) } 0 "").toOption = some (-9223372036854775808) := by decide
example : unixInternalSeconds 9223371974719179007 = 9223372036854775807 ∧ unixInternalSeconds 9223371974719179008 = -9223372036854775808
    ∧ unixInternalSeconds 9223372036854774784 < 0 ∧ unixInternalSeconds (-9223372036854775808) = -9223372036854775808 + 62135596800 := by decide
/-- the accepted example token of Proofs/C01, its iat written in scientific notation one hour ahead: refused -/
example : (run exV (withClaims exTok (claimsAsDecoded exNow exJson { exClaims with exp := 0, iat := 0 } { exp := some "17e8", iat := some "17e8" })) none exNow).toOption = none := by decide
/-- `aud` written as one string containing a space is ONE audience (not two) -/
example : (GenC01T.AudienceUnmarshalJSON 0 { jsonAny := fun _ => .ok (.str "rp other") } [] "…").toOption = some ["rp other"] := by decide
example : (GenC01T.AudienceUnmarshalJSON 0 { jsonAny := fun _ => .ok (.arr [.str "a", .str "rp"]) } [] "…").toOption = some ["a", "rp"] := by decide
example : (GenC01T.AudienceUnmarshalJSON 0 { jsonAny := fun _ => .ok (.arr [.str "rp", .num { floor := 1 }]) } [] "…").toOption = none := by decide
end examples

end C01
