/-
  C05 proofs over the REGENERATED client-authentication functions: LegacyServer.VerifyClient,
  withClient (grant registration), AuthorizeTokenExchangeClient, AuthorizeClientCredentialsClient
  (AuthorizeCodeClient / AuthorizeRefreshClient are in Proofs/C04 and C07, AuthorizePrivateJWTKey in C14).
-/
import OidcModel.Spec.C05
import OidcModel.Proofs.C14
import OidcModel.Proofs.C07
import OidcModel.Proofs.C05ShapeTok
namespace C05
open Go Gen Hand Flow

/-- storage-level meaning of a correct secret: the registered client has a secret method and this secret -/
theorem secret_ok {s : Store} {id sec : String} (h : s.AuthorizeClientIDSecret id sec = .ok ()) :
    ∃ c, s.clients.find? (·.id == id) = some c ∧ (c.auth = Const.AuthMethodBasic ∨ c.auth = Const.AuthMethodPost) ∧ c.secret = sec := by
  unfold Store.AuthorizeClientIDSecret at h
  split at h
  · rename_i c hc
    split at h
    · rename_i hcond
      simp at hcond
      exact ⟨c, hc, hcond.1, hcond.2⟩
    · simp at h
  · simp at h

theorem getClient_ok {s : Store} {id : String} {c : OPClient} (h : s.GetClientByClientID id = .ok c) :
    s.clients.find? (·.id == id) = some c ∧ c.id = id := by
  unfold Store.GetClientByClientID at h
  split at h
  · rename_i c' hc
    simp at h; subst h
    exact ⟨hc, by simpa using List.find?_some hc⟩
  · simp at h

/-- Server router: `VerifyClient` lets a request through only with a credential that fits the registration -/
theorem legacyVerifyClient_ok {now s r c} (h : LegacyVerifyClient now s r = .ok c) :
    (r.Form.Get "grant_type" = Const.GrantTypeClientCredentials ∧ s.provider.store.is_ClientCredentialsStorage = true ∧
        s.provider.store.ClientCredentials r.Data.ClientID r.Data.ClientSecret = .ok c)
    ∨ (r.Data.ClientAssertionType = Const.ClientAssertionTypeJWTAssertion ∧ s.provider.pkjwtSupported = true ∧
        AuthorizePrivateJWTKey now r.Data.ClientAssertion s.provider = .ok c)
    ∨ (s.provider.store.GetClientByClientID r.Data.ClientID = .ok c ∧
        (c.auth = Const.AuthMethodNone ∨
          (c.auth ≠ Const.AuthMethodPrivateKeyJWT ∧ (c.auth = Const.AuthMethodPost → s.provider.postSupported = true) ∧
            s.provider.store.AuthorizeClientIDSecret r.Data.ClientID r.Data.ClientSecret = .ok ()))) := by
  rw [SpecTok.LegacyVerifyClient_eq] at h; unfold SpecTok.LegacyVerifyClient at h; simp only [SpecTok.AuthorizeClientIDSecret_eq] at h; unfold SpecTok.AuthorizeClientIDSecret at h
  simp only [Provider.Storage, Provider.AuthMethodPrivateKeyJWTSupported, Provider.AuthMethodPostSupported, OPClient.AuthMethod] at h
  repeat' (split at h <;> try (simp at h))
  all_goals first
    | (left; exact ⟨by simp_all, by simp_all, h⟩)
    | (right; left; exact ⟨by simp_all, by simp_all, h⟩)
    | (right; right; subst h; refine ⟨by assumption, ?_⟩
       first
         | (left; simp_all; done)
         | (right; refine ⟨by simp_all [Const.AuthMethodNone, Const.AuthMethodPrivateKeyJWT, Const.AuthMethodPost], by simp_all, C04.match_secret (by assumption)⟩))

/-- `withClient`: additionally the grant must be registered for the authenticated client -/
theorem withClient_grant {now p g cc ha c} (h : withClient now p g cc ha = .ok c) (hg : g ≠ "") : g ∈ c.grants := by
  unfold withClient at h
  split at h; · simp at h
  split at h; · simp at h
  split at h
  · simp at h
  · rename_i c' _ hcond
    simp at h; subst h
    simp [hg] at hcond
    exact C04.validateGrantType_iff.1 hcond

/-- Provider router, token exchange: secret-authenticated client -/
theorem authorizeTokenExchangeClient_ok {now id sec p c} (h : AuthorizeTokenExchangeClient now id sec p = .ok c) :
    p.store.AuthorizeClientIDSecret id sec = .ok () ∧ p.store.GetClientByClientID id = .ok c := by
  rw [SpecTok.AuthorizeTokenExchangeClient_eq] at h; unfold SpecTok.AuthorizeTokenExchangeClient at h; simp only [SpecTok.AuthorizeClientIDSecret_eq] at h; unfold SpecTok.AuthorizeClientIDSecret at h
  simp only [Provider.Storage] at h
  repeat' (split at h <;> try (simp at h))
  subst h
  exact ⟨C04.match_secret (by assumption), by assumption⟩

/-- client_credentials: the storage authenticates, and the grant must be registered -/
theorem authorizeClientCredentialsClient_ok {now rq st c} (h : AuthorizeClientCredentialsClient now rq st = .ok c) :
    st.ClientCredentials rq.ClientID rq.ClientSecret = .ok c ∧ Const.GrantTypeClientCredentials ∈ c.grants := by
  rw [SpecTok.AuthorizeClientCredentialsClient_eq] at h; unfold SpecTok.AuthorizeClientCredentialsClient at h
  repeat' (split at h <;> try (simp at h))
  subst h
  exact ⟨by assumption, (C04.validateGrantType_iff (now := now)).1 (by simp_all)⟩

end C05
