/-
  C13 — trace-level statements with explicit POSITIONS: where in a run a rejection (or a fetch error) is justified.

  Part 1 is about the monitor alone (no model): what `monitor = none` says about the positions of a run's observations.
  The linearisation point of a refresh is `Obs.ask c` — the instant call `c`, unanswered by the cache, is released into
  `keysFromRemote`'s critical section.  A rejection must rest on a successful download that had NOT been announced in the
  prefix of the run up to that instant (or on the named key itself), wherever rotations, other calls, answers and
  publications are placed in the run.

  Part 2 instantiates it with the runs of the transition system built from the regenerated facts and decision functions of
  jwks.go (`GenJwks.facts`, `GenJwks.logic`) for ALL schedules (`C13.jwks_model_satisfies_monitor`).
-/
import OidcModel.Proofs.C13

namespace C13
open Jwks Hand

/-! ## Part 1 — the monitor, position by position -/

@[simp] theorem flag_callers (m : MState) (cl : String) : (m.flag cl).callers = m.callers := by
  unfold MState.flag; split <;> rfl
@[simp] theorem flag_skip (m : MState) (cl : String) : (m.flag cl).skip = m.skip := by
  unfold MState.flag; split <;> rfl
@[simp] theorem flag_announced (m : MState) (cl : String) : (m.flag cl).announced = m.announced := by
  unfold MState.flag; split <;> rfl
theorem flag_viol_none {m : MState} {cl : String} (h : (m.flag cl).viol = none) : False := by
  unfold MState.flag at h; split at h <;> simp_all

/-- a violation, once recorded, stays -/
theorem flag_viol_mono {m : MState} {cl : String} (h : (m.flag cl).viol = none) : m.viol = none := (flag_viol_none h).elim

theorem mstep_viol_mono {m : MState} {o : Obs} (h : (mstep m o).viol = none) : m.viol = none := by
  cases o with
  | start c tok => simp only [mstep] at h; split at h; exact flag_viol_mono h; exact h
  | finish c oc => simp only [mstep] at h; split at h; exact flag_viol_mono h; exact h
  | cancel c => exact h
  | rotate ks => exact h
  | fetchBegin f owner =>
    simp only [mstep] at h
    repeat' split at h
    all_goals first
      | exact h
      | exact flag_viol_mono h
      | exact flag_viol_mono (flag_viol_mono h)
      | exact flag_viol_mono (flag_viol_mono (flag_viol_mono h))
  | fetchEnd f a => simp only [mstep] at h; split at h; exact flag_viol_mono h; exact h
  | announce f => exact h
  | retire f => simp only [mstep] at h; split at h <;> exact h
  | point p n => exact h
  | ask c => exact h
  | expire c => exact h

theorem mrun_viol_mono {obs : List Obs} {m : MState} (h : (mrun m obs).viol = none) : m.viol = none := by
  induction obs generalizing m with
  | nil => exact h
  | cons o os ih => exact mstep_viol_mono (ih (by rwa [mrun_cons] at h))

theorem mstep_skip (m : MState) (o : Obs) : (mstep m o).skip = m.skip := by
  cases o <;> simp only [mstep] <;> repeat' split
  all_goals simp

theorem mrun_skip (obs : List Obs) (m : MState) : (mrun m obs).skip = m.skip := by
  induction obs generalizing m with
  | nil => rfl
  | cons o os ih => rw [mrun_cons, ih, mstep_skip]

/-- Only `ask c` can make the snapshot `asked` of call `c` say "not yet announced" for a download: every other observation leaves it
    alone or (a fresh `start`) resets it to "everything is announced". -/
theorem mstep_asked_inv {m : MState} {o : Obs} {c : Cid} (A : Fid → Bool) (ho : o ≠ Obs.ask c)
    (h : ∀ f, (m.callers c).asked f = false → A f = false) : ∀ f, ((mstep m o).callers c).asked f = false → A f = false := by
  cases o with
  | start c' tok =>
    simp only [mstep]; split
    · simpa using h
    · by_cases hc : c = c'
      · subst hc; simp [upd]
      · simpa [upd, hc] using h
  | finish c' oc =>
    simp only [mstep]
    by_cases hc : c = c'
    · subst hc; split <;> simpa [upd] using h
    · split <;> simpa [upd, hc] using h
  | cancel c' =>
    simp only [mstep]
    by_cases hc : c = c'
    · subst hc; simpa [upd] using h
    · simpa [upd, hc] using h
  | rotate ks => exact h
  | fetchBegin f owner =>
    simp only [mstep]
    by_cases hc : c = owner
    · subst hc; repeat' split
      all_goals simpa [upd] using h
    · repeat' split
      all_goals simpa [upd, hc] using h
  | fetchEnd f a => simp only [mstep]; split <;> simpa using h
  | announce f => exact h
  | retire f => simp only [mstep]; split <;> simpa using h
  | point p n => exact h
  | ask c' =>
    have hc : c ≠ c' := fun e => ho (by rw [e])
    simpa [mstep, upd, hc] using h
  | expire c' =>
    simp only [mstep]
    by_cases hc : c = c'
    · subst hc; simpa [upd] using h
    · simpa [upd, hc] using h

theorem mrun_asked_inv {obs : List Obs} {m : MState} {c : Cid} (A : Fid → Bool) (ho : ∀ x ∈ obs, x ≠ Obs.ask c)
    (h : ∀ f, (m.callers c).asked f = false → A f = false) : ∀ f, ((mrun m obs).callers c).asked f = false → A f = false := by
  induction obs generalizing m with
  | nil => exact h
  | cons o os ih =>
    rw [mrun_cons]
    exact ih (fun x hx => ho x (List.mem_cons_of_mem _ hx)) (mstep_asked_inv A (ho o (List.mem_cons_self ..)) h)

/-- a download counts as announced exactly when an `announce` for it has been observed -/
theorem mstep_announced (m : MState) (o : Obs) (f : Fid) :
    (mstep m o).announced f = true ↔ (m.announced f = true ∨ o = Obs.announce f) := by
  cases o with
  | announce g =>
    by_cases hg : f = g
    · subst hg; simp [mstep, upd]
    · have : Obs.announce g ≠ Obs.announce f := fun e => hg (by injection e with e; exact e.symm)
      simp [mstep, upd, hg, this]
  | start c tok => simp only [mstep]; split <;> simp
  | finish c oc => simp only [mstep]; split <;> simp
  | cancel c => simp [mstep]
  | rotate ks => simp [mstep]
  | fetchBegin g owner => simp only [mstep]; repeat' split
                          all_goals simp
  | fetchEnd g a => simp only [mstep]; split <;> simp
  | retire g => simp only [mstep]; split <;> simp
  | point p n => simp [mstep]
  | ask c => simp [mstep]
  | expire c => simp [mstep]

theorem mrun_announced (obs : List Obs) (m : MState) (f : Fid) :
    (mrun m obs).announced f = true ↔ (m.announced f = true ∨ Obs.announce f ∈ obs) := by
  induction obs generalizing m with
  | nil => simp [mrun_nil]
  | cons o os ih =>
    rw [mrun_cons, ih, mstep_announced]
    constructor
    · rintro ((h | h) | h)
      · exact Or.inl h
      · exact Or.inr (by rw [h]; exact List.mem_cons_self ..)
      · exact Or.inr (List.mem_cons_of_mem _ h)
    · rintro (h | h)
      · exact Or.inl (Or.inl h)
      · rcases List.mem_cons.mp h with h | h
        · exact Or.inl (Or.inr h.symm)
        · exact Or.inr h

/-- the state of the monitor when `finish c o` arrives, and the fact that it found nothing to object to -/
theorem judge_of_monitor {skip : Bool} {before post : List Obs} {c : Cid} {o : Outcome}
    (hmon : monitor skip (before ++ Obs.finish c o :: post) = none) :
    judge (mrun { skip := skip } before) c o = none := by
  unfold monitor at hmon
  rw [mrun_append, mrun_cons] at hmon
  have h1 := mrun_viol_mono hmon
  have h0 := mstep_viol_mono h1
  simp only [mstep] at h1
  split at h1
  · exact (flag_viol_none h1).elim
  · assumption

/-- **Linearisation of a rejection.** In a run the monitor accepts, let `ask c` be the last instant before `finish c` at which call `c`
    turned to the endpoint. If the call is rejected (`noKey` / `badSig`), then a download `f` ended successfully before the call
    returned, with a key set `ks` such that EITHER no `announce f` occurs in the run before that `ask c` — the download was still
    under way when the call asked, it is the refresh the call triggered or shared — and `ks` does not verify the token, OR `ks`
    contains the very key the token names and that key does not verify it. Rotations, other calls, answers and publications may be
    anywhere in `pre`, `mid`, `post`. -/
theorem monitor_reject_linearised (skip : Bool) (pre mid post : List Obs) (c : Cid) (o : Outcome)
    (ho : o = .noKey ∨ o = .badSig) (hmid : ∀ x ∈ mid, x ≠ Obs.ask c)
    (hmon : monitor skip (pre ++ Obs.ask c :: (mid ++ Obs.finish c o :: post)) = none) :
    ∃ f ks, f < (mrun { skip := skip } (pre ++ Obs.ask c :: mid)).nf ∧
      okKeys (mrun { skip := skip } (pre ++ Obs.ask c :: mid)) f = some ks ∧
      ((Obs.announce f ∉ pre ∧ refAccepts ks ((mrun { skip := skip } (pre ++ Obs.ask c :: mid)).callers c).tok = false) ∨
        namedKeyRejects skip ks ((mrun { skip := skip } (pre ++ Obs.ask c :: mid)).callers c).tok = true) := by
  have hj : judge (mrun { skip := skip } (pre ++ Obs.ask c :: mid)) c o = none := by
    apply judge_of_monitor (post := post)
    simpa [List.append_assoc] using hmon
  -- the snapshot taken at `ask c` survives until the call returns
  have hasked : ∀ f, ((mrun { skip := skip } (pre ++ Obs.ask c :: mid)).callers c).asked f = false →
      (mrun { skip := skip } pre).announced f = false := by
    rw [mrun_append, mrun_cons]
    refine mrun_asked_inv _ hmid ?_
    intro f hf
    simpa [mstep, upd] using hf
  have hskip : (mrun { skip := skip } (pre ++ Obs.ask c :: mid)).skip = skip := mrun_skip _ _
  generalize mrun { skip := skip } (pre ++ Obs.ask c :: mid) = m2 at hj hasked hskip ⊢
  have hrj : rejectJustified m2 (m2.callers c) = true := by
    unfold judge at hj
    rcases ho with rfl | rfl <;> simp only at hj <;> (repeat' split at hj) <;> simp_all
  unfold rejectJustified at hrj
  rw [List.any_eq_true] at hrj
  obtain ⟨f, hf, hm⟩ := hrj
  cases hk : okKeys m2 f with
  | none => simp [hk] at hm
  | some ks =>
    simp only [hk, Bool.or_eq_true, Bool.and_eq_true, Bool.not_eq_true'] at hm
    refine ⟨f, ks, List.mem_range.mp hf, hk, ?_⟩
    rcases hm with ⟨ha, hr⟩ | hn
    · refine Or.inl ⟨?_, hr⟩
      intro hmem
      have := (mrun_announced pre { skip := skip } f).mpr (Or.inr hmem)
      rw [hasked f ha] at this
      exact Bool.noConfusion this
    · exact Or.inr (by rw [← hskip]; exact hn)

/-- **No refresh, no rejection by ignorance.** A call that never turned to the endpoint (no `ask c` before its `finish`) can only be
    rejected because a downloaded key set contains the key its token names and that key does not verify it. -/
theorem monitor_reject_without_ask (skip : Bool) (before post : List Obs) (c : Cid) (o : Outcome)
    (ho : o = .noKey ∨ o = .badSig) (hno : ∀ x ∈ before, x ≠ Obs.ask c)
    (hmon : monitor skip (before ++ Obs.finish c o :: post) = none) :
    ∃ f ks, okKeys (mrun { skip := skip } before) f = some ks ∧
      namedKeyRejects skip ks ((mrun { skip := skip } before).callers c).tok = true := by
  have hj := judge_of_monitor hmon
  have hasked : ∀ f, ((mrun { skip := skip } before).callers c).asked f = false → (fun _ => true) f = false :=
    mrun_asked_inv (m := { skip := skip }) (fun _ => true) hno (by simp)
  have hskip : (mrun { skip := skip } before).skip = skip := mrun_skip _ _
  generalize mrun { skip := skip } before = m2 at hj hasked hskip ⊢
  have hrj : rejectJustified m2 (m2.callers c) = true := by
    unfold judge at hj
    rcases ho with rfl | rfl <;> simp only at hj <;> (repeat' split at hj) <;> simp_all
  unfold rejectJustified at hrj
  rw [List.any_eq_true] at hrj
  obtain ⟨f, hf, hm⟩ := hrj
  cases hk : okKeys m2 f with
  | none => simp [hk] at hm
  | some ks =>
    simp only [hk, Bool.or_eq_true, Bool.and_eq_true, Bool.not_eq_true'] at hm
    refine ⟨f, ks, hk, ?_⟩
    rcases hm with ⟨ha, _⟩ | hn
    · exact absurd (hasked f ha) (by simp)
    · rw [← hskip]; exact hn

/-- **Linearisation of a fetch error.** A call that fails with the error of a download (`k`) was failed by a download that ended with
    exactly `k` and had not been announced when the call asked. -/
theorem monitor_fetchErr_linearised (skip : Bool) (pre mid post : List Obs) (c : Cid) (k : EndKind)
    (hmid : ∀ x ∈ mid, x ≠ Obs.ask c)
    (hmon : monitor skip (pre ++ Obs.ask c :: (mid ++ Obs.finish c (.fetchErr k) :: post)) = none) :
    ∃ f, failedWith (mrun { skip := skip } (pre ++ Obs.ask c :: mid)) f k = true ∧ Obs.announce f ∉ pre := by
  have hj : judge (mrun { skip := skip } (pre ++ Obs.ask c :: mid)) c (.fetchErr k) = none := by
    apply judge_of_monitor (post := post)
    simpa [List.append_assoc] using hmon
  have hasked : ∀ f, ((mrun { skip := skip } (pre ++ Obs.ask c :: mid)).callers c).asked f = false →
      (mrun { skip := skip } pre).announced f = false := by
    rw [mrun_append, mrun_cons]
    refine mrun_asked_inv _ hmid ?_
    intro f hf
    simpa [mstep, upd] using hf
  generalize mrun { skip := skip } (pre ++ Obs.ask c :: mid) = m2 at hj hasked ⊢
  have hrj : fetchErrJustified m2 (m2.callers c) k = true := by
    unfold judge at hj
    simp only at hj
    (repeat' split at hj) <;> simp_all
  unfold fetchErrJustified at hrj
  rw [List.any_eq_true] at hrj
  obtain ⟨f, _, hm⟩ := hrj
  simp only [Bool.and_eq_true, Bool.not_eq_true'] at hm
  refine ⟨f, hm.2, ?_⟩
  intro hmem
  have := (mrun_announced pre { skip := skip } f).mpr (Or.inr hmem)
  rw [hasked f hm.1] at this
  exact Bool.noConfusion this

/-- The monitor regards the own context of call `c` as ended only after it has observed `cancel c` or `expire c` (the deadline of that
    call's context passed): no observation about ANOTHER call, a download, a rotation or a publication ends it. -/
theorem mstep_cancelled {m : MState} {o : Obs} {c : Cid} (h : ((mstep m o).callers c).cancelled = true) :
    (m.callers c).cancelled = true ∨ o = Obs.cancel c ∨ o = Obs.expire c := by
  cases o with
  | start c' tok =>
    simp only [mstep] at h; split at h
    · exact Or.inl (by simpa using h)
    · by_cases hc : c = c'
      · subst hc; simp [upd] at h
      · exact Or.inl (by simpa [upd, hc] using h)
  | finish c' oc =>
    simp only [mstep] at h
    by_cases hc : c = c'
    · subst hc; split at h <;> exact Or.inl (by simpa [upd] using h)
    · split at h <;> exact Or.inl (by simpa [upd, hc] using h)
  | cancel c' =>
    by_cases hc : c = c'
    · subst hc; exact Or.inr (Or.inl rfl)
    · exact Or.inl (by simpa [mstep, upd, hc] using h)
  | rotate ks => exact Or.inl h
  | fetchBegin f owner =>
    simp only [mstep] at h
    by_cases hc : c = owner
    · subst hc; repeat' split at h
      all_goals exact Or.inl (by simpa [upd] using h)
    · repeat' split at h
      all_goals exact Or.inl (by simpa [upd, hc] using h)
  | fetchEnd f a => simp only [mstep] at h; split at h <;> exact Or.inl (by simpa using h)
  | announce f => exact Or.inl h
  | retire f => simp only [mstep] at h; split at h <;> exact Or.inl (by simpa using h)
  | point p n => exact Or.inl h
  | ask c' =>
    by_cases hc : c = c'
    · subst hc; exact Or.inl (by simpa [mstep, upd] using h)
    · exact Or.inl (by simpa [mstep, upd, hc] using h)
  | expire c' =>
    by_cases hc : c = c'
    · subst hc; exact Or.inr (Or.inr rfl)
    · exact Or.inl (by simpa [mstep, upd, hc] using h)

theorem mrun_cancelled {obs : List Obs} {m : MState} {c : Cid} (h : ((mrun m obs).callers c).cancelled = true) :
    (m.callers c).cancelled = true ∨ Obs.cancel c ∈ obs ∨ Obs.expire c ∈ obs := by
  induction obs generalizing m with
  | nil => exact Or.inl h
  | cons o os ih =>
    rw [mrun_cons] at h
    rcases ih h with h1 | h1 | h1
    · rcases mstep_cancelled h1 with h2 | h2 | h2
      · exact Or.inl h2
      · exact Or.inr (Or.inl (by rw [h2]; exact List.mem_cons_self ..))
      · exact Or.inr (Or.inr (by rw [h2]; exact List.mem_cons_self ..))
    · exact Or.inr (Or.inl (List.mem_cons_of_mem _ h1))
    · exact Or.inr (Or.inr (List.mem_cons_of_mem _ h1))

/-- **Isolation of contexts, for both kinds of ending (position-explicit).** In a run the monitor accepts, a call that returns its own
    context error, or the error of a download that was ended by a context (`context canceled` AND `context deadline exceeded`: somebody's
    `cancel()` or somebody's deadline), has seen ITS OWN context end before it returned: `cancel c` or `expire c` occurs in the run
    before `finish c`. Cancellations and deadlines of every other call may be anywhere in the run. -/
theorem monitor_own_context_isolation (skip : Bool) (before post : List Obs) (c : Cid) (o : Outcome)
    (ho : o = .ctxErr ∨ o = .fetchErr .cancelled)
    (hmon : monitor skip (before ++ Obs.finish c o :: post) = none) :
    Obs.cancel c ∈ before ∨ Obs.expire c ∈ before := by
  have hj := judge_of_monitor hmon
  have hc : ((mrun { skip := skip } before).callers c).cancelled = true := by
    generalize mrun { skip := skip } before = m2 at hj
    unfold judge at hj
    rcases ho with rfl | rfl <;> simp only at hj <;> (repeat' split at hj) <;> simp_all
  rcases mrun_cancelled hc with h | h | h
  · simp at h
  · exact Or.inl h
  · exact Or.inr h

/-! ## Part 2 — every schedule of the regenerated single-flight logic -/

section model
variable (cfg : JwksSet) (hd : cfg.defaultAlg = "") {tr : List Act} {s : State}
include hd

/-- **Rejected only after a refresh that was still under way when the call asked** — for every schedule `tr` of the transition system
    built from the regenerated `keysFromRemote` / `updateKeys` facts and the regenerated decision functions, with rotations
    (`Act.rotate`), answers of any kind (`Act.respond`), cancellations and any number of other calls at arbitrary positions: if the
    run's observations are `pre ++ ask c :: mid ++ finish c o :: post` with `o` a rejection and no further `ask c` in `mid`, then some
    download ended successfully with a key set that rejects the token and had not been announced anywhere in `pre`, or a downloaded
    key set contains the named key and that key rejects the token. -/
theorem jwks_reject_linearised (pre mid post : List Obs) (c : Cid) (o : Outcome)
    (h : run GenJwks.facts GenJwks.logic cfg {} tr = some (s, pre ++ Obs.ask c :: (mid ++ Obs.finish c o :: post)))
    (ho : o = .noKey ∨ o = .badSig) (hmid : ∀ x ∈ mid, x ≠ Obs.ask c) :
    ∃ f ks, okKeys (mrun { skip := cfg.skipRemoteCheck } (pre ++ Obs.ask c :: mid)) f = some ks ∧
      ((Obs.announce f ∉ pre ∧ refAccepts ks ((mrun { skip := cfg.skipRemoteCheck } (pre ++ Obs.ask c :: mid)).callers c).tok = false) ∨
        namedKeyRejects cfg.skipRemoteCheck ks ((mrun { skip := cfg.skipRemoteCheck } (pre ++ Obs.ask c :: mid)).callers c).tok = true) := by
  obtain ⟨f, ks, _, hk, hr⟩ :=
    monitor_reject_linearised cfg.skipRemoteCheck pre mid post c o ho hmid (jwks_model_satisfies_monitor cfg hd tr s _ h)
  exact ⟨f, ks, hk, hr⟩

/-- a call that is answered before it ever turns to the endpoint is rejected only by the key its token names -/
theorem jwks_reject_without_refresh (before post : List Obs) (c : Cid) (o : Outcome)
    (h : run GenJwks.facts GenJwks.logic cfg {} tr = some (s, before ++ Obs.finish c o :: post))
    (ho : o = .noKey ∨ o = .badSig) (hno : ∀ x ∈ before, x ≠ Obs.ask c) :
    ∃ f ks, okKeys (mrun { skip := cfg.skipRemoteCheck } before) f = some ks ∧
      namedKeyRejects cfg.skipRemoteCheck ks ((mrun { skip := cfg.skipRemoteCheck } before).callers c).tok = true :=
  monitor_reject_without_ask cfg.skipRemoteCheck before post c o ho hno (jwks_model_satisfies_monitor cfg hd tr s _ h)

/-- a call fails with a download's error only if that download had not been announced when the call asked -/
theorem jwks_fetchErr_linearised (pre mid post : List Obs) (c : Cid) (k : EndKind)
    (h : run GenJwks.facts GenJwks.logic cfg {} tr = some (s, pre ++ Obs.ask c :: (mid ++ Obs.finish c (.fetchErr k) :: post)))
    (hmid : ∀ x ∈ mid, x ≠ Obs.ask c) :
    ∃ f, failedWith (mrun { skip := cfg.skipRemoteCheck } (pre ++ Obs.ask c :: mid)) f k = true ∧ Obs.announce f ∉ pre :=
  monitor_fetchErr_linearised cfg.skipRemoteCheck pre mid post c k hmid (jwks_model_satisfies_monitor cfg hd tr s _ h)

/-- **One caller's cancellation — or deadline — does not fail another caller**, for every schedule of the transition system built from the
    regenerated facts (`GenJwks.facts`: the shared download runs under `context.WithoutCancel(ctx)`, i.e. `spawnCtx = detached`: no
    cancellation, no deadline) and decision functions, with `Act.cancel` and `Act.expire` steps of any calls at arbitrary positions: a call
    that returns a context error — its own, or that of a download ended by a context — has had `cancel c` or `expire c` of ITS OWN context
    before. -/
theorem jwks_own_context_isolation (before post : List Obs) (c : Cid) (o : Outcome)
    (h : run GenJwks.facts GenJwks.logic cfg {} tr = some (s, before ++ Obs.finish c o :: post))
    (ho : o = .ctxErr ∨ o = .fetchErr .cancelled) :
    Obs.cancel c ∈ before ∨ Obs.expire c ∈ before :=
  monitor_own_context_isolation cfg.skipRemoteCheck before post c o ho (jwks_model_satisfies_monitor cfg hd tr s _ h)

end model

/-! ## Part 2b — what the end of a call's context touches (one step, regenerated facts) -/

/-- The deadline of a call's context passes (`Act.expire c`): with the regenerated facts nothing but that call's own liveness changes — no
    download is ended, the cache, the in-flight request, every download and every other call are untouched, and the only observation is
    `expire c`. The download's context is a FACT regenerated from the source (`go r.updateKeys(context.WithoutCancel(ctx))` ⇒
    `spawnCtx = detached`); this statement is about `GenJwks.facts`, so another context expression changes or breaks it. -/
theorem jwks_expire_touches_only_its_call (cfg : JwksSet) (s s' : State) (c : Cid) (obs : List Obs)
    (hx : exec GenJwks.facts GenJwks.logic cfg s (.expire c) = some (s', obs)) :
    obs = [Obs.expire c] ∧ s'.fetches = s.fetches ∧ s'.nf = s.nf ∧ s'.cached = s.cached ∧ s'.inflight = s.inflight ∧ s'.crashed = s.crashed ∧
      (∀ c', c' ≠ c → s'.callers c' = s.callers c') ∧
      (s'.callers c).pc = (s.callers c).pc ∧ (s'.callers c).tok = (s.callers c).tok ∧ (s'.callers c).live = false := by
  rw [facts_bridge] at hx
  simp only [exec] at hx
  split at hx
  · simp at hx
  · have hdet : fixedFacts.spawnCtx.keepsDeadline = false := by decide
    simp only [hdet, Bool.false_eq_true, if_false, Option.some.injEq, Prod.mk.injEq] at hx
    obtain ⟨rfl, rfl⟩ := hx
    refine ⟨rfl, rfl, rfl, rfl, rfl, rfl, ?_, by simp, by simp, by simp⟩
    intro c' hc
    simp [upd, hc]

/-- … and the same for an explicit `cancel()` of a call's context -/
theorem jwks_cancel_touches_only_its_call (cfg : JwksSet) (s s' : State) (c : Cid) (obs : List Obs)
    (hx : exec GenJwks.facts GenJwks.logic cfg s (.cancel c) = some (s', obs)) :
    obs = [Obs.cancel c] ∧ s'.fetches = s.fetches ∧ s'.nf = s.nf ∧ s'.cached = s.cached ∧ s'.inflight = s.inflight ∧ s'.crashed = s.crashed ∧
      (∀ c', c' ≠ c → s'.callers c' = s.callers c') ∧
      (s'.callers c).pc = (s.callers c).pc ∧ (s'.callers c).tok = (s.callers c).tok ∧ (s'.callers c).live = false := by
  rw [facts_bridge] at hx
  simp only [exec] at hx
  split at hx
  · simp at hx
  · have hdet : (fixedFacts.spawnCtx == CtxKind.caller) = false := by decide
    simp only [hdet, Bool.false_eq_true, if_false, Option.some.injEq, Prod.mk.injEq] at hx
    obtain ⟨rfl, rfl⟩ := hx
    refine ⟨rfl, rfl, rfl, rfl, rfl, rfl, ?_, by simp, by simp, by simp⟩
    intro c' hc
    simp [upd, hc]

/-! ## Part 2c — non-vacuity and sensitivity: deadlines -/

/-- Call 0 carries a deadline and starts the download, call 1 joins it; the deadline of call 0 passes before the endpoint answers. -/
def traceDeadline : List Act :=
  [.rotate [{ jwk := wk1 }], .start 0 (wtok "k1" 2 1), .start 1 (wtok "k1" 2 2), .cacheRead 0, .cacheRead 1,
   .enter 0, .enter 1, .expire 0, .wake 0 true, .respond 0 (ansOk [{ jwk := wk1 }]), .upd 0, .wake 1 false]

/-- on the regenerated model the starter fails with its own context error and the joiner verifies -/
example : verdict GenJwks.facts traceDeadline = some (none, [(0, .ctxErr), (1, .payload 2)]) := by rw [facts_bridge]; decide

/-- the same schedule when the download is given the starter's deadline (cancellation detached, deadline kept — seeded C13-N): the
    starter's deadline ends the shared download and fails the joiner, and the monitor says so -/
def traceDeadline' : List Act :=
  [.rotate [{ jwk := wk1 }], .start 0 (wtok "k1" 2 1), .start 1 (wtok "k1" 2 2), .cacheRead 0, .cacheRead 1,
   .enter 0, .enter 1, .expire 0, .wake 0 true, .upd 0, .wake 1 false]
theorem jwks_deadline_isolation_needs_no_deadline :
    verdict { fixedFacts with spawnCtx := .deadlineOnly } traceDeadline' = some (some "cancel-isolation", [(0, .ctxErr), (1, .fetchErr .cancelled)]) := by decide

/-- with the caller's own context (before F-C13a's repair) a deadline does the same as a cancellation -/
example : verdict { fixedFacts with spawnCtx := .caller } traceDeadline' = some (some "cancel-isolation", [(0, .ctxErr), (1, .fetchErr .cancelled)]) := by decide

/-- why cancellation tests do not notice a kept deadline: an explicit `cancel()` of the starter is still detached there -/
example : verdict { fixedFacts with spawnCtx := .deadlineOnly } traceA = some (none, [(0, .ctxErr), (1, .payload 2)]) := by decide

/-- a starter whose deadline has passed before it creates the download: with a kept deadline the download is dead on arrival -/
example : verdict { fixedFacts with spawnCtx := .deadlineOnly }
    [.rotate [{ jwk := wk1 }], .start 0 (wtok "k1" 2 1), .expire 0, .start 1 (wtok "k1" 2 2), .cacheRead 0, .cacheRead 1, .enter 0, .enter 1, .upd 0, .wake 1 false]
    = some (some "cancel-isolation", [(1, .fetchErr .cancelled)]) := by decide

/-- the monitor itself, on the observed run of the seeded change: the joiner's context is live, the download ended with the starter's deadline -/
example : C13.monitor false
    [.rotate [{ jwk := wk1 }], .start 0 (wtok "k1" 2 1), .start 1 (wtok "k1" 2 2), .ask 0, .fetchBegin 0 0, .ask 1, .expire 0, .fetchEnd 0 none,
     .finish 0 .ctxErr, .announce 0, .retire 0, .finish 1 (.fetchErr .cancelled)] = some "cancel-isolation" := by decide

/-- … and a call whose OWN deadline has passed may be answered with the context error (it is not live any more) -/
example : C13.monitor false
    [.rotate [{ jwk := wk1 }], .start 0 (wtok "k1" 2 1), .start 1 (wtok "k1" 2 2), .ask 0, .fetchBegin 0 0, .ask 1, .expire 1,
     .finish 1 .ctxErr, .fetchEnd 0 (some (ansOk [{ jwk := wk1 }])), .announce 0, .retire 0, .finish 0 (.payload 1)] = none := by decide

/-! ## Part 3 — non-vacuity: the window between a call's cache lookup and `keysFromRemote`'s critical section -/

/-- A rotation BETWEEN the answer of download 0 and its publication; call 1 (token signed with the rotated-in key `k2`) looks into the
    cache before the publication and enters `keysFromRemote` after it. -/
def traceOvertaken : List Act :=
  [.rotate [{ jwk := wk1 }], .start 0 (wtok "k9" 2 1), .cacheRead 0, .enter 0, .respond 0 (ansOk [{ jwk := wk1 }]),
   .rotate [{ jwk := wk1 }, { jwk := wk2 }], .start 1 (wtok "k2" 3 2), .cacheRead 1, .upd 0, .enter 1,
   .respond 1 (ansOk [{ jwk := wk1 }, { jwk := wk2 }]), .upd 1, .wake 1 false, .wake 0 false]

/-- the regenerated logic makes the overtaken call start a refresh of its own, and it verifies -/
example : verdict GenJwks.facts traceOvertaken = some (none, [(1, .payload 2), (0, .noKey)]) := by rw [facts_bridge]; decide

/-- what an observer sees up to the publication of download 0 in that schedule -/
def obsOvertakenPrefix : List Obs :=
  [.rotate [{ jwk := wk1 }], .start 0 (wtok "k9" 2 1), .point (.caller 0) "cache", .point (.caller 0) "lock",
   .ask 0, .fetchBegin 0 0, .point (.caller 0) "spawn", .point (.caller 0) "select",
   .fetchEnd 0 (some (ansOk [{ jwk := wk1 }])), .point (.updater 0) "fetched",
   .rotate [{ jwk := wk1 }, { jwk := wk2 }], .start 1 (wtok "k2" 3 2), .point (.caller 1) "cache", .point (.caller 1) "lock",
   .point (.updater 0) "ulocked", .announce 0, .retire 0]

/-- … and the clause is not vacuous: a key set that answers the overtaken call from the download that has just been published
    ("the cache was synced since my lookup": no refresh is triggered or joined) is flagged, although that download was still
    unannounced when the call STARTED — the linearisation point is `ask`, not `start`. -/
theorem jwks_refresh_needs_ask_linearisation :
    C13.monitor false (obsOvertakenPrefix ++ [.ask 1, .finish 1 .noKey]) = some "rejected-without-fresh-key-set" := by decide

/-- the same rejection is fine when the call had asked BEFORE the publication (it shared download 0: inherent in single flight) -/
example : C13.monitor false
    ([.rotate [{ jwk := wk1 }], .start 0 (wtok "k9" 2 1), .ask 0, .fetchBegin 0 0, .fetchEnd 0 (some (ansOk [{ jwk := wk1 }])),
      .rotate [{ jwk := wk1 }, { jwk := wk2 }], .start 1 (wtok "k2" 3 2), .ask 1, .announce 0, .retire 0, .finish 1 .noKey]) = none := by decide

end C13
