/-
  deep4-C04: the tie between the concurrent model (Proofs/C04Concurrent.lean) and the REGENERATED token-endpoint handlers
  (Generated/Endpoint.lean; Proofs/C04Parse.lean).

  `c04_concurrent_each_validated` says: a handler of a concurrent pair answers with tokens only if `Flow.codeExchange` let ITS OWN
  request through.  `Flow.codeExchange` is the lookup step of the model's handler (`hstep_idle_decision`), and by the bridges of
  Proofs/C04Parse.lean that step IS the regenerated handler - `op.CodeExchange` on the Provider router,
  `webServer.tokensHandler` → `withClient` → `codeExchangeHandler` → `LegacyServer.CodeExchange` on the Server router - applied to
  that handler's own raw HTTP request and the storage as it is at that moment (`c04_concurrent_lookup_is_handler`).  The
  regenerated handler is a FUNCTION of (its request, the provider with its storage): there is no other input through which the
  answer to one request could depend on another request in flight.  A wrapper around the exchange that hands one caller another
  caller's result (an in-flight group keyed by the code, a response cache, validated values parked in package-level variables)
  is not expressible as such a function: the translator then either changes the regenerated definition (the bridges stop
  checking) or emits `UNSUPPORTED_…` (closure, channel, unknown package-level state) and the build breaks.
-/
import OidcModel.Proofs.C04Concurrent
import OidcModel.Proofs.C04Parse

namespace C04
open Go Gen Hand Flow FlowObs FlowX

/-- what a handler's lookup step decided -/
def lookupDecision : H → Go.R IssueFor
  | .fin (.error e) => .error e
  | .fin (.issued i _) => .ok i
  | .run i _ _ => .ok i
  | _ => .error "ErrServerError"

/-- the lookup step of the concurrent model's handler is `Flow.codeExchange` on the handler's own request and the storage as it is
    at that step - under either storage contract -/
theorem hstep_idle_decision (now : Int) (rt : Router) (strict : Bool) (s : Flow.St) (req : AccessTokenRequest) (ha : Bool) :
    lookupDecision (hstep now rt strict s (.idle req ha)).2 = codeExchange now rt s.p req ha ∧
    (hstep now rt strict s (.idle req ha)).1 = s := by
  simp only [hstep]
  cases codeExchange now rt s.p req ha with
  | error e => exact ⟨rfl, rfl⟩
  | ok i => refine ⟨?_, rfl⟩; simp only []; split <;> rfl

/-- **The lookup step IS the regenerated handler on the handler's own raw request.**  For a raw token request `r` that parses to
    `f`, and a model state whose provider is the endpoint model's provider: what the Provider router's regenerated `op.CodeExchange`
    / the Server router's regenerated `tokensHandler` answers to `r` is the response written for the decision of the model handler's
    lookup step on the request read off `r` - nothing but `r` and the storage enters. -/
theorem c04_concurrent_lookup_is_handler (now : Int) (o : EPOracles) (r : EPRequest) (x : EPProvider) (f : EPForm) (strict : Bool)
    (s : Flow.St) (hs : s.p = x.asProvider now) (hp : parseSpec o r = .ok f) :
    (∀ ha, GenEP.CodeExchange now o r x =
      respProvider now r x (lookupDecision (hstep now .provider strict s (.idle (Hand.epAccessTokenRequest o f) ha)).2)) ∧
    (r.Form.Get "grant_type" = Const.GrantTypeCode →
      GenEP.tokensHandler now o (EP.webServer x) r =
        respLegacy now r x (lookupDecision (hstep now .legacy strict s (.idle (Hand.epAccessTokenRequest o f) (f.ClientAssertion != ""))).2)) := by
  constructor
  · intro ha
    rw [(hstep_idle_decision now .provider strict s _ ha).1, hs, codeExchange_provider_bridge now o r x ha, hp]
  · intro hg
    rw [(hstep_idle_decision now .legacy strict s _ _).1, hs, codeExchange_legacy_bridge now o r x hg, hp]

end C04
