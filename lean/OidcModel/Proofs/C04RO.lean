/-
  round 4c (C04) - "whenever the request carried a PKCE code challenge, the presented code_verifier matches it" for authorization
  requests that carry a signed REQUEST OBJECT, with the PKCE parameters split in any way between the query and the object.

  The challenge a request CARRIED is decided from what the client sent (`C04.effectiveChallenge`, Spec/C04.lean: per parameter the
  accepted object's value when it sets one, else the query's).  Composition of C19's characterisation of the REGENERATED
  `GenHon.CopyRequestObjectToAuthRequest` / `GenHon.ParseRequestObject` (`C19.copy_char`, `C19.parseRequestObject_char`; imported
  read-only) with C04's exchange theorem (`FlowObs.codeExchange_ok` over the regenerated token-endpoint functions):

  * `ro_copy_effective`             what the storage keeps of the merged request IS the effective challenge (any query, any object)
  * `ro_stored_is_effective`        ... for every ACCEPTED object (any oracle for ParseToken / CheckSignature): of the verified claims
  * `stepAuthorize_cases`           an authorize step with an object is refused without a trace or IS `Flow.step (.authorize …)` of the
                                    merged request: the history theorems of Proofs/C04History.lean cover it
  * `c04_ro_authorize_stores_effective`  the request such a step stores has the effective challenge
  * `c04_ro_exchange_pkce`          a code exchange answered with tokens for a request stored from an accepted object: the monitor's
                                    PKCE clause holds for the EFFECTIVE challenge (either router)
  A copy that treats code_challenge / code_challenge_method as a pair (seeded C04-P) falsifies `C19.copy_char`, hence every theorem here.
-/
import OidcModel.Model.FlowC04RO
import OidcModel.Proofs.C19Honour
import OidcModel.Proofs.C04History

namespace C04
open Go Flow

/-- what the reference storage keeps of ANY merged request is the effective challenge of (query, object) -/
theorem ro_copy_effective (now : Int) (a : HonAuthRequest) (o : HonRequestObject) :
    C19.honStoredChallenge (GenHon.CopyRequestObjectToAuthRequest now a o) =
      effectiveChallenge true ⟨a.CodeChallenge, a.CodeChallengeMethod⟩ ⟨o.CodeChallenge, o.CodeChallengeMethod⟩ := by
  rw [C19.copy_char]
  simp only [C19.honStoredChallenge, C19.copySpec, effectiveChallenge, Bool.true_and]
  by_cases h1 : o.CodeChallenge = "" <;> by_cases h2 : o.CodeChallengeMethod = "" <;> by_cases h3 : a.CodeChallenge = "" <;> simp [h1, h2, h3]

/-- every ACCEPTED object, whatever `oidc.ParseToken` / `oidc.CheckSignature` answer: the stored challenge is the effective challenge of
    the query and the VERIFIED claims -/
theorem ro_stored_is_effective {now : Int} {ro : HonRoOracle} {a a' : HonAuthRequest} {stg : HonStorage} {iss : String}
    (h : GenHon.ParseRequestObject now ro a stg iss = .ok a') :
    ∃ payload claims claims', ro.ParseToken a.RequestParam = .ok (payload, claims) ∧
      ro.CheckSignature a.RequestParam payload claims [] (stg, claims.Issuer) = .ok claims' ∧
      C19.honStoredChallenge a' =
        effectiveChallenge true ⟨a.CodeChallenge, a.CodeChallengeMethod⟩ ⟨claims'.CodeChallenge, claims'.CodeChallengeMethod⟩ := by
  obtain ⟨payload, claims, claims', hp, _, _, _, _, hs, rfl⟩ := C19.parseRequestObject_char h
  refine ⟨payload, claims, claims', hp, hs, ?_⟩
  rw [← C19.copy_char now, ro_copy_effective]

/-- an authorize step with a request object: refused without a trace, or `Flow.step (.authorize …)` of the merged request -/
theorem stepAuthorize_cases (now : Int) (s : St) (ro : HonRoOracle) (a : AuthReq) (qc qm raw : String) (hint : FlowHint) :
    (∃ e, FlowRO.stepAuthorize now s ro a qc qm raw hint = (s, .error e)) ∨
    (∃ h, GenHon.ParseRequestObject now ro (FlowRO.queryOf a qc qm raw) {} s.p.issuer = .ok h ∧
      FlowRO.stepAuthorize now s ro a qc qm raw hint = step now s (.authorize (FlowRO.storedOf a h) hint)) := by
  unfold FlowRO.stepAuthorize
  cases hp : GenHon.ParseRequestObject now ro (FlowRO.queryOf a qc qm raw) {} s.p.issuer with
  | error e => exact .inl ⟨e, rfl⟩
  | ok h => exact .inr ⟨h, rfl, rfl⟩

/-- the request an accepted authorize step with an object stores has the EFFECTIVE challenge of what travelled -/
theorem c04_ro_authorize_stores_effective {now : Int} {s s' : St} {ro : HonRoOracle} {a : AuthReq} {qc qm raw : String} {hint : FlowHint}
    {id : String} (h : FlowRO.stepAuthorize now s ro a qc qm raw hint = (s', .loginPage id)) :
    ∃ payload claims claims' r, ro.ParseToken raw = .ok (payload, claims) ∧
      ro.CheckSignature raw payload claims [] (({} : HonStorage), claims.Issuer) = .ok claims' ∧
      s'.store.authReqs = s.store.authReqs ++ [r] ∧ r.id = id ∧ r.clientID = a.clientID ∧
      r.challenge = effectiveChallenge true ⟨qc, qm⟩ ⟨claims'.CodeChallenge, claims'.CodeChallengeMethod⟩ := by
  rcases stepAuthorize_cases now s ro a qc qm raw hint with ⟨e, he⟩ | ⟨hh, hp, hs⟩
  · rw [he] at h; cases h
  · obtain ⟨payload, claims, claims', h1, h2, h3⟩ := ro_stored_is_effective hp
    rw [hs] at h
    simp only [step] at h
    split at h
    · cases h
    · rename_i sub _
      cases h
      exact ⟨payload, claims, claims', _, h1, h2, rfl, rfl, rfl, h3⟩

/-- **a code of a request made with an accepted request object yields tokens only with the verifier of the challenge the request
    CARRIED**: either router, any oracle, any split of the PKCE parameters between query and object - the monitor's PKCE clause for the
    effective challenge (a public client's request carried one) -/
theorem c04_ro_exchange_pkce {now now' : Int} {rt : Router} {p : Provider} {req : AccessTokenRequest} {ha : Bool}
    {a : AuthReq} {c : OPClient} {k : String}
    {ro : HonRoOracle} {q h : HonAuthRequest} {stg : HonStorage} {iss : String}
    (hp : GenHon.ParseRequestObject now' ro q stg iss = .ok h)
    (hst : a.challenge = C19.honStoredChallenge h)
    (hx : codeExchange now rt p req ha = .ok (.code a c k)) :
    ∃ payload claims claims', ro.ParseToken q.RequestParam = .ok (payload, claims) ∧
      ro.CheckSignature q.RequestParam payload claims [] (stg, claims.Issuer) = .ok claims' ∧
      (match effectiveChallenge true ⟨q.CodeChallenge, q.CodeChallengeMethod⟩ ⟨claims'.CodeChallenge, claims'.CodeChallengeMethod⟩ with
       | some ch => pkceOK ch req.CodeVerifier = true
       | none => c.auth ≠ Const.AuthMethodNone) := by
  obtain ⟨payload, claims, claims', h1, h2, h3⟩ := ro_stored_is_effective hp
  refine ⟨payload, claims, claims', h1, h2, ?_⟩
  obtain ⟨a', c', hi, _, _, _, _, hpk, hnone, _⟩ := FlowObs.codeExchange_ok hx
  cases hi
  rw [← h3, ← hst]
  cases hch : a.challenge with
  | none => intro hc; exact absurd hch (hnone hc)
  | some ch =>
    obtain ⟨hv, hvc⟩ := hpk (by simp [hch])
    rw [hch] at hvc
    exact FlowObs.pkce_of_verify hv hvc

/-! non-vacuity: the case the seeded pair-copy gets wrong - the challenge travels in the query, the object carries the method alone -/
example : effectiveChallenge true ⟨"S256(v)", ""⟩ ⟨"", "S256"⟩ = some { Challenge := "S256(v)", Method := "S256" } := by decide
example : effectiveChallenge true ⟨"S256(w)", "plain"⟩ ⟨"S256(v)", ""⟩ = some { Challenge := "S256(v)", Method := "plain" } := by decide
example : effectiveChallenge true ⟨"", "S256"⟩ ⟨"", "S256"⟩ = none := by decide
example : C19.honStoredChallenge (GenHon.CopyRequestObjectToAuthRequest 0 { CodeChallenge := "S256(v)" } { CodeChallengeMethod := "S256" }) =
    some { Challenge := "S256(v)", Method := "S256" } := by decide

end C04
