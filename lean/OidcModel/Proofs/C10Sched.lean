/-
  C10 — the fail-closed statement for arbitrary FAULT SCHEDULES (any program whose analysis is clean: `WF`).
  Everything here follows from `fn_good` (Proofs/C10Flow.lean): every failure of an execution is followed by a closed suffix.
-/
import OidcModel.Model.C10Sched
import OidcModel.Proofs.C10Flow

namespace C10.Flow

theorem nthCall_get : ∀ (tr : List Ev) (j i : Nat) (e : Ev), nthCall tr j = some (i, e) → tr[i]? = some e ∧ e.isCall = true := by
  intro tr
  induction tr with
  | nil => intro j i e h; simp [nthCall] at h
  | cons a t ih =>
    intro j i e h
    have step : ∀ j', (nthCall t j').map (fun p => (p.1 + 1, p.2)) = some (i, e) → (a :: t)[i]? = some e ∧ e.isCall = true := by
      intro j' h'
      cases hn : nthCall t j' with
      | none => rw [hn] at h'; cases h'
      | some p =>
        rw [hn] at h'
        simp only [Option.map_some, Option.some.injEq, Prod.mk.injEq] at h'
        obtain ⟨h1, h2⟩ := h'
        obtain ⟨g1, g2⟩ := ih j' p.1 p.2 (by rw [hn])
        subst h1; subst h2
        exact ⟨by simpa using g1, g2⟩
    cases a with
    | sfail g s k =>
      cases j with
      | zero => simp only [nthCall, Option.some.injEq, Prod.mk.injEq] at h; obtain ⟨h1, h2⟩ := h; subst h1; subst h2; exact ⟨rfl, rfl⟩
      | succ j' => exact step j' (by simpa [nthCall] using h)
    | sok g s =>
      cases j with
      | zero => simp only [nthCall, Option.some.injEq, Prod.mk.injEq] at h; obtain ⟨h1, h2⟩ := h; subst h1; subst h2; exact ⟨rfl, rfl⟩
      | succ j' => exact step j' (by simpa [nthCall] using h)
    | succ n => exact step j (by simpa [nthCall] using h)
    | resp n => exact step j (by simpa [nthCall] using h)
    | absorbed g s => exact step j (by simpa [nthCall] using h)

theorem nthCall_of_outcome : ∀ (tr : List Ev) (j : Nat) (k : EKind), (callOutcomes tr)[j]? = some (some k) →
    ∃ i g s, nthCall tr j = some (i, .sfail g s k) := by
  intro tr
  induction tr with
  | nil => intro j k h; simp [callOutcomes] at h
  | cons a t ih =>
    intro j k h
    have lift : ∀ j', (callOutcomes t)[j']? = some (some k) → ∃ i g s, (nthCall t j').map (fun p => (p.1 + 1, p.2)) = some (i, Ev.sfail g s k) := by
      intro j' h'
      obtain ⟨i, g, s, hi⟩ := ih j' k h'
      exact ⟨i + 1, g, s, by rw [hi]; rfl⟩
    cases a with
    | sfail g s k' =>
      cases j with
      | zero =>
        simp only [callOutcomes, List.getElem?_cons_zero, Option.some.injEq] at h
        subst h; exact ⟨0, g, s, rfl⟩
      | succ j' =>
        simp only [callOutcomes, List.getElem?_cons_succ] at h
        simpa [nthCall] using lift j' h
    | sok g s =>
      cases j with
      | zero => simp [callOutcomes] at h
      | succ j' =>
        simp only [callOutcomes, List.getElem?_cons_succ] at h
        simpa [nthCall] using lift j' h
    | succ n => simp only [callOutcomes] at h; simpa [nthCall] using lift j h
    | resp n => simp only [callOutcomes] at h; simpa [nthCall] using lift j h
    | absorbed g s => simp only [callOutcomes] at h; simpa [nthCall] using lift j h

/-- every execution follows the schedule it realises: quantifying over schedules loses no execution -/
theorem follows_schedOf (tr : List Ev) : Follows (schedOf tr) tr := by
  intro j o h
  simp [schedOf, h]

/-- FAULT SCHEDULES.  For a program whose analysis is clean, any function F of it, any schedule σ and any execution of F that
    follows σ: whenever the schedule fails the j-th call the execution makes (whatever else it fails before or after, with
    whatever kinds), that call's failure is closed - absorbed at an audited site, or the same call site is called again later,
    or no success step and no further failing call follows and the function ends in the error class. -/
theorem sched_fail_closed {P : List Fn} {A : Audit} (hW : WF P A) {f : Nat} {F : Fn} (hF : P[f]? = some F)
    {ρ : Env} {tr : List Ev} {x : CV} (hrun : Run P A f F.sk ρ tr x) (σ : Sched) (hσ : Follows σ tr)
    (j : Nat) (k : EKind) (hj : j < (callOutcomes tr).length) (hk : σ j = some k) :
    ∃ i g s, nthCall tr j = some (i, .sfail g s k) ∧ closedFor F.kind x (.sfail g s k) (tr.drop (i + 1)) = true := by
  have hget : (callOutcomes tr)[j]? = some ((callOutcomes tr)[j]) := List.getElem?_eq_getElem hj
  have ho := hσ j _ hget
  rw [hk] at ho
  rw [ho] at hget
  obtain ⟨i, g, s, hn⟩ := nthCall_of_outcome tr j k hget
  refine ⟨i, g, s, hn, ?_⟩
  have hg : Good F.kind x tr := fn_good hW hF hrun
  exact goodW_get tr i _ hg (nthCall_get tr j i _ hn).1 rfl

theorem hasAbs_drop_false {t : List Ev} (h : hasAbs t = false) (n : Nat) : hasAbs (t.drop n) = false := by
  cases hd : hasAbs (t.drop n) with
  | false => rfl
  | true =>
    simp only [hasAbs, List.any_eq_true] at hd
    obtain ⟨e, he, ha⟩ := hd
    have : hasAbs t = true := by simp only [hasAbs, List.any_eq_true]; exact ⟨e, List.mem_of_mem_drop he, ha⟩
    rw [h] at this; cases this

/-- the last call at a call site that is called at all -/
theorem last_call_at (g s : Nat) : ∀ (t : List Ev), retriedAt g s t = true →
    ∃ i e, t[i]? = some e ∧ e.isCallAt g s = true ∧ retriedAt g s (t.drop (i + 1)) = false := by
  intro t
  induction t with
  | nil => intro h; simp [retriedAt] at h
  | cons a t ih =>
    intro h
    cases ht : retriedAt g s t with
    | true =>
      obtain ⟨i, e, h1, h2, h3⟩ := ih ht
      exact ⟨i + 1, e, by simpa using h1, h2, by simpa using h3⟩
    | false =>
      refine ⟨0, a, rfl, ?_, by simpa using ht⟩
      simp only [retriedAt, List.any_cons, Bool.or_eq_true] at h
      rcases h with h | h
      · exact h
      · simp only [retriedAt] at ht; rw [ht] at h; cases h

theorem isCallAt_fail {g s : Nat} {e : Ev} (h1 : e.isCallAt g s = true) (h2 : e.isFail = true) : ∃ k, e = .sfail g s k := by
  cases e with
  | sfail g' s' k =>
    simp only [Ev.isCallAt, Bool.and_eq_true, beq_iff_eq] at h1
    obtain ⟨rfl, rfl⟩ := h1
    exact ⟨k, rfl⟩
  | sok g' s' => simp [Ev.isFail] at h2
  | succ n => simp [Ev.isFail] at h2
  | resp n => simp [Ev.isFail] at h2
  | absorbed g' s' => simp [Ev.isFail] at h2

/-- REPEATED FAULTS.  If EVERY call an execution makes at some call site fails - a call that is made once and fails, or all k
    attempts of a retried call, with whatever kinds - and no failure is absorbed at an audited site, then after the LAST of these
    calls no success step and no failing call follows and the function ends in the error class.  (The seeded retry defects
    C10-E / C10-M are exactly "the last attempt is not examined".) -/
theorem all_attempts_fail_closed {κ : FKind} {x : CV} {tr : List Ev} (hg : Good κ x tr) (g s : Nat)
    (hcalled : retriedAt g s tr = true) (hall : allFailAt g s tr = true) (hna : hasAbs tr = false) :
    ∃ i k, tr[i]? = some (.sfail g s k) ∧ retriedAt g s (tr.drop (i + 1)) = false ∧
      noSucc (tr.drop (i + 1)) = true ∧ noFail (tr.drop (i + 1)) = true ∧ exitOK κ x (tr.drop (i + 1)) = true := by
  obtain ⟨i, e, hi, hc, hlast⟩ := last_call_at g s tr hcalled
  have hf : e.isFail = true := by
    have := List.all_eq_true.mp hall e (List.mem_of_getElem? hi)
    rw [hc] at this
    simpa using this
  obtain ⟨k, rfl⟩ := isCallAt_fail hc hf
  have hcl := goodW_get tr i _ hg hi rfl
  simp only [closedFor, hasAbs_drop_false hna, hlast, Bool.false_or, Bool.and_eq_true] at hcl
  exact ⟨i, k, hi, hlast, hcl.1.1, hcl.1.2, hcl.2⟩

/-- FAULTS AT TWO INDICES.  A second failing call is only ever reached when the first failure was absorbed at an audited site or
    its call is attempted again: failures do not accumulate, the handler stops at the first failure it does not retry. -/
theorem later_fault_needs_retry {κ : FKind} {x : CV} {tr : List Ev} (hg : Good κ x tr) {i j g s g' s' : Nat} {k k' : EKind}
    (hi : tr[i]? = some (.sfail g s k)) (hj : tr[j]? = some (.sfail g' s' k')) (hij : i < j) :
    hasAbs (tr.drop (i + 1)) = true ∨ retriedAt g s (tr.drop (i + 1)) = true := by
  have hcl := goodW_get tr i _ hg hi rfl
  simp only [closedFor, Bool.or_eq_true, Bool.and_eq_true] at hcl
  rcases hcl with (h | h) | ⟨⟨_, hnf⟩, _⟩
  · exact .inl h
  · exact .inr h
  · exfalso
    have hmem : Ev.sfail g' s' k' ∈ tr.drop (i + 1) := by
      apply List.mem_of_getElem? (i := j - (i + 1))
      rw [List.getElem?_drop]
      have : i + 1 + (j - (i + 1)) = j := by omega
      rw [this]; exact hj
    have := List.all_eq_true.mp hnf _ hmem
    simp [Ev.isFail] at this

end C10.Flow
