/-
  C15 proofs over the REGENERATED token-exchange chain (Generated/TokenExchangeTE.lean, namespace GenTE):
  getTokenIDAndClaims, GetTokenIDAndSubjectFromToken (incl. the role dispatch to the optional verifier storage),
  CreateTokenExchangeRequest, ValidateTokenExchangeRequest, needsRefreshToken (type switch), createTokens and
  CreateTokenExchangeResponse.  Libraries and the storage enter as function fields of `TEProvider` / `TEStore`;
  every theorem quantifies over all of them (any decrypt result, any verifier answers, any storage policy).
-/
import OidcModel.Spec.C15
import OidcModel.Generated.TokenExchangeTE
import OidcModel.Proofs.C05
namespace C15
open Go Gen Hand

/-! ## hand-readable specification of token resolution -/

/-- the provider's OWN resolution of a presented token of the declared type: (id-or-token, subject, claims) -/
def ownResolution (p : TEProvider) (tok typ : String) : Option (String × String × TEClaims) :=
  if typ = Const.AccessTokenType then
    match p.Crypto.Decrypt tok with
    | .ok plain =>
      if Go.len (TE.split plain ":") != 2 then none
      else some (Go.index (TE.split plain ":") 0, Go.index (TE.split plain ":") 1, [])
    | .error _ =>
      match p.AccessTokenVerifier.verify tok with
      | .ok c => some (c.JWTID, c.Subject, if c.set then c.Claims else [])
      | .error _ => none
  else if typ = Const.RefreshTokenType then
    match p.Storage.TokenRequestByRefreshToken tok with
    | .ok r => some (tok, r.subject, [])
    | .error _ => none
  else if typ = Const.IDTokenType then
    match p.IDTokenHintVerifier.verify tok with
    | .ok (.valid c) => some (tok, c.Subject, c.Claims)      -- an expired hint is NOT a live ID token
    | _ => none
  else none

/-- the optional verifier storage's method FOR THE ROLE in which the token was presented -/
def rolePolicy (s : TEStore) (isActor : Bool) : String → String → Go.R (String × String × TEClaims) :=
  if isActor then s.VerifyExchangeActorToken else s.VerifyExchangeSubjectToken

/-- own resolution first; only if that fails, and only if the storage implements the optional interface, the role's policy -/
def resolve (p : TEProvider) (tok typ : String) (isActor : Bool) : String × String × TEClaims × Bool :=
  match ownResolution p tok typ with
  | some (i, s, c) => (i, s, c, true)
  | none =>
    if p.Storage.is_TokenExchangeTokensVerifierStorage then
      match rolePolicy p.Storage isActor tok typ with
      | .ok (i, s, c) => (i, s, c, true)
      | .error _ => ("", "", [], false)
    else ("", "", [], false)

/-- closes the goals in which own resolution failed: both sides are the role's policy (or the refusal) -/
local macro "te_tail" : tactic =>
  `(tactic| (cases ‹Bool› <;> simp <;> split <;> (try simp_all) <;> (try (split <;> simp_all))))

/-- the regenerated `GetTokenIDAndSubjectFromToken` IS that specification (all providers, storages, tokens, types, roles) -/
theorem c15_resolution_spec (now : Int) (p : TEProvider) (tok typ : String) (isActor : Bool) :
    GenTE.GetTokenIDAndSubjectFromToken now p tok typ isActor = resolve p tok typ isActor := by
  unfold GenTE.GetTokenIDAndSubjectFromToken resolve ownResolution rolePolicy GenTE.getTokenIDAndClaims
    Hand.teVerifyAccessToken Hand.teVerifyIDTokenHint
  simp only [Go.nil, HasNil.nilv, Go.notNil, Nilable.isNil, TERefreshReq.GetSubject, beq_iff_eq]
  by_cases h1 : typ = Const.AccessTokenType
  · simp only [h1, if_true]
    cases hd : p.Crypto.Decrypt tok with
    | ok plain =>
      simp only []
      by_cases hl : (Go.len (TE.split plain ":") != 2) = true
      · simp only [hl, if_true]
        te_tail
      · simp [hl]
    | error e =>
      simp only []
      cases hv : p.AccessTokenVerifier.verify tok with
      | ok c =>
        simp only []
        cases hs : c.set <;> simp
      | error e2 =>
        simp only []
        te_tail
  · by_cases h2 : typ = Const.RefreshTokenType
    · have h1' : ¬ (Const.RefreshTokenType = Const.AccessTokenType) := by decide
      subst h2
      simp only [h1', if_false, if_true]
      cases hr' : p.Storage.TokenRequestByRefreshToken tok <;> simp
      te_tail
    · by_cases h3 : typ = Const.IDTokenType
      · have h1' : ¬ (Const.IDTokenType = Const.AccessTokenType) := by decide
        have h2' : ¬ (Const.IDTokenType = Const.RefreshTokenType) := by decide
        subst h3
        simp only [h1', h2', if_false, if_true]
        cases hh : p.IDTokenHintVerifier.verify tok with
        | ok hint =>
          cases hint with
          | valid c => simp [TEHint.strict]
          | expired c => simp only [TEHint.strict]; te_tail
        | error e => simp only [TEHint.strict]; te_tail
      · simp only [h1, h2, h3, if_false]
        te_tail

/-- ROLE DISPATCH: a subject token is only ever resolved through the provider's own resolution or the storage's SUBJECT
    policy - replacing the actor policy by anything at all changes nothing - and an actor token only through the ACTOR policy;
    for all providers, storages, oracle answers, tokens and declared types -/
theorem c15_role_dispatch (now : Int) (p : TEProvider) (tok typ : String) (f : String → String → Go.R (String × String × TEClaims)) :
    GenTE.GetTokenIDAndSubjectFromToken now { p with Storage := { p.Storage with VerifyExchangeActorToken := f } } tok typ false
      = GenTE.GetTokenIDAndSubjectFromToken now p tok typ false ∧
    GenTE.GetTokenIDAndSubjectFromToken now { p with Storage := { p.Storage with VerifyExchangeSubjectToken := f } } tok typ true
      = GenTE.GetTokenIDAndSubjectFromToken now p tok typ true := by
  simp only [c15_resolution_spec]
  constructor <;> rfl

/-- a token accepted in a role was resolved by the provider itself or accepted by THAT role's policy, with exactly the
    identity that policy returned -/
theorem c15_accepted_by_role_policy {now : Int} {p : TEProvider} {tok typ : String} {isActor : Bool} {i s : String} {c : TEClaims}
    (h : GenTE.GetTokenIDAndSubjectFromToken now p tok typ isActor = (i, s, c, true)) :
    ownResolution p tok typ = some (i, s, c) ∨
    (ownResolution p tok typ = none ∧ p.Storage.is_TokenExchangeTokensVerifierStorage = true ∧
      (if isActor then p.Storage.VerifyExchangeActorToken else p.Storage.VerifyExchangeSubjectToken) tok typ = .ok (i, s, c)) := by
  rw [c15_resolution_spec] at h
  unfold resolve rolePolicy at h
  cases ho : ownResolution p tok typ with
  | some r => obtain ⟨a, b, d⟩ := r; simp [ho] at h; left; simp [h]
  | none =>
    right
    simp only [ho] at h
    by_cases hv : p.Storage.is_TokenExchangeTokensVerifierStorage = true
    · simp only [hv, if_true] at h
      refine ⟨rfl, hv, ?_⟩
      split at h
      · rename_i i' s' c' heq; simp at h; obtain ⟨rfl, rfl, rfl⟩ := h; exact heq
      · simp at h
    · simp [hv] at h

/-- the request the storage policy is asked about: the identities resolved FOR EACH ROLE, the requesting client, and the
    request's own scopes, audience, resources and requested type -/
def builtReq (now : Int) (rq : TEIn) (c : OPClient) (sid ssub : String) (scl : TEClaims) (aid asub : String) (acl : TEClaims) : TEReq :=
  { exchangeSubjectTokenIDOrToken := sid, exchangeSubjectTokenType := rq.SubjectTokenType, exchangeSubject := ssub, exchangeSubjectTokenClaims := scl,
    exchangeActorTokenIDOrToken := aid, exchangeActorTokenType := rq.ActorTokenType, exchangeActor := asub, exchangeActorTokenClaims := acl,
    subject := ssub, resource := rq.Resource, audience := rq.Audience, scopes := rq.Scopes, requestedTokenType := rq.RequestedTokenType,
    clientID := c.id, authTime := now }

/-- what `CreateTokenExchangeRequest` establishes: exchange storage present, subject token resolved in the subject role, actor
    token (iff given) resolved in the actor role, the storage policy consulted with exactly `builtReq` and its verdict and
    rewriting propagated -/
theorem c15_create_request_sound {now : Int} {rq : TEIn} {c : OPClient} {p : TEProvider} {r : TEReq}
    (h : GenTE.CreateTokenExchangeRequest now rq c p = .ok r) :
    p.Storage.is_TokenExchangeStorage = true ∧
    ∃ sid ssub scl aid asub acl r1,
      resolve p rq.SubjectToken rq.SubjectTokenType false = (sid, ssub, scl, true) ∧
      (if rq.ActorToken = "" then (aid, asub, acl) = ("", "", [])
       else resolve p rq.ActorToken rq.ActorTokenType true = (aid, asub, acl, true)) ∧
      p.Storage.ValidateTokenExchangeRequest (builtReq now rq c sid ssub scl aid asub acl) = .ok r1 ∧
      p.Storage.CreateTokenExchangeRequest r1 = .ok r := by
  unfold GenTE.CreateTokenExchangeRequest at h
  simp only [c15_resolution_spec, Go.nil, HasNil.nilv, OPClient.GetID] at h
  by_cases hs : p.Storage.is_TokenExchangeStorage = true
  · simp only [hs, Bool.not_true, Bool.false_eq_true, if_false] at h
    refine ⟨hs, ?_⟩
    rcases hres : resolve p rq.SubjectToken rq.SubjectTokenType false with ⟨sid, ssub, scl, ok⟩
    simp only [hres] at h
    cases ok with
    | false => simp at h
    | true =>
      simp only [Bool.not_true, Bool.false_eq_true, if_false] at h
      by_cases ha : rq.ActorToken = ""
      · simp only [ha, bne_self_eq_false, Bool.false_eq_true, if_false] at h
        cases hv : p.Storage.ValidateTokenExchangeRequest (builtReq now rq c sid ssub scl "" "" []) with
        | error e => simp only [builtReq] at hv; simp [hv] at h
        | ok r1 =>
          simp only [builtReq] at hv
          simp only [hv] at h
          cases hc : p.Storage.CreateTokenExchangeRequest r1 with
          | error e => simp [hc] at h
          | ok r2 =>
            simp [hc] at h; subst h
            exact ⟨sid, ssub, scl, "", "", [], r1, rfl, by simp [ha], by simpa [builtReq] using hv, hc⟩
      · have ha' : (rq.ActorToken != "") = true := by simpa using ha
        simp only [ha', if_true] at h
        rcases hact : resolve p rq.ActorToken rq.ActorTokenType true with ⟨aid, asub, acl, ok2⟩
        simp only [hact] at h
        cases ok2 with
        | false => simp at h
        | true =>
          simp only [Bool.not_true, Bool.false_eq_true, if_false] at h
          cases hv : p.Storage.ValidateTokenExchangeRequest (builtReq now rq c sid ssub scl aid asub acl) with
          | error e => simp only [builtReq] at hv; simp [hv] at h
          | ok r1 =>
            simp only [builtReq] at hv
            simp only [hv] at h
            cases hc : p.Storage.CreateTokenExchangeRequest r1 with
            | error e => simp [hc] at h
            | ok r2 =>
              simp [hc] at h; subst h
              exact ⟨sid, ssub, scl, aid, asub, acl, r1, rfl, by simp [ha], by simpa [builtReq] using hv, hc⟩
  · simp [hs] at h

/-- the token endpoint (Provider router) lets a token exchange through only for a secret-authenticated client registered for
    the grant, with supported declared types, and then only as `c15_create_request_sound` says.
    PARTIAL with exactly one exclusion (finding F-C15b, witness below): for the declared type id_token "the provider's own
    resolution" is `VerifyIDTokenHint`, and that verifier also accepts the provider's own JWT ACCESS tokens - so "resolved as an
    id_token" does not establish "is an ID token" (nor, therefore, that a revoked access token is refused). For the declared types
    access_token / refresh_token / jwt and for third-party tokens the statement is the full one. -/
theorem c15_validate_sound_partial {now : Int} {rq : TEIn} {id sec : String} {p : TEProvider} {r : TEReq} {c : OPClient}
    (h : GenTE.ValidateTokenExchangeRequest now rq id sec p = .ok (r, c)) :
    p.base.store.AuthorizeClientIDSecret id sec = .ok () ∧ p.base.store.GetClientByClientID id = .ok c ∧
    Const.GrantTypeTokenExchange ∈ c.grants ∧
    rq.SubjectToken ≠ "" ∧ rq.SubjectTokenType.IsSupported = true ∧ (rq.ActorTokenType = "" ∨ rq.ActorTokenType.IsSupported = true) ∧
    (rq.RequestedTokenType = "" ∨ rq.RequestedTokenType.IsSupported = true) ∧
    GenTE.CreateTokenExchangeRequest now rq c p = .ok r := by
  unfold GenTE.ValidateTokenExchangeRequest Hand.teAuthorizeClient at h
  by_cases h1 : (rq.SubjectToken == "") = true
  · simp [h1] at h
  by_cases h2 : (rq.SubjectTokenType == "") = true
  · simp [h1, h2] at h
  simp only [h1, h2, Bool.false_eq_true, if_false] at h
  cases hc : AuthorizeTokenExchangeClient now id sec p.base with
  | error e => simp [hc] at h
  | ok c' =>
    simp only [hc] at h
    by_cases h3 : (!ValidateGrantType now c' Const.GrantTypeTokenExchange) = true
    · simp [h3] at h
    by_cases h4 : (rq.RequestedTokenType != "" && !rq.RequestedTokenType.IsSupported) = true
    · simp [h3, h4] at h
    by_cases h5 : (!rq.SubjectTokenType.IsSupported) = true
    · simp [h3, h4, h5] at h
    by_cases h6 : (rq.ActorTokenType != "" && !rq.ActorTokenType.IsSupported) = true
    · simp [h3, h4, h5, h6] at h
    simp only [h3, h4, h5, h6, Bool.false_eq_true, if_false] at h
    cases hr : GenTE.CreateTokenExchangeRequest now rq c' p with
    | error e => simp [hr] at h
    | ok r' =>
      simp only [hr] at h
      simp at h
      obtain ⟨rfl, rfl⟩ := h
      obtain ⟨a1, a2⟩ := C05.authorizeTokenExchangeClient_ok hc
      refine ⟨a1, a2, C04.validateGrantType_iff.1 (by simpa using h3), by simpa using h1, by simpa using h5, ?_, ?_, hr⟩
      · by_cases ht : rq.ActorTokenType = ""
        · left; exact ht
        · right; simp [ht] at h6; exact h6
      · by_cases ht : rq.RequestedTokenType = ""
        · left; exact ht
        · right; simp [ht] at h4; exact h4

/-! ## the refresh decision and the response -/

/-- REFRESH DECISION: for a token-exchange request a refresh token is created iff the requested type is the refresh type -
    whatever the client's registration (grants, auth method, …) -/
theorem c15_refresh_decision (now : Int) (r : TEReq) (c : OPClient) :
    GenTE.needsRefreshToken now r.asTokenRequest c = (r.requestedTokenType == Const.RefreshTokenType) := by
  have hA : "AuthRequest" ∉ GenTE.tokenExchangeRequest_satisfies := by decide
  have hT : "TokenExchangeRequest" ∈ GenTE.tokenExchangeRequest_satisfies := by decide
  simp [GenTE.needsRefreshToken, TEReq.asTokenRequest, hA, hT, TEAnyReq.GetRequestedTokenType]

/-- the documented contract of `Storage.CreateAccessAndRefreshTokens`: on success it hands out a refresh token -/
def StorageContract (s : TEStore) : Prop :=
  ∀ r cur id rt exp, s.CreateAccessAndRefreshTokens r cur = .ok (id, rt, exp) → rt ≠ ""

theorem mintAccess_ne_empty (tt : Nat) (id sub : String) : TE.mintAccess tt id sub ≠ "" := by
  unfold TE.mintAccess
  intro h
  have := congrArg String.length h
  split at this <;> simp at this <;> omega

/-- the response declares exactly what it contains, for ALL client registrations and every storage honouring the contract:
    the issued type is the (issuable) requested type, the token member is never empty, and a refresh token is contained
    IFF `issued_token_type` is the refresh type -/
theorem c15_response_declares_contents {now : Int} {r : TEReq} {c : OPClient} {p : TEProvider} {resp : ExchangeResp}
    (hs : StorageContract p.Storage) (h : GenTE.CreateTokenExchangeResponse now r c p = .ok resp) :
    resp.IssuedTokenType = r.requestedTokenType ∧
    (r.requestedTokenType = Const.AccessTokenType ∨ r.requestedTokenType = Const.RefreshTokenType ∨ r.requestedTokenType = Const.IDTokenType) ∧
    resp.AccessToken ≠ "" ∧ (resp.RefreshToken ≠ "" ↔ resp.IssuedTokenType = Const.RefreshTokenType) ∧ resp.Scopes = r.scopes := by
  unfold GenTE.CreateTokenExchangeResponse Hand.texCreateAccessToken Hand.texCreateIDToken GenTE.createTokens at h
  simp only [TEReq.GetRequestedTokenType, TEReq.GetScopes, c15_refresh_decision] at h
  by_cases h1 : (r.requestedTokenType == Const.AccessTokenType || r.requestedTokenType == Const.RefreshTokenType) = true
  · simp only [h1, if_true] at h
    by_cases hr : r.requestedTokenType = Const.RefreshTokenType
    · simp only [hr, beq_self_eq_true, if_true] at h
      cases hc : p.Storage.CreateAccessAndRefreshTokens r.asTokenRequest "" with
      | error e => simp [hc] at h
      | ok v =>
        obtain ⟨id, rt, exp⟩ := v
        simp [hc] at h
        subst h
        exact ⟨hr.symm, Or.inr (Or.inl hr), mintAccess_ne_empty _ _ _, by simp [hs _ _ _ _ _ hc], rfl⟩
    · have hr' : (r.requestedTokenType == Const.RefreshTokenType) = false := by simpa using hr
      simp only [hr', Bool.false_eq_true, if_false] at h
      cases hc : p.Storage.CreateAccessToken r.asTokenRequest with
      | error e => simp [hc] at h
      | ok v =>
        obtain ⟨id, exp⟩ := v
        simp [hc] at h
        subst h
        simp only [Bool.or_eq_true, beq_iff_eq] at h1
        refine ⟨rfl, by rcases h1 with h1 | h1 <;> simp [h1], mintAccess_ne_empty _ _ _, by simp [hr], rfl⟩
  · simp only [h1, Bool.false_eq_true, if_false] at h
    by_cases h2 : (r.requestedTokenType == Const.IDTokenType) = true
    · simp only [h2, if_true] at h
      simp at h
      subst h
      simp only [Bool.or_eq_true, beq_iff_eq, not_or] at h1
      refine ⟨rfl, by right; right; simpa using h2, by simp, ?_, rfl⟩
      simp [h1.2]
    · simp [h2] at h

/-- a requested type the provider cannot issue (jwt, anything else) is an error - never a success answer -/
theorem c15_unissuable_type_is_error {now : Int} {r : TEReq} {c : OPClient} {p : TEProvider}
    (h : r.requestedTokenType ≠ Const.AccessTokenType ∧ r.requestedTokenType ≠ Const.RefreshTokenType ∧ r.requestedTokenType ≠ Const.IDTokenType) :
    GenTE.CreateTokenExchangeResponse now r c p = .error "ErrInvalidRequest" := by
  unfold GenTE.CreateTokenExchangeResponse
  simp [TEReq.GetRequestedTokenType, h.1, h.2.1, h.2.2]

/-! ## finding F-C15b: a JWT access token declared as id_token (type confusion) -/
section confusion
def wKey : JWK := { KeyID := "sig1", Use := "sig", kty := .rsa, keyNo := 0 }
def wKS : KeySet := { kind := .published, keys := [wKey] }
def wNow : Int := 2000000000 * Go.second
/-- the claims of one of the provider's own JWT access tokens (`oidc.NewAccessTokenClaims`: a `client_id`, no `azp`) -/
def wATClaims : Claims := { iss := "https://op.example", sub := "user1", aud := ["web"], clientID := "web", exp := 2000000300, iat := 1999999995 }
def wH : JHeader := { Algorithm := "RS256", KeyID := "sig1" }
def wTok : Token :=
  let p : Payload := { bytes := 1, claims := some wATClaims }
  { segs := 3, middle := some p, jws := some { Signatures := [{ Header := wH, signer := some 0, signedAlg := "RS256", signedBytes := 1, signedHdr := wH }], payload := p } }
def wVerifier : Verifier := { Issuer := "https://op.example", KeySet := wKS }
/-- a provider whose two verifiers are the REGENERATED `op.VerifyAccessToken` / `op.VerifyIDTokenHint` on the symbolic token "AT" -/
def wProvider : TEProvider :=
  { base := { store := { clients := [{ id := "web", secret := "s", grants := [Const.GrantTypeTokenExchange] }] } },
    AccessTokenVerifier := { verify := fun t => if t == "AT" then
      (match Gen.OPVerifyAccessToken wNow wTok wVerifier with | .ok c => .ok { set := true, JWTID := "at1", Subject := c.sub } | .error e => .error e) else .error "invalid" },
    IDTokenHintVerifier := { verify := fun t => if t == "AT" then
      (match Gen.VerifyIDTokenHint wNow wTok wVerifier with
       | .ok (.valid c) => .ok (.valid { Subject := c.sub }) | .ok (.expired c _) => .ok (.expired { Subject := c.sub }) | .error e => .error e) else .error "invalid" } }

/-- WITNESS (the full-strength reading "a success means the subject token is a live token OF THE DECLARED TYPE" is false of the
    unchanged code): the token "AT" is an access token of this provider - the regenerated access-token verifier accepts it and it
    carries no `azp` -, the regenerated id_token_hint verifier accepts it all the same, the exchange that DECLARES it an id_token
    goes through for its subject, and the monitor refuses that success (whatever the storage knows about the access token's
    revocation was never asked) -/
theorem c15_declared_id_token_confusion_witness :
    (match Gen.OPVerifyAccessToken wNow wTok wVerifier with | .ok c => c.azp == "" && c.clientID == "web" | .error _ => false) = true ∧
    (match Gen.VerifyIDTokenHint wNow wTok wVerifier with | .ok (.valid c) => c.sub == "user1" | _ => false) = true ∧
    (match GenTE.ValidateTokenExchangeRequest wNow { SubjectToken := "AT", SubjectTokenType := Const.IDTokenType, RequestedTokenType := Const.AccessTokenType }
        "web" "s" wProvider with | .ok (r, c) => r.subject == "user1" && c.id == "web" | .error _ => false) = true ∧
    judge { base := { issuer := "https://op.example", clients := wProvider.base.store.clients }, capTE := true } wNow { clientID := "web", secret := "s" }
      { subjectType := tID, subjectLive := false, subjectSubject := "", requestedType := tAccess }
      (some { issuedTokenType := tAccess, accessToken := "access", accessLive := true, subject := "user1", policyAsked := true, exchangeSubject := "user1" })
      = some "subject-token-not-live" := by decide
end confusion

/-! ## non-vacuity: concrete providers / storages / registrations -/

/-- a verifier storage whose two role policies differ: "tp-s" only as subject, "tp-a" only as actor, "tp-b" in both roles but
    as DIFFERENT identities -/
def exStore : TEStore :=
  { is_TokenExchangeTokensVerifierStorage := true,
    VerifyExchangeSubjectToken := fun t _ => if t == "tp-s" then .ok (t, "alice", []) else if t == "tp-b" then .ok (t, "bob-as-subject", []) else .error "unknown token",
    VerifyExchangeActorToken := fun t _ => if t == "tp-a" then .ok (t, "svc", []) else if t == "tp-b" then .ok (t, "bob-as-actor", []) else .error "unknown token" }

def exProvider : TEProvider :=
  { base := { store := { clients := [{ id := "te-only", secret := "s", grants := [Const.GrantTypeTokenExchange] }] } }, Storage := exStore }

-- accepted in the role the storage allows, refused in the other one
example : GenTE.GetTokenIDAndSubjectFromToken 0 exProvider "tp-s" Const.JWTTokenType false = ("tp-s", "alice", [], true) := by decide
example : GenTE.GetTokenIDAndSubjectFromToken 0 exProvider "tp-s" Const.JWTTokenType true = ("", "", [], false) := by decide
example : GenTE.GetTokenIDAndSubjectFromToken 0 exProvider "tp-a" Const.JWTTokenType true = ("tp-a", "svc", [], true) := by decide
example : GenTE.GetTokenIDAndSubjectFromToken 0 exProvider "tp-a" Const.JWTTokenType false = ("", "", [], false) := by decide
-- the same token in both roles resolves to the identity of THAT role
example : GenTE.GetTokenIDAndSubjectFromToken 0 exProvider "tp-b" Const.JWTTokenType false = ("tp-b", "bob-as-subject", [], true) := by decide
example : GenTE.GetTokenIDAndSubjectFromToken 0 exProvider "tp-b" Const.JWTTokenType true = ("tp-b", "bob-as-actor", [], true) := by decide
-- without the optional interface the policies are never consulted
example : GenTE.GetTokenIDAndSubjectFromToken 0 { exProvider with Storage := { exStore with is_TokenExchangeTokensVerifierStorage := false } }
    "tp-s" Const.JWTTokenType false = ("", "", [], false) := by decide
-- an expired ID token is not accepted (and a valid one is)
example : GenTE.GetTokenIDAndSubjectFromToken 0 { IDTokenHintVerifier := { verify := fun _ => .ok (.expired { Subject := "alice" }) } }
    "idt" Const.IDTokenType false = ("", "", [], false) := by decide
example : GenTE.GetTokenIDAndSubjectFromToken 0 { IDTokenHintVerifier := { verify := fun _ => .ok (.valid { Subject := "alice" }) } }
    "idt" Const.IDTokenType false = ("idt", "alice", [], true) := by decide

/-- end to end (Provider router): a client registered for token exchange but NOT for refresh_token exchanges a third-party
    subject token and a third-party actor token; the request carries the identities of the respective roles -/
example : (GenTE.ValidateTokenExchangeRequest 0
      { SubjectToken := "tp-b", SubjectTokenType := Const.JWTTokenType, ActorToken := "tp-b", ActorTokenType := Const.JWTTokenType,
        RequestedTokenType := Const.RefreshTokenType, Scopes := ["openid"] } "te-only" "s" exProvider).toOption.map
        (fun rc => (rc.1.exchangeSubject, rc.1.exchangeActor, rc.1.subject, rc.1.scopes, rc.2.id))
    = some ("bob-as-subject", "bob-as-actor", "bob-as-subject", ["openid"], "te-only") := by decide
-- ... and is refused when the actor token is one the ACTOR policy does not accept
example : (match GenTE.ValidateTokenExchangeRequest 0
      { SubjectToken := "tp-s", SubjectTokenType := Const.JWTTokenType, ActorToken := "tp-s", ActorTokenType := Const.JWTTokenType } "te-only" "s" exProvider with
      | .error e => e | .ok _ => "accepted") = "ErrInvalidRequest" := by decide

/-- the client WITHOUT the refresh_token grant that asks for a refresh token gets one (and the response says so); asking for an
    access token yields none -/
example : (GenTE.CreateTokenExchangeResponse 0 { requestedTokenType := Const.RefreshTokenType, subject := "alice" }
      { id := "te-only", grants := [Const.GrantTypeTokenExchange] } exProvider).toOption.map (fun r => (r.IssuedTokenType, r.RefreshToken, r.AccessToken))
    = some (Const.RefreshTokenType, "rt1", "at(at1:alice)") := by decide
example : (GenTE.CreateTokenExchangeResponse 0 { requestedTokenType := Const.AccessTokenType, subject := "alice" }
      { id := "web", grants := [Const.GrantTypeTokenExchange, Const.GrantTypeRefreshToken] } exProvider).toOption.map (fun r => (r.IssuedTokenType, r.RefreshToken))
    = some (Const.AccessTokenType, "") := by decide
example : StorageContract exStore := by
  intro r cur id rt exp h
  simp [exStore] at h
  simp [← h.2.1]
example : GenTE.CreateTokenExchangeResponse 0 { requestedTokenType := Const.JWTTokenType } {} exProvider = .error "ErrInvalidRequest" :=
  c15_unissuable_type_is_error (by decide)

end C15
