/-
  C15 proofs over the REGENERATED ValidateTokenExchangeRequest / CreateTokenExchangeResponse (subject / actor
  resolution and the storage policy enter as oracles the theorems quantify over).
-/
import OidcModel.Spec.C15
import OidcModel.Generated.TokenExchange
import OidcModel.Proofs.C05
namespace C15
open Go Gen Hand

/-- the token endpoint lets a token exchange through only for a secret-authenticated client registered for
    the grant, with supported declared types, a subject token that resolves, an actor token that resolves
    whenever one is given, and the storage policy's consent -/
theorem c15_validate_sound {now rq id sec p r c} (h : ValidateTokenExchangeRequest now rq id sec p = .ok (r, c)) :
    p.store.AuthorizeClientIDSecret id sec = .ok () ∧ p.store.GetClientByClientID id = .ok c ∧
    Const.GrantTypeTokenExchange ∈ c.grants ∧
    rq.SubjectTokenType.IsSupported = true ∧ (rq.ActorTokenType = "" ∨ rq.ActorTokenType.IsSupported = true) ∧
    (rq.RequestedTokenType = "" ∨ rq.RequestedTokenType.IsSupported = true) ∧
    (∃ s, rq.subjectResolves = some s ∧ r.subject = s.subject) ∧
    (rq.ActorToken ≠ "" → ∃ a, rq.actorResolves = some a ∧ r.actor = a.subject) ∧ rq.storageAccepts = true := by
  unfold ValidateTokenExchangeRequest at h
  by_cases h1 : (rq.SubjectToken == "") = true
  · simp [h1] at h
  by_cases h2 : (rq.SubjectTokenType == "") = true
  · simp [h1, h2] at h
  simp only [h1, h2, Bool.false_eq_true, if_false] at h
  cases hc : AuthorizeTokenExchangeClient now id sec p with
  | error e => simp [hc] at h
  | ok c' =>
    simp only [hc] at h
    by_cases h3 : (!ValidateGrantType now c' Const.GrantTypeTokenExchange) = true
    · simp [h3] at h
    by_cases h4 : (rq.RequestedTokenType != "" && !rq.RequestedTokenType.IsSupported) = true
    · simp [h3, h4] at h
    by_cases h5 : (!rq.SubjectTokenType.IsSupported) = true
    · simp [h3, h4, h5] at h
    by_cases h6 : (rq.ActorTokenType != "" && !rq.ActorTokenType.IsSupported) = true
    · simp [h3, h4, h5, h6] at h
    simp only [h3, h4, h5, h6, Bool.false_eq_true, if_false] at h
    cases hr : Hand.CreateTokenExchangeRequest now rq c' p with
    | error e => simp [hr] at h
    | ok r' =>
      simp only [hr] at h
      simp at h
      obtain ⟨rfl, rfl⟩ := h
      obtain ⟨a1, a2⟩ := C05.authorizeTokenExchangeClient_ok hc
      unfold Hand.CreateTokenExchangeRequest at hr
      cases hs : rq.subjectResolves with
      | none => simp [hs] at hr
      | some s =>
        simp only [hs] at hr
        refine ⟨a1, a2, C04.validateGrantType_iff.1 (by simpa using h3), by simpa using h5, ?_, ?_, ?_⟩
        · by_cases ht : rq.ActorTokenType = ""
          · left; exact ht
          · right; simp [ht] at h6; exact h6
        · by_cases ht : rq.RequestedTokenType = ""
          · left; exact ht
          · right; simp [ht] at h4; exact h4
        · by_cases ha : (rq.ActorToken != "") = true
          · simp only [ha, if_true] at hr
            cases har : rq.actorResolves with
            | none => simp [har] at hr
            | some a =>
              simp only [har] at hr
              by_cases hv : rq.storageAccepts = true
              · simp [hv] at hr
                subst hr
                exact ⟨⟨s, rfl, rfl⟩, fun _ => ⟨a, rfl, rfl⟩, hv⟩
              · simp [hv] at hr
          · simp only [ha, Bool.false_eq_true, if_false] at hr
            by_cases hv : rq.storageAccepts = true
            · simp [hv] at hr
              subst hr
              refine ⟨⟨s, rfl, rfl⟩, ?_, hv⟩
              intro hne; simp at ha; exact absurd ha hne
            · simp [hv] at hr

/-- the response declares exactly what it contains: the requested type is one the provider can issue, the
    token member is never empty, a refresh token is contained iff it was declared -/
theorem c15_response_declares_contents {now r c p resp} (h : CreateTokenExchangeResponse now r c p = .ok resp) :
    resp.IssuedTokenType = r.requestedTokenType ∧
    (r.requestedTokenType = Const.AccessTokenType ∨ r.requestedTokenType = Const.RefreshTokenType ∨ r.requestedTokenType = Const.IDTokenType) ∧
    resp.AccessToken ≠ "" ∧ (resp.RefreshToken ≠ "" ↔ r.requestedTokenType = Const.RefreshTokenType) ∧ resp.Scopes = r.scopes := by
  unfold CreateTokenExchangeResponse teCreateAccessToken teCreateIDToken at h
  simp only [ExchangeReq.GetRequestedTokenType, ExchangeReq.GetScopes] at h
  by_cases h1 : (r.requestedTokenType == Const.AccessTokenType || r.requestedTokenType == Const.RefreshTokenType) = true
  · simp only [h1, if_true] at h
    simp at h
    subst h
    simp only [Bool.or_eq_true, beq_iff_eq] at h1
    refine ⟨rfl, by rcases h1 with h1 | h1 <;> simp [h1], by simp, ?_, rfl⟩
    by_cases hr : r.requestedTokenType = Const.RefreshTokenType <;> simp [hr]
  · simp only [h1, Bool.false_eq_true, if_false] at h
    by_cases h2 : (r.requestedTokenType == Const.IDTokenType) = true
    · simp only [h2, if_true] at h
      simp at h
      subst h
      simp only [Bool.or_eq_true, beq_iff_eq, not_or] at h1
      refine ⟨rfl, by right; right; simpa using h2, by simp, ?_, rfl⟩
      simp [h1.2]
    · simp [h2] at h

/-- a requested type the provider cannot issue (jwt, anything else) is an error - never a success answer -/
theorem c15_unissuable_type_is_error {now r c p}
    (h : r.requestedTokenType ≠ Const.AccessTokenType ∧ r.requestedTokenType ≠ Const.RefreshTokenType ∧ r.requestedTokenType ≠ Const.IDTokenType) :
    CreateTokenExchangeResponse now r c p = .error "ErrInvalidRequest" := by
  unfold CreateTokenExchangeResponse
  simp [ExchangeReq.GetRequestedTokenType, h.1, h.2.1, h.2.2]

example : CreateTokenExchangeResponse 0 { requestedTokenType := Const.JWTTokenType } {} {} = .error "ErrInvalidRequest" :=
  c15_unissuable_type_is_error (by decide)

end C15
