/-
  C15 proofs over the REGENERATED token-exchange chain (Generated/TokenExchangeTE.lean, namespace GenTE):
  getTokenIDAndClaims, GetTokenIDAndSubjectFromToken (incl. the role dispatch to the optional verifier storage),
  CreateTokenExchangeRequest, ValidateTokenExchangeRequest, needsRefreshToken (type switch), createTokens and
  CreateTokenExchangeResponse.  Libraries and the storage enter as function fields of `TEProvider` / `TEStore`;
  every theorem quantifies over all of them (any decrypt result, any verifier answers, any storage policy).
-/
import OidcModel.Spec.C15
import OidcModel.Generated.TokenExchangeTE
import OidcModel.Proofs.C05
import OidcModel.Proofs.C15Parse
import OidcModel.GoTac
namespace C15
open Go Gen Hand

/-! ## the regenerated getters of `*tokenExchangeRequest` (Generated/TEGetters.lean): one characterisation each, by `rfl` - a getter
    that answers from another field breaks HERE, and every theorem below sees the request only through these lemmas -/
theorem getRequestedTokenType_eq (r : TEReq) : r.GetRequestedTokenType = r.requestedTokenType := rfl
theorem getScopes_eq (r : TEReq) : r.GetScopes = r.scopes := rfl
theorem getSubject_eq (r : TEReq) : r.GetSubject = r.subject := rfl
theorem getAudience_eq (r : TEReq) : r.GetAudience = r.audience := rfl
theorem getAuthTime_eq (r : TEReq) : r.GetAuthTime = r.authTime := rfl
theorem getClientID_eq (r : TEReq) : r.GetClientID = r.clientID := rfl
theorem getAMR_eq (r : TEReq) : r.GetAMR = [] := rfl
theorem getExchangeSubject_eq (r : TEReq) : r.GetExchangeSubject = r.exchangeSubject := rfl
theorem getExchangeActor_eq (r : TEReq) : r.GetExchangeActor = r.exchangeActor := rfl
theorem anyGetRequestedTokenType_eq (a : TEAnyReq) : a.GetRequestedTokenType = a.req.requestedTokenType := rfl
theorem anyGetScopes_eq (a : TEAnyReq) : a.GetScopes = a.req.scopes := rfl
theorem anyGetSubject_eq (a : TEAnyReq) : a.GetSubject = a.req.subject := rfl
theorem anyGetAudience_eq (a : TEAnyReq) : a.GetAudience = a.req.audience := rfl
theorem anyGetAuthTime_eq (a : TEAnyReq) : a.GetAuthTime = a.req.authTime := rfl
theorem anyGetClientID_eq (a : TEAnyReq) : a.GetClientID = a.req.clientID := rfl
theorem anyGetAMR_eq (a : TEAnyReq) : a.GetAMR = [] := rfl

/-- CHARACTERISATION of the regenerated `oidc.TokenType.IsSupported` over the regenerated table `AllTokenTypes`: the supported types
    are EXACTLY the monitor's four (a table that gains or loses a type, or a test that is not membership, breaks here) -/
theorem isSupported_iff (now : Int) (t : String) : GenTE.IsSupported now t = true ↔ t ∈ supported := by
  have htab : Gen.allTokenTypes = supported := by decide
  unfold GenTE.IsSupported
  simp [Go.contains, htab]

theorem isSupported_false_iff (now : Int) (t : String) : GenTE.IsSupported now t = false ↔ t ∉ supported := by
  rw [← isSupported_iff now t]; cases GenTE.IsSupported now t <;> simp

/-! ## hand-readable specification of token resolution -/

/-- the provider's OWN resolution of a presented token of the declared type: (id-or-token, subject, claims) -/
def ownResolution (p : TEProvider) (tok typ : String) : Option (String × String × TEClaims) :=
  if typ = Const.AccessTokenType then
    match p.Crypto.Decrypt tok with
    | .ok plain =>
      -- the payload IS `id:subject` with a colon in neither part (`TE.parsePair_some_iff`, Proofs/C15Parse.lean) - or the token is refused
      match TE.parsePair plain with
      | some (i, s) => some (i, s, [])
      | none => none
    | .error _ =>
      match p.AccessTokenVerifier.verify tok with
      | .ok c => some (c.JWTID, c.Subject, if c.set then c.Claims else [])
      | .error _ => none
  else if typ = Const.RefreshTokenType then
    match p.Storage.TokenRequestByRefreshToken tok with
    | .ok r => some (tok, r.subject, [])
    | .error _ => none
  else if typ = Const.IDTokenType then
    match p.IDTokenHintVerifier.verify tok with
    | .ok (.valid c) => some (tok, c.Subject, c.Claims)      -- an expired hint is NOT a live ID token
    | _ => none
  else none

/-- the optional verifier storage's method FOR THE ROLE in which the token was presented -/
def rolePolicy (s : TEStore) (isActor : Bool) : String → String → Go.R (String × String × TEClaims) :=
  if isActor then s.VerifyExchangeActorToken else s.VerifyExchangeSubjectToken

/-- own resolution first; only if that fails, and only if the storage implements the optional interface, the role's policy -/
def resolve (p : TEProvider) (tok typ : String) (isActor : Bool) : String × String × TEClaims × Bool :=
  match ownResolution p tok typ with
  | some (i, s, c) => (i, s, c, true)
  | none =>
    if p.Storage.is_TokenExchangeTokensVerifierStorage then
      match rolePolicy p.Storage isActor tok typ with
      | .ok (i, s, c) => (i, s, c, true)
      | .error _ => ("", "", [], false)
    else ("", "", [], false)

/-- hand-readable specification of `getTokenIDAndClaims`: an opaque token (the provider's `Decrypt` succeeds) is `id:subject` with a colon
    in neither part or it is refused - NO fall-back to the JWT verifier and no other reading of the payload; anything else is a JWT
    access token the provider's verifier accepts -/
def ownAccess (p : TEProvider) (tok : String) : String × String × TEATClaims × Bool :=
  match p.Crypto.Decrypt tok with
  | .ok plain =>
    match TE.parsePair plain with
    | some (i, s) => (i, s, {}, true)
    | none => ("", "", {}, false)
  | .error _ =>
    match p.AccessTokenVerifier.verify tok with
    | .ok c => (c.JWTID, c.Subject, c, true)
    | .error _ => ("", "", {}, false)

theorem pair_cases (L : List String) : (∃ a b, L = [a, b]) ∨ (L.length ≠ 2 ∧ ∀ a b, L ≠ [a, b]) := by
  match L with
  | [a, b] => exact .inl ⟨a, b, rfl⟩
  | [] => exact .inr ⟨by simp, by simp⟩
  | [_] => exact .inr ⟨by simp, by simp⟩
  | _ :: _ :: _ :: _ => exact .inr ⟨by simp, by simp⟩

/-- CHARACTERISATION of the regenerated `getTokenIDAndClaims` (deep4): the only place where the way the payload is cut matters. A parser
    that cuts at the last (or the first) colon, or that accepts more than two pieces, leaves an unprovable goal here. -/
theorem getTokenIDAndClaims_eq (now : Int) (p : TEProvider) (tok : String) :
    GenTE.getTokenIDAndClaims now p tok = ownAccess p tok := by
  unfold GenTE.getTokenIDAndClaims ownAccess Hand.teVerifyAccessToken TE.parsePair
  cases hd : p.Crypto.Decrypt tok with
  | error e => simp only [Go.nil, HasNil.nilv]; go_leaf
  | ok plain =>
    simp only [Go.nil, HasNil.nilv]
    rcases pair_cases (TE.split plain ":") with ⟨a, b, h⟩ | ⟨h1, h2⟩
    · go_leaf [h, Go.len, HasLen.len, Go.index, TE.count]
    · go_leaf [Go.len, HasLen.len, Go.index, TE.count]

/-- CHARACTERISATION of the regenerated `GetTokenIDAndSubjectFromToken` (with `getTokenIDAndClaims`): it IS that specification, for
    all providers, storages, tokens, declared types and roles. The script does not depend on the shape of the Go text (order of the
    switch cases, early returns, …): it splits whatever `if` / `match` structure was regenerated and closes every branch. -/
theorem c15_resolution_spec (now : Int) (p : TEProvider) (tok typ : String) (isActor : Bool) :
    GenTE.GetTokenIDAndSubjectFromToken now p tok typ isActor = resolve p tok typ isActor := by
  unfold GenTE.GetTokenIDAndSubjectFromToken resolve ownResolution rolePolicy
    Hand.teVerifyIDTokenHint TEHint.strict
  simp only [getTokenIDAndClaims_eq, ownAccess, Go.nil, HasNil.nilv, Go.notNil, Nilable.isNil, TERefreshReq.GetSubject, beq_iff_eq]
  -- the three type constants are pairwise different (needed when the cases of the switch come in another order than in `resolve`)
  have d1 : Const.AccessTokenType ≠ Const.RefreshTokenType := by decide
  have d2 : Const.AccessTokenType ≠ Const.IDTokenType := by decide
  have d3 : Const.RefreshTokenType ≠ Const.IDTokenType := by decide
  have d4 := d1.symm
  have d5 := d2.symm
  have d6 := d3.symm
  go_leaf

/-- ROLE DISPATCH: a subject token is only ever resolved through the provider's own resolution or the storage's SUBJECT
    policy - replacing the actor policy by anything at all changes nothing - and an actor token only through the ACTOR policy;
    for all providers, storages, oracle answers, tokens and declared types -/
theorem c15_role_dispatch (now : Int) (p : TEProvider) (tok typ : String) (f : String → String → Go.R (String × String × TEClaims)) :
    GenTE.GetTokenIDAndSubjectFromToken now { p with Storage := { p.Storage with VerifyExchangeActorToken := f } } tok typ false
      = GenTE.GetTokenIDAndSubjectFromToken now p tok typ false ∧
    GenTE.GetTokenIDAndSubjectFromToken now { p with Storage := { p.Storage with VerifyExchangeSubjectToken := f } } tok typ true
      = GenTE.GetTokenIDAndSubjectFromToken now p tok typ true := by
  simp only [c15_resolution_spec]
  constructor <;> rfl

/-- a token accepted in a role was resolved by the provider itself or accepted by THAT role's policy, with exactly the
    identity that policy returned -/
theorem c15_accepted_by_role_policy {now : Int} {p : TEProvider} {tok typ : String} {isActor : Bool} {i s : String} {c : TEClaims}
    (h : GenTE.GetTokenIDAndSubjectFromToken now p tok typ isActor = (i, s, c, true)) :
    ownResolution p tok typ = some (i, s, c) ∨
    (ownResolution p tok typ = none ∧ p.Storage.is_TokenExchangeTokensVerifierStorage = true ∧
      (if isActor then p.Storage.VerifyExchangeActorToken else p.Storage.VerifyExchangeSubjectToken) tok typ = .ok (i, s, c)) := by
  rw [c15_resolution_spec] at h
  unfold resolve rolePolicy at h
  cases ho : ownResolution p tok typ with
  | some r => obtain ⟨a, b, d⟩ := r; simp [ho] at h; left; simp [h]
  | none =>
    right
    simp only [ho] at h
    by_cases hv : p.Storage.is_TokenExchangeTokensVerifierStorage = true
    · simp only [hv, if_true] at h
      refine ⟨rfl, hv, ?_⟩
      split at h
      · rename_i i' s' c' heq; simp at h; obtain ⟨rfl, rfl, rfl⟩ := h; exact heq
      · simp at h
    · simp [hv] at h

/-- the request the storage policy is asked about: the identities resolved FOR EACH ROLE, the requesting client, and the
    request's own scopes, audience, resources and requested type -/
def builtReq (now : Int) (rq : TEIn) (c : OPClient) (sid ssub : String) (scl : TEClaims) (aid asub : String) (acl : TEClaims) : TEReq :=
  { exchangeSubjectTokenIDOrToken := sid, exchangeSubjectTokenType := rq.SubjectTokenType, exchangeSubject := ssub, exchangeSubjectTokenClaims := scl,
    exchangeActorTokenIDOrToken := aid, exchangeActorTokenType := rq.ActorTokenType, exchangeActor := asub, exchangeActorTokenClaims := acl,
    subject := ssub, resource := rq.Resource, audience := rq.Audience, scopes := rq.Scopes, requestedTokenType := rq.RequestedTokenType,
    clientID := c.id, authTime := now }

/-- what `CreateTokenExchangeRequest` establishes: exchange storage present, subject token resolved in the subject role, actor
    token (iff given) resolved in the actor role, the storage policy consulted with exactly `builtReq` and its verdict and
    rewriting propagated -/
theorem c15_create_request_sound {now : Int} {rq : TEIn} {c : OPClient} {p : TEProvider} {r : TEReq}
    (h : GenTE.CreateTokenExchangeRequest now rq c p = .ok r) :
    p.Storage.is_TokenExchangeStorage = true ∧
    ∃ sid ssub scl aid asub acl r1,
      resolve p rq.SubjectToken rq.SubjectTokenType false = (sid, ssub, scl, true) ∧
      (if rq.ActorToken = "" then (aid, asub, acl) = ("", "", [])
       else resolve p rq.ActorToken rq.ActorTokenType true = (aid, asub, acl, true)) ∧
      p.Storage.ValidateTokenExchangeRequest (builtReq now rq c sid ssub scl aid asub acl) = .ok r1 ∧
      p.Storage.CreateTokenExchangeRequest r1 = .ok r := by
  unfold GenTE.CreateTokenExchangeRequest at h
  simp only [c15_resolution_spec, Go.nil, HasNil.nilv, OPClient.GetID] at h
  by_cases hs : p.Storage.is_TokenExchangeStorage = true
  · simp only [hs, Bool.not_true, Bool.false_eq_true, if_false] at h
    refine ⟨hs, ?_⟩
    rcases hres : resolve p rq.SubjectToken rq.SubjectTokenType false with ⟨sid, ssub, scl, ok⟩
    simp only [hres] at h
    cases ok with
    | false => simp at h
    | true =>
      simp only [Bool.not_true, Bool.false_eq_true, if_false] at h
      by_cases ha : rq.ActorToken = ""
      · simp only [ha, bne_self_eq_false, Bool.false_eq_true, if_false] at h
        cases hv : p.Storage.ValidateTokenExchangeRequest (builtReq now rq c sid ssub scl "" "" []) with
        | error e => simp only [builtReq] at hv; simp [hv] at h
        | ok r1 =>
          simp only [builtReq] at hv
          simp only [hv] at h
          cases hc : p.Storage.CreateTokenExchangeRequest r1 with
          | error e => simp [hc] at h
          | ok r2 =>
            simp [hc] at h; subst h
            exact ⟨sid, ssub, scl, "", "", [], r1, rfl, by simp [ha], by simpa [builtReq] using hv, hc⟩
      · have ha' : (rq.ActorToken != "") = true := by simpa using ha
        simp only [ha', if_true] at h
        rcases hact : resolve p rq.ActorToken rq.ActorTokenType true with ⟨aid, asub, acl, ok2⟩
        simp only [hact] at h
        cases ok2 with
        | false => simp at h
        | true =>
          simp only [Bool.not_true, Bool.false_eq_true, if_false] at h
          cases hv : p.Storage.ValidateTokenExchangeRequest (builtReq now rq c sid ssub scl aid asub acl) with
          | error e => simp only [builtReq] at hv; simp [hv] at h
          | ok r1 =>
            simp only [builtReq] at hv
            simp only [hv] at h
            cases hc : p.Storage.CreateTokenExchangeRequest r1 with
            | error e => simp [hc] at h
            | ok r2 =>
              simp [hc] at h; subst h
              exact ⟨sid, ssub, scl, aid, asub, acl, r1, rfl, by simp [ha], by simpa [builtReq] using hv, hc⟩
  · simp [hs] at h

/-- the parameter checks both routers make (each has its own copy, in its own order; every one fails with `invalid_request`) -/
def paramsOK (rq : TEIn) : Prop :=
  rq.SubjectToken ≠ "" ∧ rq.SubjectTokenType ≠ "" ∧ rq.SubjectTokenType ∈ supported ∧
  (rq.RequestedTokenType = "" ∨ rq.RequestedTokenType ∈ supported) ∧ (rq.ActorTokenType = "" ∨ rq.ActorTokenType ∈ supported) ∧
  (rq.ActorToken = "" ∨ rq.ActorTokenType ≠ "")
instance (rq : TEIn) : Decidable (paramsOK rq) := by unfold paramsOK; infer_instance

/-- the parameter checks together: an actor token, if given, comes with a declared SUPPORTED type -/
theorem paramsOK_actor {rq : TEIn} (hp : paramsOK rq) : rq.ActorToken = "" ∨ rq.ActorTokenType ∈ supported := by
  rcases hp.2.2.2.2.2 with h | h
  · exact .inl h
  · rcases hp.2.2.2.2.1 with h' | h'
    · exact absurd h' h
    · exact .inr h'

/-- hand-readable specification of the Provider router's `ValidateTokenExchangeRequest`: nothing happens without the two required
    parameters, nor with an `actor_token` whose `actor_token_type` is missing (RFC 8693 2.1; F-C15c, repaired); then the client is authenticated and must be registered for the grant; then the remaining parameter checks; then
    `CreateTokenExchangeRequest` -/
def validateSpec (now : Int) (rq : TEIn) (id sec : String) (p : TEProvider) : Go.R (TEReq × OPClient) :=
  if rq.SubjectToken = "" ∨ rq.SubjectTokenType = "" ∨ (rq.ActorToken ≠ "" ∧ rq.ActorTokenType = "") then .error "ErrInvalidRequest"
  else match Hand.teAuthorizeClient now id sec p with
    | .error e => .error e
    | .ok c =>
      if ValidateGrantType now c Const.GrantTypeTokenExchange = false then .error "ErrUnauthorizedClient"
      else if ¬ paramsOK rq then .error "ErrInvalidRequest"
      else match GenTE.CreateTokenExchangeRequest now rq c p with
        | .error e => .error e
        | .ok r => .ok (r, c)

/-- CHARACTERISATION of the regenerated `ValidateTokenExchangeRequest` -/
theorem validateTokenExchangeRequest_eq (now : Int) (rq : TEIn) (id sec : String) (p : TEProvider) :
    GenTE.ValidateTokenExchangeRequest now rq id sec p = validateSpec now rq id sec p := by
  unfold GenTE.ValidateTokenExchangeRequest validateSpec paramsOK
  simp only [beq_iff_eq, bne_iff_ne, Bool.and_eq_true, Bool.not_eq_true', isSupported_false_iff]
  go_leaf

/-- the token endpoint (Provider router) lets a token exchange through only for a secret-authenticated client registered for
    the grant, with supported declared types, and then only as `c15_create_request_sound` says.
    PARTIAL with exactly one exclusion (finding F-C15b, witness below): for the declared type id_token "the provider's own
    resolution" is `VerifyIDTokenHint`, and that verifier also accepts the provider's own JWT ACCESS tokens - so "resolved as an
    id_token" does not establish "is an ID token" (nor, therefore, that a revoked access token is refused). For the declared types
    access_token / refresh_token / jwt and for third-party tokens the statement is the full one.
    The former second exclusion (finding F-C15c) is gone with the repair: the conclusion now says `ActorToken = "" ∨ ActorTokenType ∈
    supported` - an actor token, if given, is of a declared SUPPORTED type (an actor token without a declared type is refused by
    the framework itself, `c15_actor_without_type_refused`). -/
theorem c15_validate_sound_partial {now : Int} {rq : TEIn} {id sec : String} {p : TEProvider} {r : TEReq} {c : OPClient}
    (h : GenTE.ValidateTokenExchangeRequest now rq id sec p = .ok (r, c)) :
    p.base.store.AuthorizeClientIDSecret id sec = .ok () ∧ p.base.store.GetClientByClientID id = .ok c ∧
    Const.GrantTypeTokenExchange ∈ c.grants ∧
    rq.SubjectToken ≠ "" ∧ rq.SubjectTokenType ∈ supported ∧ (rq.ActorToken = "" ∨ rq.ActorTokenType ∈ supported) ∧
    (rq.ActorTokenType = "" ∨ rq.ActorTokenType ∈ supported) ∧
    (rq.RequestedTokenType = "" ∨ rq.RequestedTokenType ∈ supported) ∧
    GenTE.CreateTokenExchangeRequest now rq c p = .ok r := by
  rw [validateTokenExchangeRequest_eq] at h
  unfold validateSpec Hand.teAuthorizeClient at h
  by_cases h1 : rq.SubjectToken = "" ∨ rq.SubjectTokenType = "" ∨ (rq.ActorToken ≠ "" ∧ rq.ActorTokenType = "")
  · simp [h1] at h
  simp only [h1, if_false] at h
  cases hc : AuthorizeTokenExchangeClient now id sec p.base with
  | error e => simp [hc] at h
  | ok c' =>
    simp only [hc] at h
    by_cases h3 : ValidateGrantType now c' Const.GrantTypeTokenExchange = false
    · simp [h3] at h
    by_cases hp : paramsOK rq
    · simp only [h3, hp, not_true_eq_false, if_false] at h
      cases hr : GenTE.CreateTokenExchangeRequest now rq c' p with
      | error e => simp [hr] at h
      | ok r' =>
        simp [hr] at h
        obtain ⟨rfl, rfl⟩ := h
        obtain ⟨a1, a2⟩ := C05.authorizeTokenExchangeClient_ok hc
        exact ⟨a1, a2, C04.validateGrantType_iff.1 (by simpa using h3), hp.1, hp.2.2.1, paramsOK_actor hp, hp.2.2.2.2.1, hp.2.2.2.1, hr⟩
    · simp [h3, hp] at h

/-! ## the refresh decision and the response -/

/-- REFRESH DECISION: for a token-exchange request a refresh token is created iff the requested type is the refresh type -
    whatever the client's registration (grants, auth method, …) -/
theorem c15_refresh_decision (now : Int) (r : TEReq) (c : OPClient) :
    GenTE.needsRefreshToken now r.asTokenRequest c = (r.requestedTokenType == Const.RefreshTokenType) := by
  have hA : "AuthRequest" ∉ GenTE.tokenExchangeRequest_satisfies := by decide
  have hT : "TokenExchangeRequest" ∈ GenTE.tokenExchangeRequest_satisfies := by decide
  unfold GenTE.needsRefreshToken
  simp only [TEReq.asTokenRequest, hA, hT, anyGetRequestedTokenType_eq, List.contains_eq_mem, decide_false, decide_true]
  go_leaf

/-- the documented contract of `Storage.CreateAccessAndRefreshTokens`: on success it hands out a refresh token -/
def StorageContract (s : TEStore) : Prop :=
  ∀ r cur id rt exp, s.CreateAccessAndRefreshTokens r cur = .ok (id, rt, exp) → rt ≠ ""

/-- what AES sealing (`Crypto.Encrypt`) and go-jose signing are assumed to do: a successful call never yields the empty string -/
def MintContract (p : TEProvider) : Prop :=
  (∀ s t, p.Crypto.Encrypt s = .ok t → t ≠ "") ∧ (∀ k c t, p.Storage.SigningKey = .ok k → k.signAT c = .ok t → t ≠ "") ∧
  (∀ k c t, p.Storage.SigningKey = .ok k → k.signID c = .ok t → t ≠ "")

/-! ### the access token itself: regenerated `CreateAccessToken` / `CreateJWT` / `CreateBearerToken` -/

theorem asTokenRequest_flags (r : TEReq) :
    r.asTokenRequest.is_TokenExchangeRequest = true ∧ r.asTokenRequest.is_TokenActorRequest = false ∧ r.asTokenRequest.req = r := by
  have hT : "TokenExchangeRequest" ∈ GenTE.tokenExchangeRequest_satisfies := by decide
  have hA : "TokenActorRequest" ∉ GenTE.tokenExchangeRequest_satisfies := by decide
  simp [TEReq.asTokenRequest, hT, hA]

/-- the claims `CreateJWT` signs for a token-exchange request `r` (the request AFTER the storage policy's rewriting): the registered
    claims of the regenerated `oidc.NewAccessTokenClaims` for the request's subject and audience, and the private claims `pc` -/
def exchangeJWTClaims (now : Int) (iss : String) (r : TEReq) (exp : Int) (id : String) (c : OPClient) (st : TEStore) (pc : TEClaims) : TEJWTClaims :=
  { Hand.teNewAccessTokenClaims now iss r.subject r.audience exp id c.id (st.ClientClockSkew c) with Claims := pc }

/-- hand-readable specification of `CreateJWT` for a token-exchange request against an exchange storage -/
def exchangeJWTSpec (now : Int) (iss : String) (r : TEReq) (exp : Int) (id : String) (c : OPClient) (st : TEStore) : Go.R String :=
  match st.GetPrivateClaimsFromTokenExchangeRequest r.asTokenRequest with
  | .error e => .error e
  | .ok pc =>
    match st.SigningKey with
    | .error e => .error e
    | .ok key => if key.signerOK then key.signAT (exchangeJWTClaims now iss r exp id c st pc) else .error "ErrSignerCreationFailed"

/-- CHARACTERISATION of the regenerated `CreateJWT` on exchange requests (the only place where its shape matters; the script
    splits whatever `if` / `match` structure the source currently has) -/
theorem createJWT_exchange_eq (now : Int) (iss : String) (r : TEReq) (exp : Int) (id : String) (c : OPClient) (st : TEStore)
    (hte : st.is_TokenExchangeStorage = true) :
    GenTE.CreateJWT now iss r.asTokenRequest exp id c st = exchangeJWTSpec now iss r exp id c st := by
  obtain ⟨f1, f2, f3⟩ := asTokenRequest_flags r
  unfold GenTE.CreateJWT exchangeJWTSpec exchangeJWTClaims Hand.teSignerFromKey Hand.teSignAT
  simp only [Go.notNil, Nilable.isNil, f1, f2, f3, hte, anyGetSubject_eq, anyGetAudience_eq, OPClient.GetID]
  go_leaf

/-- PRIVATE-CLAIMS SOURCE of a JWT access token issued by a token exchange: whenever the storage implements `TokenExchangeStorage`
    (which `CreateTokenExchangeRequest` has established, `c15_create_request_sound`), the claims are EXACTLY what
    `GetPrivateClaimsFromTokenExchangeRequest` decided for this request - for every storage, whatever other optional capabilities
    (`CanGetPrivateClaimsFromRequest`) it has, every client, every restriction function, every signing key -/
theorem c15_exchange_jwt_claims_source {now : Int} {iss : String} {r : TEReq} {exp : Int} {id : String} {c : OPClient} {st : TEStore} {tok : String}
    (hte : st.is_TokenExchangeStorage = true) (h : GenTE.CreateJWT now iss r.asTokenRequest exp id c st = .ok tok) :
    ∃ pc key, st.GetPrivateClaimsFromTokenExchangeRequest r.asTokenRequest = .ok pc ∧ st.SigningKey = .ok key ∧ key.signerOK = true ∧
      key.signAT (exchangeJWTClaims now iss r exp id c st pc) = .ok tok := by
  rw [createJWT_exchange_eq _ _ _ _ _ _ _ hte] at h
  unfold exchangeJWTSpec at h
  cases hp : st.GetPrivateClaimsFromTokenExchangeRequest r.asTokenRequest with
  | error e => simp [hp] at h
  | ok pc =>
    simp only [hp] at h
    cases hk : st.SigningKey with
    | error e => simp [hk] at h
    | ok key =>
      simp only [hk] at h
      by_cases hs : key.signerOK = true
      · simp only [hs, if_true] at h
        exact ⟨pc, key, rfl, rfl, hs, h⟩
      · simp [hs] at h

/-- ... and nothing else: switching the optional `CanGetPrivateClaimsFromRequest` capability on or off, or replacing it and the base
    hook `GetPrivateClaimsFromScopes` by anything at all, does not change the token issued for an exchange request -/
theorem c15_exchange_jwt_ignores_other_hooks (now : Int) (iss : String) (r : TEReq) (exp : Int) (id : String) (c : OPClient) (st : TEStore)
    (hte : st.is_TokenExchangeStorage = true) (b : Bool) (f : TEAnyReq → List String → Go.R TEClaims) (g : String → String → List String → Go.R TEClaims) :
    GenTE.CreateJWT now iss r.asTokenRequest exp id c { st with is_CanGetPrivateClaimsFromRequest := b, GetPrivateClaimsFromRequest := f, GetPrivateClaimsFromScopes := g }
      = GenTE.CreateJWT now iss r.asTokenRequest exp id c st := by
  rw [createJWT_exchange_eq _ _ _ _ _ _ _ hte, createJWT_exchange_eq _ _ _ _ _ _ _ (by exact hte)]
  rfl

/-- hand-readable specification of `createTokens` for an exchange request -/
def createTokensSpec (r : TEReq) (st : TEStore) (cur : String) : Go.R (String × String × Int) :=
  if r.requestedTokenType = Const.RefreshTokenType then st.CreateAccessAndRefreshTokens r.asTokenRequest cur
  else match st.CreateAccessToken r.asTokenRequest with
    | .error e => .error e
    | .ok (id, exp) => .ok (id, "", exp)

/-- CHARACTERISATION of the regenerated `createTokens` on exchange requests -/
theorem createTokens_exchange_eq (now : Int) (r : TEReq) (st : TEStore) (cur : String) (c : OPClient) :
    GenTE.createTokens now r.asTokenRequest st cur c = createTokensSpec r st cur := by
  unfold GenTE.createTokens createTokensSpec
  simp only [c15_refresh_decision, beq_iff_eq]
  go_leaf

open TEScoped in
theorem te_hadd (a b : String) : (a + b : String) = a ++ b := rfl

/-- hand-readable specification of `CreateAccessToken` for an exchange request: the storage creates the token(s), the validity is
    counted from the expiry the storage named plus the client's clock skew, and the token string is the signed JWT claims
    (`CreateJWT`) for a client with JWT access tokens, the sealed `id:subject` (`CreateBearerToken`) for every other client -/
def createAccessTokenSpec (now : Int) (r : TEReq) (tt : Nat) (p : TEProvider) (c : OPClient) (cur : String) : Go.R (String × String × Int) :=
  match createTokensSpec r p.Storage cur with
  | .error e => .error e
  | .ok (id, rt, exp) =>
    if tt = TEConst.AccessTokenTypeJWT then
      match GenTE.CreateJWT now (IssuerFromContext now) r.asTokenRequest exp id c p.Storage with
      | .error e => .error e
      | .ok t => .ok (t, rt, Go.tSub (Go.tAdd exp (p.Storage.ClientClockSkew c)) now)
    else
      match p.Crypto.Encrypt (id ++ ":" ++ r.subject) with
      | .error e => .error e
      | .ok t => .ok (t, rt, Go.tSub (Go.tAdd exp (p.Storage.ClientClockSkew c)) now)

/-- CHARACTERISATION of the regenerated `CreateAccessToken` (with `CreateBearerToken`) on exchange requests -/
theorem createAccessToken_exchange_eq (now : Int) (r : TEReq) (tt : Nat) (p : TEProvider) (c : OPClient) (cur : String) :
    GenTE.CreateAccessToken now r.asTokenRequest tt p c cur = createAccessTokenSpec now r tt p c cur := by
  unfold GenTE.CreateAccessToken createAccessTokenSpec GenTE.CreateBearerToken
  simp only [createTokens_exchange_eq, Go.notNil, Nilable.isNil, anyGetSubject_eq, (asTokenRequest_flags r).2.2, te_hadd, beq_iff_eq]
  go_leaf

/-- what `CreateAccessToken` hands out for an exchange request: the storage created the token(s) through the regenerated
    `createTokens`; a JWT client gets the signed `exchangeJWTClaims` with the exchange hook's private claims, any other client the
    sealed `id:subject` -/
theorem c15_access_token_of_exchange {now : Int} {r : TEReq} {c : OPClient} {p : TEProvider} {tt : Nat} {tok rt : String} {v : Int}
    (hte : p.Storage.is_TokenExchangeStorage = true)
    (h : GenTE.CreateAccessToken now r.asTokenRequest tt p c "" = .ok (tok, rt, v)) :
    ∃ id exp, GenTE.createTokens now r.asTokenRequest p.Storage "" c = .ok (id, rt, exp) ∧
      (if tt = TEConst.AccessTokenTypeJWT then
        ∃ pc key, p.Storage.GetPrivateClaimsFromTokenExchangeRequest r.asTokenRequest = .ok pc ∧ p.Storage.SigningKey = .ok key ∧
          key.signAT (exchangeJWTClaims now (IssuerFromContext now) r exp id c p.Storage pc) = .ok tok
       else p.Crypto.Encrypt (id ++ ":" ++ r.subject) = .ok tok) := by
  rw [createAccessToken_exchange_eq] at h
  unfold createAccessTokenSpec at h
  simp only [createTokens_exchange_eq]
  cases hc : createTokensSpec r p.Storage "" with
  | error e => simp [hc] at h
  | ok t =>
    obtain ⟨id, rt', exp⟩ := t
    simp only [hc] at h
    by_cases hj : tt = TEConst.AccessTokenTypeJWT
    · simp only [hj, if_true] at h
      cases hw : GenTE.CreateJWT now (IssuerFromContext now) r.asTokenRequest exp id c p.Storage with
      | error e => simp [hw] at h
      | ok a =>
        simp [hw] at h
        obtain ⟨rfl, rfl, _⟩ := h
        obtain ⟨pc, key, h1, h2, _, h4⟩ := c15_exchange_jwt_claims_source hte hw
        exact ⟨id, exp, rfl, by simp only [hj, if_true]; exact ⟨pc, key, h1, h2, h4⟩⟩
    · simp only [hj, if_false] at h
      cases he : p.Crypto.Encrypt (id ++ ":" ++ r.subject) with
      | error e => simp [he] at h
      | ok a =>
        simp [he] at h
        obtain ⟨rfl, rfl, _⟩ := h
        exact ⟨id, exp, rfl, by simp only [hj, if_false]; exact he⟩

/-! ### the ID token: regenerated `CreateIDToken` -/

/-- the claims `CreateIDToken` signs for a token-exchange request `r` (no access token and no code are hashed): the regenerated
    `oidc.NewIDTokenClaims` for the request, the userinfo `ui` a storage hook filled (`SetUserInfo` takes the subject from it; an
    empty one falls back to the request's) -/
def exchangeIDClaims (now : Int) (iss : String) (r : TEReq) (lifetime : Int) (c : OPClient) (st : TEStore) (ui : TEUserInfo) : TEIDTokenClaims :=
  let cl := (Hand.teNewIDTokenClaims now iss r.subject r.audience (Go.tAdd (Go.tAdd now (st.ClientClockSkew c)) lifetime) r.authTime "" "" []
    r.clientID (st.ClientClockSkew c)).SetUserInfo ui
  if cl.Subject == "" then { cl with Subject := r.subject } else cl

/-- hand-readable specification of `CreateIDToken` for a token-exchange request (nothing to hash) against an exchange storage -/
def exchangeIDSpec (now : Int) (iss : String) (r : TEReq) (lifetime : Int) (c : OPClient) (st : TEStore) : Go.R String :=
  match st.SigningKey with
  | .error e => .error e
  | .ok key =>
    match st.SetUserinfoFromTokenExchangeRequest {} r.asTokenRequest with
    | .error e => .error e
    | .ok ui => if key.signerOK then key.signID (exchangeIDClaims now iss r lifetime c st ui) else .error "ErrSignerCreationFailed"

/-- CHARACTERISATION of the regenerated `CreateIDToken` on exchange requests -/
theorem createIDToken_exchange_eq (now : Int) (iss : String) (r : TEReq) (lifetime : Int) (c : OPClient) (st : TEStore)
    (hte : st.is_TokenExchangeStorage = true) :
    GenTE.CreateIDToken now iss r.asTokenRequest lifetime "" "" st c = exchangeIDSpec now iss r lifetime c st := by
  obtain ⟨f1, f2, f3⟩ := asTokenRequest_flags r
  have fA : r.asTokenRequest.is_AuthRequest = false := by
    have hA : "AuthRequest" ∉ GenTE.tokenExchangeRequest_satisfies := by decide
    simp [TEReq.asTokenRequest, hA]
  unfold GenTE.CreateIDToken exchangeIDSpec exchangeIDClaims Hand.teSignerFromKey Hand.teSignID
  simp only [f1, f2, f3, fA, hte, anyGetSubject_eq, anyGetAudience_eq, anyGetAuthTime_eq, anyGetAMR_eq, anyGetClientID_eq]
  go_leaf

/-- USERINFO SOURCE of an ID token issued by a token exchange: with an exchange storage the userinfo - and with it the `act` member
    the policy decides - is EXACTLY what `SetUserinfoFromTokenExchangeRequest` filled in for this request, whatever other optional
    capabilities (`CanSetUserinfoFromRequest`) the storage has and whatever the client's scope restriction is -/
theorem c15_exchange_id_token_userinfo_source {now : Int} {iss : String} {r : TEReq} {lifetime : Int} {c : OPClient} {st : TEStore} {tok : String}
    (hte : st.is_TokenExchangeStorage = true) (h : GenTE.CreateIDToken now iss r.asTokenRequest lifetime "" "" st c = .ok tok) :
    ∃ ui key, st.SetUserinfoFromTokenExchangeRequest {} r.asTokenRequest = .ok ui ∧ st.SigningKey = .ok key ∧ key.signerOK = true ∧
      key.signID (exchangeIDClaims now iss r lifetime c st ui) = .ok tok := by
  rw [createIDToken_exchange_eq _ _ _ _ _ _ hte] at h
  unfold exchangeIDSpec at h
  cases hk : st.SigningKey with
  | error e => simp [hk] at h
  | ok key =>
    simp only [hk] at h
    cases hu : st.SetUserinfoFromTokenExchangeRequest {} r.asTokenRequest with
    | error e => simp [hu] at h
    | ok ui =>
      simp only [hu] at h
      by_cases hs : key.signerOK = true
      · simp only [hs, if_true] at h
        exact ⟨ui, key, rfl, rfl, hs, h⟩
      · simp [hs] at h

/-- ... and nothing else: the optional `CanSetUserinfoFromRequest` capability and the base hook `SetUserinfoFromScopes` can be
    switched / replaced at will without changing the ID token of an exchange -/
theorem c15_exchange_id_token_ignores_other_hooks (now : Int) (iss : String) (r : TEReq) (lifetime : Int) (c : OPClient) (st : TEStore)
    (hte : st.is_TokenExchangeStorage = true) (b : Bool) (f : TEUserInfo → TEAnyReq → List String → Go.R TEUserInfo)
    (g : TEUserInfo → String → String → List String → Go.R TEUserInfo) :
    GenTE.CreateIDToken now iss r.asTokenRequest lifetime "" "" { st with is_CanSetUserinfoFromRequest := b, SetUserinfoFromRequest := f, SetUserinfoFromScopes := g } c
      = GenTE.CreateIDToken now iss r.asTokenRequest lifetime "" "" st c := by
  rw [createIDToken_exchange_eq _ _ _ _ _ _ hte, createIDToken_exchange_eq _ _ _ _ _ _ (by exact hte)]
  rfl

/-- hand-readable specification of `CreateTokenExchangeResponse` -/
def responseSpec (now : Int) (r : TEReq) (c : OPClient) (p : TEProvider) : Go.R ExchangeResp :=
  if r.requestedTokenType = Const.AccessTokenType ∨ r.requestedTokenType = Const.RefreshTokenType then
    match GenTE.CreateAccessToken now r.asTokenRequest (p.Storage.ClientAccessTokenType c) p c "" with
    | .error e => .error e
    | .ok (tok, rt, v) => .ok (ExchangeResp.mk tok r.requestedTokenType Const.BearerToken (Go.dSeconds v) rt r.scopes)
  else if r.requestedTokenType = Const.IDTokenType then
    match GenTE.CreateIDToken now (IssuerFromContext now) r.asTokenRequest c.IDTokenLifetime "" "" p.Storage c with
    | .error e => .error e
    | .ok tok => .ok (ExchangeResp.mk tok r.requestedTokenType "N_A" (Go.dSeconds 0) "" r.scopes)
  else .error "ErrInvalidRequest"

/-- CHARACTERISATION of the regenerated `CreateTokenExchangeResponse` -/
theorem createTokenExchangeResponse_eq (now : Int) (r : TEReq) (c : OPClient) (p : TEProvider) :
    GenTE.CreateTokenExchangeResponse now r c p = responseSpec now r c p := by
  unfold GenTE.CreateTokenExchangeResponse responseSpec Hand.texAsTokenRequest Hand.texAsIDTokenRequest
  simp only [getRequestedTokenType_eq, getScopes_eq, Bool.or_eq_true, beq_iff_eq]
  go_leaf

/-- the response declares exactly what it contains, for ALL client registrations (grants, access token type, clock skew, scope
    restriction) and every storage honouring the contract: the issued type is the (issuable) requested type, the token member is
    never empty, and a refresh token is contained IFF `issued_token_type` is the refresh type -/
theorem c15_response_declares_contents {now : Int} {r : TEReq} {c : OPClient} {p : TEProvider} {resp : ExchangeResp}
    (hs : StorageContract p.Storage) (hm : MintContract p) (hte : p.Storage.is_TokenExchangeStorage = true)
    (h : GenTE.CreateTokenExchangeResponse now r c p = .ok resp) :
    resp.IssuedTokenType = r.requestedTokenType ∧
    (r.requestedTokenType = Const.AccessTokenType ∨ r.requestedTokenType = Const.RefreshTokenType ∨ r.requestedTokenType = Const.IDTokenType) ∧
    resp.AccessToken ≠ "" ∧ (resp.RefreshToken ≠ "" ↔ resp.IssuedTokenType = Const.RefreshTokenType) ∧ resp.Scopes = r.scopes := by
  rw [createTokenExchangeResponse_eq] at h
  unfold responseSpec at h
  by_cases h1 : r.requestedTokenType = Const.AccessTokenType ∨ r.requestedTokenType = Const.RefreshTokenType
  · simp only [h1, if_true] at h
    cases ha : GenTE.CreateAccessToken now r.asTokenRequest (p.Storage.ClientAccessTokenType c) p c "" with
    | error e => simp [ha] at h
    | ok t =>
      obtain ⟨tok, rt, v⟩ := t
      simp [ha] at h
      subst h
      obtain ⟨id, exp, hct, htok⟩ := c15_access_token_of_exchange hte ha
      have hne : tok ≠ "" := by
        split at htok
        · obtain ⟨pc, key, _, hk, hsg⟩ := htok
          exact hm.2.1 _ _ _ hk hsg
        · exact hm.1 _ _ htok
      rw [createTokens_exchange_eq] at hct
      unfold createTokensSpec at hct
      by_cases hr : r.requestedTokenType = Const.RefreshTokenType
      · simp only [hr, if_true] at hct
        exact ⟨rfl, Or.inr (Or.inl hr), hne, by simp [hr, hs _ _ _ _ _ hct], rfl⟩
      · simp only [hr, if_false] at hct
        cases hc : p.Storage.CreateAccessToken r.asTokenRequest with
        | error e => simp [hc] at hct
        | ok t2 =>
          obtain ⟨id2, exp2⟩ := t2
          simp [hc] at hct
          obtain ⟨_, hrt, _⟩ := hct
          refine ⟨rfl, by rcases h1 with h1 | h1 <;> simp [h1], hne, by simp [hr, ← hrt], rfl⟩
  · simp only [h1, if_false] at h
    by_cases h2 : r.requestedTokenType = Const.IDTokenType
    · simp only [h2, if_true] at h
      cases hi : GenTE.CreateIDToken now (IssuerFromContext now) r.asTokenRequest c.IDTokenLifetime "" "" p.Storage c with
      | error e => simp [hi] at h
      | ok tok =>
        simp [hi] at h
        subst h
        obtain ⟨ui, key, _, hk, _, hsg⟩ := c15_exchange_id_token_userinfo_source hte hi
        refine ⟨h2.symm, by right; right; exact h2, hm.2.2 _ _ _ hk hsg, ?_, rfl⟩
        have : Const.IDTokenType ≠ Const.RefreshTokenType := by decide
        simp [this]
    · simp [h2] at h

/-- WHAT THE ISSUED ID TOKEN CARRIES (requested type id_token): the signature over `exchangeIDClaims` - the (policy-rewritten)
    request's subject / audience / client and the userinfo, incl. the actor, that the exchange hook decided for this request -/
theorem c15_issued_id_token_carries_policy_decision {now : Int} {r : TEReq} {c : OPClient} {p : TEProvider} {resp : ExchangeResp}
    (hte : p.Storage.is_TokenExchangeStorage = true) (hreq : r.requestedTokenType = Const.IDTokenType)
    (h : GenTE.CreateTokenExchangeResponse now r c p = .ok resp) :
    resp.RefreshToken = "" ∧
    ∃ ui key, p.Storage.SetUserinfoFromTokenExchangeRequest {} r.asTokenRequest = .ok ui ∧ p.Storage.SigningKey = .ok key ∧
      key.signID (exchangeIDClaims now (IssuerFromContext now) r c.IDTokenLifetime c p.Storage ui) = .ok resp.AccessToken := by
  rw [createTokenExchangeResponse_eq] at h
  unfold responseSpec at h
  have h1 : ¬ (Const.IDTokenType = Const.AccessTokenType ∨ Const.IDTokenType = Const.RefreshTokenType) := by decide
  simp only [hreq, h1, if_true, if_false] at h
  cases hi : GenTE.CreateIDToken now (IssuerFromContext now) r.asTokenRequest c.IDTokenLifetime "" "" p.Storage c with
  | error e => simp [hi] at h
  | ok tok =>
    simp [hi] at h
    subst h
    obtain ⟨ui, key, hu, hk, _, hsg⟩ := c15_exchange_id_token_userinfo_source hte hi
    exact ⟨rfl, ui, key, hu, hk, hsg⟩

/-- WHAT THE ISSUED ACCESS TOKEN CARRIES (requested type access_token / refresh_token): for a client with JWT access tokens the
    token is the signature over claims whose subject and audience are the (policy-rewritten) request's and whose private claims -
    the place where the storage policy puts the actor (`act`) - are exactly the exchange hook's decision for this request; for a
    client with opaque tokens it seals `id:subject` of the token the storage created for this request -/
theorem c15_issued_access_token_carries_policy_decision {now : Int} {r : TEReq} {c : OPClient} {p : TEProvider} {resp : ExchangeResp}
    (hte : p.Storage.is_TokenExchangeStorage = true)
    (hreq : r.requestedTokenType = Const.AccessTokenType ∨ r.requestedTokenType = Const.RefreshTokenType)
    (h : GenTE.CreateTokenExchangeResponse now r c p = .ok resp) :
    ∃ id exp, GenTE.createTokens now r.asTokenRequest p.Storage "" c = .ok (id, resp.RefreshToken, exp) ∧
      (if p.Storage.ClientAccessTokenType c = TEConst.AccessTokenTypeJWT then
        ∃ pc key, p.Storage.GetPrivateClaimsFromTokenExchangeRequest r.asTokenRequest = .ok pc ∧ p.Storage.SigningKey = .ok key ∧
          key.signAT (exchangeJWTClaims now (IssuerFromContext now) r exp id c p.Storage pc) = .ok resp.AccessToken
       else p.Crypto.Encrypt (id ++ ":" ++ r.subject) = .ok resp.AccessToken) := by
  rw [createTokenExchangeResponse_eq] at h
  unfold responseSpec at h
  simp only [hreq, if_true] at h
  cases ha : GenTE.CreateAccessToken now r.asTokenRequest (p.Storage.ClientAccessTokenType c) p c "" with
  | error e => simp [ha] at h
  | ok t =>
    obtain ⟨tok, rt, v⟩ := t
    simp [ha] at h
    subst h
    exact c15_access_token_of_exchange hte ha

/-- a requested type the provider cannot issue (jwt, anything else) is an error - never a success answer -/
theorem c15_unissuable_type_is_error {now : Int} {r : TEReq} {c : OPClient} {p : TEProvider}
    (h : r.requestedTokenType ≠ Const.AccessTokenType ∧ r.requestedTokenType ≠ Const.RefreshTokenType ∧ r.requestedTokenType ≠ Const.IDTokenType) :
    GenTE.CreateTokenExchangeResponse now r c p = .error "ErrInvalidRequest" := by
  rw [createTokenExchangeResponse_eq]
  unfold responseSpec
  simp [h.1, h.2.1, h.2.2]

/-! ## both routers -/

/-- hand-readable specification of the Server router's handler entered with an authenticated client: the parameter checks, the
    capability check, then the same two functions -/
def handlerSpec (now : Int) (p : TEProvider) (rq : TEIn) (c : OPClient) : TEHttp :=
  if ¬ paramsOK rq then .error "ErrInvalidRequest"
  else if p.Storage.is_TokenExchangeStorage = false then .error (Hand.unimplementedGrantError Const.GrantTypeTokenExchange)
  else match GenTE.CreateTokenExchangeRequest now rq c p with
    | .error e => .error e
    | .ok r =>
      match GenTE.CreateTokenExchangeResponse now r c p with
      | .error e => .error e
      | .ok resp => .ok resp

/-- CHARACTERISATION of the regenerated `webServer.tokenExchangeHandler` → `LegacyServer.TokenExchange` →
    `Provider.GrantTypeTokenExchangeSupported` -/
theorem tokenExchangeHandler_eq (now : Int) (ws : TEWebServer) (rq : TEIn) (c : OPClient) :
    GenTE.tokenExchangeHandler now ws { form := .ok rq } c = handlerSpec now ws.server.provider rq c := by
  unfold GenTE.tokenExchangeHandler GenTE.LegacyTokenExchange GenTE.GrantTypeTokenExchangeSupported handlerSpec paramsOK
    Hand.teDecodeRequest Hand.teWriteError Hand.teNewClientRequest Hand.teNewResponse
  simp only [beq_iff_eq, bne_iff_ne, Bool.and_eq_true, Bool.not_eq_true', isSupported_false_iff]
  go_leaf

/-- the Provider router's chain after the request has been parsed: validation (incl. client authentication), then the response -/
def providerRouter (now : Int) (rq : TEIn) (id sec : String) (p : TEProvider) : TEHttp :=
  match GenTE.ValidateTokenExchangeRequest now rq id sec p with
  | .error e => .error e
  | .ok (r, c) =>
    match GenTE.CreateTokenExchangeResponse now r c p with
    | .error e => .error e
    | .ok resp => .ok resp

/-- BOTH ROUTERS: for a client that the Provider router's `AuthorizeTokenExchangeClient` authenticates and that is registered for
    the grant, the Server router's regenerated handler (`webServer.tokenExchangeHandler` → `LegacyServer.TokenExchange`, entered
    with that client) answers EXACTLY what the Provider router's regenerated chain answers - same success, same error - for every
    request, provider, storage and library answer. (The two routers duplicate the parameter checks in different orders; every one
    of them fails with the same error, and both reach the same `CreateTokenExchangeRequest` / `CreateTokenExchangeResponse`.) -/
theorem c15_routers_agree (now : Int) (rq : TEIn) (id sec : String) (c : OPClient) (p : TEProvider)
    (hauth : Hand.teAuthorizeClient now id sec p = .ok c) (hgrant : ValidateGrantType now c Const.GrantTypeTokenExchange = true) :
    GenTE.tokenExchangeHandler now { server := { provider := p } } { form := .ok rq } c = providerRouter now rq id sec p := by
  rw [tokenExchangeHandler_eq]
  unfold providerRouter
  rw [validateTokenExchangeRequest_eq]
  unfold handlerSpec validateSpec
  simp only [hauth, hgrant]
  by_cases hp : paramsOK rq
  · have h1 : ¬ (rq.SubjectToken = "" ∨ rq.SubjectTokenType = "" ∨ (rq.ActorToken ≠ "" ∧ rq.ActorTokenType = "")) := by
      intro h; rcases h with h | h | h
      · exact hp.1 h
      · exact hp.2.1 h
      · rcases hp.2.2.2.2.2 with h' | h'
        · exact h.1 h'
        · exact h' h.2
    simp only [hp, h1, not_true_eq_false, if_false, Bool.true_eq_false]
    by_cases hs : p.Storage.is_TokenExchangeStorage = true
    · simp only [hs, Bool.true_eq_false, if_false]
      cases GenTE.CreateTokenExchangeRequest now rq c p <;> simp
    · have hs' : p.Storage.is_TokenExchangeStorage = false := by simpa using hs
      have : GenTE.CreateTokenExchangeRequest now rq c p = .error (Hand.unimplementedGrantError Const.GrantTypeTokenExchange) := by
        unfold GenTE.CreateTokenExchangeRequest; simp [hs']
      simp [hs', this]
  · by_cases h1 : rq.SubjectToken = "" ∨ rq.SubjectTokenType = "" ∨ (rq.ActorToken ≠ "" ∧ rq.ActorTokenType = "") <;> simp [hp, h1]

/-- what a success of the Server router's handler establishes (the client was authenticated by `withClient`, the C05 slice):
    supported declared types, and the same `CreateTokenExchangeRequest` / `CreateTokenExchangeResponse` as on the Provider router -/
theorem c15_legacy_handler_sound {now : Int} {ws : TEWebServer} {rq : TEIn} {c : OPClient} {resp : ExchangeResp}
    (h : GenTE.tokenExchangeHandler now ws { form := .ok rq } c = .ok resp) :
    rq.SubjectToken ≠ "" ∧ rq.SubjectTokenType ∈ supported ∧ (rq.ActorToken = "" ∨ rq.ActorTokenType ∈ supported) ∧
    (rq.ActorTokenType = "" ∨ rq.ActorTokenType ∈ supported) ∧
    (rq.RequestedTokenType = "" ∨ rq.RequestedTokenType ∈ supported) ∧
    ∃ r, GenTE.CreateTokenExchangeRequest now rq c ws.server.provider = .ok r ∧ GenTE.CreateTokenExchangeResponse now r c ws.server.provider = .ok resp := by
  rw [tokenExchangeHandler_eq] at h
  unfold handlerSpec at h
  by_cases hp : paramsOK rq
  · simp only [hp, not_true_eq_false, if_false] at h
    by_cases hs : ws.server.provider.Storage.is_TokenExchangeStorage = false
    · simp [hs] at h
    simp only [hs, if_false] at h
    cases hr : GenTE.CreateTokenExchangeRequest now rq c ws.server.provider with
    | error e => simp [hr] at h
    | ok r =>
      simp only [hr] at h
      cases hx : GenTE.CreateTokenExchangeResponse now r c ws.server.provider with
      | error e => simp [hx] at h
      | ok resp' =>
        simp [hx] at h
        subst h
        exact ⟨hp.1, hp.2.2.1, paramsOK_actor hp, hp.2.2.2.2.1, hp.2.2.2.1, r, rfl, hx⟩
  · simp [hp] at h

/-! ## finding F-C15b: a JWT access token declared as id_token (type confusion) -/
section confusion
def wKey : JWK := { KeyID := "sig1", Use := "sig", kty := .rsa, keyNo := 0 }
def wKS : KeySet := { kind := .published, keys := [wKey] }
def wNow : Int := 2000000000 * Go.second
/-- the claims of one of the provider's own JWT access tokens (`oidc.NewAccessTokenClaims`: a `client_id`, no `azp`) -/
def wATClaims : Claims := { iss := "https://op.example", sub := "user1", aud := ["web"], clientID := "web", exp := 2000000300, iat := 1999999995 }
def wH : JHeader := { Algorithm := "RS256", KeyID := "sig1" }
def wTok : Token :=
  let p : Payload := { bytes := 1, claims := some wATClaims }
  { segs := 3, middle := some p, jws := some { Signatures := [{ Header := wH, signer := some 0, signedAlg := "RS256", signedBytes := 1, signedHdr := wH }], payload := p } }
def wVerifier : Verifier := { Issuer := "https://op.example", KeySet := wKS }
/-- a provider whose two verifiers are the REGENERATED `op.VerifyAccessToken` / `op.VerifyIDTokenHint` on the symbolic token "AT" -/
def wProvider : TEProvider :=
  { base := { store := { clients := [{ id := "web", secret := "s", grants := [Const.GrantTypeTokenExchange] }] } },
    AccessTokenVerifier := { verify := fun t => if t == "AT" then
      (match Gen.OPVerifyAccessToken wNow wTok wVerifier with | .ok c => .ok { set := true, JWTID := "at1", Subject := c.sub } | .error e => .error e) else .error "invalid" },
    IDTokenHintVerifier := { verify := fun t => if t == "AT" then
      (match Gen.VerifyIDTokenHint wNow wTok wVerifier with
       | .ok (.valid c) => .ok (.valid { Subject := c.sub }) | .ok (.expired c _) => .ok (.expired { Subject := c.sub }) | .error e => .error e) else .error "invalid" } }

/-- WITNESS (the full-strength reading "a success means the subject token is a live token OF THE DECLARED TYPE" is false of the
    unchanged code): the token "AT" is an access token of this provider - the regenerated access-token verifier accepts it and it
    carries no `azp` -, the regenerated id_token_hint verifier accepts it all the same, the exchange that DECLARES it an id_token
    goes through for its subject, and the monitor refuses that success (whatever the storage knows about the access token's
    revocation was never asked) -/
theorem c15_declared_id_token_confusion_witness :
    (match Gen.OPVerifyAccessToken wNow wTok wVerifier with | .ok c => c.azp == "" && c.clientID == "web" | .error _ => false) = true ∧
    (match Gen.VerifyIDTokenHint wNow wTok wVerifier with | .ok (.valid c) => c.sub == "user1" | _ => false) = true ∧
    (match GenTE.ValidateTokenExchangeRequest wNow { SubjectToken := "AT", SubjectTokenType := Const.IDTokenType, RequestedTokenType := Const.AccessTokenType }
        "web" "s" wProvider with | .ok (r, c) => r.subject == "user1" && c.id == "web" | .error _ => false) = true ∧
    judge { base := { issuer := "https://op.example", clients := wProvider.base.store.clients }, capTE := true } wNow { clientID := "web", secret := "s" }
      { subjectType := tID, subjectLive := false, subjectSubject := "", requestedType := tAccess }
      (some { issuedTokenType := tAccess, accessToken := "access", accessLive := true, subject := "user1", policyAsked := true, exchangeSubject := "user1" })
      = some "subject-token-not-live" := by decide
end confusion

/-! ## non-vacuity: concrete providers / storages / registrations -/

/-- a verifier storage whose two role policies differ: "tp-s" only as subject, "tp-a" only as actor, "tp-b" in both roles but
    as DIFFERENT identities -/
def exStore : TEStore :=
  { is_TokenExchangeTokensVerifierStorage := true,
    VerifyExchangeSubjectToken := fun t _ => if t == "tp-s" then .ok (t, "alice", []) else if t == "tp-b" then .ok (t, "bob-as-subject", []) else .error "unknown token",
    VerifyExchangeActorToken := fun t _ => if t == "tp-a" then .ok (t, "svc", []) else if t == "tp-b" then .ok (t, "bob-as-actor", []) else .error "unknown token" }

def exProvider : TEProvider :=
  { base := { store := { clients := [{ id := "te-only", secret := "s", grants := [Const.GrantTypeTokenExchange] }] } }, Storage := exStore }

-- accepted in the role the storage allows, refused in the other one
example : GenTE.GetTokenIDAndSubjectFromToken 0 exProvider "tp-s" Const.JWTTokenType false = ("tp-s", "alice", [], true) := by decide
example : GenTE.GetTokenIDAndSubjectFromToken 0 exProvider "tp-s" Const.JWTTokenType true = ("", "", [], false) := by decide
example : GenTE.GetTokenIDAndSubjectFromToken 0 exProvider "tp-a" Const.JWTTokenType true = ("tp-a", "svc", [], true) := by decide
example : GenTE.GetTokenIDAndSubjectFromToken 0 exProvider "tp-a" Const.JWTTokenType false = ("", "", [], false) := by decide
-- the same token in both roles resolves to the identity of THAT role
example : GenTE.GetTokenIDAndSubjectFromToken 0 exProvider "tp-b" Const.JWTTokenType false = ("tp-b", "bob-as-subject", [], true) := by decide
example : GenTE.GetTokenIDAndSubjectFromToken 0 exProvider "tp-b" Const.JWTTokenType true = ("tp-b", "bob-as-actor", [], true) := by decide
/-- F-C15c REPAIRED (RFC 8693 2.1: `actor_token_type` is REQUIRED when `actor_token` is present): the Provider router's regenerated
    `ValidateTokenExchangeRequest` refuses an `actor_token` WITHOUT `actor_token_type` with invalid_request - for EVERY request,
    client credential, provider, storage (with or without the optional verifier storage) and library answer; nothing is resolved and
    nobody is asked with the empty type. Reverting the repair makes the witness the finding recorded true again and this false. -/
theorem c15_actor_without_type_refused (now : Int) (rq : TEIn) (id sec : String) (p : TEProvider)
    (ha : rq.ActorToken ≠ "") (ht : rq.ActorTokenType = "") :
    GenTE.ValidateTokenExchangeRequest now rq id sec p = .error "ErrInvalidRequest" := by
  rw [validateTokenExchangeRequest_eq]
  unfold validateSpec
  simp [ha, ht]

/-- ... and so does the Server router's regenerated `webServer.tokenExchangeHandler`, whoever the authenticated client is -/
theorem c15_actor_without_type_refused_legacy (now : Int) (ws : TEWebServer) (rq : TEIn) (c : OPClient)
    (ha : rq.ActorToken ≠ "") (ht : rq.ActorTokenType = "") :
    GenTE.tokenExchangeHandler now ws { form := .ok rq } c = .error "ErrInvalidRequest" := by
  rw [tokenExchangeHandler_eq]
  unfold handlerSpec
  have hp : ¬ paramsOK rq := by
    intro hp
    rcases hp.2.2.2.2.2 with h | h
    · exact ha h
    · exact h ht
  simp [hp]

/-- the input of the former witness of F-C15c: `actor_token=tp-a` WITHOUT `actor_token_type` against the verifier storage whose actor
    policy accepts "tp-a" under any type - refused now on both routers (and, as before, without the optional verifier storage), so the
    monitor has no success to judge; the monitor itself is unchanged and still refuses such a success (`actor-token-not-live`) -/
theorem c15_actor_without_type_example :
    (match GenTE.ValidateTokenExchangeRequest 0 { SubjectToken := "tp-s", SubjectTokenType := Const.JWTTokenType, ActorToken := "tp-a", ActorTokenType := "", RequestedTokenType := Const.AccessTokenType } "te-only" "s" exProvider with
      | .ok _ => false | .error e => e == "ErrInvalidRequest") = true ∧
    (match GenTE.tokenExchangeHandler 0 { server := { provider := exProvider } } { form := .ok { SubjectToken := "tp-s", SubjectTokenType := Const.JWTTokenType, ActorToken := "tp-a", ActorTokenType := "", RequestedTokenType := Const.AccessTokenType } }
        { id := "te-only", secret := "s", grants := [Const.GrantTypeTokenExchange] } with
      | .ok _ => false | .error e => e == "ErrInvalidRequest") = true ∧
    (match GenTE.ValidateTokenExchangeRequest 0 { SubjectToken := "tp-s", SubjectTokenType := Const.JWTTokenType, ActorToken := "tp-a", ActorTokenType := "", RequestedTokenType := Const.AccessTokenType } "te-only" "s" { exProvider with Storage := { exStore with is_TokenExchangeTokensVerifierStorage := false } } with
      | .ok _ => false | .error e => e == "ErrInvalidRequest") = true ∧
    -- the same request WITH the type declared still goes through as a delegation for the actor the actor policy named
    (match GenTE.ValidateTokenExchangeRequest 0 { SubjectToken := "tp-s", SubjectTokenType := Const.JWTTokenType, ActorToken := "tp-a", ActorTokenType := Const.JWTTokenType, RequestedTokenType := Const.AccessTokenType } "te-only" "s" exProvider with
      | .ok (r, _) => r.exchangeActor == "svc" && r.exchangeActorTokenType == Const.JWTTokenType | .error _ => false) = true ∧
    judge { base := { issuer := "https://op.example", clients := exProvider.base.store.clients }, capTE := true } 0 { clientID := "te-only", secret := "s" }
      { subjectType := Const.JWTTokenType, subjectLive := true, subjectSubject := "alice", actorGiven := true, actorType := "", actorLive := true, actorSubject := "svc", requestedType := tAccess }
      none = none ∧
    judge { base := { issuer := "https://op.example", clients := exProvider.base.store.clients }, capTE := true } 0 { clientID := "te-only", secret := "s" }
      { subjectType := Const.JWTTokenType, subjectLive := true, subjectSubject := "alice", actorGiven := true, actorType := "", actorLive := true, actorSubject := "svc", requestedType := tAccess }
      (some { issuedTokenType := tAccess, accessToken := "access", accessLive := true, subject := "alice", policyAsked := true, exchangeSubject := "alice", actor := "svc" })
      = some "actor-token-not-live" := by decide

-- without the optional interface the policies are never consulted
example : GenTE.GetTokenIDAndSubjectFromToken 0 { exProvider with Storage := { exStore with is_TokenExchangeTokensVerifierStorage := false } }
    "tp-s" Const.JWTTokenType false = ("", "", [], false) := by decide
-- an expired ID token is not accepted (and a valid one is)
example : GenTE.GetTokenIDAndSubjectFromToken 0 { IDTokenHintVerifier := { verify := fun _ => .ok (.expired { Subject := "alice" }) } }
    "idt" Const.IDTokenType false = ("", "", [], false) := by decide
example : GenTE.GetTokenIDAndSubjectFromToken 0 { IDTokenHintVerifier := { verify := fun _ => .ok (.valid { Subject := "alice" }) } }
    "idt" Const.IDTokenType false = ("idt", "alice", [], true) := by decide

/-- end to end (Provider router): a client registered for token exchange but NOT for refresh_token exchanges a third-party
    subject token and a third-party actor token; the request carries the identities of the respective roles -/
example : (GenTE.ValidateTokenExchangeRequest 0
      { SubjectToken := "tp-b", SubjectTokenType := Const.JWTTokenType, ActorToken := "tp-b", ActorTokenType := Const.JWTTokenType,
        RequestedTokenType := Const.RefreshTokenType, Scopes := ["openid"] } "te-only" "s" exProvider).toOption.map
        (fun rc => (rc.1.exchangeSubject, rc.1.exchangeActor, rc.1.subject, rc.1.scopes, rc.2.id))
    = some ("bob-as-subject", "bob-as-actor", "bob-as-subject", ["openid"], "te-only") := by decide
-- ... and is refused when the actor token is one the ACTOR policy does not accept
example : (match GenTE.ValidateTokenExchangeRequest 0
      { SubjectToken := "tp-s", SubjectTokenType := Const.JWTTokenType, ActorToken := "tp-s", ActorTokenType := Const.JWTTokenType } "te-only" "s" exProvider with
      | .error e => e | .ok _ => "accepted") = "ErrInvalidRequest" := by decide

/-- the client WITHOUT the refresh_token grant that asks for a refresh token gets one (and the response says so); asking for an
    access token yields none -/
example : (GenTE.CreateTokenExchangeResponse 0 { requestedTokenType := Const.RefreshTokenType, subject := "alice" }
      { id := "te-only", grants := [Const.GrantTypeTokenExchange] } exProvider).toOption.map (fun r => (r.IssuedTokenType, r.RefreshToken, r.AccessToken))
    = some (Const.RefreshTokenType, "rt1", "enc(at1:alice)") := by decide
example : (GenTE.CreateTokenExchangeResponse 0 { requestedTokenType := Const.AccessTokenType, subject := "alice" }
      { id := "web", grants := [Const.GrantTypeTokenExchange, Const.GrantTypeRefreshToken] } exProvider).toOption.map (fun r => (r.IssuedTokenType, r.RefreshToken))
    = some (Const.AccessTokenType, "") := by decide
example : StorageContract exStore := by
  intro r cur id rt exp h
  simp [exStore] at h
  simp [← h.2.1]
example : GenTE.CreateTokenExchangeResponse 0 { requestedTokenType := Const.JWTTokenType } {} exProvider = .error "ErrInvalidRequest" :=
  c15_unissuable_type_is_error (by decide)

-- both routers, concretely: the Server router's handler (entered with the authenticated client) and the Provider router's chain hand out the same response
example : (match GenTE.tokenExchangeHandler 0 { server := { provider := exProvider } }
      { form := .ok { SubjectToken := "tp-s", SubjectTokenType := Const.JWTTokenType, RequestedTokenType := Const.AccessTokenType } }
      { id := "te-only", secret := "s", grants := [Const.GrantTypeTokenExchange] } with
    | .ok r => (r.IssuedTokenType, r.AccessToken) | .error e => (e, "")) = (Const.AccessTokenType, "enc(at1:alice)") := by decide
example : (match providerRouter 0 { SubjectToken := "tp-s", SubjectTokenType := Const.JWTTokenType, RequestedTokenType := Const.AccessTokenType } "te-only" "s" exProvider with
    | .ok r => (r.IssuedTokenType, r.AccessToken) | .error e => (e, "")) = (Const.AccessTokenType, "enc(at1:alice)") := by decide

/-- a storage with BOTH optional private-claims capabilities (`TokenExchangeStorage` and `CanGetPrivateClaimsFromRequest`) whose
    exchange hook decides the actor of an impersonation, and whose clients "jwt…" get JWT access tokens -/
def exStoreBoth : TEStore :=
  { exStore with
    is_CanGetPrivateClaimsFromRequest := true,
    GetPrivateClaimsFromTokenExchangeRequest := fun a => .ok [("src", "exchange"), ("act.sub", a.req.exchangeSubject)],
    GetPrivateClaimsFromRequest := fun _ _ => .ok [("src", "request")],
    GetPrivateClaimsFromScopes := fun _ _ _ => .ok [("src", "scopes")],
    ClientAccessTokenType := fun c => if Go.hasPrefix c.id "jwt" then TEConst.AccessTokenTypeJWT else 0 }

-- the JWT access token of an impersonation carries the actor the EXCHANGE hook decided, although the storage could also answer "from the request"
example : (GenTE.CreateTokenExchangeResponse 0 { requestedTokenType := Const.AccessTokenType, subject := "bob", exchangeSubject := "alice" }
      { id := "jwt-te", grants := [Const.GrantTypeTokenExchange] } { exProvider with Storage := exStoreBoth }).toOption.map (fun r => (r.IssuedTokenType, r.AccessToken))
    = some (Const.AccessTokenType, "jwt(at1:bob:src=exchange;act.sub=alice)") := by decide
-- the same storage, a client with opaque tokens: the sealed `id:subject`
example : (GenTE.CreateTokenExchangeResponse 0 { requestedTokenType := Const.AccessTokenType, subject := "bob", exchangeSubject := "alice" }
      { id := "te-only", grants := [Const.GrantTypeTokenExchange] } { exProvider with Storage := exStoreBoth }).toOption.map (fun r => r.AccessToken)
    = some "enc(at1:bob)" := by decide
-- a request that is NOT a token exchange goes to the optional request hook (the else branch is live code)
example : (GenTE.CreateJWT 0 "" { req := { subject := "bob" } } 0 "at1" { id := "jwt-te" } exStoreBoth).toOption = some "jwt(at1:bob:src=request)" := by decide
example : (GenTE.CreateJWT 0 "" { req := { subject := "bob" } } 0 "at1" { id := "jwt-te" } { exStoreBoth with is_CanGetPrivateClaimsFromRequest := false }).toOption
    = some "jwt(at1:bob:src=scopes)" := by decide
example : MintContract { exProvider with Storage := exStoreBoth } := by
  refine ⟨fun s t h => ?_, fun k c t hk h => ?_, fun k c t hk h => ?_⟩
  · simp [exProvider] at h
    intro he; rw [he] at h; have := congrArg String.length h; simp at this
  · simp [exStoreBoth, exStore] at hk
    subst hk
    simp at h
    intro he; rw [he] at h; have := congrArg String.length h; simp at this
  · simp [exStoreBoth, exStore] at hk
    subst hk
    simp at h
    intro he; rw [he] at h; have := congrArg String.length h; simp at this


/-! ## deep4: the identity handed to the storage policy is the one the presented opaque token was ISSUED for

  `CreateBearerToken` (regenerated) seals `id ++ ":" ++ subject`; `getTokenIDAndClaims` (regenerated) opens and cuts it. Composed, for
  EVERY token id and subject string: parse (mint id sub) = (id, sub) or a refusal - never another pair. A subject (or id) containing
  a colon is exactly where the unchanged code refuses (finding F-C15d: such a token is unusable at the provider). -/

/-- what AES sealing is assumed to do: what `Encrypt` produced, `Decrypt` opens to the same plain text -/
def SealContract (c : TECrypto) : Prop := ∀ x t, c.Encrypt x = .ok t → c.Decrypt t = .ok x

/-- CHARACTERISATION of the regenerated `CreateBearerToken` -/
theorem createBearerToken_eq (now : Int) (id sub : String) (c : TECrypto) :
    GenTE.CreateBearerToken now id sub c = c.Encrypt (id ++ ":" ++ sub) := by
  unfold GenTE.CreateBearerToken
  simp only [te_hadd]

/-- ROUND TRIP parse ∘ mint over the two regenerated functions, for every token id and subject: the minted token is read back as the
    very pair that was sealed when neither part contains a colon, and is REFUSED otherwise -/
theorem c15_opaque_roundtrip {now : Int} {p : TEProvider} (hs : SealContract p.Crypto) {id sub t : String}
    (hm : GenTE.CreateBearerToken now id sub p.Crypto = .ok t) :
    GenTE.getTokenIDAndClaims now p t =
      if ':' ∈ id.toList ∨ ':' ∈ sub.toList then ("", "", {}, false) else (id, sub, {}, true) := by
  rw [createBearerToken_eq] at hm
  rw [getTokenIDAndClaims_eq]
  unfold ownAccess
  rw [hs _ _ hm]
  simp only [TE.parsePair_mint]
  by_cases hc : ':' ∈ id.toList ∨ ':' ∈ sub.toList <;> simp [hc]

/-- NEVER ANOTHER PAIR: if the provider's own parser accepts a token it minted, then with the id and the subject it minted it for -/
theorem c15_opaque_never_another_pair {now : Int} {p : TEProvider} (hs : SealContract p.Crypto) {id sub t i s : String} {cl : TEATClaims}
    (hm : GenTE.CreateBearerToken now id sub p.Crypto = .ok t) (h : GenTE.getTokenIDAndClaims now p t = (i, s, cl, true)) :
    i = id ∧ s = sub ∧ ':' ∉ id.toList ∧ ':' ∉ sub.toList := by
  rw [c15_opaque_roundtrip hs hm] at h
  by_cases hc : ':' ∈ id.toList ∨ ':' ∈ sub.toList
  · simp [hc] at h
  · simp only [hc, if_false, Prod.mk.injEq] at h
    simp only [not_or] at hc
    exact ⟨h.1.symm, h.2.1.symm, hc.1, hc.2⟩

/-- the resolution of a token the provider minted, presented (in either role) as an access token: its own pair - or, where the
    provider's own parser refuses (a colon in the id or the subject), whatever the optional verifier storage's policy FOR THAT ROLE says -/
theorem c15_minted_token_resolution {now : Int} {p : TEProvider} (hs : SealContract p.Crypto) {id sub t : String}
    (hm : GenTE.CreateBearerToken now id sub p.Crypto = .ok t) (isActor : Bool) :
    GenTE.GetTokenIDAndSubjectFromToken now p t Const.AccessTokenType isActor =
      if ':' ∈ id.toList ∨ ':' ∈ sub.toList then
        (if p.Storage.is_TokenExchangeTokensVerifierStorage then
          match rolePolicy p.Storage isActor t Const.AccessTokenType with
          | .ok (i, s, c) => (i, s, c, true)
          | .error _ => ("", "", [], false)
         else ("", "", [], false))
      else (id, sub, [], true) := by
  rw [createBearerToken_eq] at hm
  rw [c15_resolution_spec]
  unfold resolve ownResolution
  simp only [if_true, hs _ _ hm, TE.parsePair_mint]
  by_cases hc : ':' ∈ id.toList ∨ ':' ∈ sub.toList <;> simp [hc]

/-- THE SUBJECT PASSED TO THE STORAGE POLICY equals the subject component the provider sealed into the presented token (and the token id
    the id component): when an exchange request built on a subject token the provider minted for `(id, sub)` goes through, the storage
    policy was asked about exactly `(id, sub)` - unless the provider's own parser refused the token (a colon in `id` or `sub`) and
    the optional verifier storage's SUBJECT policy vouched for it under an identity of its own choosing. No third possibility: in
    particular never the text after the last colon of `sub`. -/
theorem c15_policy_asked_about_minted_subject {now : Int} {rq : TEIn} {c : OPClient} {p : TEProvider} {r : TEReq} {id sub : String}
    (hs : SealContract p.Crypto) (hm : GenTE.CreateBearerToken now id sub p.Crypto = .ok rq.SubjectToken)
    (ht : rq.SubjectTokenType = Const.AccessTokenType) (h : GenTE.CreateTokenExchangeRequest now rq c p = .ok r) :
    ∃ sid ssub scl aid asub acl r1,
      p.Storage.ValidateTokenExchangeRequest (builtReq now rq c sid ssub scl aid asub acl) = .ok r1 ∧
      p.Storage.CreateTokenExchangeRequest r1 = .ok r ∧
      ((sid = id ∧ ssub = sub ∧ ':' ∉ id.toList ∧ ':' ∉ sub.toList) ∨
       ((':' ∈ id.toList ∨ ':' ∈ sub.toList) ∧ p.Storage.is_TokenExchangeTokensVerifierStorage = true ∧
         p.Storage.VerifyExchangeSubjectToken rq.SubjectToken rq.SubjectTokenType = .ok (sid, ssub, scl))) := by
  obtain ⟨_, sid, ssub, scl, aid, asub, acl, r1, h1, _, h3, h4⟩ := c15_create_request_sound h
  refine ⟨sid, ssub, scl, aid, asub, acl, r1, h3, h4, ?_⟩
  rw [← c15_resolution_spec now, ht, c15_minted_token_resolution hs hm false] at h1
  by_cases hc : ':' ∈ id.toList ∨ ':' ∈ sub.toList
  · right
    simp only [hc, if_true] at h1
    by_cases hv : p.Storage.is_TokenExchangeTokensVerifierStorage = true
    · simp only [hv, if_true, rolePolicy] at h1
      refine ⟨hc, hv, ?_⟩
      rw [ht]
      cases hp : p.Storage.VerifyExchangeSubjectToken rq.SubjectToken Const.AccessTokenType with
      | error e => simp [hp] at h1
      | ok v => obtain ⟨a, b, d⟩ := v; simp [hp] at h1; simp [h1]
    · simp [hv] at h1
  · left
    simp only [hc, if_false, Prod.mk.injEq] at h1
    simp only [not_or] at hc
    exact ⟨h1.1.symm, h1.2.1.symm, hc.1, hc.2⟩

/-- the same for the ACTOR role: the actor the storage policy is asked about is the subject the presented actor token was minted for -/
theorem c15_policy_asked_about_minted_actor {now : Int} {rq : TEIn} {c : OPClient} {p : TEProvider} {r : TEReq} {id sub : String}
    (hs : SealContract p.Crypto) (hm : GenTE.CreateBearerToken now id sub p.Crypto = .ok rq.ActorToken) (hne : rq.ActorToken ≠ "")
    (ht : rq.ActorTokenType = Const.AccessTokenType) (h : GenTE.CreateTokenExchangeRequest now rq c p = .ok r) :
    ∃ sid ssub scl aid asub acl r1,
      p.Storage.ValidateTokenExchangeRequest (builtReq now rq c sid ssub scl aid asub acl) = .ok r1 ∧
      p.Storage.CreateTokenExchangeRequest r1 = .ok r ∧
      ((aid = id ∧ asub = sub ∧ ':' ∉ id.toList ∧ ':' ∉ sub.toList) ∨
       ((':' ∈ id.toList ∨ ':' ∈ sub.toList) ∧ p.Storage.is_TokenExchangeTokensVerifierStorage = true ∧
         p.Storage.VerifyExchangeActorToken rq.ActorToken rq.ActorTokenType = .ok (aid, asub, acl))) := by
  obtain ⟨_, sid, ssub, scl, aid, asub, acl, r1, _, h2, h3, h4⟩ := c15_create_request_sound h
  refine ⟨sid, ssub, scl, aid, asub, acl, r1, h3, h4, ?_⟩
  simp only [hne, if_false] at h2
  rw [← c15_resolution_spec now, ht, c15_minted_token_resolution hs hm true] at h2
  by_cases hc : ':' ∈ id.toList ∨ ':' ∈ sub.toList
  · right
    simp only [hc, if_true] at h2
    by_cases hv : p.Storage.is_TokenExchangeTokensVerifierStorage = true
    · simp only [hv, if_true, rolePolicy] at h2
      refine ⟨hc, hv, ?_⟩
      rw [ht]
      cases hp : p.Storage.VerifyExchangeActorToken rq.ActorToken Const.AccessTokenType with
      | error e => simp [hp] at h2
      | ok v => obtain ⟨a, b, d⟩ := v; simp [hp] at h2; simp [h2]
    · simp [hv] at h2
  · left
    simp only [hc, if_false, Prod.mk.injEq] at h2
    simp only [not_or] at hc
    exact ⟨h2.1.symm, h2.2.1.symm, hc.1, hc.2⟩

/-! ### histories: chains of exchanges (the presented token is what an earlier exchange handed out) -/

/-- a HISTORY of token exchanges at one provider: `Chain now p t sub n` - `t` is an opaque access token the provider handed out for the
    subject `sub` after `n` exchanges, each of which presented the token the previous one handed out as its subject token -/
inductive Chain (now : Int) (p : TEProvider) : String → String → Nat → Prop
  | mint {id sub t : String} : GenTE.CreateBearerToken now id sub p.Crypto = .ok t → Chain now p t sub 0
  | step {t sub : String} {n : Nat} {rq : TEIn} {c : OPClient} {r : TEReq} {resp : ExchangeResp} :
      Chain now p t sub n → rq.SubjectToken = t → rq.SubjectTokenType = Const.AccessTokenType →
      GenTE.CreateTokenExchangeRequest now rq c p = .ok r →
      p.Storage.ClientAccessTokenType c ≠ TEConst.AccessTokenTypeJWT →
      (r.requestedTokenType = Const.AccessTokenType ∨ r.requestedTokenType = Const.RefreshTokenType) →
      GenTE.CreateTokenExchangeResponse now r c p = .ok resp →
      Chain now p resp.AccessToken r.subject (n + 1)

/-- INVARIANT of every history (by induction over it): each token in the chain is the sealed pair of an id and THE SUBJECT THE STORAGE
    POLICY DECIDED in the exchange that handed it out (for the first one: the subject it was minted for) -/
theorem c15_history_token_is_sealed_subject {now : Int} {p : TEProvider} {t sub : String} {n : Nat} (h : Chain now p t sub n) :
    ∃ id, GenTE.CreateBearerToken now id sub p.Crypto = .ok t := by
  induction h with
  | mint hm => exact ⟨_, hm⟩
  | step _ _ _ hreq hopq hty hresp _ =>
    have hte := (c15_create_request_sound hreq).1
    obtain ⟨id, _, _, h2⟩ := c15_issued_access_token_carries_policy_decision hte hty hresp
    simp only [hopq, if_false] at h2
    exact ⟨id, by rw [createBearerToken_eq]; exact h2⟩

/-- in EVERY history, however long: the exchange that presents the chain's current token asks the storage policy about the subject the
    previous exchange's policy decided (the subject the token was issued for) - or the provider's own parser refused the token and
    the verifier storage's subject policy vouched for it -/
theorem c15_history_policy_subject {now : Int} {p : TEProvider} {t sub : String} {n : Nat} (hs : SealContract p.Crypto)
    (hch : Chain now p t sub n) {rq : TEIn} {c : OPClient} {r : TEReq}
    (htok : rq.SubjectToken = t) (ht : rq.SubjectTokenType = Const.AccessTokenType)
    (h : GenTE.CreateTokenExchangeRequest now rq c p = .ok r) :
    ∃ sid ssub scl aid asub acl r1,
      p.Storage.ValidateTokenExchangeRequest (builtReq now rq c sid ssub scl aid asub acl) = .ok r1 ∧
      p.Storage.CreateTokenExchangeRequest r1 = .ok r ∧
      ((ssub = sub ∧ ':' ∉ sub.toList) ∨
       (p.Storage.is_TokenExchangeTokensVerifierStorage = true ∧
         p.Storage.VerifyExchangeSubjectToken rq.SubjectToken rq.SubjectTokenType = .ok (sid, ssub, scl))) := by
  obtain ⟨id, hm⟩ := c15_history_token_is_sealed_subject hch
  rw [← htok] at hm
  obtain ⟨sid, ssub, scl, aid, asub, acl, r1, h1, h2, h3⟩ := c15_policy_asked_about_minted_subject hs hm ht h
  refine ⟨sid, ssub, scl, aid, asub, acl, r1, h1, h2, ?_⟩
  rcases h3 with ⟨_, hb, _, hd⟩ | ⟨_, hv, hp⟩
  · exact .inl ⟨hb, hd⟩
  · exact .inr ⟨hv, hp⟩

/-- a sealing crypto for the examples: `Encrypt s = enc(s)`, `Decrypt` strips it again -/
def exSeal : TECrypto :=
  { Encrypt := fun s => .ok ("enc(" ++ s ++ ")"),
    Decrypt := fun t => if Go.hasPrefix t "enc(" && Go.hasSuffix t ")" then .ok (String.ofList ((t.toList.drop 4).dropLast)) else .error "decrypt" }

-- non-vacuity: a token for `user1` is read back as minted; one for `corp:user2` is refused by the unchanged parser (NOT read as `user2`)
example : GenTE.getTokenIDAndClaims 0 { exProvider with Crypto := exSeal } "enc(at1:user1)" = ("at1", "user1", {}, true) := by decide
example : GenTE.getTokenIDAndClaims 0 { exProvider with Crypto := exSeal } "enc(at1:corp:user2)" = ("", "", {}, false) := by decide
example : (GenTE.CreateBearerToken 0 "at1" "corp:user2" exSeal).toOption = some "enc(at1:corp:user2)" := by decide
example : (GenTE.CreateTokenExchangeRequest 0 { SubjectToken := "enc(at1:user1)", SubjectTokenType := Const.AccessTokenType }
    { id := "te-only" } { exProvider with Crypto := exSeal }).toOption.map (·.exchangeSubject) = some "user1" := by decide
example : (GenTE.CreateTokenExchangeRequest 0 { SubjectToken := "enc(at1:corp:user2)", SubjectTokenType := Const.AccessTokenType }
    { id := "te-only" } { exProvider with Crypto := exSeal }).toOption.map (·.exchangeSubject) = none := by decide


/-- WITNESS for F-C15d, for every provider with a sealing crypto, every token id and every subject that contains a colon: the opaque
    access token the provider itself mints for that subject (`CreateBearerToken`, used by every grant) is REFUSED by the provider's own
    parser - the token a successful exchange hands out for such a subject is not usable at the provider -/
theorem c15_colon_subject_token_refused_witness {now : Int} {p : TEProvider} (hs : SealContract p.Crypto) {id sub t : String}
    (hc : ':' ∈ sub.toList) (hm : GenTE.CreateBearerToken now id sub p.Crypto = .ok t) :
    GenTE.getTokenIDAndClaims now p t = ("", "", {}, false) := by
  rw [c15_opaque_roundtrip hs hm]
  simp [hc]

example : SealContract exSeal := by
  intro x t h
  simp only [exSeal, Except.ok.injEq] at h
  subst h
  have h1 : Go.hasPrefix ("enc(" ++ x ++ ")") "enc(" = true := by
    simp [Go.hasPrefix, String.toList_append]
  have h2 : Go.hasSuffix ("enc(" ++ x ++ ")") ")" = true := by
    simp only [Go.hasSuffix, String.toList_append, List.isSuffixOf_iff_suffix]
    exact ⟨("enc(" ++ x).toList, by simp [String.toList_append]⟩
  simp only [exSeal, h1, h2, Bool.and_self, if_true, Except.ok.injEq]
  apply String.toList_inj.1
  simp [String.toList_append]

end C15
