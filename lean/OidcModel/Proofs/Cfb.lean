/- CFB round trip for an arbitrary block function (helper lemmas + theorems) -/
import OidcModel.Model.Cfb
namespace Cfb

theorem xor_cancel (a b : Byte) : (a ^^^ b) ^^^ b = a := by
  rw [UInt8.xor_assoc, UInt8.xor_self, UInt8.xor_zero]

theorem xorBytes_cancel (p k : List Byte) (h : p.length ≤ k.length) : xorBytes (xorBytes p k) k = p := by
  induction p generalizing k with
  | nil => cases k <;> rfl
  | cons a as ih =>
    cases k with
    | nil => simp at h
    | cons b bs => simp [xorBytes, xor_cancel]; exact ih bs (by simpa using h)

theorem xorBytes_length (p k : List Byte) (h : p.length ≤ k.length) : (xorBytes p k).length = p.length := by
  induction p generalizing k with
  | nil => cases k <;> rfl
  | cons a as ih =>
    cases k with
    | nil => simp at h
    | cons b bs => simp [xorBytes]; exact ih bs (by simpa using h)

variable (E : Block → Block) (n : Nat)

theorem encAux_length (hn : 0 < n) (hE : ∀ b, (E b).length = n) :
    ∀ fuel prev p, p.length ≤ fuel → (encAux E n fuel prev p).length = p.length := by
  intro fuel
  induction fuel with
  | zero => intro prev p h; have : p = [] := by cases p <;> simp_all
            subst this; rfl
  | succ f ih =>
    intro prev p h
    unfold encAux
    by_cases hp : p.isEmpty
    · simp [hp]; cases p <;> simp_all
    · simp only [hp]
      have h1 : (p.take n).length ≤ (E prev).length := by rw [hE]; simp; omega
      have hpos : 0 < p.length := by cases p <;> simp_all
      simp only [Bool.false_eq_true, if_false, List.length_append]
      rw [xorBytes_length _ _ h1, ih _ _ (by simp; omega)]
      simp; omega

theorem decAux_encAux (hn : 0 < n) (hE : ∀ b, (E b).length = n) :
    ∀ fuel prev p, p.length ≤ fuel → decAux E n fuel prev (encAux E n fuel prev p) = p := by
  intro fuel
  induction fuel with
  | zero => intro prev p h; have : p = [] := by cases p <;> simp_all
            subst this; rfl
  | succ f ih =>
    intro prev p h
    unfold encAux
    by_cases hp : p.isEmpty
    · have : p = [] := by cases p <;> simp_all
      subst this; simp [decAux]
    · simp only [hp, Bool.false_eq_true, if_false]
      have hpos : 0 < p.length := by cases p <;> simp_all
      have h1 : (p.take n).length ≤ (E prev).length := by rw [hE]; simp; omega
      have hl : (xorBytes (p.take n) (E prev)).length = (p.take n).length := xorBytes_length _ _ h1
      have hlen : (xorBytes (List.take n p) (E prev)).length = min n p.length := by rw [hl]; simp
      unfold decAux
      have hne : (xorBytes (List.take n p) (E prev) ++ encAux E n f (xorBytes (List.take n p) (E prev)) (List.drop n p)).isEmpty = false := by
        have : 0 < (xorBytes (List.take n p) (E prev)).length := by rw [hlen]; omega
        cases hx : xorBytes (List.take n p) (E prev) with
        | nil => simp [hx] at this
        | cons a as => simp
      simp only [hne, Bool.false_eq_true, if_false]
      have htake : (xorBytes (List.take n p) (E prev) ++ encAux E n f (xorBytes (List.take n p) (E prev)) (List.drop n p)).take n
          = xorBytes (List.take n p) (E prev) := by
        by_cases hle : n ≤ p.length
        · rw [List.take_append_of_le_length (by rw [hlen]; omega)]
          rw [List.take_of_length_le (by rw [hlen]; omega)]
        · have hd : List.drop n p = [] := by simp; omega
          have he : encAux E n f (xorBytes (List.take n p) (E prev)) (List.drop n p) = [] := by
            rw [hd]; cases f <;> simp [encAux]
          rw [he]; simp; rw [List.take_of_length_le (by rw [hlen]; omega)]
      have hdrop : (xorBytes (List.take n p) (E prev) ++ encAux E n f (xorBytes (List.take n p) (E prev)) (List.drop n p)).drop n
          = encAux E n f (xorBytes (List.take n p) (E prev)) (List.drop n p) := by
        by_cases hle : n ≤ p.length
        · rw [List.drop_append_of_le_length (by rw [hlen]; omega)]
          rw [List.drop_of_length_le (by rw [hlen]; omega)]; simp
        · have hd : List.drop n p = [] := by simp; omega
          have he : encAux E n f (xorBytes (List.take n p) (E prev)) (List.drop n p) = [] := by
            rw [hd]; cases f <;> simp [encAux]
          rw [he]; simp; rw [hlen]; omega
      rw [htake, hdrop, xorBytes_cancel _ _ h1, ih _ _ (by simp; omega)]
      simp

/-- CFB decryption inverts CFB encryption: for ANY block function with fixed output size,
    any iv and any plaintext of any length. -/
theorem dec_enc (hn : 0 < n) (hE : ∀ b, (E b).length = n) (iv : Block) (p : List Byte) :
    dec E n iv (enc E n iv p) = p := by
  unfold dec enc
  rw [encAux_length E n hn hE _ _ _ (Nat.le_refl _)]
  exact decAux_encAux E n hn hE _ _ _ (Nat.le_refl _)

/-- the sealing round trip of EncryptBytesAES / DecryptBytesAES -/
theorem unseal_seal (hn : 0 < n) (hE : ∀ b, (E b).length = n) (iv : Block) (hiv : iv.length = n) (p : List Byte) :
    unsealBytes E n (sealBytes E n iv p) = some p := by
  unfold unsealBytes sealBytes
  have : ¬ (iv ++ enc E n iv p).length < n := by simp; omega
  simp only [this, if_false]
  rw [List.take_append_of_le_length (by omega), List.take_of_length_le (by omega)]
  rw [List.drop_append_of_le_length (by omega), List.drop_of_length_le (by omega)]
  simp [dec_enc E n hn hE]

end Cfb
