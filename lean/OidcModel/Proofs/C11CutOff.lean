/-
  C11, form_post pages that were CUT OFF by the connection (a write fault at byte k): whatever prefix of the page rendered
  from the regenerated template reaches the user agent, the monitor accepts it as a cut-off page of THIS response
  (`c11_cutoff_holds`), and therefore the monitor accepts the body at EVERY position of EVERY history of form_post
  responses with arbitrary faults (`c11_formpost_history_all`).
-/
import OidcModel.Proofs.C11FormPost

namespace C11
open UA

-- ---------------------------------------------------------------- the tokenizer on a prefix of a page

/-- the tokenizer only ever ADDS start tags -/
theorem step_out_suffix (st : TState) (c : UInt8) : ∃ o, (step st c).out = o ++ st.out := by
  obtain ⟨mode, name, attrs, an, av, out⟩ := st
  cases mode <;> simp only [step, TState.emit, TState.pushAttr] <;> (repeat' split) <;>
    first | exact ⟨[], rfl⟩ | exact ⟨[_], rfl⟩

theorem run_out_suffix (st : TState) (x : Bytes) : ∃ o, (run st x).out = o ++ st.out := by
  induction x generalizing st with
  | nil => exact ⟨[], rfl⟩
  | cons c x ih =>
    obtain ⟨o1, h1⟩ := step_out_suffix st c
    obtain ⟨o2, h2⟩ := ih (step st c)
    exact ⟨o2 ++ o1, by rw [run_cons, h2, h1, List.append_assoc]⟩

/-- **the start tags of a prefix of a page are a prefix of the start tags of the page** (pages without CR) -/
theorem tokenize_take (page : Bytes) (hcr : ∀ b ∈ page, b ≠ 0x0D) (k : Nat) :
    ∃ rest, tokenize page = tokenize (page.take k) ++ rest := by
  have h1 := normalizeNL_id page hcr
  have h2 := normalizeNL_id (page.take k) (fun b hb => hcr b (List.mem_of_mem_take hb))
  unfold tokenize normalizeNewlines
  rw [h1, h2]
  obtain ⟨o, ho⟩ := run_out_suffix (run {} (page.take k)) (page.drop k)
  have hsplit : run {} page = run (run {} (page.take k)) (page.drop k) := by
    rw [← run_append, List.take_append_drop]
  show ∃ rest, (run {} page).out.reverse = (run {} (page.take k)).out.reverse ++ rest
  rw [hsplit, ho, List.reverse_append]
  exact ⟨_, rfl⟩

-- ---------------------------------------------------------------- the rendered page

/-- the page rendered from the regenerated template contains no CR (values without CR) -/
theorem render_noCR (uri : Bytes) (params : AR.Values) (hv : ∀ name, ∀ v ∈ params.get name, ∀ c ∈ v, c ≠ 0x0D) :
    ∀ b ∈ AR.render GenWire.formPostAutoescape GenWire.formPostTemplate uri params, b ≠ 0x0D := by
  obtain ⟨t0, t1, rest, hshape⟩ := templateOK_shape _ formPostTemplate_ok
  have hok := formPostTemplate_ok
  rw [formPostAutoescape_on, hshape] at *
  simp only [templateOK, Bool.and_eq_true, beq_iff_eq] at hok
  obtain ⟨⟨⟨⟨⟨_, _⟩, _⟩, hc0⟩, hc1⟩, hr⟩ := hok
  have hpage : AR.render true (.text t0 :: .redirectURI :: .text t1 :: rest) uri params
      = t0 ++ (AR.attrEscape (AR.urlNormalize (AR.urlFilter uri)) ++ (t1 ++ rest.flatMap (AR.renderNode true uri params))) := by
    simp [AR.render, AR.renderNode]
  intro b hb
  rw [hpage] at hb
  simp only [List.mem_append] at hb
  rcases hb with hb | hb | hb | hb
  · exact noCR_mem t0 hc0 b hb
  · exact urlFilter_normalize_clean uri b hb
  · exact noCR_mem t1 hc1 b hb
  · exact rest_noCR uri params hv rest hr b hb

/-- the decoded start tags of the whole page: frame, ONE form, the hidden inputs -/
theorem decoded_tags (uri : Bytes) (params : AR.Values)
    (hv : ∀ name, ∀ v ∈ params.get name, ∀ c ∈ v, c ≠ 0x0D ∧ c ≠ 0) :
    (tokenize (AR.render GenWire.formPostAutoescape GenWire.formPostTemplate uri params)).map decodeTag
      = pageFrame ++ formTag (AR.urlNormalize (AR.urlFilter uri)) :: restTags id params (GenWire.formPostTemplate.drop 3) := by
  rw [c11_form_tags uri params (fun n v hm c hc => (hv n v hm c hc).1)]
  obtain ⟨t0, t1, rest, hshape⟩ := templateOK_shape _ formPostTemplate_ok
  have hok := formPostTemplate_ok
  rw [hshape] at hok ⊢
  simp only [templateOK, Bool.and_eq_true] at hok
  have hr : restOK rest = true := hok.2
  have haction : attrUnescape (AR.attrEscape (AR.urlNormalize (AR.urlFilter uri))) = AR.urlNormalize (AR.urlFilter uri) :=
    c11_attr_roundtrip _ (fun c hc => (urlNormalize_clean _ c hc).2)
  simp only [List.drop_succ_cons, List.drop_zero, List.map_append, List.map_cons, pageFrame_decoded,
    restTags_decoded params (fun n v hm c hc => (hv n v hm c hc).2) rest hr]
  have hform : decodeTag (formTag (AR.attrEscape (AR.urlNormalize (AR.urlFilter uri)))) = formTag (AR.urlNormalize (AR.urlFilter uri)) := by
    simp [decodeTag, formTag, attrUnescape_post, haction]
  rw [hform]

theorem mem_restTags (f : Bytes → Bytes) (params : AR.Values) (nodes : List AR.Node) (t : Tag) (ht : t ∈ restTags f params nodes) :
    ∃ name v vs, params.get name = v :: vs ∧ t = inputTag name (f v) := by
  induction nodes with
  | nil => simp [restTags] at ht
  | cons n rest ih =>
    cases n with
    | text b => exact ih (by simpa [restTags] using ht)
    | redirectURI => exact ih (by simpa [restTags] using ht)
    | withParam name pre post =>
      simp only [restTags, List.mem_append] at ht
      rcases ht with ht | ht
      · cases hg : params.get name with
        | nil => simp [hg] at ht
        | cons v vs =>
          simp only [hg, List.mem_singleton] at ht
          exact ⟨name, v, vs, hg, ht⟩
      · exact ih ht

theorem isForm_formTag (a : Bytes) : isForm (formTag a) = some a := by simp [isForm, formTag]
theorem isForm_inputTag (n v : Bytes) : isForm (inputTag n v) = none := by simp [isForm, inputTag]
theorem pageFrame_no_form : pageFrame.filter (fun t => (isForm t).isSome) = [] := by decide
theorem pageFrame_not_formTag (a : Bytes) : pageFrame.contains (formTag a) = false := by
  simp [pageFrame, formTag, C11.s]
theorem pageFrame_not_inputTag (n v : Bytes) : pageFrame.contains (inputTag n v) = false := by
  simp [pageFrame, inputTag, C11.s]

/-- the only form of the page is its form tag -/
theorem forms_of_page (a : Bytes) (params : AR.Values) (nodes : List AR.Node) :
    (pageFrame ++ formTag a :: restTags id params nodes).filter (fun t => (isForm t).isSome) = [formTag a] := by
  have hrest : (restTags id params nodes).filter (fun t => (isForm t).isSome) = [] := by
    rw [List.filter_eq_nil_iff]
    intro t ht
    obtain ⟨name, v, vs, _, rfl⟩ := mem_restTags id params nodes t ht
    simp [isForm_inputTag]
  rw [List.filter_append, pageFrame_no_form, List.filter_cons, isForm_formTag, hrest]
  simp

/-- a prefix of a page without text outside its tags has none either -/
theorem pageText_take (page : Bytes) (hcr : ∀ b ∈ page, b ≠ 0x0D) (h : pageText page = []) (k : Nat) :
    pageText (page.take k) = [] := by
  unfold pageText normalizeNewlines at *
  rw [normalizeNL_id page hcr] at h
  rw [normalizeNL_id (page.take k) (fun b hb => hcr b (List.mem_of_mem_take hb))]
  have hsplit : strayText {} page = strayText {} (page.take k) ++ strayText (run {} (page.take k)) (page.drop k) := by
    rw [← strayText_append, List.take_append_drop]
  rw [hsplit] at h
  exact (List.append_eq_nil_iff.mp h).1

/-- **C11, a form_post page cut off at ANY byte.**  For every redirect URI whose scheme html/template's URL filter lets
    through, every response of template-listed parameters (no NUL / CR) and every `k`: the monitor accepts the first `k`
    bytes of the page rendered from the regenerated template as a cut-off page of this response — whatever start tags
    are complete in it are the frame, the one form addressing the redirect URI, and hidden inputs carrying this
    response's own parameters. -/
theorem c11_cutoff_holds (i : Input) (resp : AR.Values) (k : Nat) (ua : List Tag) (hua : ua.any isStrayText = false)
    (hsafe : AR.isSafeURL i.uri = true)
    (hresp : i.params = flatten resp.entries) (hd : DistinctKeys resp.entries)
    (hv : ∀ name, ∀ v ∈ resp.get name, ∀ c ∈ v, c ≠ 0x0D ∧ c ≠ 0)
    (hch : (channels i).contains Channel.form = true) :
    monitor i (.cutOff ((AR.render GenWire.formPostAutoescape GenWire.formPostTemplate i.uri resp).take k) ua) = none := by
  have hcr := render_noCR i.uri resp (fun n v hm c hc => (hv n v hm c hc).1)
  have hnt := pageText_take _ hcr (c11_form_no_text i.uri resp (fun n v hm c hc => (hv n v hm c hc).1)) k
  simp only [monitor, hch, if_true, checkPartial, hua, hnt, List.isEmpty_nil, Bool.not_true, Bool.or_self, Bool.false_eq_true, if_false]
  obtain ⟨rest, hrest⟩ := tokenize_take _ (render_noCR i.uri resp (fun n v hm c hc => (hv n v hm c hc).1)) k
  have hfull := decoded_tags i.uri resp hv
  rw [hrest, List.map_append] at hfull
  generalize (tokenize ((AR.render GenWire.formPostAutoescape GenWire.formPostTemplate i.uri resp).take k)).map decodeTag = T at hfull
  -- at most one form
  have hforms : (T.filter fun t => (isForm t).isSome).length ≤ 1 := by
    have h := forms_of_page (AR.urlNormalize (AR.urlFilter i.uri)) resp (GenWire.formPostTemplate.drop 3)
    rw [← hfull, List.filter_append] at h
    have := congrArg List.length h
    simp only [List.length_append, List.length_singleton] at this
    omega
  have hnot : ¬ (T.filter fun t => (isForm t).isSome).length > 1 := by omega
  simp only [hnot, if_false]
  -- every tag is one of this response
  unfold firstSome
  rw [List.findSome?_eq_none_iff]
  intro t ht
  have hmem : t ∈ pageFrame ++ formTag (AR.urlNormalize (AR.urlFilter i.uri)) :: restTags id resp (GenWire.formPostTemplate.drop 3) := by
    rw [← hfull]; exact List.mem_append_left _ ht
  rw [List.mem_append, List.mem_cons] at hmem
  rcases hmem with hm | hm | hm
  · have : pageFrame.contains t = true := by simpa using hm
    simp only [this, if_true]
  · subst hm
    simp only [pageFrame_not_formTag, Bool.false_eq_true, if_false, isForm_formTag, c11_form_action_target i.uri hsafe, if_true]
  · obtain ⟨name, v, vs, hg, rfl⟩ := mem_restTags id resp _ t hm
    have hval : (valuesOf name i.params).contains v = true := by
      rw [hresp, valuesOf_flatten_get name _ hd, hg]; simp
    simp only [id, pageFrame_not_inputTag, Bool.false_eq_true, if_false, isForm_inputTag, isInput_inputTag, hval, if_true]

-- ---------------------------------------------------------------- every position of every history

/-- what the monitor is shown for the request at one position: the whole page when it arrived completely, a cut-off page otherwise -/
def observedOf (r : FP.Req) (body : Bytes) : Observed :=
  if FP.complete r then .form body ((tokenize body).map decodeTag) else .cutOff body []

/-- **C11 for sequences of form_post responses with write faults, monitor level, EVERY position.**  For every sequence of
    calls of the regenerated `AuthResponseFormPost` (any length, any package-level state to begin with, connections
    that break at any byte with an error or a short write, failing encoders / template executions, any `sync.Pool`
    behaviour) and every position `n`: the monitor, given ONLY the request of position `n`, accepts the body that user
    agent received — as a whole document (exactly one form, this response's parameters and redirect URI, nothing else)
    when it arrived completely, as a cut-off page of this response otherwise.  (Hypotheses on the request as in
    `c11_holds_form_partial`: F-C11b.) -/
theorem c11_formpost_history_all (reqs : List FP.Req) (pkg : List (String × FP.PkgVal)) (n : Nat) (r : FP.Req)
    (hr : reqs[n]? = some r)
    (i : Input) (resp : AR.Values)
    (hpage : r.page = AR.render GenWire.formPostAutoescape GenWire.formPostTemplate i.uri resp)
    (hsafe : AR.isSafeURL i.uri = true)
    (hresp : i.params = flatten resp.entries) (hd : DistinctKeys resp.entries)
    (hv : ∀ name, ∀ v ∈ resp.get name, ∀ c ∈ v, c ≠ 0x0D ∧ c ≠ 0)
    (hlisted : ∀ e ∈ resp.entries, e.1 ∈ nodeNames (GenWire.formPostTemplate.drop 3) ∧ e.2.length ≤ 1)
    (hch : (channels i).contains Channel.form = true) (hsrc : SourceOK i) :
    ∃ body, ((FP.history GenWire.formPostProgram reqs pkg).map (·.body))[n]? = some body
      ∧ monitor i (observedOf r body) = none := by
  refine ⟨FP.delivered r, history_getElem reqs pkg n r hr, ?_⟩
  unfold observedOf
  by_cases hc : FP.complete r = true
  · rw [if_pos hc, delivered_complete r hc, hpage]
    exact c11_holds_form_partial i resp hsafe hresp hd hv hlisted hch hsrc
  · rw [if_neg hc]
    obtain ⟨k, hk⟩ := delivered_prefix r
    rw [hk, hpage]
    exact c11_cutoff_holds i resp k [] rfl hsafe hresp hd hv hch

end C11
