/-
  C04 (round 4b): client authentication of the code grant under a provider whose JWTProfileVerifier carries ANY subject check
  (`op.SubjectCheck`: the one verifier of a `JWTAuthorizationGrantExchanger` serves the jwt-bearer grant - where delegation,
  `iss ≠ sub`, is what the option is for - AND private_key_jwt client authentication).

  Theorems over the REGENERATED `GenSC.AuthorizePrivateJWTKey` / `AuthorizeCodeClient` / `ValidateAccessTokenRequest` /
  `LegacyVerifyClient` / `LegacyCodeExchange` (Generated/TokenEndpointSC.lean: the same Go functions as in
  Generated/TokenEndpoint.lean, over `ScProvider` = a Provider plus the check its verifier was built with), for EVERY check `f`:

    * `sc_*_default`                      with the default check the SC definitions ARE those of Generated/TokenEndpoint.lean (rfl);
    * `sc_authorizePrivateJWTKey_iff`     characterisation: the assertion verifies under the verifier WITH `f`, the client is the
                                          one registered under the assertion's ISSUER, its method is private_key_jwt;
    * `sc_codeExchange_ok`                what an exchange that either router lets through has established;
    * `callerIsCfg_of_authAsSC`           the monitor (told whether the check is custom) reads the same identity off the assertion;
    * `c04_sc_exchange_binding`           none of the binding clauses of `C04.judge` can be raised against an answer with tokens;
    * `c04_sc_step`                       the monitor accepts every successful exchange, from every state of the invariant.

  Two layers as in Proofs/C04.lean: `sc_*_eq` / `_iff` are the only unfoldings of regenerated definitions (go_leaf / go_eq).
-/
import OidcModel.Proofs.C04History
import OidcModel.Model.FlowC04SC
set_option linter.unusedSimpArgs false
set_option linter.unusedVariables false
namespace C04
open Go Gen Hand Flow FlowObs

/-! ## With the default check the SC model is the model of Generated/TokenEndpoint.lean -/

theorem sc_authorizePrivateJWTKey_default (now : Int) (t : Token) (p : Provider) :
    GenSC.AuthorizePrivateJWTKey now t ⟨p, none⟩ = Gen.AuthorizePrivateJWTKey now t p := rfl
theorem sc_authorizeCodeClient_default (now : Int) (r : AccessTokenRequest) (p : Provider) :
    GenSC.AuthorizeCodeClient now r ⟨p, none⟩ = Gen.AuthorizeCodeClient now r p := rfl
theorem sc_validateAccessTokenRequest_default (now : Int) (r : AccessTokenRequest) (p : Provider) :
    GenSC.ValidateAccessTokenRequest now r ⟨p, none⟩ = Gen.ValidateAccessTokenRequest now r p := rfl
theorem sc_legacyVerifyClient_default (now : Int) (r : Request ClientCredentials) (p : Provider) :
    GenSC.LegacyVerifyClient now ⟨⟨p, none⟩⟩ r = Gen.LegacyVerifyClient now ⟨p⟩ r := rfl
theorem sc_legacyCodeExchange_default (now : Int) (r : ClientRequest AccessTokenRequest) (p : Provider) :
    GenSC.LegacyCodeExchange now ⟨⟨p, none⟩⟩ r = Gen.LegacyCodeExchange now ⟨p⟩ r := rfl
theorem sc_codeExchange_default (now : Int) (rt : Router) (p : Provider) (r : AccessTokenRequest) (ha : Bool) :
    FlowSC.codeExchange now rt ⟨p, none⟩ r ha = Flow.codeExchange now rt p r ha := by cases rt <;> rfl
theorem sc_stepExchange_default (now : Int) (s : Flow.St) (rt : Router) (r : AccessTokenRequest) (ha : Bool) :
    FlowSC.stepExchange now s none rt r ha = Flow.step now s (.exchange rt r ha) := by
  unfold FlowSC.stepExchange; rw [sc_codeExchange_default]; rfl

/-! ## Layer 1: characterisation lemmas -/

/-- `AuthorizePrivateJWTKey` under ANY subject check: the assertion verifies (under the verifier that carries the check), the
    client is the one the storage holds under the assertion's ISSUER, and that client's method is private_key_jwt -/
theorem sc_authorizePrivateJWTKey_iff {now t} {sp : ScProvider} {c} : GenSC.AuthorizePrivateJWTKey now t sp = .ok c ↔
    ∃ j, VerifyJWTAssertion now t sp.JWTProfileVerifier = .ok j ∧ sp.base.store.GetClientByClientID j.iss = .ok c ∧
      c.auth = Const.AuthMethodPrivateKeyJWT := by
  unfold GenSC.AuthorizePrivateJWTKey ScProvider.Storage Claims.Issuer OPClient.AuthMethod
  go_leaf

def authClientSpecSC (now : Int) (req : AccessTokenRequest) (sp : ScProvider) (hasChallenge : Bool) : Go.R OPClient :=
  if req.ClientAssertionType = Const.ClientAssertionTypeJWTAssertion then
    if sp.base.is_JWTAuthorizationGrantExchanger = true ∧ sp.base.pkjwtSupported = true then GenSC.AuthorizePrivateJWTKey now req.ClientAssertion sp
    else .error "ErrInvalidClient"
  else
    match sp.base.store.GetClientByClientID req.ClientID with
    | .error _ => .error "ErrInvalidClient"
    | .ok c =>
      if c.auth = Const.AuthMethodPrivateKeyJWT then .error "ErrInvalidClient"
      else if c.auth = Const.AuthMethodNone then (if hasChallenge then .ok c else .error "ErrInvalidRequest")
      else if c.auth = Const.AuthMethodPost ∧ sp.base.postSupported = false then .error "ErrInvalidClient"
      else match sp.base.store.AuthorizeClientIDSecret req.ClientID req.ClientSecret with
        | .error _ => .error "ErrInvalidClient"
        | .ok _ => .ok c

def authorizeCodeClientSpecSC (now : Int) (req : AccessTokenRequest) (sp : ScProvider) : Go.R (AuthReq × OPClient) :=
  match sp.base.store.AuthRequestByCode req.Code with
  | .error _ => .error "ErrInvalidGrant"
  | .ok a =>
    match (if a.challenge.isSome then AuthorizeCodeChallenge now req.CodeVerifier a.challenge else .ok ()) with
    | .error e => .error e
    | .ok _ =>
      match authClientSpecSC now req sp a.challenge.isSome with
      | .error e => .error e
      | .ok c => .ok (a, c)

theorem sc_authorizeCodeClient_eq {now req sp} : GenSC.AuthorizeCodeClient now req sp = authorizeCodeClientSpecSC now req sp := by
  unfold GenSC.AuthorizeCodeClient authorizeCodeClientSpecSC authClientSpecSC
  simp only [AuthRequestByCode, AuthorizeClientIDSecret, ScProvider.Storage, AuthReq.GetCodeChallenge, ScProvider.is_JWTAuthorizationGrantExchanger,
    ScProvider.AuthMethodPrivateKeyJWTSupported, ScProvider.AuthMethodPostSupported, OPClient.AuthMethod, Go.notNil, Go.isNil, Go.ok]
  go_eq [Nilable.isNil, Const.AuthMethodNone, Const.AuthMethodPrivateKeyJWT, Const.AuthMethodPost]

def validateAccessTokenRequestSpecSC (now : Int) (req : AccessTokenRequest) (sp : ScProvider) : Go.R (AuthReq × OPClient) :=
  match GenSC.AuthorizeCodeClient now req sp with
  | .error e => .error e
  | .ok (a, c) =>
    if c.id ≠ a.clientID then .error "ErrInvalidGrant"
    else if Const.GrantTypeCode ∉ c.grants then .error "ErrUnauthorizedClient"
    else if req.RedirectURI ≠ a.redirectURI then .error "ErrInvalidGrant"
    else .ok (a, c)

theorem sc_validateAccessTokenRequest_eq {now req sp} :
    GenSC.ValidateAccessTokenRequest now req sp = validateAccessTokenRequestSpecSC now req sp := by
  unfold GenSC.ValidateAccessTokenRequest validateAccessTokenRequestSpecSC
  simp only [OPClient.GetID, AuthReq.GetClientID, AuthReq.GetRedirectURI]
  go_eq [validateGrantType_eq]

def legacyCodeExchangeSpecSC (now : Int) (s : ScLegacyServer) (r : ClientRequest AccessTokenRequest) : Go.R IssueFor :=
  match s.provider.base.store.AuthRequestByCode r.Data.Code with
  | .error _ => .error "ErrInvalidGrant"
  | .ok a =>
    if r.Client.id ≠ a.clientID then .error "ErrInvalidGrant"
    else
      match (if r.Client.auth = Const.AuthMethodNone ∨ a.challenge.isSome ∨ r.Data.CodeVerifier ≠ ""
             then AuthorizeCodeChallenge now r.Data.CodeVerifier a.challenge else .ok ()) with
      | .error e => .error e
      | .ok _ =>
        if r.Data.RedirectURI ≠ a.redirectURI then .error "ErrInvalidGrant"
        else .ok (.code a r.Client r.Data.Code)

theorem sc_legacyCodeExchange_eq {now s r} : GenSC.LegacyCodeExchange now s r = legacyCodeExchangeSpecSC now s r := by
  unfold GenSC.LegacyCodeExchange legacyCodeExchangeSpecSC
  simp only [AuthRequestByCode, issueForCodeSC, NewResponse, ScProvider.Storage, OPClient.GetID, AuthReq.GetClientID,
    AuthReq.GetRedirectURI, AuthReq.GetCodeChallenge, OPClient.AuthMethod, Go.notNil, Go.isNil]
  go_eq [Nilable.isNil]

theorem sc_legacyVerifyClient_eq' {now : Int} {sp : ScProvider} {F : FormVals} {cc : ClientCredentials} :
    GenSC.LegacyVerifyClient now ⟨sp⟩ { Form := F, Data := cc } =
      if F.Get "grant_type" = Const.GrantTypeClientCredentials then
        (if sp.base.store.is_ClientCredentialsStorage = true then sp.base.store.ClientCredentials cc.ClientID cc.ClientSecret else .error "ErrUnsupportedGrantType")
      else authClientSpecSC now (ccAsReq cc) sp true := by
  unfold GenSC.LegacyVerifyClient authClientSpecSC ccAsReq
  simp only [AuthorizeClientIDSecret, ScProvider.Storage, ScProvider.AuthMethodPrivateKeyJWTSupported, ScProvider.AuthMethodPostSupported,
    ScProvider.is_JWTAuthorizationGrantExchanger, OPClient.AuthMethod, Go.ok]
  go_eq [Const.AuthMethodNone, Const.AuthMethodPrivateKeyJWT, Const.AuthMethodPost]

/-! ## Layer 2: consequences, from the spec functions only -/

/-- credentials authenticate - or, for a public client, identify - client `c` at a provider whose JWTProfileVerifier carries the
    subject check `f` (`FlowObs.AuthAs` is this with `f = none`) -/
def AuthAsSC (now : Int) (p : Provider) (f : Option (Claims → Go.R Unit)) (id secret ty : String) (t : Token) (c : OPClient) : Prop :=
  (ty = Const.ClientAssertionTypeJWTAssertion ∧ p.pkjwtSupported = true ∧ p.is_JWTAuthorizationGrantExchanger = true ∧
      ∃ j, VerifyJWTAssertion now t { p.JWTProfileVerifier with CheckSubject := f } = .ok j ∧
        p.store.GetClientByClientID j.iss = .ok c ∧ c.auth = Const.AuthMethodPrivateKeyJWT)
  ∨ (ty ≠ Const.ClientAssertionTypeJWTAssertion ∧ p.store.GetClientByClientID id = .ok c ∧
      (c.auth = Const.AuthMethodNone ∨
        (c.auth ≠ Const.AuthMethodPrivateKeyJWT ∧ (c.auth = Const.AuthMethodPost → p.postSupported = true) ∧
          p.store.AuthorizeClientIDSecret id secret = .ok ())))

theorem authAsSC_default {now p id secret ty t c} : AuthAsSC now p none id secret ty t c ↔ AuthAs now p id secret ty t c := Iff.rfl

theorem authClientSpecSC_ok {now req p f hc c} (h : authClientSpecSC now req ⟨p, f⟩ hc = .ok c) :
    AuthAsSC now p f req.ClientID req.ClientSecret req.ClientAssertionType req.ClientAssertion c ∧ (c.auth = Const.AuthMethodNone → hc = true) := by
  unfold authClientSpecSC at h
  by_cases hty : req.ClientAssertionType = Const.ClientAssertionTypeJWTAssertion
  · simp only [hty, if_true] at h
    split at h
    · rename_i hcfg
      obtain ⟨j, hj, hget, hauth⟩ := sc_authorizePrivateJWTKey_iff.1 h
      refine ⟨Or.inl ⟨hty, hcfg.2, hcfg.1, j, hj, hget, hauth⟩, ?_⟩
      intro hn; rw [hn] at hauth; exact absurd hauth (by decide)
    · simp at h
  · simp only [hty, if_false] at h
    split at h
    · simp at h
    · rename_i c' hget
      split at h
      · simp at h
      · rename_i hnpk
        split at h
        · rename_i hnone
          split at h
          · rename_i hch
            simp only [Except.ok.injEq] at h; subst h
            exact ⟨Or.inr ⟨hty, hget, Or.inl hnone⟩, fun _ => hch⟩
          · simp at h
        · rename_i hnn
          split at h
          · simp at h
          · rename_i hpost
            split at h
            · simp at h
            · rename_i u hsec
              simp only [Except.ok.injEq] at h; subst h
              refine ⟨Or.inr ⟨hty, hget, Or.inr ⟨hnpk, ?_, by cases u; exact hsec⟩⟩, fun hn => absurd hn hnn⟩
              intro hp
              cases hps : p.postSupported
              · exact absurd ⟨hp, hps⟩ hpost
              · rfl

theorem sc_authorizeCodeClient_ok {now req p f a c} (h : GenSC.AuthorizeCodeClient now req ⟨p, f⟩ = .ok (a, c)) :
    p.store.AuthRequestByCode req.Code = .ok a ∧
    (a.challenge ≠ none → req.CodeVerifier ≠ "" ∧ VerifyCodeChallenge now a.challenge req.CodeVerifier = true) ∧
    (c.auth = Const.AuthMethodNone → a.challenge ≠ none) ∧
    AuthAsSC now p f req.ClientID req.ClientSecret req.ClientAssertionType req.ClientAssertion c := by
  rw [sc_authorizeCodeClient_eq] at h
  unfold authorizeCodeClientSpecSC at h
  split at h
  · simp at h
  · rename_i a' hcode
    split at h
    · simp at h
    · rename_i u hpk
      split at h
      · simp at h
      · rename_i c' hcl
        simp only [Except.ok.injEq, Prod.mk.injEq] at h
        obtain ⟨rfl, rfl⟩ := h
        obtain ⟨hauth, hnone⟩ := authClientSpecSC_ok hcl
        refine ⟨hcode, ?_, ?_, hauth⟩
        · intro hne
          have hs : a'.challenge.isSome = true := by cases hch : a'.challenge <;> simp_all
          simp only [hs, if_true] at hpk
          cases u; exact authorizeCodeChallenge_iff.1 hpk
        · intro hn hch
          have := hnone hn
          simp [hch] at this

theorem sc_validateAccessTokenRequest_ok {now req p f a c} (h : GenSC.ValidateAccessTokenRequest now req ⟨p, f⟩ = .ok (a, c)) :
    p.store.AuthRequestByCode req.Code = .ok a ∧ c.id = a.clientID ∧ Const.GrantTypeCode ∈ c.grants ∧
    req.RedirectURI = a.redirectURI ∧
    (a.challenge ≠ none → req.CodeVerifier ≠ "" ∧ VerifyCodeChallenge now a.challenge req.CodeVerifier = true) ∧
    (c.auth = Const.AuthMethodNone → a.challenge ≠ none) ∧
    AuthAsSC now p f req.ClientID req.ClientSecret req.ClientAssertionType req.ClientAssertion c := by
  rw [sc_validateAccessTokenRequest_eq] at h
  unfold validateAccessTokenRequestSpecSC at h
  split at h
  · simp at h
  · rename_i a' c' hacc
    split at h; · simp at h
    rename_i hid
    split at h; · simp at h
    rename_i hgrant
    split at h; · simp at h
    rename_i hred
    simp only [Except.ok.injEq, Prod.mk.injEq] at h
    obtain ⟨rfl, rfl⟩ := h
    obtain ⟨h1, h2, h3, h4⟩ := sc_authorizeCodeClient_ok hacc
    exact ⟨h1, by simpa using hid, by simpa using hgrant, by simpa using hred, h2, h3, h4⟩

theorem sc_legacyCodeExchange_ok {now} {s : ScLegacyServer} {r i} (h : GenSC.LegacyCodeExchange now s r = .ok i) :
    ∃ a, i = .code a r.Client r.Data.Code ∧ s.provider.base.store.AuthRequestByCode r.Data.Code = .ok a ∧
      r.Client.id = a.clientID ∧ r.Data.RedirectURI = a.redirectURI ∧
      (a.challenge ≠ none → r.Data.CodeVerifier ≠ "" ∧ VerifyCodeChallenge now a.challenge r.Data.CodeVerifier = true) ∧
      (r.Client.auth = Const.AuthMethodNone → a.challenge ≠ none) := by
  rw [sc_legacyCodeExchange_eq] at h
  unfold legacyCodeExchangeSpecSC at h
  split at h
  · simp at h
  · rename_i a hcode
    split at h; · simp at h
    rename_i hid
    split at h
    · simp at h
    · rename_i u hpk
      split at h; · simp at h
      rename_i hred
      simp only [Except.ok.injEq] at h
      refine ⟨a, h.symm, hcode, by simpa using hid, by simpa using hred, ?_, ?_⟩
      · intro hne
        have hs : a.challenge.isSome = true := by cases hch : a.challenge <;> simp_all
        simp only [hs, true_or, or_true, if_true] at hpk
        cases u; exact authorizeCodeChallenge_iff.1 hpk
      · intro hn hch
        simp only [hn, true_or, if_true] at hpk
        cases u
        have := (authorizeCodeChallenge_iff.1 hpk).2
        rw [hch] at this
        obtain ⟨c, hc, _⟩ := verifyCodeChallenge_iff.1 this
        simp at hc

theorem sc_withClient_authAs {now : Int} {p : Provider} {f} {g : String} {cc : ClientCredentials} {ha : Bool} {c : OPClient}
    (h : FlowSC.withClient now ⟨p, f⟩ g cc ha = .ok c) (hg : g ≠ Const.GrantTypeClientCredentials) (hg' : g ≠ "") :
    AuthAsSC now p f cc.ClientID cc.ClientSecret cc.ClientAssertionType cc.ClientAssertion c ∧ g ∈ c.grants := by
  unfold FlowSC.withClient at h
  split at h; · simp at h
  split at h; · simp at h
  rename_i c' hv
  split at h
  · simp at h
  · rename_i hcond
    simp at h; subst h
    refine ⟨?_, ?_⟩
    · rw [sc_legacyVerifyClient_eq', formGet_grant, if_neg hg] at hv
      exact (authClientSpecSC_ok hv).1
    · simp [hg'] at hcond
      exact validateGrantType_iff.1 hcond

/-- what a code exchange that the token endpoint lets through has established - either router, EVERY subject check -/
theorem sc_codeExchange_ok {now : Int} {rt : Router} {p : Provider} {f : Option (Claims → Go.R Unit)} {req : AccessTokenRequest} {ha : Bool}
    {i : IssueFor} (h : FlowSC.codeExchange now rt ⟨p, f⟩ req ha = .ok i) :
    ∃ a c, i = .code a c req.Code ∧ p.store.AuthRequestByCode req.Code = .ok a ∧ c.id = a.clientID ∧
      Const.GrantTypeCode ∈ c.grants ∧ req.RedirectURI = a.redirectURI ∧
      (a.challenge ≠ none → req.CodeVerifier ≠ "" ∧ VerifyCodeChallenge now a.challenge req.CodeVerifier = true) ∧
      (c.auth = Const.AuthMethodNone → a.challenge ≠ none) ∧
      AuthAsSC now p f req.ClientID req.ClientSecret req.ClientAssertionType req.ClientAssertion c := by
  cases rt with
  | provider =>
    simp only [FlowSC.codeExchange] at h
    split at h; · simp at h
    split at h; · simp at h
    rename_i a c hv
    simp only [issueForCodeSC] at h
    cases h
    obtain ⟨h1, h2, h3, h4, h5, h6, h7⟩ := sc_validateAccessTokenRequest_ok hv
    exact ⟨a, c, rfl, h1, h2, h3, h4, h5, h6, h7⟩
  | legacy =>
    simp only [FlowSC.codeExchange] at h
    split at h; · simp at h
    rename_i client hw
    split at h; · simp at h
    split at h; · simp at h
    obtain ⟨a, hi, h1, h2, h4, h5, h6⟩ := sc_legacyCodeExchange_ok h
    obtain ⟨hauth, hgrant⟩ := sc_withClient_authAs hw (by decide) (by decide)
    exact ⟨a, client, hi, h1, h2, hgrant, h4, h5, h6, hauth⟩

/-! ## The monitor's reading -/

/-- the authentication of the model under the subject check `f` implies the monitor's `callerIsCfg` for the same client, for a
    monitor that knows whether the check is a custom one: the identity an onlooker reads off the assertion - the ISSUER whose
    registered key verifies the signature - is the client the code went on with -/
theorem callerIsCfg_of_authAsSC {now : Int} {p : Provider} {f : Option (Claims → Go.R Unit)} {m : C04.MonState} {id secret ty : String}
    {t : Token} {c : OPClient} {pr : C04.Presented} (hm : SameCfg m p) (hsc : m.subjectCheckCustom = f.isSome)
    (hid : pr.clientID = id) (hsec : pr.secret = secret)
    (hass : pr.assertion = if ty == Const.ClientAssertionTypeJWTAssertion then some t else none)
    (h : AuthAsSC now p f id secret ty t c) : C04.callerIsCfg m now c pr = true := by
  rcases h with ⟨hty, h2, h3, j, hv, hget, hauth⟩ | hrest
  · cases f with
    | none => exact callerIsCfg_of_authAs hm hid hsec hass (Or.inl ⟨hty, h2, h3, j, hv, hget, hauth⟩)
    | some g =>
      have hflag : m.subjectCheckCustom = true := by simpa using hsc
      have hs := assertionOK_of_verify_check hv
      have hpr : C04.provesIssuer m t now = some j.iss := provesIssuer_of_assertionOK hm (by simpa [hflag] using hs)
      obtain ⟨_, hcid⟩ := getClient_find hget
      have hpk : (c.auth == "private_key_jwt") = true := by rw [hauth]; decide
      unfold C04.callerIsCfg
      simp [hflag, hpk, hass, hty, hpr, hcid]
  · exact callerIsCfg_of_authAs hm hid hsec hass (Or.inr hrest)

/-- **step theorem, binding clauses** (either router, EVERY subject check `f`, any state of the storage): an answer with tokens to
    a code-exchange request passes the monitor's OWN tests for that request - the code resolves to the request `a` the tokens are
    for, the caller is (authenticated as / identifies as) the client of `a` in the monitor's reading (`callerIsCfg`: for a
    private_key_jwt client the ISSUER of the assertion whose registered key verifies the signature), that client is registered for
    the code grant, the redirect_uri is that of `a`, and the PKCE / public-client test holds.  None of `caller-is-not-the-code's-client`,
    `grant-not-registered`, `redirect-uri-differs`, `pkce` can be raised. -/
theorem c04_sc_exchange_binding (now : Int) (p : Provider) (f : Option (Claims → Go.R Unit)) (m : C04.MonState) (hm : SameCfg m p)
    (hsc : m.subjectCheckCustom = f.isSome) (rt : Router) (req : AccessTokenRequest) (ha : Bool) {a : AuthReq} {c : OPClient} {k : String}
    (h : FlowSC.codeExchange now rt ⟨p, f⟩ req ha = .ok (.code a c k)) :
    k = req.Code ∧ p.store.AuthRequestByCode req.Code = .ok a ∧ m.clients.find? (·.id == a.clientID) = some c ∧
      C04.callerIsCfg m now c (presentedCode req) = true ∧ c.grants.contains "authorization_code" = true ∧
      req.RedirectURI = a.redirectURI ∧
      (match a.challenge with | some ch => C04.pkceOK ch req.CodeVerifier = true | none => c.auth ≠ "none") := by
  obtain ⟨a', c', hi, hl, hcid, hgrant, hred, hpk1, hpk2, hauth⟩ := sc_codeExchange_ok h
  cases hi
  have hclient : m.clients.find? (·.id == a.clientID) = some c := by
    obtain ⟨hcl, _, _, _⟩ := hm
    rcases hauth with ⟨_, _, _, j, _, hget, _⟩ | ⟨_, hget, _⟩
    · rw [hcl, ← hcid]; exact (getClient_find hget).1
    · rw [hcl, ← hcid]; exact (getClient_find hget).1
  refine ⟨rfl, hl, hclient, callerIsCfg_of_authAsSC (pr := presentedCode req) hm hsc rfl rfl rfl hauth,
    by simpa [Const.GrantTypeCode] using hgrant, hred, ?_⟩
  cases hch : a.challenge with
  | none =>
    intro hn
    exact hpk2 hn hch
  | some ch =>
    obtain ⟨hv, hver⟩ := hpk1 (by rw [hch]; simp)
    rw [hch] at hver
    exact pkce_of_verify hv hver

/-- **step theorem, whole judgement** (either router, EVERY subject check): from every state of the history invariant `Inv04`
    (storage and observer agree on requests, codes and their use; Proofs/C04History.lean), for a monitor that was told whether the
    provider's subject check is a custom one, the monitor has nothing to object to a successful exchange of the model. -/
theorem c04_sc_step {now : Int} {s : Flow.St} {o : ObsState} (hinv : Inv04 s o) (f : Option (Claims → Go.R Unit))
    (hsc : o.m04.subjectCheckCustom = f.isSome) (rt : Router) (req : AccessTokenRequest) (ha : Bool) {a : AuthReq} {c : OPClient} {k : String}
    (h : FlowSC.codeExchange now rt ⟨s.p, f⟩ req ha = .ok (.code a c k)) :
    ∀ nr, C04.judge o.m04 now (presentedCode req) (some (tokensOf a c nr)) = none := by
  obtain ⟨_, hl, hclient, hcaller, hgr, hred, hpk⟩ := c04_sc_exchange_binding now s.p f o.m04 hinv.cfg hsc rt req ha h
  obtain ⟨a', c', hi, _, hcid, _, _, _, _, _⟩ := sc_codeExchange_ok h
  cases hi
  obtain ⟨id, hmem, hfind⟩ := storeLookup hl
  obtain ⟨hdone, hiss⟩ := hinv.codes req.Code id a hmem hfind
  have hredb : (req.RedirectURI != a.redirectURI) = false := by simp [hred]
  have hcar : ∀ nr, (carriedOf a c nr).findSome? (C04.carriedBad a) = none := by
    intro nr
    cases nr <;> simp [carriedOf, C04.carriedBad, hcid]
  intro nr
  unfold C04.judge
  simp only [presentedCode, tokensOf] at hcaller ⊢
  simp only [hiss, hdone, hclient, hgr, hredb, Bool.false_eq_true, if_false, Bool.not_true, bne_self_eq_false]
  rw [hcaller]
  simp only [Bool.not_true, Bool.false_eq_true, if_false, hcid, bne_self_eq_false, hcar]
  cases hch : a.challenge with
  | none =>
    rw [hch] at hpk
    have hb : (c.auth == "none") = false := by simpa using hpk
    simp only [hb, Bool.false_eq_true, if_false]
  | some ch =>
    rw [hch] at hpk
    simp only [hpk, Bool.not_true, Bool.false_eq_true, if_false]



end C04

/-! ## Non-vacuity (kernel `decide`): two private_key_jwt clients, each with its own key; a code of `victim`; a provider whose subject
    check admits every non-empty `sub` -/
namespace SCDemo
open C04 FlowObs Flow

def keyP : JWK := { KeyID := "partner-k", Use := "sig", kty := .rsa, keyNo := 1 }
def keyV : JWK := { KeyID := "victim-k", Use := "sig", kty := .rsa, keyNo := 2 }
def partner : OPClient := { id := "partner", auth := Const.AuthMethodPrivateKeyJWT, grants := ["authorization_code"], keys := [keyP] }
def victim : OPClient := { id := "victim", auth := Const.AuthMethodPrivateKeyJWT, grants := ["authorization_code"], keys := [keyV] }
def arV : AuthReq := { id := "ar1", clientID := "victim", redirectURI := "https://rp/cb", scopes := ["openid"], subject := "user1", done := true }
def arP : AuthReq := { id := "ar2", clientID := "partner", redirectURI := "https://rp/cb", scopes := ["openid"], subject := "user2", done := true }
def prov : Provider :=
  { store := { clients := [partner, victim], authReqs := [arV, arP], codes := [("cV", "ar1"), ("cP", "ar2")] },
    issuer := "https://op", pkjwtSupported := true, jwtOffset := Go.second }
def admitAll : Option (Claims → Go.R Unit) := some fun c => if c.sub == "" then .error "sub missing" else .ok ()
def now : Int := 1010 * Go.second
/-- an assertion {iss, sub} signed with key number `keyNo` under key id `kid` -/
def tok (iss sub kid : String) (keyNo : Nat) : Token :=
  let p : Payload := { bytes := 7, claims := some { iss := iss, sub := sub, aud := ["https://op"], iat := 1000, exp := 1300 } }
  { segs := 3, middle := some p,
    jws := some { Signatures := [{ Header := { Algorithm := "RS256", KeyID := kid }, signer := some keyNo, signedBytes := 7,
                                   signedHdr := { Algorithm := "RS256", KeyID := kid }, signedAlg := "RS256" }], payload := p } }
def req (code : String) (t : Token) : AccessTokenRequest :=
  { Code := code, RedirectURI := "https://rp/cb", ClientAssertionType := Const.ClientAssertionTypeJWTAssertion, ClientAssertion := t }
/-- what the exchange answered: the client the tokens are for, or the error -/
def answer (r : Go.R IssueFor) : String :=
  match r with
  | .ok (.code a c _) => "tokens:" ++ c.id ++ ":" ++ a.id
  | .ok _ => "?"
  | .error e => e
def mon : C04.MonState :=
  { issuer := "https://op", clients := [partner, victim], issued := [{ code := "cV", req := arV }, { code := "cP", req := arP }],
    jwtMaxAgeIAT := prov.jwtMaxAgeIAT, jwtOffset := Go.second, subjectCheckCustom := true }

/-- `partner` signs {iss: partner, sub: victim} with its own key and presents the victim's code: refused on both routers -/
example : answer (FlowSC.codeExchange now .provider ⟨prov, admitAll⟩ (req "cV" (tok "partner" "victim" "partner-k" 1)) true) = "ErrInvalidGrant" := by decide
example : answer (FlowSC.codeExchange now .legacy ⟨prov, admitAll⟩ (req "cV" (tok "partner" "victim" "partner-k" 1)) true) = "ErrInvalidGrant" := by decide
/-- ... and the monitor objects to an answer with the victim's tokens to that request -/
example : C04.judge mon now (presentedCode (req "cV" (tok "partner" "victim" "partner-k" 1))) (some (tokensOf arV victim none))
    = some "caller-is-not-the-code's-client" := by decide
/-- naming the victim as issuer does not help: the signature is checked against the VICTIM's keys -/
example : (FlowSC.codeExchange now .provider ⟨prov, admitAll⟩ (req "cV" (tok "victim" "victim" "partner-k" 1)) true).toOption.isNone = true := by decide
example : (FlowSC.codeExchange now .legacy ⟨prov, admitAll⟩ (req "cV" (tok "victim" "partner" "victim-k" 1)) true).toOption.isNone = true := by decide
/-- the victim's own assertion - plain, or with a delegated subject - redeems its code; the monitor has nothing to object -/
example : answer (FlowSC.codeExchange now .provider ⟨prov, admitAll⟩ (req "cV" (tok "victim" "victim" "victim-k" 2)) true) = "tokens:victim:ar1" := by decide
example : answer (FlowSC.codeExchange now .legacy ⟨prov, admitAll⟩ (req "cV" (tok "victim" "user9" "victim-k" 2)) true) = "tokens:victim:ar1" := by decide
example : C04.judge mon now (presentedCode (req "cV" (tok "victim" "user9" "victim-k" 2))) (some (tokensOf arV victim none)) = none := by decide
/-- the partner's delegated assertion {iss: partner, sub: victim} authenticates the PARTNER: its own code is redeemed, the monitor agrees -/
example : answer (FlowSC.codeExchange now .provider ⟨prov, admitAll⟩ (req "cP" (tok "partner" "victim" "partner-k" 1)) true) = "tokens:partner:ar2" := by decide
example : C04.judge mon now (presentedCode (req "cP" (tok "partner" "victim" "partner-k" 1))) (some (tokensOf arP partner none)) = none := by decide
/-- the library's own provider (default check) refuses every delegated assertion outright -/
example : (FlowSC.codeExchange now .provider ⟨prov, none⟩ (req "cP" (tok "partner" "victim" "partner-k" 1)) true).toOption.isNone = true := by decide
/-- a monitor that was NOT told about the custom check (default reading: sub = iss) would object to the partner's legitimate exchange:
    the configuration flag is needed to judge what an onlooker can -/
example : C04.judge { mon with subjectCheckCustom := false } now (presentedCode (req "cP" (tok "partner" "victim" "partner-k" 1)))
    (some (tokensOf arP partner none)) = some "caller-is-not-the-code's-client" := by decide

end SCDemo
