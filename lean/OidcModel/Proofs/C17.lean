/-
  C17 proofs.  The theorems are about the handler functions REGENERATED from the Go source
  (Generated/RPHandlers.lean: CheckCookie, CheckQueryCookie, SetCookie, DeleteCookie, trySetStateCookie,
  tryReadStateCookie, GenerateAndStoreCodeChallenge, AuthURLHandler, CodeExchangeHandler and the option tables):

  * `c17_callback_holds` / `c17_login_holds`: the property's monitor accepts what the model does, for ALL cookie
    jars, queries, key pairs, custom parameters, encode oracles, signers and provider behaviours;
  * `c17_state_bound`, `c17_no_request_without_state`, `c17_pkce_bound`, `c17_auth_url_params`: the clauses spelled out;
  * `c17_history`: for EVERY sequence of login attempts, callbacks and jar tampering in one browser (induction over the
    event list) every verdict of the function-level and of the history monitor is `none`.
-/
import OidcModel.Model.RPBrowser
import OidcModel.GoTac
namespace C17
theorem find_map_key (ps : List (String × String)) (k v : String) (h : ps.any (·.1 == k) = true) :
    (ps.map (fun p => if p.1 == k then (k, v) else p)).find? (·.1 == k) = some (k, v) := by
  induction ps with
  | nil => simp at h
  | cons p ps ih =>
    simp only [List.map_cons, List.find?_cons]
    by_cases hp : (p.1 == k) = true
    · simp only [hp, if_true, beq_self_eq_true]
    · have hp' : (p.1 == k) = false := by simpa using hp
      simp only [List.any_cons, hp', Bool.false_or] at h
      simp only [hp', Bool.false_eq_true, if_false]
      exact ih h

theorem getParam_setParam_same (ps : List (String × String)) (k v : String) :
    getParam (setParam ps (k, v)) k = v := by
  unfold getParam setParam
  by_cases h : ps.any (·.1 == k) = true
  · simp only [h, if_true]
    rw [find_map_key ps k v h]; rfl
  · simp only [h]
    have : ps.find? (·.1 == k) = none := by
      simp only [List.find?_eq_none]
      intro x hx hxk
      exact h (List.any_eq_true.2 ⟨x, hx, hxk⟩)
    simp [List.find?_append, this]

theorem find_map_other (ps : List (String × String)) (k k' v : String) (hne : k' ≠ k) :
    (ps.map (fun p => if p.1 == k then (k, v) else p)).find? (·.1 == k') = ps.find? (·.1 == k') := by
  induction ps with
  | nil => rfl
  | cons p ps ih =>
    simp only [List.map_cons, List.find?_cons]
    by_cases hp : (p.1 == k) = true
    · have hpk : p.1 = k := by simpa using hp
      have h1 : (p.1 == k') = false := by rw [hpk]; simpa using fun h => hne h.symm
      have h2 : (k == k') = false := by simpa using fun h => hne h.symm
      simp only [hp, if_true, h1, h2, ih]
    · have hp' : (p.1 == k) = false := by simpa using hp
      simp only [hp', Bool.false_eq_true, if_false, ih]

theorem getParam_setParam_ne (ps : List (String × String)) (k k' v : String) (hne : k' ≠ k) :
    getParam (setParam ps (k, v)) k' = getParam ps k' := by
  unfold getParam setParam
  by_cases h : ps.any (·.1 == k) = true
  · simp only [h, if_true]
    rw [find_map_other ps k k' v hne]
  · simp only [h]
    have hkk : (k == k') = false := by simpa using fun h => hne h.symm
    simp [List.find?_append, List.find?, hkk]

theorem getParam_setParams_notin (kvs ps : List (String × String)) (k : String) (h : ∀ p ∈ kvs, p.1 ≠ k) :
    getParam (setParams ps kvs) k = getParam ps k := by
  induction kvs generalizing ps with
  | nil => rfl
  | cons kv kvs ih =>
    simp only [setParams, List.foldl_cons]
    have := ih (setParam ps kv) (fun p hp => h p (List.mem_cons_of_mem _ hp))
    simp only [setParams] at this
    rw [this]
    obtain ⟨a, b⟩ := kv
    exact getParam_setParam_ne ps a k b (fun e => h (a, b) (List.mem_cons_self ..) e.symm)

theorem setParams_append (ps a b : List (String × String)) :
    setParams ps (a ++ b) = setParams (setParams ps a) b := by
  simp [setParams, List.foldl_append]

open RPBrowser Gen Go Hand

def toOpt {α : Type} : Go.R α → Option α
  | .ok a => some a
  | .error _ => none

theorem checkCookie_spec (now : Int) (rp : RP) (ch : CookieHandler) (r : HttpReq) (name : String) :
    toOpt (CheckCookie now ch r name) = signedValue (cfgOf rp ch) r.cookies name := by
  unfold CheckCookie HttpReq.Cookie signedValue
  cases h : r.cookies.find? (·.Name == name) with
  | none => simp [toOpt]
  | some c =>
    simp only [SecureCookie.Decode, signedFor, cfgOf]
    cases c.Value with
    | plain s => simp [toOpt]
    | minted hk bk n v =>
      by_cases hc : (hk == ch.securecookie.hashKey && bk == ch.securecookie.blockKey && n == name) = true
      · simp [hc, toOpt]
      · simp [hc, toOpt]

theorem verifier_param1 (base : List (String × String)) (urlParam : List UrlOpt) (now : Int) (v : String) :
    getParam (setParams base (Go.append (Go.mapList urlParam fun p => p) (WithCodeVerifier now v)).flatten) "code_verifier" = v := by
  simp only [Go.append, Go.mapList, WithCodeVerifier, List.map_id', List.flatten_append, List.flatten_cons, List.flatten_nil,
    List.append_nil, setParams_append]
  simp only [setParams, List.foldl_cons, List.foldl_nil]
  exact getParam_setParam_same _ _ _

theorem verifier_param2 (base : List (String × String)) (urlParam : List UrlOpt) (now : Int) (v a : String) :
    getParam (setParams base (Go.append (Go.append (Go.mapList urlParam fun p => p) (WithCodeVerifier now v))
      (WithClientAssertionJWT now a)).flatten) "code_verifier" = v := by
  simp only [Go.append, Go.mapList, WithCodeVerifier, WithClientAssertionJWT, List.map_id', List.flatten_append, List.flatten_cons,
    List.flatten_nil, List.append_nil, setParams_append]
  rw [getParam_setParams_notin]
  · simp only [setParams, List.foldl_cons, List.foldl_nil]
    exact getParam_setParam_same _ _ _
  · intro p hp
    simp only [List.mem_cons, List.mem_nil_iff, or_false] at hp
    rcases hp with rfl | rfl <;> simp

/-- characterisation of the regenerated `CheckQueryCookie`: it answers a value exactly when `CheckCookie` answers that value and
    the value equals the form value of the same name (shape-independent: `go_char`) -/
theorem checkQueryCookie_ok_iff (now : Int) (ch : CookieHandler) (r : HttpReq) (name v : String) :
    CheckQueryCookie now ch r name = .ok v ↔ (CheckCookie now ch r name = .ok v ∧ v = r.FormValue name) := by
  go_char CheckQueryCookie

/-- characterisation of the regenerated `tryReadStateCookie` for an RP with a cookie handler -/
theorem tryReadStateCookie_eq (now : Int) (w : World) (r : HttpReq) (rp : RP) (ch : CookieHandler) (h : rp.cookieHandler = some ch) :
    tryReadStateCookie now w r rp =
      (match CheckQueryCookie now ch r "state" with
       | .error e => (w, .error e)
       | .ok s => (DeleteCookie now ch w "state", .ok s)) := by
  go_char tryReadStateCookie RP.CookieHandler Go.isNil Go.notNil Nilable.isNil Go.getOpt stateParam

theorem callback_core (now : Int) (rp : RP) (ch : CookieHandler) (h : rp.cookieHandler = some ch)
    (urlParam : List UrlOpt) (r : HttpReq) :
    judgeCallback (cfgOf rp ch) r.cookies r.form
      (observeCallback (CodeExchangeHandler now rp urlParam [] r)) = none ∧
    ∀ c ∈ setCookiesOf (CodeExchangeHandler now rp urlParam [] r), c.MaxAge < 0 := by
  have hs := (checkCookie_spec now rp ch r "state").symm
  have hp := (checkCookie_spec now rp ch r "pkce").symm
  have hpkce : (cfgOf rp ch).pkce = rp.pkce := rfl
  unfold CodeExchangeHandler
  rw [tryReadStateCookie_eq now [] r rp ch h]
  simp only [RP.CookieHandler, h, Go.isNil, Go.notNil, Nilable.isNil, Go.getOpt, pkceCode, Option.getD_some, Option.isNone_some]
  cases hqc : CheckQueryCookie now ch r "state" with
  | error e =>
    have hne : ¬ signedValue (cfgOf rp ch) r.cookies "state" = some (formValue r.form "state") := by
      intro heq
      rw [heq] at hs
      cases hcc : CheckCookie now ch r "state" with
      | error e' => rw [hcc] at hs; simp [toOpt] at hs
      | ok v =>
        rw [hcc] at hs
        simp only [toOpt, Option.some.injEq] at hs
        have hok : CheckQueryCookie now ch r "state" = .ok v :=
          (checkQueryCookie_ok_iff now ch r "state" v).2 ⟨hcc, hs.symm.trans rfl⟩
        rw [hqc] at hok
        cases hok
    simp [setCookiesOf, judgeCallback, observeCallback, unauthorizedError, hne]
  | ok s =>
    obtain ⟨hcs, hq⟩ := (checkQueryCookie_ok_iff now ch r "state" s).1 hqc
    rw [hcs] at hs; simp only [toOpt] at hs
    have hfv : formValue r.form "state" = s := by rw [hq]; rfl
    simp only []
    by_cases herr : (r.FormValue "error" != "") = true
    · simp only [herr, if_true]
      cases hcp : signedValue (cfgOf rp ch) r.cookies "pkce" <;>
        simp [setCookiesOf, judgeCallback, observeCallback, errorHandler, DeleteCookie, Http.SetCookie, hs, hfv, hcp]
    · simp only [herr, Bool.false_eq_true, if_false]
      by_cases hpk : rp.pkce = true
      · simp only [RP.IsPKCE, hpk, if_true]
        cases hcp : CheckCookie now ch r "pkce" with
        | error e =>
          rw [hcp] at hp; simp only [toOpt] at hp
          simp [setCookiesOf, judgeCallback, observeCallback, unauthorizedError, DeleteCookie, Http.SetCookie, hs, hp, hfv, hpkce, hpk]
        | ok v =>
          rw [hcp] at hp; simp only [toOpt] at hp
          simp only [CodeExchange, RP.Signer, RP.OAuthConfig, RP.Issuer]
          rcases (show rp.signer = none ∨ ∃ sg, rp.signer = some sg by cases rp.signer <;> simp) with hsg | ⟨sg, hsg⟩
          · simp only [hsg, Option.isNone_none, Bool.not_true, Bool.false_eq_true, if_false]
            generalize rp.provider _ = res
            cases res <;>
              simp [setCookiesOf, judgeCallback, observeCallback, unauthorizedError, appCallback, DeleteCookie, Http.SetCookie,
                hs, hp, hfv, hpkce, hpk, verifier_param1]
          · simp only [hsg, Option.isNone_some, Bool.not_false, if_true, SignedJWTProfileAssertion]
            cases hok : sg.ok
            · simp [setCookiesOf, judgeCallback, observeCallback, unauthorizedError, DeleteCookie, Http.SetCookie, hs, hp, hfv, hpkce, hpk]
            · simp only [if_true]
              generalize rp.provider _ = res
              cases res <;>
                simp [setCookiesOf, judgeCallback, observeCallback, unauthorizedError, appCallback, DeleteCookie, Http.SetCookie,
                  hs, hp, hfv, hpkce, hpk, verifier_param2]
      · simp only [RP.IsPKCE, hpk, Bool.false_eq_true, if_false]
        simp only [CodeExchange, RP.Signer, RP.OAuthConfig, RP.Issuer]
        rcases (show rp.signer = none ∨ ∃ sg, rp.signer = some sg by cases rp.signer <;> simp) with hsg | ⟨sg, hsg⟩
        · simp only [hsg, Option.isNone_none, Bool.not_true, Bool.false_eq_true, if_false]
          generalize rp.provider _ = res
          cases res <;>
            simp [setCookiesOf, judgeCallback, observeCallback, unauthorizedError, appCallback, DeleteCookie, Http.SetCookie,
              hs, hfv, hpkce, hpk]
        · simp only [hsg, Option.isNone_some, Bool.not_false, if_true, SignedJWTProfileAssertion]
          cases hok : sg.ok
          · simp [setCookiesOf, judgeCallback, observeCallback, unauthorizedError, DeleteCookie, Http.SetCookie, hs, hfv, hpkce, hpk]
          · simp only [if_true]
            generalize rp.provider _ = res
            cases res <;>
              simp [setCookiesOf, judgeCallback, observeCallback, unauthorizedError, appCallback, DeleteCookie, Http.SetCookie,
                hs, hfv, hpkce, hpk]


/-- custom URL parameters of the application do not overwrite the parameters the property speaks about -/
def NoReserved (urlParam : List UrlOpt) : Prop :=
  ∀ p ∈ urlParam.flatten, p.1 ≠ "state" ∧ p.1 ≠ "client_id" ∧ p.1 ≠ "redirect_uri" ∧ p.1 ≠ "scope"

def authBase (state : String) (rp : RP) : List (String × String) :=
  [("response_type", "code"), ("client_id", rp.oauthConfig.ClientID)]
    ++ (if rp.oauthConfig.RedirectURL != "" then [("redirect_uri", rp.oauthConfig.RedirectURL)] else [])
    ++ (if !rp.oauthConfig.Scopes.isEmpty then [("scope", " ".intercalate rp.oauthConfig.Scopes)] else [])
    ++ (if state != "" then [("state", state)] else [])

theorem authURL_params (now : Int) (state : String) (rp : RP) (opts : List UrlOpt) :
    (AuthURL now state rp opts).params = setParams (authBase state rp) opts.flatten := rfl

theorem authBase_state (state : String) (rp : RP) : getParam (authBase state rp) "state" = state := by
  unfold authBase getParam
  by_cases h1 : rp.oauthConfig.RedirectURL = "" <;> by_cases h2 : rp.oauthConfig.Scopes = [] <;> by_cases h3 : state = "" <;>
    simp [h1, h2, h3, List.find?]

theorem authBase_client (state : String) (rp : RP) : getParam (authBase state rp) "client_id" = rp.oauthConfig.ClientID := by
  simp [authBase, getParam, List.find?]

theorem authBase_redirect (state : String) (rp : RP) : getParam (authBase state rp) "redirect_uri" = rp.oauthConfig.RedirectURL := by
  unfold authBase getParam
  by_cases h1 : rp.oauthConfig.RedirectURL = "" <;> by_cases h2 : rp.oauthConfig.Scopes = [] <;> by_cases h3 : state = "" <;>
    simp [h1, h2, h3, List.find?]

theorem authBase_scope (state : String) (rp : RP) : getParam (authBase state rp) "scope" = " ".intercalate rp.oauthConfig.Scopes := by
  unfold authBase getParam
  by_cases h1 : rp.oauthConfig.RedirectURL = "" <;> by_cases h2 : rp.oauthConfig.Scopes = [] <;> by_cases h3 : state = "" <;>
    simp [h1, h2, h3, List.find?]

/-- parameters of the authorization URL: reserved ones come from the configuration / the state, the challenge from the option -/
theorem authURL_plain (now : Int) (state : String) (rp : RP) (urlParam : List UrlOpt) (hres : NoReserved urlParam) :
    let u := AuthURL now state rp (Go.mapList urlParam fun p => p)
    getParam u.params "state" = state ∧ getParam u.params "client_id" = rp.oauthConfig.ClientID ∧
    getParam u.params "redirect_uri" = rp.oauthConfig.RedirectURL ∧
    getParam u.params "scope" = " ".intercalate rp.oauthConfig.Scopes := by
  simp only [authURL_params, Go.mapList, List.map_id']
  refine ⟨?_, ?_, ?_, ?_⟩
  · rw [getParam_setParams_notin _ _ _ (fun p hp => (hres p hp).1), authBase_state]
  · rw [getParam_setParams_notin _ _ _ (fun p hp => (hres p hp).2.1), authBase_client]
  · rw [getParam_setParams_notin _ _ _ (fun p hp => (hres p hp).2.2.1), authBase_redirect]
  · rw [getParam_setParams_notin _ _ _ (fun p hp => (hres p hp).2.2.2), authBase_scope]

theorem authURL_pkce (now : Int) (state c : String) (rp : RP) (urlParam : List UrlOpt) (hres : NoReserved urlParam) :
    let u := AuthURL now state rp (Go.append (Go.mapList urlParam fun p => p) (WithCodeChallenge now c))
    getParam u.params "state" = state ∧ getParam u.params "client_id" = rp.oauthConfig.ClientID ∧
    getParam u.params "redirect_uri" = rp.oauthConfig.RedirectURL ∧
    getParam u.params "scope" = " ".intercalate rp.oauthConfig.Scopes ∧
    getParam u.params "code_challenge" = c ∧ getParam u.params "code_challenge_method" = "S256" := by
  have hp := authURL_plain now state rp urlParam hres
  simp only [authURL_params, Go.mapList, Go.append, List.map_id', WithCodeChallenge, List.flatten_append, List.flatten_cons,
    List.flatten_nil, List.append_nil, setParams_append] at hp ⊢
  have hcc : ∀ k, k ≠ "code_challenge" → k ≠ "code_challenge_method" →
      ∀ ps, getParam (setParams ps [("code_challenge", c), ("code_challenge_method", "S256")]) k = getParam ps k := by
    intro k h1 h2 ps
    simp only [setParams, List.foldl_cons, List.foldl_nil]
    rw [getParam_setParam_ne _ _ _ _ h2, getParam_setParam_ne _ _ _ _ h1]
  refine ⟨?_, ?_, ?_, ?_, ?_, ?_⟩
  · rw [hcc _ (by decide) (by decide)]; exact hp.1
  · rw [hcc _ (by decide) (by decide)]; exact hp.2.1
  · rw [hcc _ (by decide) (by decide)]; exact hp.2.2.1
  · rw [hcc _ (by decide) (by decide)]; exact hp.2.2.2
  · simp only [setParams, List.foldl_cons, List.foldl_nil]
    rw [getParam_setParam_ne _ _ _ _ (by decide), getParam_setParam_same]
  · simp only [setParams, List.foldl_cons, List.foldl_nil]
    rw [getParam_setParam_same]

theorem c17_login_holds (now : Int) (state rnd : String) (rp : RP) (ch : CookieHandler) (h : rp.cookieHandler = some ch)
    (hage : 0 ≤ ch.maxAge) (urlParam : List UrlOpt) (hres : NoReserved urlParam) (r : HttpReq) :
    judgeLogin (cfgOf rp ch) (observeLogin (AuthURLHandler now state rnd rp urlParam [] r)) = none := by
  have hage' : ¬ ch.maxAge < 0 := by omega
  unfold AuthURLHandler trySetStateCookie GenerateAndStoreCodeChallenge SetCookie
  simp only [RP.CookieHandler, h, Go.notNil, Nilable.isNil, Go.getOpt, stateParam, pkceCode, Option.getD_some,
    Option.isNone_some, SecureCookie.Encode, RP.IsPKCE, Go.ok]
  by_cases he : ch.securecookie.encodable "state" state = true
  · simp only [he, if_true]
    by_cases hpk : rp.pkce = true
    · simp only [hpk, if_true]
      by_cases hep : ch.securecookie.encodable "pkce" (rawURLEncode rnd) = true
      · generalize hcc : NewSHACodeChallenge now (rawURLEncode rnd) = cc
        have hccv : s256 (rawURLEncode rnd) = cc := by rw [← hcc]; rfl
        obtain ⟨h1, h2, h3, h4, h5, h6⟩ := authURL_pkce now state cc rp urlParam hres
        simp [hep, judgeLogin, observeLogin, setCookiesOf, Http.SetCookie, Http.Redirect, signedSet, signedFor, cfgOf, hage', hpk,
          h1, h2, h3, h4, h5, h6, hccv]
      · simp [hep, judgeLogin, observeLogin, setCookiesOf, Http.SetCookie, unauthorizedError]
    · obtain ⟨h1, h2, h3, h4⟩ := authURL_plain now state rp urlParam hres
      simp [hpk, judgeLogin, observeLogin, setCookiesOf, Http.SetCookie, Http.Redirect, signedSet, signedFor, cfgOf, hage',
        h1, h2, h3, h4]
  · simp [he, judgeLogin, observeLogin, setCookiesOf, unauthorizedError]


theorem c17_callback_holds (now : Int) (rp : RP) (ch : CookieHandler) (h : rp.cookieHandler = some ch)
    (urlParam : List UrlOpt) (r : HttpReq) :
    judgeCallback (cfgOf rp ch) r.cookies r.form
      (observeCallback (CodeExchangeHandler now rp urlParam [] r)) = none :=
  (callback_core now rp ch h urlParam r).1

/-! ### what `judgeCallback = none` says (pure facts about the monitor) -/

def acted (obs : CallbackObs) : Bool := !obs.tokenRequests.isEmpty || obs.callback.isSome

theorem judge_state {cfg : Cfg} {jar : List Http.Cookie} {q : List (String × String)} {obs : CallbackObs}
    (hj : judgeCallback cfg jar q obs = none) (ha : acted obs = true) :
    signedValue cfg jar "state" = some (formValue q "state") := by
  unfold judgeCallback at hj
  unfold acted at ha
  by_cases hne : (signedValue cfg jar "state" != some (formValue q "state")) = true
  · simp [hne, ha] at hj
  · simpa using hne

theorem judge_unauthorized {cfg : Cfg} {jar : List Http.Cookie} {q : List (String × String)} {obs : CallbackObs}
    (hj : judgeCallback cfg jar q obs = none) (hs : signedValue cfg jar "state" ≠ some (formValue q "state")) :
    obs.tokenRequests = [] ∧ obs.callback = none ∧ obs.unauthorized = true := by
  unfold judgeCallback at hj
  have hne : (signedValue cfg jar "state" != some (formValue q "state")) = true := by simpa using hs
  simp only [hne, if_true] at hj
  by_cases ha : (!obs.tokenRequests.isEmpty || obs.callback.isSome) = true
  · simp [ha] at hj
  · simp only [ha] at hj
    by_cases hu : obs.unauthorized = true
    · refine ⟨?_, ?_, hu⟩
      · cases hl : obs.tokenRequests with
        | nil => rfl
        | cons a l => simp [hl] at ha
      · cases hc : obs.callback with
        | none => rfl
        | some a => simp [hc] at ha
    · simp [hu] at hj

theorem judge_pkce {cfg : Cfg} {jar : List Http.Cookie} {q : List (String × String)} {obs : CallbackObs}
    (hj : judgeCallback cfg jar q obs = none) (hp : cfg.pkce = true) (t : TokenReq) (ht : t ∈ obs.tokenRequests) :
    signedValue cfg jar "pkce" = some (getParam t.params "code_verifier") := by
  have ha : acted obs = true := by
    unfold acted
    cases hl : obs.tokenRequests with
    | nil => rw [hl] at ht; cases ht
    | cons a l => simp
  have hs := judge_state hj ha
  unfold judgeCallback at hj
  unfold acted at ha
  simp only [hs, bne_self_eq_false, Bool.false_eq_true, if_false, hp, if_true] at hj
  split at hj
  · cases hj
  · cases hv : signedValue cfg jar "pkce" with
    | none => simp [hv] at hj
    | some v =>
      simp only [hv] at hj
      split at hj
      · cases hj
      · rename_i hany
        simp only [List.any_eq_true, not_exists, not_and] at hany
        have := hany t ht
        simp only [bne_iff_ne, ne_eq, Decidable.not_not] at this
        rw [this]

/-! ### the clauses of the statement, spelled out for the regenerated callback handler -/

/-- a token request is sent or the application callback runs ONLY IF the browser presented a cookie named `state` that
    the RP itself signed for that name and whose content equals the `state` parameter of the callback -/
theorem c17_state_bound (now : Int) (rp : RP) (ch : CookieHandler) (h : rp.cookieHandler = some ch)
    (urlParam : List UrlOpt) (r : HttpReq)
    (ha : acted (observeCallback (CodeExchangeHandler now rp urlParam [] r)) = true) :
    signedValue (cfgOf rp ch) r.cookies "state" = some (r.FormValue "state") :=
  judge_state (c17_callback_holds now rp ch h urlParam r) ha

/-- missing cookie, cookie under other keys / for another name, tampered value, or a different state: the unauthorized
    handler runs, nothing is sent to the provider, the application callback does not run -/
theorem c17_no_request_without_state (now : Int) (rp : RP) (ch : CookieHandler) (h : rp.cookieHandler = some ch)
    (urlParam : List UrlOpt) (r : HttpReq)
    (hs : signedValue (cfgOf rp ch) r.cookies "state" ≠ some (r.FormValue "state")) :
    let obs := observeCallback (CodeExchangeHandler now rp urlParam [] r)
    obs.tokenRequests = [] ∧ obs.callback = none ∧ obs.unauthorized = true :=
  judge_unauthorized (c17_callback_holds now rp ch h urlParam r) hs

/-- with PKCE every token request carries as `code_verifier` the content of the `pkce` cookie the RP signed -/
theorem c17_pkce_bound (now : Int) (rp : RP) (ch : CookieHandler) (h : rp.cookieHandler = some ch) (hp : rp.pkce = true)
    (urlParam : List UrlOpt) (r : HttpReq) (t : TokenReq)
    (ht : t ∈ (observeCallback (CodeExchangeHandler now rp urlParam [] r)).tokenRequests) :
    signedValue (cfgOf rp ch) r.cookies "pkce" = some (getParam t.params "code_verifier") :=
  judge_pkce (c17_callback_holds now rp ch h urlParam r) hp t ht

/-- a login response that redirects to the provider: the URL carries the configured client, redirect URI and scopes, the
    state of the signed cookie of the same response and (PKCE) the S256 challenge of the verifier in its signed cookie -/
theorem c17_auth_url_params (now : Int) (state rnd : String) (rp : RP) (ch : CookieHandler) (h : rp.cookieHandler = some ch)
    (hage : 0 ≤ ch.maxAge) (urlParam : List UrlOpt) (hres : NoReserved urlParam) (r : HttpReq) (u : AuthURLRec)
    (hu : (observeLogin (AuthURLHandler now state rnd rp urlParam [] r)).redirect = some u) :
    let cs := (observeLogin (AuthURLHandler now state rnd rp urlParam [] r)).setCookies
    signedSet (cfgOf rp ch) cs "state" = some (getParam u.params "state") ∧
    getParam u.params "client_id" = rp.oauthConfig.ClientID ∧
    getParam u.params "redirect_uri" = rp.oauthConfig.RedirectURL ∧
    getParam u.params "scope" = " ".intercalate rp.oauthConfig.Scopes ∧
    (rp.pkce = true → ∃ v, signedSet (cfgOf rp ch) cs "pkce" = some v ∧
      getParam u.params "code_challenge" = s256 v ∧ getParam u.params "code_challenge_method" = "S256") := by
  have hj := c17_login_holds now state rnd rp ch h hage urlParam hres r
  unfold judgeLogin at hj
  simp only [hu] at hj
  intro cs
  cases hst : signedSet (cfgOf rp ch) cs "state" with
  | none => simp [cs, hst] at hj
  | some s =>
    simp only [cs, hst] at hj
    by_cases h1 : getParam u.params "state" = s
    · by_cases h2 : getParam u.params "client_id" = (cfgOf rp ch).clientID
      · by_cases h3 : getParam u.params "redirect_uri" = (cfgOf rp ch).redirectURI
        · by_cases h4 : getParam u.params "scope" = " ".intercalate (cfgOf rp ch).scopes
          · refine ⟨by rw [h1], h2, h3, h4, ?_⟩
            intro hpk
            have hpk' : (cfgOf rp ch).pkce = true := hpk
            simp only [h1, h2, h3, h4, bne_self_eq_false, Bool.false_eq_true, if_false, hpk', if_true] at hj
            cases hv : signedSet (cfgOf rp ch) (observeLogin (AuthURLHandler now state rnd rp urlParam [] r)).setCookies "pkce" with
            | none => simp [hv] at hj
            | some v =>
              simp only [hv] at hj
              refine ⟨v, rfl, ?_⟩
              by_cases h5 : getParam u.params "code_challenge" = s256 v
              · by_cases h6 : getParam u.params "code_challenge_method" = "S256"
                · exact ⟨h5, h6⟩
                · simp [h5, h6] at hj
              · simp [h5] at hj
          · simp [h1, h2, h3, h4] at hj
        · simp [h1, h2, h3] at hj
      · simp [h1, h2] at hj
    · simp [h1] at hj

/-! ### one browser: induction over login attempts, callbacks and tampering -/

/-- the challenge option is applied last: it reaches the URL whatever the custom parameters are -/
theorem authURL_challenge (now : Int) (state c : String) (rp : RP) (urlParam : List UrlOpt) :
    getParam (AuthURL now state rp (Go.append (Go.mapList urlParam fun p => p) (WithCodeChallenge now c))).params "code_challenge" = c := by
  simp only [authURL_params, Go.mapList, Go.append, List.map_id', WithCodeChallenge, List.flatten_append, List.flatten_cons,
    List.flatten_nil, List.append_nil, setParams_append]
  simp only [setParams, List.foldl_cons, List.foldl_nil]
  rw [getParam_setParam_ne _ _ _ _ (by decide), getParam_setParam_same]

/-- what an observer records of a login attempt covers every signed value that response leaves in the browser -/
theorem login_cookies (now : Int) (state rnd : String) (rp : RP) (ch : CookieHandler) (h : rp.cookieHandler = some ch)
    (hage : 0 ≤ ch.maxAge) (urlParam : List UrlOpt) (r : HttpReq) :
    let w := AuthURLHandler now state rnd rp urlParam [] r
    let a := attemptOf (cfgOf rp ch) (observeLogin w)
    ∀ c ∈ setCookiesOf w,
      (∀ v, signedFor (cfgOf rp ch) "state" c.Value = some v → a.state = some v) ∧
      (∀ v, signedFor (cfgOf rp ch) "pkce" c.Value = some v → a.verifier = some v ∧ a.challenge = s256 v) := by
  have hage' : ¬ ch.maxAge < 0 := by omega
  unfold AuthURLHandler trySetStateCookie GenerateAndStoreCodeChallenge SetCookie
  simp only [RP.CookieHandler, h, Go.notNil, Nilable.isNil, Go.getOpt, stateParam, pkceCode, Option.getD_some,
    Option.isNone_some, SecureCookie.Encode, RP.IsPKCE, Go.ok]
  by_cases he : ch.securecookie.encodable "state" state = true
  · simp only [he, if_true]
    by_cases hpk : rp.pkce = true
    · simp only [hpk, if_true]
      by_cases hep : ch.securecookie.encodable "pkce" (rawURLEncode rnd) = true
      · generalize hcc : NewSHACodeChallenge now (rawURLEncode rnd) = cc
        have hccv : s256 (rawURLEncode rnd) = cc := by rw [← hcc]; rfl
        have h5 := authURL_challenge now state cc rp urlParam
        simp [hep, attemptOf, observeLogin, setCookiesOf, Http.SetCookie, Http.Redirect, signedSet, signedFor, cfgOf, hage',
          h5, hccv]
      · simp [hep, attemptOf, observeLogin, setCookiesOf, Http.SetCookie, unauthorizedError, signedSet, signedFor, cfgOf, hage']
    · simp [hpk, attemptOf, observeLogin, setCookiesOf, Http.SetCookie, Http.Redirect, signedSet, signedFor, cfgOf, hage']
  · simp [he, attemptOf, observeLogin, setCookiesOf, unauthorizedError]

theorem mem_applySetCookie {jar : List Http.Cookie} {sc c : Http.Cookie} (hc : c ∈ applySetCookie jar sc) :
    c ∈ jar ∨ (c.Value = sc.Value ∧ ¬ sc.MaxAge < 0) := by
  unfold applySetCookie at hc
  by_cases hm : sc.MaxAge < 0
  · simp only [hm, if_true] at hc
    exact Or.inl (List.mem_filter.1 hc).1
  · simp only [hm, if_false, List.mem_append, List.mem_singleton] at hc
    rcases hc with hc | hc
    · exact Or.inl (List.mem_filter.1 hc).1
    · exact Or.inr ⟨by rw [hc], hm⟩

theorem mem_foldl_applySetCookie (scs : List Http.Cookie) (jar : List Http.Cookie) (c : Http.Cookie)
    (hc : c ∈ scs.foldl applySetCookie jar) :
    c ∈ jar ∨ ∃ sc ∈ scs, c.Value = sc.Value ∧ ¬ sc.MaxAge < 0 := by
  induction scs generalizing jar with
  | nil => exact Or.inl hc
  | cons sc scs ih =>
    simp only [List.foldl_cons] at hc
    rcases ih _ hc with h1 | ⟨sc', hm, hv⟩
    · rcases mem_applySetCookie h1 with h2 | h2
      · exact Or.inl h2
      · exact Or.inr ⟨sc, List.mem_cons_self .., h2⟩
    · exact Or.inr ⟨sc', List.mem_cons_of_mem _ hm, hv⟩

/-- a cookie value is accounted for: if the RP signed it as a state / pkce cookie, a login attempt of THIS browser
    handed it out (pkce: together with its S256 challenge in the authorization URL of the same response) -/
def Known (cfg : Cfg) (m : MonState) (val : CookieVal) : Prop :=
  (∀ v, signedFor cfg "state" val = some v → m.attempts.any (·.state == some v) = true) ∧
  (∀ v, signedFor cfg "pkce" val = some v →
    m.attempts.any (fun a => a.verifier == some v && a.challenge == s256 v) = true)

def Inv (cfg : Cfg) (s : St) : Prop := ∀ c ∈ s.jar, Known cfg s.mon c.Value

theorem known_mono {cfg : Cfg} {m : MonState} {a : Attempt} {val : CookieVal} (hk : Known cfg m val) :
    Known cfg { attempts := m.attempts ++ [a] } val := by
  refine ⟨fun v hv => ?_, fun v hv => ?_⟩
  · simp only [List.any_append, hk.1 v hv, Bool.true_or]
  · simp only [List.any_append, hk.2 v hv, Bool.true_or]

theorem signedValue_mem {cfg : Cfg} {jar : List Http.Cookie} {name v : String} (h : signedValue cfg jar name = some v) :
    ∃ c ∈ jar, signedFor cfg name c.Value = some v := by
  unfold signedValue at h
  cases hf : jar.find? (·.Name == name) with
  | none => simp [hf] at h
  | some c =>
    simp only [hf] at h
    exact ⟨c, List.mem_of_find?_eq_some hf, h⟩

/-- all verdicts so far are `none` and the jar is accounted for -/
def Good (cfg : Cfg) (s : St) : Prop := Inv cfg s ∧ ∀ v ∈ s.verdicts, v = none

theorem step_good (now : Int) (rp : RP) (ch : CookieHandler) (h : rp.cookieHandler = some ch) (hage : 0 ≤ ch.maxAge)
    (loginParams cbParams : List UrlOpt) (hres : NoReserved loginParams) (s : St) (ev : Ev)
    (hg : Good (cfgOf rp ch) s) : Good (cfgOf rp ch) (step now rp (cfgOf rp ch) loginParams cbParams s ev) := by
  obtain ⟨hinv, hver⟩ := hg
  cases ev with
  | login state rnd =>
    refine ⟨?_, ?_⟩
    · intro c hc
      simp only [step, applyResponse] at hc
      rcases mem_foldl_applySetCookie _ _ _ hc with hold | ⟨sc, hsc, hval, _⟩
      · exact known_mono (hinv c hold)
      · have hl := login_cookies now state rnd rp ch h hage loginParams { cookies := s.jar } sc hsc
        simp only [step, onLogin]
        refine ⟨fun v hv => ?_, fun v hv => ?_⟩
        · rw [hval] at hv
          simp [List.any_append, hl.1 v hv]
        · rw [hval] at hv
          obtain ⟨h1, h2⟩ := hl.2 v hv
          simp [List.any_append, h1, h2]
    · intro v hv
      simp only [step, List.mem_append, List.mem_singleton] at hv
      rcases hv with hv | hv
      · exact hver v hv
      · rw [hv]; exact c17_login_holds now state rnd rp ch h hage loginParams hres _
  | callback form =>
    have hcore := callback_core now rp ch h cbParams { cookies := s.jar, form := form }
    refine ⟨?_, ?_⟩
    · intro c hc
      simp only [step, applyResponse] at hc
      rcases mem_foldl_applySetCookie _ _ _ hc with hold | ⟨sc, hsc, _, hage'⟩
      · exact hinv c hold
      · exact absurd (hcore.2 sc hsc) hage'
    · intro v hv
      simp only [step, List.mem_append, List.mem_singleton] at hv
      rcases hv with hv | hv
      · exact hver v hv
      · rw [hv]
        have hj : judgeCallback (cfgOf rp ch) s.jar form
            (observeCallback (CodeExchangeHandler now rp cbParams [] { cookies := s.jar, form := form })) = none := hcore.1
        rw [hj]
        simp only [Option.orElse]
        generalize hobs : observeCallback (CodeExchangeHandler now rp cbParams [] { cookies := s.jar, form := form }) = obs at hj
        unfold judgeHistory
        by_cases ha : (!obs.tokenRequests.isEmpty || obs.callback.isSome) = true
        · obtain ⟨c, hc, hsf⟩ := signedValue_mem (judge_state hj ha)
          have hk := (hinv c hc).1 _ hsf
          simp only [ha, hk, Bool.not_true, Bool.and_false, Bool.false_eq_true, if_false]
          by_cases hpk : (cfgOf rp ch).pkce = true
          · have : (obs.tokenRequests.any fun q => !s.mon.attempts.any fun a =>
                a.verifier == some (getParam q.params "code_verifier") && a.challenge == s256 (getParam q.params "code_verifier")) = false := by
              rw [List.any_eq_false]
              intro t ht
              obtain ⟨c', hc', hsf'⟩ := signedValue_mem (judge_pkce hj hpk t ht)
              simp [(hinv c' hc').2 _ hsf']
            simp [hpk, this]
          · simp [hpk]
        · have hnil : obs.tokenRequests = [] := by
            cases hl : obs.tokenRequests with
            | nil => rfl
            | cons a l => simp [hl] at ha
          have hcb : obs.callback = none := by
            cases hc : obs.callback with
            | none => rfl
            | some a => simp [hc] at ha
          simp [hnil, hcb]
  | tamper j =>
    simp only [step]
    by_cases hal : allowedTamper (cfgOf rp ch) s.jar j = true
    · simp only [hal, if_true]
      refine ⟨?_, hver⟩
      intro c hc
      unfold allowedTamper at hal
      have hc' := List.all_eq_true.1 hal c hc
      cases hv : c.Value with
      | plain raw => exact ⟨fun v hv' => by simp [signedFor] at hv', fun v hv' => by simp [signedFor] at hv'⟩
      | minted hk bk n val =>
        simp only [hv] at hc'
        by_cases hkeys : (hk == (cfgOf rp ch).hashKey && bk == (cfgOf rp ch).blockKey) = true
        · simp only [hkeys, Bool.not_true, Bool.false_or, List.any_eq_true, beq_iff_eq] at hc'
          obtain ⟨c0, hc0, heq⟩ := hc'
          have := hinv c0 hc0
          rw [heq] at this
          exact this
        · refine ⟨fun v hv' => ?_, fun v hv' => ?_⟩ <;>
            (simp only [signedFor] at hv'; split at hv' <;> simp_all)
    · simp only [hal]
      exact ⟨hinv, hver⟩

theorem run_good (now : Int) (rp : RP) (ch : CookieHandler) (h : rp.cookieHandler = some ch) (hage : 0 ≤ ch.maxAge)
    (loginParams cbParams : List UrlOpt) (hres : NoReserved loginParams) (evs : List Ev) (s : St)
    (hg : Good (cfgOf rp ch) s) :
    Good (cfgOf rp ch) (evs.foldl (step now rp (cfgOf rp ch) loginParams cbParams) s) := by
  induction evs generalizing s with
  | nil => exact hg
  | cons ev evs ih => exact ih _ (step_good now rp ch h hage loginParams cbParams hres s ev hg)

/-- EVERY history of one browser - any number of login attempts (any states, any random verifiers), callbacks with any
    query, and tampering with the jar by anyone who does not hold the RP's keys, in ANY order: every verdict of the
    per-run monitors and of the history monitor is `none`, i.e. an exchange only ever happens for a state this browser
    was handed in a signed cookie and with a verifier whose S256 challenge went into the authorization URL of the
    response that set it. -/
theorem c17_history (now : Int) (rp : RP) (ch : CookieHandler) (h : rp.cookieHandler = some ch) (hage : 0 ≤ ch.maxAge)
    (loginParams cbParams : List UrlOpt) (hres : NoReserved loginParams) (evs : List Ev) :
    ∀ v ∈ (run now rp (cfgOf rp ch) loginParams cbParams evs).verdicts, v = none := by
  have h0 : Good (cfgOf rp ch) ({} : St) :=
    ⟨fun c hc => absurd hc List.not_mem_nil, fun v hv => absurd hv List.not_mem_nil⟩
  exact (run_good now rp ch h hage loginParams cbParams hres evs {} h0).2

/-! ### non-vacuity: concrete accepted and rejected cases (closed terms, evaluated by the kernel) -/

def exCh : CookieHandler := { securecookie := { hashKey := [1], blockKey := [2] } }
def exRP : RP :=
  { oauthConfig := { ClientID := "client", RedirectURL := "https://rp/cb", Scopes := ["openid", "email"],
                     Endpoint := { AuthURL := "https://op/auth", TokenURL := "https://op/token" } },
    cookieHandler := some exCh, pkce := true, provider := fun _ => .ok { id := 7 } }
def exQuery : List (String × String) := [("state", "s1"), ("code", "c")]

/-- accepted: own cookies, matching state -> one token request with the cookie's verifier, callback runs -/
example : observeCallback (CodeExchangeHandler 0 exRP [] []
    { cookies := [{ Name := "state", Value := .minted [1] [2] "state" "s1" }, { Name := "pkce", Value := .minted [1] [2] "pkce" "v1" }],
      form := exQuery }) =
    { tokenRequests := [{ clientID := "client", params := [("grant_type", "authorization_code"), ("code", "c"),
        ("redirect_uri", "https://rp/cb"), ("code_verifier", "v1")] }], callback := some "s1" } := by decide

/-- rejected: state cookie minted under another hash key -/
example : observeCallback (CodeExchangeHandler 0 exRP [] []
    { cookies := [{ Name := "state", Value := .minted [9] [2] "state" "s1" }, { Name := "pkce", Value := .minted [1] [2] "pkce" "v1" }],
      form := exQuery }) = { unauthorized := true } := by decide

/-- rejected: the pkce cookie replayed under the state name, no state parameter -/
example : observeCallback (CodeExchangeHandler 0 exRP [] []
    { cookies := [{ Name := "state", Value := .minted [1] [2] "pkce" "" }, { Name := "pkce", Value := .minted [1] [2] "pkce" "v1" }],
      form := [("code", "c")] }) = { unauthorized := true } := by decide

/-- rejected: valid state, pkce cookie is garbage -/
example : observeCallback (CodeExchangeHandler 0 exRP [] []
    { cookies := [{ Name := "state", Value := .minted [1] [2] "state" "s1" }, { Name := "pkce", Value := .plain "MTcz" }],
      form := exQuery }) = { unauthorized := true } := by decide

/-- the hypotheses of `c17_history` are satisfiable and an exchange really happens in a history:
    two overlapping attempts, the callback of the second one goes through, the one of the first does not -/
example : (run 0 exRP (cfgOf exRP exCh) [] [] [.login "s1" "v1", .login "s2" "v2",
      .callback [("state", "s1"), ("code", "c1")], .callback [("state", "s2"), ("code", "c2")]]).verdicts = [none, none, none, none] ∧
    (observeCallback (CodeExchangeHandler 0 exRP [] []
      { cookies := (run 0 exRP (cfgOf exRP exCh) [] [] [.login "s1" "v1", .login "s2" "v2"]).jar,
        form := [("state", "s2"), ("code", "c2")] })).callback = some "s2" ∧
    (observeCallback (CodeExchangeHandler 0 exRP [] []
      { cookies := (run 0 exRP (cfgOf exRP exCh) [] [] [.login "s1" "v1", .login "s2" "v2"]).jar,
        form := [("state", "s1"), ("code", "c1")] })).unauthorized = true := by decide

example : NoReserved [[("prompt", "login")], [("custom", "x")]] := by
  intro p hp
  simp only [List.flatten_cons, List.flatten_nil, List.append_nil, List.cons_append, List.nil_append, List.mem_cons,
    List.mem_nil_iff, or_false] at hp
  rcases hp with rfl | rfl <;> decide

end C17
