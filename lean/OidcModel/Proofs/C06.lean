/-
  C06 proofs over the REGENERATED claim constructors (NewIDTokenClaims, NewAccessTokenClaims,
  AppendClientIDToAudience) composed with the C01 model of the library's own RP verifier.
-/
import OidcModel.Generated.Claims
import OidcModel.Proofs.C01
import OidcModel.Spec.C06
namespace C06
open Go Gen Hand

theorem asTime_fromTime_bounds (t : Int) (h : second ≤ t) :
    asTime (fromTime t) ≤ t ∧ t < asTime (fromTime t) + second ∧ asTime (fromTime t) ≠ zeroTime := by
  unfold asTime fromTime tIsZero tToUnix tUnix zeroTime second at *
  have h0 : (t == -62135596800000000000) = false := by simp; omega
  simp only [h0, Bool.false_eq_true, if_false]
  have h1 : (t / 1000000000 == 0) = false := by simp; omega
  simp only [h1, Bool.false_eq_true, if_false]
  omega

theorem mem_appendClientID (now : Int) (cid : String) (aud : List String) : cid ∈ AppendClientIDToAudience now cid aud := by
  unfold AppendClientIDToAudience Go.any Go.append
  split
  · rename_i h
    simp only [List.any_eq_true, beq_iff_eq] at h
    obtain ⟨x, hx, rfl⟩ := h
    exact hx
  · simp

/-- C06 (issuance ∘ verification): the claims `NewIDTokenClaims` produces for a request - whatever the
    audience, nonce, acr, amr, auth time, client clock skew ≥ 0 and lifetime - satisfy, with margin, every
    condition the library's own RP verifier (issuer = the request's issuer, this client, same nonce,
    default offset of one second) imposes, at every instant from issuance until 4 s before the lifetime ends -/
theorem c06_id_token_claims_verify (now now' : Int) (iss sub : String) (aud : List String) (authTime : Int) (nonce acr : String)
    (amr : List String) (cid : String) (skew validity : Int)
    (hcid : cid ≠ "") (hsub : sub ≠ "") (hskew : 0 ≤ skew) (hepoch : second ≤ now - skew)
    (hwin : now ≤ now' ∧ now' + 4 * second ≤ now + validity) :
    C01.idTokenOKMargin { Issuer := iss, ClientID := cid, Offset := second, Nonce := some nonce }
      (NewIDTokenClaims now iss sub aud (now + skew + validity) authTime nonce acr amr cid skew).TokenClaims.toClaims now' = true := by
  have hexp := asTime_fromTime_bounds (now + skew + validity) (by unfold second at *; omega)
  have hiat := asTime_fromTime_bounds (now + -skew) (by simpa [Int.sub_eq_add_neg] using hepoch)
  simp only [C01.idTokenOKMargin, C01.clauses, NewIDTokenClaims, TokenClaimsGo.toClaims, tAdd, List.all_cons, List.all_nil,
    Bool.and_true, Bool.and_eq_true, decide_eq_true_eq, Bool.or_eq_true, beq_iff_eq, bne_iff_ne, ne_eq, C01.ns, C01.nonceOK, C01.acrOK]
  unfold second at *
  refine ⟨trivial, hsub, by simpa using mem_appendClientID now cid aud, Or.inr trivial, Or.inr hcid, ?_, hiat.2.2, ?_, Or.inl trivial, trivial, trivial, Or.inl trivial⟩
  · exact decide_eq_true (by omega)
  · exact decide_eq_true (by omega)

/-- exp and iat bracket the configured lifetime widened by the skew on both sides (up to whole-second truncation) -/
theorem c06_exp_iat_bracket (now : Int) (iss sub : String) (aud : List String) (authTime : Int) (nonce acr : String)
    (amr : List String) (cid : String) (skew validity : Int) (hskew : 0 ≤ skew) (hval : 0 ≤ validity) (hepoch : second ≤ now - skew) :
    let c := (NewIDTokenClaims now iss sub aud (now + skew + validity) authTime nonce acr amr cid skew).TokenClaims.toClaims
    validity + 2 * skew - second < asTime c.exp - asTime c.iat ∧ asTime c.exp - asTime c.iat < validity + 2 * skew + second := by
  have hexp := asTime_fromTime_bounds (now + skew + validity) (by unfold second at *; omega)
  have hiat := asTime_fromTime_bounds (now + -skew) (by simpa [Int.sub_eq_add_neg] using hepoch)
  simp only [NewIDTokenClaims, TokenClaimsGo.toClaims, tAdd]
  unfold second at *
  omega

/-- an absent authentication time stays absent whatever the skew (the defect fixed in /repo: F-C06a) -/
theorem c06_absent_auth_time_stays_absent (now : Int) (iss sub : String) (aud : List String) (nonce acr : String) (amr : List String)
    (cid : String) (skew exp : Int) :
    (NewIDTokenClaims now iss sub aud exp zeroTime nonce acr amr cid skew).TokenClaims.AuthTime = 0 := by
  simp [NewIDTokenClaims, tIsZero, fromTime]

/-- the client is always in the audience and is the authorized party -/
theorem c06_audience_azp (now : Int) (iss sub : String) (aud : List String) (exp authTime : Int) (nonce acr : String) (amr : List String)
    (cid : String) (skew : Int) :
    let c := (NewIDTokenClaims now iss sub aud exp authTime nonce acr amr cid skew).TokenClaims
    cid ∈ c.Audience ∧ c.AuthorizedParty = cid ∧ c.Subject = sub ∧ c.Nonce = nonce ∧ c.Issuer = iss ∧ c.AuthenticationMethodsReferences = amr := by
  simp [NewIDTokenClaims, mem_appendClientID]

/-- JWT access tokens: issuer, subject, id, client and a non-empty audience -/
theorem c06_access_token_claims (now : Int) (iss sub : String) (aud : List String) (exp : Int) (jti cid : String) (skew : Int) :
    let c := (NewAccessTokenClaims now iss sub aud exp jti cid skew).TokenClaims
    c.Issuer = iss ∧ c.Subject = sub ∧ c.JWTID = jti ∧ c.ClientID = cid ∧ c.Audience ≠ [] ∧ (aud ≠ [] → c.Audience = aud) := by
  simp only [NewAccessTokenClaims, Go.len, HasLen.len, Go.append]
  refine ⟨trivial, trivial, trivial, trivial, ?_, ?_⟩
  · cases aud with
    | nil => simp
    | cons a as => simp; split <;> simp
  · intro h; cases aud with
    | nil => simp at h
    | cons a as => simp; omega

/-- at_hash / c_hash: the provider computes them with the very function the RP checks them with, so a hash the
    provider could compute for the delivered access token (code) is accepted by the RP - for every algorithm
    in the table and every token string -/
theorem c06_hash_binding (now : Int) (tok alg h : String) (hc : ClaimHash now tok alg = .ok h) :
    RPVerifyAccessToken now tok h alg = .ok () := by
  unfold RPVerifyAccessToken
  simp [hc, Go.ok]

example : C01.idTokenOKMargin { Issuer := "https://op", ClientID := "rp", Offset := second, Nonce := some "n" }
    (NewIDTokenClaims (2000000000 * second) "https://op" "u1" ["api"] (2000003605 * second) (1999999000 * second) "n" "" ["pwd"] "rp" (5 * second)).TokenClaims.toClaims
    (2000000100 * second) = true := by decide

end C06
