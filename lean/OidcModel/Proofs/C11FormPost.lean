import OidcModel.Proofs.C11
import OidcModel.Model.FormPost

namespace C11
open UA

theorem formPostProgram_supported : GenWire.formPostProgram.all FP.supported = true := by decide

/-- the page of a call is rendered from that call's own redirect URI and from what the encoder wrote for that call's own response
    (regenerated data flow of `AuthResponseFormPost`: the `Req.page` of the program model IS `AR.render … uri params`) -/
theorem formPostTemplateData_ok : GenWire.formPostTemplateData.ok = true := by decide

theorem accepted_take (f : FP.WFault) (b : Bytes) : ∃ k, FP.accepted f b = b.take k := by
  cases f with
  | none => exact ⟨b.length, by simp [FP.accepted]⟩
  | err k => exact ⟨k, rfl⟩
  | short k => exact ⟨k, rfl⟩

/-- `WriteTo` on a connection that has received nothing yet -/
theorem bufWriteTo_fresh (b : Bytes) (w : FP.RW) (hb : w.body = []) (hd : w.dead = false) :
    (FP.bufWriteTo b w).2.1.body = FP.accepted w.fault b := by
  obtain ⟨header, status, body, dead, fault⟩ := w
  simp only at hb hd
  subst hb hd
  unfold FP.bufWriteTo
  by_cases he : b = []
  · subst he; cases fault <;> simp [FP.accepted]
  · have : b.isEmpty = false := by simpa using he
    simp only [this, Bool.false_eq_true, if_false]
    cases fault with
    | none => simp [FP.RW.Write, FP.RW.room, FP.accepted]
    | err k =>
      simp only [FP.RW.Write, FP.RW.room, FP.accepted, List.length_nil, Nat.sub_zero, Bool.false_eq_true, if_false]
      by_cases hk : b.length ≤ k
      · simp [hk, List.take_of_length_le hk]
      · simp [hk]; split <;> simp
    | short k =>
      simp only [FP.RW.Write, FP.RW.room, FP.accepted, List.length_nil, Nat.sub_zero, Bool.false_eq_true, if_false]
      by_cases hk : b.length ≤ k
      · simp [hk, List.take_of_length_le hk]
      · simp [hk]; split <;> simp

end C11

namespace C11
open UA

/-- **characterisation lemma of the regenerated program** (one call): whatever package-level state the call finds, the body the
    user agent receives is `FP.delivered` of this request.  (Symbolic execution by `simp`, then case splits; independent of
    the order / spelling of the statements as long as the statement holds.) -/
theorem formPost_body_eq (pkg : List (String × FP.PkgVal)) (r : FP.Req) :
    (FP.run GenWire.formPostProgram r pkg).rw.body = FP.delivered r := by
  cases henc : r.encFail <;> cases htf : r.tmplFail <;>
    simp [FP.run, GenWire.formPostProgram, FP.exec, FP.step1, FP.St.setBuf, FP.St.getBuf, FP.delivered, henc, htf, List.lookup]
  all_goals ((repeat' split) <;> simp_all [bufWriteTo_fresh, FP.step1, FP.St.setBuf, FP.St.getBuf, List.lookup])

/-- a function that touches no package-level buffer or pool leaves the package-level state as it found it -/
theorem formPost_no_leftover (hlocal : GenWire.formPostPkg = []) (pkg : List (String × FP.PkgVal)) (r : FP.Req) :
    (FP.run GenWire.formPostProgram r pkg).pkg = pkg := by
  first
    | exact absurd hlocal (by decide)
    | (cases henc : r.encFail <;> cases htf : r.tmplFail <;>
        simp [FP.run, GenWire.formPostProgram, FP.exec, FP.step1, FP.St.setBuf, FP.St.getBuf, henc, htf, List.lookup]
       all_goals ((repeat' split) <;> simp_all [FP.step1, FP.St.setBuf, FP.St.getBuf, List.lookup]))

/-- whatever the connection does, what arrives is a prefix of this request's own page -/
theorem delivered_prefix (r : FP.Req) : ∃ k, FP.delivered r = r.page.take k := by
  unfold FP.delivered
  split
  · exact ⟨0, by simp⟩
  · exact accepted_take r.fault r.page

/-- … and the whole page when nothing failed -/
theorem delivered_complete (r : FP.Req) (h : FP.complete r = true) : FP.delivered r = r.page := by
  simp only [FP.complete, Bool.and_eq_true, Bool.not_eq_true', Option.isNone_iff_eq_none] at h
  obtain ⟨⟨h1, h2⟩, h3⟩ := h
  simp only [FP.delivered, h1, h2, Option.isSome_none, Bool.or_self, Bool.false_eq_true, if_false]
  cases hf : r.fault with
  | none => rfl
  | err k => rw [hf] at h3; simp only [decide_eq_true_eq] at h3; exact List.take_of_length_le h3
  | short k => rw [hf] at h3; simp only [decide_eq_true_eq] at h3; exact List.take_of_length_le h3

/-- **C11, sequences of form_post responses with arbitrary faults (history level).**  For EVERY sequence of calls of the
    regenerated `AuthResponseFormPost` on the same package-level state — whatever state the first call finds, whichever
    connections break at whichever byte (error or short write), whichever encoder / template executions fail, whatever
    `sync.Pool` would hand out — the body every user agent receives is `FP.delivered` of ITS OWN request: a function
    of that request alone, independent of all earlier (and later) requests and of their faults. -/
theorem c11_formpost_history (reqs : List FP.Req) (pkg : List (String × FP.PkgVal)) :
    (FP.history GenWire.formPostProgram reqs pkg).map (·.body) = reqs.map FP.delivered := by
  induction reqs generalizing pkg with
  | nil => rfl
  | cons r rs ih =>
    simp only [FP.history, List.map_cons, formPost_body_eq pkg r, ih]

/-- the body a user agent receives does not depend on the package-level state the call finds: nothing an earlier call left
    behind (in a pooled or package-level buffer) can reach it -/
theorem c11_formpost_state_independent (r : FP.Req) (pkg₁ pkg₂ : List (String × FP.PkgVal)) :
    (FP.run GenWire.formPostProgram r pkg₁).rw.body = (FP.run GenWire.formPostProgram r pkg₂).rw.body := by
  rw [formPost_body_eq, formPost_body_eq]

theorem history_getElem (reqs : List FP.Req) (pkg : List (String × FP.PkgVal)) (n : Nat) (r : FP.Req) (hr : reqs[n]? = some r) :
    ((FP.history GenWire.formPostProgram reqs pkg).map (·.body))[n]? = some (FP.delivered r) := by
  rw [c11_formpost_history, List.getElem?_map, hr]; rfl

/-- **C11 at monitor level, for every position of every history.**  Take any sequence of form_post responses with
    arbitrary faults, any position `n` whose page was delivered completely, and the request of that position as the
    monitor's input (redirect URI with a scheme html/template lets through, template-listed parameters): the monitor
    accepts the body that user agent received as a WHOLE document — exactly one form, this response's parameters and
    redirect URI, no other element (the same hypotheses as `c11_holds_form_partial`, F-C11b). -/
theorem c11_formpost_history_holds (reqs : List FP.Req) (pkg : List (String × FP.PkgVal)) (n : Nat) (r : FP.Req)
    (hr : reqs[n]? = some r) (hc : FP.complete r = true)
    (i : Input) (resp : AR.Values)
    (hpage : r.page = AR.render GenWire.formPostAutoescape GenWire.formPostTemplate i.uri resp)
    (hsafe : AR.isSafeURL i.uri = true)
    (hresp : i.params = flatten resp.entries) (hd : DistinctKeys resp.entries)
    (hv : ∀ name, ∀ v ∈ resp.get name, ∀ c ∈ v, c ≠ 0x0D ∧ c ≠ 0)
    (hlisted : ∀ e ∈ resp.entries, e.1 ∈ nodeNames (GenWire.formPostTemplate.drop 3) ∧ e.2.length ≤ 1)
    (hch : (channels i).contains Channel.form = true) (hsrc : SourceOK i) :
    ∃ body, ((FP.history GenWire.formPostProgram reqs pkg).map (·.body))[n]? = some body
      ∧ monitor i (.form body ((tokenize body).map decodeTag)) = none := by
  refine ⟨FP.delivered r, history_getElem reqs pkg n r hr, ?_⟩
  rw [delivered_complete r hc, hpage]
  exact c11_holds_form_partial i resp hsafe hresp hd hv hlisted hch hsrc

-- non-vacuity: a two-step history, the first connection breaks after 40 bytes, the second page arrives whole
set_option maxRecDepth 1000000 in
example :
    let alice : FP.Req := { page := wPage wPlain ⟨[(s "code", [s "alice-code"])]⟩, fault := .err 40 }
    let bob : FP.Req := { page := wPage wPlain ⟨[(s "code", [s "bob-code"])]⟩ }
    (FP.history GenWire.formPostProgram [alice, bob] GenWire.formPostPkg).map (·.body)
      = [(wPage wPlain ⟨[(s "code", [s "alice-code"])]⟩).take 40, wPage wPlain ⟨[(s "code", [s "bob-code"])]⟩] := by
  decide

/-- a program that keeps its buffer in a pool WITHOUT resetting it (the defect this theorem family excludes): the second
    user agent receives the rest of the first page in front of its own -/
def leakyProgram : List FP.Stmt :=
  [ .poolGet "buf" "pool", .deferred (.poolPut "pool" (.loc "buf")), .execute (.loc "buf"), .ifErrReturn,
    .writeHeader 200, .writeTo (.loc "buf"), .ifErrReturn, .returnNil ]

example :
    (FP.history leakyProgram [{ page := s "ALICE", fault := .err 2 }, { page := s "BOB" }] [("pool", .pool [])]).map (·.body)
      = [s "AL", s "ICEBOB"] := by decide

set_option maxRecDepth 1000000 in
/-- … and the monitor rejects such a body: two documents, the first one somebody else's (concrete rejected case) -/
example :
    let alice := wPage wPlain ⟨[(s "code", [s "alice-code"])]⟩
    let bob := wPage wPlain ⟨[(s "code", [s "bob-code"])]⟩
    monitor { uri := wPlain, uriOK := true, mode := "form_post", rtype := "code", isError := false, params := [(s "code", s "bob-code")] }
      (.form (alice ++ bob) ((tokenize (alice ++ bob)).map decodeTag)) = some "unexpected-element-or-attribute:html" := by decide

set_option maxRecDepth 1000000 in
/-- a page that was cut off is accepted as such (concrete accepted case) … -/
example :
    monitor { uri := wPlain, uriOK := true, mode := "form_post", rtype := "code", isError := false, params := [(s "code", s "bob-code")] }
      (.cutOff ((wPage wPlain ⟨[(s "code", [s "bob-code"])]⟩).take 230) []) = none := by decide

set_option maxRecDepth 1000000 in
/-- … unless what did arrive carries somebody else's parameters (concrete rejected case) -/
example :
    let alice := wPage wPlain ⟨[(s "code", [s "alice-code"])]⟩
    let bob := wPage wPlain ⟨[(s "code", [s "bob-code"])]⟩
    monitor { uri := wPlain, uriOK := true, mode := "form_post", rtype := "code", isError := false, params := [(s "code", s "bob-code")] }
      (.cutOff ((alice.drop 167 ++ bob).take 400) []) = some "partial-input-not-of-this-response:code" := by decide

set_option maxRecDepth 1000000 in
/-- … or begins with the rest of somebody else's page as text (a leftover that starts inside a tag) -/
example :
    let alice := wPage wPlain ⟨[(s "code", [s "alice-code"])]⟩
    let bob := wPage wPlain ⟨[(s "code", [s "bob-code"])]⟩
    monitor { uri := wPlain, uriOK := true, mode := "form_post", rtype := "code", isError := false, params := [(s "code", s "bob-code")] }
      (.form (alice.drop 200 ++ bob) ((tokenize (alice.drop 200 ++ bob)).map decodeTag)) = some "text-outside-the-form" := by decide

end C11
