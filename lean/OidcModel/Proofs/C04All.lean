/-
  C04: everything the check builds and audits (checklib/props.d/C04.json `proof_module`).
    Proofs/C04.lean           function level: characterisation lemmas of the regenerated token-endpoint decision functions, PKCE, redirect_uri
    Proofs/C04History.lean    history level: the model never violates the monitor; single use
    Proofs/C04Tokens.lean     the tokens of a response carry the request's values (regenerated issuance code)
    Proofs/C04Faults.lean     histories with a storage fault at any storage call of any exchange
    Proofs/C04Concurrent.lean two exchanges served concurrently: which storage contract single use rests on
    Proofs/C04Parse.lean      request parsing on both routers: the regenerated handlers ARE the history model's skeleton
    Proofs/C04RO.lean         round 4c: requests with a signed request object: the stored challenge is the effective one (C19.copy_char composed with the exchange theorem)
    Proofs/C04ConcurrentWire.lean  deep4: the lookup step of the concurrent model IS the regenerated handler on its own raw request
-/
import OidcModel.Proofs.C04History
import OidcModel.Proofs.C04Tokens
import OidcModel.Proofs.C04Faults
import OidcModel.Proofs.C04Concurrent
import OidcModel.Proofs.C04Parse
import OidcModel.Proofs.C04ConcurrentWire
import OidcModel.Proofs.C04SC
import OidcModel.Proofs.C04RO
