/-
  C11: concrete instances of the source-to-wire theorem `c11_error_redirect_holds` (non-vacuity), evaluated by the kernel.
  In a module of their own because `decide` on whole Location values costs seconds; imported by the root `OidcModel`.
-/
import OidcModel.Proofs.C11

namespace C11
open UA

def wReqErr : AR.ErrReq := { redirectURI := wUri, responseType := "code", responseMode := "fragment", state := s "a+%s" }
def wParse : AR.Bytes → Go.R AR.URL := fun b => if b == wUri then .ok wURL else .error "parse"

set_option maxRecDepth 1000000 in
/-- the hypotheses of `c11_error_redirect_holds` are satisfiable, and the monitor really says "ok" — a storage error whose
    text is full of printf verbs, answered in fragment mode to a redirect URI with query and fragment of its own -/
example : GenErr.AuthRequestError 0 wParse wReqErr (.plain (s "7% full %s%!")) {}
    = [.redirect (s "https://rp.example/cb?tenant=acme#error=server_error&error_description=7%25+full+%25s%25%21&state=a%2B%25s")] := by decide
set_option maxRecDepth 1000000 in
example : monitor (errInput 0 wReqErr (.plain (s "7% full %s%!")))
    (.redirect (s "https://rp.example/cb?tenant=acme#error=server_error&error_description=7%25+full+%25s%25%21&state=a%2B%25s")) = none := by decide

set_option maxRecDepth 1000000 in
/-- a concrete rejected case: the same answer with the description run through a printf is flagged -/
example : monitor (errInput 0 wReqErr (.plain (s "7% full")))
    (.redirect (s "https://rp.example/cb?tenant=acme#error=server_error&error_description=7%25%21f%28MISSING%29ull&state=a%2B%25s"))
      = some "fragment-param-altered:error_description" := by decide

end C11
