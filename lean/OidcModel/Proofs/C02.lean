/-
  C02 proofs: key selection (`FindMatchingKey`, hand model = statement), the three key-set
  implementations, and the REGENERATED `CheckSignature` / verifier functions: whatever a verifier
  accepts carries exactly one signature with an allowed algorithm by a trusted, fitting,
  consistently selected key over exactly the returned payload; ambiguity is never resolved by guessing.
-/
import OidcModel.Spec.C02
import OidcModel.Generated.RPVerifier
import OidcModel.Generated.KeySetC02
import OidcModel.Generated.Jwks
import OidcModel.GoTac
namespace C02
open Go Gen Hand

/-- characterisation lemmas of the form `Gen.f args = .ok x → <what that means>` (the regenerated `f` already unfolded in the
    goal): split every `if` / `match` of the term - whatever its shape -, take the equation as a hypothesis in each branch and close
    the branch.  Like `go_leaf` (OidcModel/GoTac.lean) the script does not depend on the shape of the Go text. -/
theorem notNil_eq_not_isNil {α : Type} [Go.Nilable α] (x : α) : Go.notNil x = !Go.isNil x := rfl

syntax "go_paths" : tactic
macro_rules
  | `(tactic| go_paths) => `(tactic| (
      (try simp only [])
      (repeat' split)
      all_goals (intro h; first
        | (simp_all; done)
        | grind
        | (simp_all [notNil_eq_not_isNil]; done)
        | (simp only [Except.ok.injEq, reduceCtorEq] at h; subst_vars; first | (simp_all; done) | grind | (simp_all; grind)))))

theorem fold_some (kid use alg : String) (keys : List JWK) (k : JWK) (c : List JWK) :
    keys.foldl (fmkStep kid use alg) (some k, c) = (some k, c) := by
  induction keys with
  | nil => rfl
  | cons x xs ih => simp [List.foldl, fmkStep, ih]

/-- issuer named in the token's payload -/
def payloadIssuer (t : Token) : Option String := (t.middle.bind (·.claims)).map (·.iss)

def fitp (use alg : String) (k : JWK) : Bool := (k.Use == use || k.Use == "") && algFits k.kty alg
def exactp (kid : String) (k : JWK) : Bool := k.KeyID == kid && kid != ""
def candp (kid : String) (k : JWK) : Bool := k.KeyID == "" || kid == ""

theorem fold_spec (kid use alg : String) (keys : List JWK) (cands : List JWK) :
    match (keys.filter (fitp use alg)).find? (exactp kid) with
    | some k => (keys.foldl (fmkStep kid use alg) (none, cands)).1 = some k
    | none => keys.foldl (fmkStep kid use alg) (none, cands) = (none, cands ++ (keys.filter (fitp use alg)).filter (candp kid)) := by
  induction keys generalizing cands with
  | nil => simp
  | cons x xs ih =>
    simp only [List.foldl, List.filter_cons]
    by_cases hfit : fitp use alg x = true
    · simp only [hfit, if_true, List.find?_cons]
      by_cases hex : exactp kid x = true
      · simp only [hex]
        have : fmkStep kid use alg (none, cands) x = (some x, cands) := by
          simp only [fitp, exactp, Bool.and_eq_true, Bool.or_eq_true, beq_iff_eq, bne_iff_ne, ne_eq] at hfit hex
          unfold fmkStep algToKeyType
          rcases hfit with ⟨hu, ha⟩
          simp [ha, hex.1, hex.2]
          rcases hu with hu | hu <;> simp [hu]
        rw [this, fold_some]
      · simp only [hex]
        by_cases hc : candp kid x = true
        · have : fmkStep kid use alg (none, cands) x = (none, cands ++ [x]) := by
            simp only [fitp, exactp, candp, Bool.and_eq_true, Bool.or_eq_true, beq_iff_eq, bne_iff_ne, ne_eq] at hfit hex hc
            unfold fmkStep algToKeyType
            rcases hfit with ⟨hu, ha⟩
            simp [ha]
            rcases hu with hu | hu <;> simp [hu] <;> grind
          rw [this]
          have := ih (cands ++ [x])
          simp only [List.filter_cons, hc, if_true]
          cases hf : List.find? (exactp kid) (List.filter (fitp use alg) xs) with
          | some k => simp only [hf] at this ⊢; exact this
          | none => simp only [hf] at this ⊢; rw [this]; simp
        · have : fmkStep kid use alg (none, cands) x = (none, cands) := by
            simp only [fitp, exactp, candp, Bool.and_eq_true, Bool.or_eq_true, beq_iff_eq, bne_iff_ne, ne_eq] at hfit hex hc
            unfold fmkStep algToKeyType
            rcases hfit with ⟨hu, ha⟩
            simp [ha]
            rcases hu with hu | hu <;> simp [hu] <;> grind
          rw [this]
          have := ih cands
          simp only [List.filter_cons, hc]
          cases hf : List.find? (exactp kid) (List.filter (fitp use alg) xs) with
          | some k => simp only [hf] at this ⊢; exact this
          | none => simp only [hf] at this ⊢; rw [this]; simp
    · have : fmkStep kid use alg (none, cands) x = (none, cands) := by
        simp only [fitp, Bool.and_eq_true, Bool.or_eq_true, beq_iff_eq] at hfit
        unfold fmkStep algToKeyType
        simp
        grind
      rw [this]
      simp only [hfit]
      exact ih cands

/-- the hand-written loop model computes exactly what the statement describes -/
theorem findMatchingKey_eq_spec (kid use alg : String) (keys : List JWK) :
    FindMatchingKey kid use alg keys = findSpec kid use alg keys := by
  unfold FindMatchingKey findSpec
  have h := fold_spec kid use alg keys []
  have e1 : (fun k : JWK => (k.Use == use || k.Use == "") && algFits k.kty alg) = fitp use alg := rfl
  have e2 : (fun k : JWK => k.KeyID == kid && kid != "") = exactp kid := rfl
  have e3 : (fun k : JWK => k.KeyID == "" || kid == "") = candp kid := rfl
  simp only [e1, e2, e3]
  cases hf : List.find? (exactp kid) (List.filter (fitp use alg) keys) with
  | some k =>
    simp only [hf] at h
    cases hr : List.foldl (fmkStep kid use alg) (none, []) keys with
    | mk a b => simp [hr] at h; subst h; rfl
  | none =>
    simp only [hf, List.nil_append] at h
    rw [h]
    cases hc : List.filter (candp kid) (List.filter (fitp use alg) keys) with
    | nil => rfl
    | cons a t => cases t <;> rfl

/-- what a successful selection guarantees -/
theorem findMatchingKey_ok {kid use alg : String} {keys : List JWK} {k : JWK}
    (h : FindMatchingKey kid use alg keys = .ok k) :
    k ∈ keys ∧ (k.Use = use ∨ k.Use = "") ∧ algFits k.kty alg = true ∧ (k.KeyID = kid ∨ k.KeyID = "" ∨ kid = "") := by
  rw [findMatchingKey_eq_spec] at h
  unfold findSpec at h
  simp only [] at h
  split at h
  · rename_i k' hf
    have := List.find?_some hf
    have hm := List.mem_of_find?_eq_some hf
    simp at h; subst h
    simp at this hm
    exact ⟨hm.1, hm.2.1, hm.2.2, Or.inl this.1⟩
  · split at h
    · rename_i k' hc
      simp at h; subst h
      have hm : k' ∈ List.filter (fun k => k.KeyID == "" || kid == "") (List.filter (fun k => (k.Use == use || k.Use == "") && algFits k.kty alg) keys) := by
        rw [hc]; simp
      simp at hm
      exact ⟨hm.1, hm.2.2.1, hm.2.2.2, Or.inr hm.2.1⟩
    · simp at h
    · simp at h

/-- what a successful selection guarantees about the KEY ID: the token names exactly this key's id, or one of the two
    has none and the key is the ONLY candidate that is left -/
theorem findMatchingKey_sel {kid use alg : String} {keys : List JWK} {k : JWK}
    (h : FindMatchingKey kid use alg keys = .ok k) :
    (k.KeyID = kid ∧ kid ≠ "") ∨
      ((k.KeyID = "" ∨ kid = "") ∧
        (keys.filter fun k => (k.Use == use || k.Use == "") && algFits k.kty alg).filter (fun k => k.KeyID == "" || kid == "") = [k]) := by
  rw [findMatchingKey_eq_spec] at h
  unfold findSpec at h
  simp only [] at h
  split at h
  · rename_i k' hf
    have := List.find?_some hf
    simp at h; subst h
    simp at this
    exact Or.inl this
  · split at h
    · rename_i k' hc
      simp at h; subst h
      have hm : k' ∈ List.filter (fun k => k.KeyID == "" || kid == "") (List.filter (fun k => (k.Use == use || k.Use == "") && algFits k.kty alg) keys) := by
        rw [hc]; simp
      simp at hm
      exact Or.inr ⟨hm.2.1, hc⟩
    · simp at h
    · simp at h

/-- ambiguity is reported, never resolved by guessing: without a key id and with two or more usable
    keys the selection fails with ErrKeyMultiple -/
theorem findMatchingKey_ambiguous {use alg : String} {keys : List JWK}
    (h : ((keys.filter fun k => (k.Use == use || k.Use == "") && algFits k.kty alg).length ≥ 2)) :
    FindMatchingKey "" use alg keys = .error "ErrKeyMultiple" := by
  rw [findMatchingKey_eq_spec]
  unfold findSpec
  simp only [bne_self_eq_false, Bool.and_false, beq_self_eq_true, Bool.or_true]
  have : List.find? (fun k : JWK => false) (List.filter (fun k => (k.Use == use || k.Use == "") && algFits k.kty alg) keys) = none := by
    simp
  simp only [this]
  match hl : List.filter (fun k => (k.Use == use || k.Use == "") && algFits k.kty alg) keys with
  | [] => simp [hl] at h
  | [_] => simp [hl] at h
  | _ :: _ :: _ => simp [hl]


/-! ### bridge: the REGENERATED key selection (Generated/KeySetC02.lean, from pkg/oidc/keyset.go, pkg/op/op.go,
    pkg/op/verifier_jwt_profile.go, pkg/client/rp/jwks.go) is the hand-written model the theorems below (and C13's) speak about.
    An edit of `GetKeyIDAndAlg`, `algToKeyType`, `FindMatchingKey` or of a `VerifySignature` changes a `GenC02.*` definition
    and one of these equations stops checking. -/

theorem getKeyIDAndAlg_bridge (now : Int) (j : JWS) : GenC02.GetKeyIDAndAlg now j = Hand.GetKeyIDAndAlg j := by
  unfold GenC02.GetKeyIDAndAlg Hand.GetKeyIDAndAlg
  cases hs : j.Signatures <;> first | rfl | (simp only [GoX.loopCtl]; done) | go_leaf [GoX.loopCtl, Go.len, Go.HasLen.len, Go.index]

theorem algToKeyType_bridge (now : Int) (k : JWK) (alg : String) : GenC02.algToKeyType now k.Key alg = Hand.algToKeyType k alg := by
  unfold GenC02.algToKeyType Hand.algToKeyType algFits JWK.Key c02AsRSA c02AsECDSA c02AsEd25519
  first | rfl | go_leaf [Const.EdDSA]

/-- the tail of `FindMatchingKey` (what it answers from the kid-less candidates once the loop is over), whatever its text:
    closes `<tail on c> = match c with | [k] => .ok k | [] => ErrKeyNone | _ => ErrKeyMultiple` for a candidate list of
    length 0, 1, ≥ 2 -/
syntax "fmk_tail" : tactic
macro_rules
  | `(tactic| fmk_tail) => `(tactic| first
      | rfl
      | ((try simp only []); (repeat' split)
         all_goals (first | rfl
                          | (simp_all [Go.len, Go.HasLen.len, Go.index]; done)
                          | (simp_all [Go.len, Go.HasLen.len, Go.index] <;> omega)
                          | (simp [Go.len, Go.HasLen.len, Go.index] at * <;> omega))))

/-- one round of `FindMatchingKey`'s loop in the words of the hand-written model (`Hand.fmkStep` from "nothing returned yet"):
    an exact match leaves the function, anything else goes on with the candidates it leaves -/
def fmkCtl (kid use alg : String) (validKeys : List JWK) (k : JWK) : GoX.Ctl (List JWK) (Go.R JWK) :=
  match fmkStep kid use alg (none, validKeys) k with
  | (some x, _) => .ret (.ok x)
  | (none, c) => .next c

/-- SEMANTIC bridge of the loop: ANY loop body that does, per key, what `fmkCtl` says makes the loop the fold of the
    hand-written model.  The regenerated body is compared with `fmkCtl` pointwise by the shape-independent `go_leaf`
    (`findMatchingKey_bridge`), so merged / reordered / inverted guards of the Go text that decide the same thing still pass. -/
theorem fmk_loop (kid use alg : String) (keys cands : List JWK)
    (f : List JWK → JWK → GoX.Ctl (List JWK) (Go.R JWK)) (hf : ∀ vk k, f vk k = fmkCtl kid use alg vk k) :
    GoX.loopCtl (β := Go.R JWK) keys cands f =
    (match keys.foldl (fmkStep kid use alg) (none, cands) with
     | (some k, _) => .inl (.ok k)
     | (none, c) => .inr c) := by
  induction keys generalizing cands with
  | nil => rfl
  | cons x xs ih =>
    simp only [GoX.loopCtl, List.foldl_cons, hf, fmkCtl]
    rcases hs : fmkStep kid use alg (none, cands) x with ⟨o, c⟩
    cases o with
    | some k => simp only [fold_some]
    | none => exact ih c

/-- what the regenerated loop body is compared with, spelled out (no `match` on a pair left) -/
theorem fmkCtl_eq (kid use alg : String) (vk : List JWK) (k : JWK) :
    fmkCtl kid use alg vk k =
      if k.Use != use && k.Use != "" then .next vk
      else if !algToKeyType k alg then .next vk
      else if k.KeyID == kid && kid != "" then .ret (.ok k)
      else if k.KeyID == "" || kid == "" then .next (vk ++ [k])
      else .next vk := by
  unfold fmkCtl fmkStep
  simp only []
  repeat' split
  all_goals simp_all

theorem findMatchingKey_bridge (now : Int) (kid use alg : String) (keys : List JWK) :
    GenC02.FindMatchingKey now kid use alg keys = Hand.FindMatchingKey kid use alg keys := by
  unfold GenC02.FindMatchingKey Hand.FindMatchingKey
  simp only []
  rw [fmk_loop kid use alg keys [] _ (by
    intro vk k
    rw [fmkCtl_eq]
    simp only [algToKeyType_bridge, Go.append]
    go_leaf)]
  rcases hf : List.foldl (fmkStep kid use alg) (none, []) keys with ⟨o, c⟩
  cases o with
  | some k => rfl
  | none =>
    simp only []
    rcases c with _ | ⟨a, _ | ⟨b, t⟩⟩ <;> fmk_tail

/-- `op.OpenIDKeySet.VerifySignature` (regenerated) on a storage that hands out `keys` is the published-key-set model
    (error texts aside: `CheckSignature` maps every error of `VerifySignature` to ErrSignatureInvalid) -/
theorem openIDKeySet_bridge (now : Int) (keys : List JWK) (j : JWS) :
    (GenC02.OpenIDKeySetVerifySignature now { keySet := .ok keys } j).toOption =
      (KeySet.VerifySignature { kind := .published, keys := keys } j).toOption := by
  unfold GenC02.OpenIDKeySetVerifySignature KeySet.VerifySignature c02StorageKeySet c02JSONWebKeySet
  simp only [getKeyIDAndAlg_bridge, findMatchingKey_bridge]
  rcases GetKeyIDAndAlg j with ⟨kid, alg⟩
  simp only []
  cases FindMatchingKey kid Const.KeyUseSignature alg keys <;> rfl

/-- a storage failure never yields a payload -/
theorem openIDKeySet_storage_error (now : Int) (e : String) (j : JWS) :
    (GenC02.OpenIDKeySetVerifySignature now { keySet := .error e } j).toOption = none := rfl

/-- `op.jwtProfileKeySet.VerifySignature` (regenerated) over the reference registry is the jwt-profile key-set model -/
theorem jwtProfileKeySet_bridge (now : Int) (storage : List (String × JWK)) (clientID : String) (j : JWS) :
    (GenC02.JwtProfileKeySetVerifySignature now { storage := storage, clientID := clientID } j).toOption =
      (KeySet.VerifySignature (Hand.jwtProfileKeySet storage clientID) j).toOption := by
  unfold GenC02.JwtProfileKeySetVerifySignature KeySet.VerifySignature c02GetKeyByIDAndClientID Hand.jwtProfileKeySet
  simp only [getKeyIDAndAlg_bridge]
  rcases GetKeyIDAndAlg j with ⟨kid, alg⟩
  simp only []
  cases List.find? (fun k => k.KeyID == kid) (List.map (fun x => x.2) (List.filter (fun x => x.1 == clientID) storage)) <;> rfl

/-- the sequential functions of `rp.remoteKeySet`, regenerated over the regenerated `GetKeyIDAndAlg` / `FindMatchingKey`,
    are the ones the C13 transition system is instantiated with (which uses the hand-written twins) -/
theorem remoteExactMatch_bridge : GenC02.remoteExactMatch = GenJwks.exactMatch := rfl

theorem c02Pair_bridge (now : Int) : Hand.c02Pair (GenC02.FindMatchingKey now) = Hand.jwksFind := by
  funext kid use alg keys
  unfold Hand.c02Pair Hand.jwksFind
  rw [findMatchingKey_bridge]
  cases FindMatchingKey kid use alg keys <;> rfl

theorem remoteVerifySignatureCached_bridge : GenC02.remoteVerifySignatureCached = GenJwks.verifySignatureCached := by
  funext now r cached j kid alg
  unfold GenC02.remoteVerifySignatureCached GenJwks.verifySignatureCached
  rw [c02Pair_bridge, remoteExactMatch_bridge]

theorem remoteVerifySignatureRemote_bridge : GenC02.remoteVerifySignatureRemote = GenJwks.verifySignatureRemote := by
  funext now r rem j kid alg
  unfold GenC02.remoteVerifySignatureRemote GenJwks.verifySignatureRemote
  rw [c02Pair_bridge]

theorem remoteVerifySignature_bridge : GenC02.remoteVerifySignature = GenJwks.VerifySignature := by
  funext now r cached remote j
  unfold GenC02.remoteVerifySignature GenJwks.VerifySignature
  rw [getKeyIDAndAlg_bridge, remoteVerifySignatureCached_bridge]


theorem jwsVerify_ok {j : JWS} {k : JWK} {p : Payload} (h : jwsVerify j k = .ok p) :
    ∃ s, j.Signatures = [s] ∧ p = j.payload ∧ genuine j s k = true := by
  unfold jwsVerify at h
  split at h
  · rename_i s hs
    split at h
    · rename_i hv
      simp at h
      exact ⟨s, hs, h.symm, by simpa [genuine, sigVerifies] using hv⟩
    · simp at h
  · simp at h

/-- `KeySet.VerifySignature` succeeds only through a key of the set that justifies the token, and
    never when the key choice is ambiguous -/
theorem verifySignature_sound {ks : KeySet} {j : JWS} {p : Payload} (h : ks.VerifySignature j = .ok p) :
    ∃ s k, j.Signatures = [s] ∧ p = j.payload ∧ justifies ks j s k = true ∧
      ¬ (ks.kind = .published ∧ s.Header.KeyID = "" ∧ (usable ks s.Header.Algorithm).length ≥ 2) := by
  unfold KeySet.VerifySignature at h
  simp only [] at h
  cases hk : ks.kind with
  | published =>
    simp only [hk] at h
    split at h
    · simp at h
    · rename_i k hf
      obtain ⟨s, hs, hp, hg⟩ := jwsVerify_ok h
      have hsel := findMatchingKey_ok hf
      simp only [GetKeyIDAndAlg, hs] at hsel hf
      have hkid := findMatchingKey_sel hf
      refine ⟨s, k, hs, hp, ?_, ?_⟩
      · simp only [justifies, selectedOK, hk, publishedOK, kidConsistent, looseCandidates, usable, Bool.and_eq_true, Bool.or_eq_true,
          beq_iff_eq, bne_iff_ne, ne_eq, List.contains_eq_mem, decide_eq_true_eq]
        refine ⟨⟨hsel.1, hg⟩, ?_, ?_⟩
        · simpa [Const.KeyUseSignature] using hsel.2.1
        · rcases hkid with ⟨h1, h2⟩ | ⟨h1, h2⟩
          · exact Or.inl ⟨h1, h2⟩
          · exact Or.inr ⟨h1, by simpa [Const.KeyUseSignature] using h2⟩
      · rintro ⟨_, hkid, hamb⟩
        rw [hkid] at hf
        have := findMatchingKey_ambiguous (use := Const.KeyUseSignature) (alg := s.Header.Algorithm) (keys := ks.keys)
          (by simpa [usable, Const.KeyUseSignature] using hamb)
        rw [this] at hf
        simp at hf
  | jwtProfile =>
    simp only [hk] at h
    split at h
    · simp at h
    · rename_i k hf
      obtain ⟨s, hs, hp, hg⟩ := jwsVerify_ok h
      have hm := List.mem_of_find?_eq_some hf
      have hkid := List.find?_some hf
      simp only [GetKeyIDAndAlg, hs] at hkid
      refine ⟨s, k, hs, hp, ?_, by simp⟩
      simp only [justifies, selectedOK, hk, Bool.and_eq_true, List.contains_eq_mem, decide_eq_true_eq]
      exact ⟨⟨hm, hg⟩, hkid⟩
  | nilSet => simp [hk] at h
  | static =>
    simp only [hk] at h
    split at h
    · simp at h
    · rename_i k hf
      have hm := List.mem_of_find?_eq_some hf
      have hv := List.find?_some hf
      simp at h
      cases hjv : jwsVerify j k with
      | error e => simp [hjv, Except.toBool] at hv
      | ok p' =>
        obtain ⟨s, hs, hp, hg⟩ := jwsVerify_ok hjv
        refine ⟨s, k, hs, h.symm, ?_, by simp⟩
        simp only [justifies, selectedOK, hk, Bool.and_eq_true, List.contains_eq_mem, decide_eq_true_eq]
        exact ⟨⟨hm, hg⟩, trivial⟩


/-- characterisation of the regenerated `oidc.CheckSignature` (in the vocabulary of the Go text; the only place where
    `Gen.CheckSignature` is unfolded): it succeeds only if go-jose parses the token under the allow-list in force, there is
    neither no signature nor more than one, the key set verifies it, the signed payload is the parsed one, and the claims
    come back with the signature's algorithm noted -/
theorem checkSignature_paths {now : Int} {t : Token} {p : Payload} {c c' : Claims} {algs : List String} {ks : KeySet} :
    CheckSignature now t p c algs ks = .ok c' →
    ∃ j, joseParseSigned t (toJoseSignatureAlgorithms algs) = .ok j ∧ Go.len j.Signatures ≠ 0 ∧ Go.len j.Signatures ≤ 1 ∧
      ∃ sp, ks.VerifySignature j = .ok sp ∧ Go.bytesEqual sp p = true ∧
        c' = c.SetSignatureAlgorithm (Go.index j.Signatures (0 : Int)).Header.Algorithm := by
  unfold CheckSignature
  go_paths

/-- neither empty nor longer than one: exactly one signature -/
theorem single_of_len {l : List JSig} (h0 : Go.len l ≠ 0) (h1 : Go.len l ≤ 1) : l = [Go.index l (0 : Int)] := by
  match l with
  | [] => simp [Go.len, Go.HasLen.len] at h0
  | [s] => rfl
  | a :: b :: r => simp [Go.len, Go.HasLen.len] at h1; omega

/-- what `oidc.ParseToken` + `oidc.CheckSignature` (as regenerated from the source) establish together -/
theorem parse_and_signature_sound {now : Int} {t : Token} {p : Payload} {c c' : Claims} {algs : List String} {ks : KeySet}
    (hp : ParseToken now t = .ok (p, c)) (hs : CheckSignature now t p c algs ks = .ok c') :
    acceptedOK algs ks t c' = none ∧ ambiguous ks t = false := by
  unfold ParseToken at hp
  split at hp; · simp at hp
  rename_i hsegs
  split at hp; · simp at hp
  rename_i p0 hmid
  split at hp; · simp at hp
  rename_i c0 hc0
  simp at hp
  obtain ⟨hp1, hp2⟩ := hp
  subst hp1 hp2
  obtain ⟨j, hj, hl0, hl1, sp, hv, hbytes, hc'⟩ := checkSignature_paths hs
  have hone := single_of_len hl0 hl1
  unfold joseParseSigned at hj
  split at hj; · simp at hj
  rename_i j0 hjws
  split at hj
  · rename_i hall
    simp at hj; subst hj
    obtain ⟨s, k, hsig, hpay, hjust, hamb⟩ := verifySignature_sound hv
    have hs0 : Go.index j0.Signatures (0 : Int) = s := by rw [hsig]; rfl
    rw [hs0] at hc'
    subst hpay
    constructor
    · unfold acceptedOK
      have h3 : (t.segs != 3) = false := by simpa using hsegs
      simp only [h3, hjws, hsig, hmid, hc0]
      have hallowed : (allowed algs).contains s.Header.Algorithm = true := by
        simp [hsig] at hall
        simpa [allowed, toJoseSignatureAlgorithms] using hall
      have hmem : k ∈ ks.keys ∧ genuine j0 s k = true := by
        simp only [justifies, Bool.and_eq_true, List.contains_eq_mem, decide_eq_true_eq] at hjust
        exact hjust.1
      have hany : (ks.keys.any fun k => justifies ks j0 s k) = true := by
        simp only [List.any_eq_true]
        exact ⟨k, hmem.1, hjust⟩
      have hgen : (ks.keys.any fun k => genuine j0 s k) = true := by
        simp only [List.any_eq_true]
        exact ⟨k, hmem.1, hmem.2⟩
      have hb : (p0.bytes != j0.payload.bytes) = false := by
        simp [Go.bytesEqual] at hbytes; simp [hbytes]
      have hallowed' : s.Header.Algorithm ∈ allowed algs := by simpa using hallowed
      simp [hallowed', hany, hgen, hb, hc', Claims.SetSignatureAlgorithm]
    · unfold ambiguous
      cases hk : ks.kind <;> simp only [hjws, hsig]
      simp only [Bool.and_eq_false_iff, decide_eq_false_iff_not]
      by_cases hkid : s.Header.KeyID = ""
      · right; intro hge; exact hamb ⟨hk, hkid, hge⟩
      · left; simpa using hkid
  · simp at hj


/-- the key that `CheckSignature` believed -/
theorem checkSignature_key {now : Int} {t : Token} {p : Payload} {c c' : Claims} {algs : List String} {ks : KeySet}
    (hs : CheckSignature now t p c algs ks = .ok c') :
    ∃ j s k, t.jws = some j ∧ j.Signatures = [s] ∧ justifies ks j s k = true := by
  obtain ⟨j, hj, _, _, sp, hv, _, _⟩ := checkSignature_paths hs
  unfold joseParseSigned at hj
  split at hj; · simp at hj
  rename_i j0 hjws
  split at hj
  · simp at hj; subst hj
    obtain ⟨s, k, hsig, _, hjust, _⟩ := verifySignature_sound hv
    exact ⟨j0, s, k, hjws, hsig, hjust⟩
  · simp at hj

/-- **key-id consistency.**  `KeyConsistent ks t`: the token carries exactly one signature, it is a genuine signature by a key
    `k` of the key set, and `k` was entitled to be selected — for a published set (remote JWKS, `op.OpenIDKeySet`): its declared
    use permits signatures and EITHER the token's header (`Header`: protected and unprotected part as go-jose merges them) names
    exactly `k`'s key id, OR one of the two has no key id and `k` is the only candidate left; for a per-client registry
    (`jwtProfileKeySet`): the header names exactly `k`'s key id. -/
def KeyConsistent (ks : KeySet) (t : Token) : Prop :=
  ∃ j s k, t.jws = some j ∧ j.Signatures = [s] ∧ k ∈ ks.keys ∧ genuine j s k = true ∧
    (ks.kind = .published →
      (k.Use = "sig" ∨ k.Use = "") ∧
      ((k.KeyID = s.Header.KeyID ∧ s.Header.KeyID ≠ "") ∨
       ((k.KeyID = "" ∨ s.Header.KeyID = "") ∧ looseCandidates ks s = [k]))) ∧
    (ks.kind = .jwtProfile → k.KeyID = s.Header.KeyID) ∧
    ks.kind ≠ .nilSet

theorem c02_kid_consistent {now : Int} {t : Token} {p : Payload} {c c' : Claims} {algs : List String} {ks : KeySet}
    (hs : CheckSignature now t p c algs ks = .ok c') : KeyConsistent ks t := by
  obtain ⟨j, s, k, hj, hsig, hjust⟩ := checkSignature_key hs
  simp only [justifies, Bool.and_eq_true, List.contains_eq_mem, decide_eq_true_eq] at hjust
  obtain ⟨⟨hm, hg⟩, hsel⟩ := hjust
  refine ⟨j, s, k, hj, hsig, hm, hg, ?_, ?_, ?_⟩
  · intro hk
    simp only [selectedOK, hk, publishedOK, kidConsistent, Bool.and_eq_true, Bool.or_eq_true, beq_iff_eq, bne_iff_ne, ne_eq] at hsel
    exact hsel
  · intro hk
    simpa [selectedOK, hk] using hsel
  · intro hk
    simp [selectedOK, hk] at hsel

/-- with the header views fitting together as go-jose builds them, the key id the token names is the protected one, and the
    unprotected one only where the protected header has none -/
theorem named_kid_of_merged {s : JSig} (h : headerMerged s = true) :
    s.Header.KeyID = (if s.Protected.KeyID != "" then s.Protected.KeyID else s.Unprotected.KeyID) ∧
    s.Header.Algorithm = (if s.Protected.Algorithm != "" then s.Protected.Algorithm else s.Unprotected.Algorithm) := by
  simp only [headerMerged, beq_iff_eq] at h
  rw [h]; exact ⟨rfl, rfl⟩

/-! Characterisation lemmas of the four regenerated verifier functions (the only places where they are unfolded; proved by the
    shape-independent `go_paths`): an accepted token went through `ParseToken` and `CheckSignature` with the verifier's allow-list
    and key set, and the claims handed back are the ones `CheckSignature` returned. -/

theorem rp_paths {now t v c} : VerifyIDToken now t v = .ok c →
    ∃ p c0, ParseToken now t = .ok (p, c0) ∧ ∃ c1, CheckSignature now t p c0 v.SupportedSignAlgs v.KeySet = .ok c1 ∧ c1 = c := by
  unfold VerifyIDToken DecryptToken
  go_paths

theorem opAccessToken_paths {now t v c} : OPVerifyAccessToken now t v = .ok c →
    ∃ p c0, ParseToken now t = .ok (p, c0) ∧ ∃ c1, CheckSignature now t p c0 v.SupportedSignAlgs v.KeySet = .ok c1 ∧ c1 = c := by
  unfold OPVerifyAccessToken DecryptToken
  go_paths

def _root_.HintOut.claims : HintOut → Claims
  | .valid c => c
  | .expired c _ => c

@[simp] theorem _root_.HintOut.claims_valid (c : Claims) : (HintOut.valid c).claims = c := rfl
@[simp] theorem _root_.HintOut.claims_expired (c : Claims) (e : String) : (HintOut.expired c e).claims = c := rfl

theorem idTokenHint_paths {now t v o} : VerifyIDTokenHint now t v = .ok o →
    ∃ p c0, ParseToken now t = .ok (p, c0) ∧ ∃ c1, CheckSignature now t p c0 v.SupportedSignAlgs v.KeySet = .ok c1 ∧ c1 = o.claims := by
  unfold VerifyIDTokenHint DecryptToken
  go_paths

/-- the key set a JWT-profile verifier uses for an assertion with issuer `iss` -/
def assertionKeySet (v : JWTProfileVerifier) (iss : String) : KeySet :=
  if Go.isNil v.keySet then Hand.jwtProfileKeySet v.Storage iss else v.keySet

theorem jwtAssertion_paths {now t v c} : VerifyJWTAssertion now t v = .ok c →
    ∃ p c0, ParseToken now t = .ok (p, c0) ∧ ∃ c1, CheckSignature now t p c0 [] (assertionKeySet v c0.iss) = .ok c1 ∧ c1 = c := by
  unfold VerifyJWTAssertion assertionKeySet Claims.Issuer Go.nil HasNil.nilv instHasNilList
  go_paths

/-- C02 for the RP ID-token verifier -/
theorem c02_rp (now : Int) (t : Token) (v : Verifier) :
    monitor v.SupportedSignAlgs v.KeySet t (VerifyIDToken now t v).toOption = none := by
  cases h : VerifyIDToken now t v with
  | error e => rfl
  | ok c =>
    obtain ⟨p, c0, hp, c1, hs, rfl⟩ := rp_paths h
    have := parse_and_signature_sound hp hs
    simp [monitor, Except.toOption, this.1, this.2]

/-- C02 for the OP access-token verifier -/
theorem c02_accessToken (now : Int) (t : Token) (v : Verifier) :
    monitor v.SupportedSignAlgs v.KeySet t (OPVerifyAccessToken now t v).toOption = none := by
  cases h : OPVerifyAccessToken now t v with
  | error e => rfl
  | ok c =>
    obtain ⟨p, c0, hp, c1, hs, rfl⟩ := opAccessToken_paths h
    have := parse_and_signature_sound hp hs
    simp [monitor, Except.toOption, this.1, this.2]

/-- C02 for the id_token_hint verifier (claims are handed back for valid AND for expired hints) -/
theorem c02_idTokenHint (now : Int) (t : Token) (v : Verifier) :
    monitor v.SupportedSignAlgs v.KeySet t ((VerifyIDTokenHint now t v).toOption.map HintOut.claims) = none := by
  cases h : VerifyIDTokenHint now t v with
  | error e => rfl
  | ok o =>
    obtain ⟨p, c0, hp, c1, hs, hc⟩ := idTokenHint_paths h
    have := parse_and_signature_sound hp hs
    simp [monitor, Except.toOption, ← hc, this.1, this.2]

/-- C02 for JWT-profile assertions: default allow-list, keys of the client named as issuer -/
theorem c02_assertion (now : Int) (t : Token) (v : JWTProfileVerifier) :
    ∀ c, VerifyJWTAssertion now t v = .ok c →
      ∃ iss, payloadIssuer t = some iss ∧ monitor [] (assertionKeySet v iss) t (some c) = none := by
  intro c h
  obtain ⟨p, c0, hp, c1, hs, rfl⟩ := jwtAssertion_paths h
  have := parse_and_signature_sound hp hs
  refine ⟨c0.iss, ?_, by simp [monitor, this.1, this.2]⟩
  unfold ParseToken at hp
  repeat' (split at hp <;> try (simp at hp))
  simp_all [payloadIssuer]


/-- key-id consistency for the four verifiers (all tokens, key sets, allow-lists, serialisations) -/
theorem c02_kid_consistent_rp {now : Int} {t : Token} {v : Verifier} {c : Claims}
    (h : VerifyIDToken now t v = .ok c) : KeyConsistent v.KeySet t := by
  obtain ⟨p, c0, _, c1, hs, _⟩ := rp_paths h
  exact c02_kid_consistent hs

theorem c02_kid_consistent_accessToken {now : Int} {t : Token} {v : Verifier} {c : Claims}
    (h : OPVerifyAccessToken now t v = .ok c) : KeyConsistent v.KeySet t := by
  obtain ⟨p, c0, _, c1, hs, _⟩ := opAccessToken_paths h
  exact c02_kid_consistent hs

theorem c02_kid_consistent_idTokenHint {now : Int} {t : Token} {v : Verifier} {o : HintOut}
    (h : VerifyIDTokenHint now t v = .ok o) : KeyConsistent v.KeySet t := by
  obtain ⟨p, c0, _, c1, hs, _⟩ := idTokenHint_paths h
  exact c02_kid_consistent hs

theorem c02_kid_consistent_assertion {now : Int} {t : Token} {v : JWTProfileVerifier} {c : Claims}
    (h : VerifyJWTAssertion now t v = .ok c) : ∃ iss, payloadIssuer t = some iss ∧ KeyConsistent (assertionKeySet v iss) t := by
  obtain ⟨iss, hi, _⟩ := c02_assertion now t v c h
  obtain ⟨p, c0, hp, c1, hs, _⟩ := jwtAssertion_paths h
  refine ⟨iss, hi, ?_⟩
  have : c0.iss = iss := by
    unfold ParseToken at hp
    repeat' (split at hp <;> try (simp at hp))
    simp_all [payloadIssuer]
  rw [← this]
  exact c02_kid_consistent hs

/-- the published-key-set verifiers run the regenerated `OpenIDKeySet.VerifySignature`: what it accepts, the model accepts -/
theorem openIDKeySet_sound {now : Int} {keys : List JWK} {j : JWS} {p : Payload}
    (h : GenC02.OpenIDKeySetVerifySignature now { keySet := .ok keys } j = .ok p) :
    ∃ s k, j.Signatures = [s] ∧ p = j.payload ∧ justifies { kind := .published, keys := keys } j s k = true := by
  have hb := openIDKeySet_bridge now keys j
  rw [h] at hb
  cases hv : KeySet.VerifySignature { kind := .published, keys := keys } j with
  | error e => simp [hv, Except.toOption] at hb
  | ok p' =>
    simp [hv, Except.toOption] at hb
    subst hb
    obtain ⟨s, k, hs, hp, hj, _⟩ := verifySignature_sound hv
    exact ⟨s, k, hs, hp, hj⟩

theorem jwtProfileKeySet_sound {now : Int} {storage : List (String × JWK)} {clientID : String} {j : JWS} {p : Payload}
    (h : GenC02.JwtProfileKeySetVerifySignature now { storage := storage, clientID := clientID } j = .ok p) :
    ∃ s k, j.Signatures = [s] ∧ p = j.payload ∧ justifies (Hand.jwtProfileKeySet storage clientID) j s k = true := by
  have hb := jwtProfileKeySet_bridge now storage clientID j
  rw [h] at hb
  cases hv : KeySet.VerifySignature (Hand.jwtProfileKeySet storage clientID) j with
  | error e => simp [hv, Except.toOption] at hb
  | ok p' =>
    simp [hv, Except.toOption] at hb
    subst hb
    obtain ⟨s, k, hs, hp, hj, _⟩ := verifySignature_sound hv
    exact ⟨s, k, hs, hp, hj⟩

/-! ### non-vacuity and why the payload comparison is needed -/
section examples
def exKeyA : JWK := { KeyID := "a", Use := "sig", kty := .rsa, keyNo := 1 }
def exKeyB : JWK := { KeyID := "", Use := "", kty := .rsa, keyNo := 2 }
def exKeyEnc : JWK := { KeyID := "e", Use := "enc", kty := .rsa, keyNo := 3 }
def exC : Claims := { iss := "https://op", sub := "u", aud := ["rp"], exp := 2000000600, iat := 2000000000 }
def exP : Payload := { bytes := 1, claims := some exC }
def exEvil : Payload := { bytes := 2, claims := some { exC with sub := "admin" } }
def exH : JHeader := { Algorithm := "RS256", KeyID := "a" }
def exS : JSig := { Header := exH, signer := some 1, signedAlg := "RS256", signedBytes := 1, signedHdr := exH }
def exT : Token := { segs := 3, middle := some exP, jws := some { Signatures := [exS], payload := exP } }
/-- JSON-serialisation smuggling: go-jose sees the genuinely signed payload, `ParseToken` another one -/
def exSmuggled : Token := { exT with middle := some exEvil }
def exKS : KeySet := { kind := .published, keys := [exKeyEnc, exKeyA, exKeyB] }
def exVv : Verifier := { Issuer := "https://op", ClientID := "rp", KeySet := exKS }

example : (VerifyIDToken (2000000100 * Go.second) exT exVv).toOption = some (exC.SetSignatureAlgorithm "RS256") := by decide
example : acceptedOK [] exKS exT (exC.SetSignatureAlgorithm "RS256") = none := by decide
-- the signature of the smuggled token verifies; only the byte comparison stops it
example : (exKS.VerifySignature { Signatures := [exS], payload := exP }).toOption = some exP := by decide
example : (VerifyIDToken (2000000100 * Go.second) exSmuggled exVv).toOption = none := by decide
example : acceptedOK [] exKS exSmuggled { exC with sub := "admin" } = some "payload-not-the-signed-one" := by decide
-- alg=none / HS256 never fit a key type, whatever the allow-list says
example : ∀ kty, algFits kty "none" = false ∧ algFits kty "HS256" = false := by intro kty; cases kty <;> decide
-- an `enc` key is never selected, two kid-less candidates are reported as ambiguous
example : (FindMatchingKey "e" "sig" "RS256" [exKeyEnc, exKeyA]).toOption = none := by
  rw [findMatchingKey_eq_spec]; decide
example : FindMatchingKey "" "sig" "RS256" exKS.keys = .error "ErrKeyMultiple" :=
  findMatchingKey_ambiguous (by decide)

/-! a flattened JSON JWS whose key id travels in the UNPROTECTED header (the protected one carries only `alg`) -/
def exHP : JHeader := { Algorithm := "RS256", KeyID := "" }
def exFlatS (kid : String) : JSig :=
  { Header := { Algorithm := "RS256", KeyID := kid }, signer := some 1, signedAlg := "RS256", signedBytes := 1, signedHdr := exHP,
    Protected := exHP, Unprotected := { Algorithm := "", KeyID := kid } }
def exFlat (kid : String) : Token := { segs := 3, middle := some exP, jws := some { Signatures := [exFlatS kid], payload := exP } }
def exKS1 : KeySet := { kind := .published, keys := [exKeyA] }
def exV1 : Verifier := { Issuer := "https://op", ClientID := "rp", KeySet := exKS1 }
example : headerMerged (exFlatS "a") = true ∧ headerMerged (exFlatS "zz") = true := by decide
-- naming the key it was signed with: believed, and the key-id clause holds through the unprotected header
example : (VerifyIDToken (2000000100 * Go.second) (exFlat "a") exV1).toOption = some (exC.SetSignatureAlgorithm "RS256") := by decide
example : acceptedOK [] exKS1 (exFlat "a") (exC.SetSignatureAlgorithm "RS256") = none := by decide
-- naming ANOTHER key ("zz") while signed with the set's only key: the signature itself verifies under that key ...
example : (jwsVerify { Signatures := [exFlatS "zz"], payload := exP } exKeyA).toOption = some exP := by decide
-- ... but the token is rejected, in all three verifiers over a published set (reading only the protected header would accept it)
example : (VerifyIDToken (2000000100 * Go.second) (exFlat "zz") exV1).toOption = none := by decide
example : (OPVerifyAccessToken (2000000100 * Go.second) (exFlat "zz") exV1).toOption = none := by decide
example : (VerifyIDTokenHint (2000000100 * Go.second) (exFlat "zz") exV1).toOption.map HintOut.claims = none := by decide
example : acceptedOK [] exKS1 (exFlat "zz") (exC.SetSignatureAlgorithm "RS256") = some "key-not-consistent-with-header" := by decide
-- without any key id the only candidate is taken; with a second candidate it is not
example : (VerifyIDToken (2000000100 * Go.second) (exFlat "") exV1).toOption = some (exC.SetSignatureAlgorithm "RS256") := by decide
example : (VerifyIDToken (2000000100 * Go.second) (exFlat "") exVv).toOption = none := by decide
-- the regenerated functions on the same inputs
example : GenC02.GetKeyIDAndAlg 0 { Signatures := [exFlatS "zz"], payload := exP } = ("zz", "RS256") := by decide
example : (GenC02.OpenIDKeySetVerifySignature 0 { keySet := .ok [exKeyA] } { Signatures := [exFlatS "zz"], payload := exP }).toOption = none := by decide
example : (GenC02.OpenIDKeySetVerifySignature 0 { keySet := .ok [exKeyA] } { Signatures := [exFlatS "a"], payload := exP }).toOption = some exP := by decide
end examples

end C02
