/-
  C02 proofs: key selection (`FindMatchingKey`, hand model = statement), the three key-set
  implementations, and the REGENERATED `CheckSignature` / verifier functions: whatever a verifier
  accepts carries exactly one signature with an allowed algorithm by a trusted, fitting,
  consistently selected key over exactly the returned payload; ambiguity is never resolved by guessing.
-/
import OidcModel.Spec.C02
import OidcModel.Generated.RPVerifier
namespace C02
open Go Gen Hand

theorem fold_some (kid use alg : String) (keys : List JWK) (k : JWK) (c : List JWK) :
    keys.foldl (fmkStep kid use alg) (some k, c) = (some k, c) := by
  induction keys with
  | nil => rfl
  | cons x xs ih => simp [List.foldl, fmkStep, ih]

/-- issuer named in the token's payload -/
def payloadIssuer (t : Token) : Option String := (t.middle.bind (·.claims)).map (·.iss)

def fitp (use alg : String) (k : JWK) : Bool := (k.Use == use || k.Use == "") && algFits k.kty alg
def exactp (kid : String) (k : JWK) : Bool := k.KeyID == kid && kid != ""
def candp (kid : String) (k : JWK) : Bool := k.KeyID == "" || kid == ""

theorem fold_spec (kid use alg : String) (keys : List JWK) (cands : List JWK) :
    match (keys.filter (fitp use alg)).find? (exactp kid) with
    | some k => (keys.foldl (fmkStep kid use alg) (none, cands)).1 = some k
    | none => keys.foldl (fmkStep kid use alg) (none, cands) = (none, cands ++ (keys.filter (fitp use alg)).filter (candp kid)) := by
  induction keys generalizing cands with
  | nil => simp
  | cons x xs ih =>
    simp only [List.foldl, List.filter_cons]
    by_cases hfit : fitp use alg x = true
    · simp only [hfit, if_true, List.find?_cons]
      by_cases hex : exactp kid x = true
      · simp only [hex]
        have : fmkStep kid use alg (none, cands) x = (some x, cands) := by
          simp only [fitp, exactp, Bool.and_eq_true, Bool.or_eq_true, beq_iff_eq, bne_iff_ne, ne_eq] at hfit hex
          unfold fmkStep algToKeyType
          rcases hfit with ⟨hu, ha⟩
          simp [ha, hex.1, hex.2]
          rcases hu with hu | hu <;> simp [hu]
        rw [this, fold_some]
      · simp only [hex]
        by_cases hc : candp kid x = true
        · have : fmkStep kid use alg (none, cands) x = (none, cands ++ [x]) := by
            simp only [fitp, exactp, candp, Bool.and_eq_true, Bool.or_eq_true, beq_iff_eq, bne_iff_ne, ne_eq] at hfit hex hc
            unfold fmkStep algToKeyType
            rcases hfit with ⟨hu, ha⟩
            simp [ha]
            rcases hu with hu | hu <;> simp [hu] <;> grind
          rw [this]
          have := ih (cands ++ [x])
          simp only [List.filter_cons, hc, if_true]
          cases hf : List.find? (exactp kid) (List.filter (fitp use alg) xs) with
          | some k => simp only [hf] at this ⊢; exact this
          | none => simp only [hf] at this ⊢; rw [this]; simp
        · have : fmkStep kid use alg (none, cands) x = (none, cands) := by
            simp only [fitp, exactp, candp, Bool.and_eq_true, Bool.or_eq_true, beq_iff_eq, bne_iff_ne, ne_eq] at hfit hex hc
            unfold fmkStep algToKeyType
            rcases hfit with ⟨hu, ha⟩
            simp [ha]
            rcases hu with hu | hu <;> simp [hu] <;> grind
          rw [this]
          have := ih cands
          simp only [List.filter_cons, hc]
          cases hf : List.find? (exactp kid) (List.filter (fitp use alg) xs) with
          | some k => simp only [hf] at this ⊢; exact this
          | none => simp only [hf] at this ⊢; rw [this]; simp
    · have : fmkStep kid use alg (none, cands) x = (none, cands) := by
        simp only [fitp, Bool.and_eq_true, Bool.or_eq_true, beq_iff_eq] at hfit
        unfold fmkStep algToKeyType
        simp
        grind
      rw [this]
      simp only [hfit]
      exact ih cands

/-- the hand-written loop model computes exactly what the statement describes -/
theorem findMatchingKey_eq_spec (kid use alg : String) (keys : List JWK) :
    FindMatchingKey kid use alg keys = findSpec kid use alg keys := by
  unfold FindMatchingKey findSpec
  have h := fold_spec kid use alg keys []
  have e1 : (fun k : JWK => (k.Use == use || k.Use == "") && algFits k.kty alg) = fitp use alg := rfl
  have e2 : (fun k : JWK => k.KeyID == kid && kid != "") = exactp kid := rfl
  have e3 : (fun k : JWK => k.KeyID == "" || kid == "") = candp kid := rfl
  simp only [e1, e2, e3]
  cases hf : List.find? (exactp kid) (List.filter (fitp use alg) keys) with
  | some k =>
    simp only [hf] at h
    cases hr : List.foldl (fmkStep kid use alg) (none, []) keys with
    | mk a b => simp [hr] at h; subst h; rfl
  | none =>
    simp only [hf, List.nil_append] at h
    rw [h]
    cases hc : List.filter (candp kid) (List.filter (fitp use alg) keys) with
    | nil => rfl
    | cons a t => cases t <;> rfl

/-- what a successful selection guarantees -/
theorem findMatchingKey_ok {kid use alg : String} {keys : List JWK} {k : JWK}
    (h : FindMatchingKey kid use alg keys = .ok k) :
    k ∈ keys ∧ (k.Use = use ∨ k.Use = "") ∧ algFits k.kty alg = true ∧ (k.KeyID = kid ∨ k.KeyID = "" ∨ kid = "") := by
  rw [findMatchingKey_eq_spec] at h
  unfold findSpec at h
  simp only [] at h
  split at h
  · rename_i k' hf
    have := List.find?_some hf
    have hm := List.mem_of_find?_eq_some hf
    simp at h; subst h
    simp at this hm
    exact ⟨hm.1, hm.2.1, hm.2.2, Or.inl this.1⟩
  · split at h
    · rename_i k' hc
      simp at h; subst h
      have hm : k' ∈ List.filter (fun k => k.KeyID == "" || kid == "") (List.filter (fun k => (k.Use == use || k.Use == "") && algFits k.kty alg) keys) := by
        rw [hc]; simp
      simp at hm
      exact ⟨hm.1, hm.2.2.1, hm.2.2.2, Or.inr hm.2.1⟩
    · simp at h
    · simp at h

/-- ambiguity is reported, never resolved by guessing: without a key id and with two or more usable
    keys the selection fails with ErrKeyMultiple -/
theorem findMatchingKey_ambiguous {use alg : String} {keys : List JWK}
    (h : ((keys.filter fun k => (k.Use == use || k.Use == "") && algFits k.kty alg).length ≥ 2)) :
    FindMatchingKey "" use alg keys = .error "ErrKeyMultiple" := by
  rw [findMatchingKey_eq_spec]
  unfold findSpec
  simp only [bne_self_eq_false, Bool.and_false, beq_self_eq_true, Bool.or_true]
  have : List.find? (fun k : JWK => false) (List.filter (fun k => (k.Use == use || k.Use == "") && algFits k.kty alg) keys) = none := by
    simp
  simp only [this]
  match hl : List.filter (fun k => (k.Use == use || k.Use == "") && algFits k.kty alg) keys with
  | [] => simp [hl] at h
  | [_] => simp [hl] at h
  | _ :: _ :: _ => simp [hl]


theorem jwsVerify_ok {j : JWS} {k : JWK} {p : Payload} (h : jwsVerify j k = .ok p) :
    ∃ s, j.Signatures = [s] ∧ p = j.payload ∧ genuine j s k = true := by
  unfold jwsVerify at h
  split at h
  · rename_i s hs
    split at h
    · rename_i hv
      simp at h
      exact ⟨s, hs, h.symm, by simpa [genuine, sigVerifies] using hv⟩
    · simp at h
  · simp at h

/-- `KeySet.VerifySignature` succeeds only through a key of the set that justifies the token, and
    never when the key choice is ambiguous -/
theorem verifySignature_sound {ks : KeySet} {j : JWS} {p : Payload} (h : ks.VerifySignature j = .ok p) :
    ∃ s k, j.Signatures = [s] ∧ p = j.payload ∧ justifies ks j s k = true ∧
      ¬ (ks.kind = .published ∧ s.Header.KeyID = "" ∧ (usable ks s.Header.Algorithm).length ≥ 2) := by
  unfold KeySet.VerifySignature at h
  simp only [] at h
  cases hk : ks.kind with
  | published =>
    simp only [hk] at h
    split at h
    · simp at h
    · rename_i k hf
      obtain ⟨s, hs, hp, hg⟩ := jwsVerify_ok h
      have hsel := findMatchingKey_ok hf
      simp only [GetKeyIDAndAlg, hs] at hsel hf
      refine ⟨s, k, hs, hp, ?_, ?_⟩
      · simp only [justifies, hk, publishedOK, Bool.and_eq_true, Bool.or_eq_true, beq_iff_eq, List.contains_eq_mem, decide_eq_true_eq]
        refine ⟨⟨hsel.1, hg⟩, ?_, ?_⟩
        · simpa [Const.KeyUseSignature] using hsel.2.1
        · rcases hsel.2.2.2 with h | h | h <;> simp [h]
      · rintro ⟨_, hkid, hamb⟩
        rw [hkid] at hf
        have := findMatchingKey_ambiguous (use := Const.KeyUseSignature) (alg := s.Header.Algorithm) (keys := ks.keys)
          (by simpa [usable, Const.KeyUseSignature] using hamb)
        rw [this] at hf
        simp at hf
  | jwtProfile =>
    simp only [hk] at h
    split at h
    · simp at h
    · rename_i k hf
      obtain ⟨s, hs, hp, hg⟩ := jwsVerify_ok h
      have hm := List.mem_of_find?_eq_some hf
      have hkid := List.find?_some hf
      simp only [GetKeyIDAndAlg, hs] at hkid
      refine ⟨s, k, hs, hp, ?_, by simp⟩
      simp only [justifies, hk, Bool.and_eq_true, List.contains_eq_mem, decide_eq_true_eq]
      exact ⟨⟨hm, hg⟩, hkid⟩
  | nilSet => simp [hk] at h
  | static =>
    simp only [hk] at h
    split at h
    · simp at h
    · rename_i k hf
      have hm := List.mem_of_find?_eq_some hf
      have hv := List.find?_some hf
      simp at h
      cases hjv : jwsVerify j k with
      | error e => simp [hjv, Except.toBool] at hv
      | ok p' =>
        obtain ⟨s, hs, hp, hg⟩ := jwsVerify_ok hjv
        refine ⟨s, k, hs, h.symm, ?_, by simp⟩
        simp only [justifies, hk, Bool.and_eq_true, List.contains_eq_mem, decide_eq_true_eq]
        exact ⟨⟨hm, hg⟩, trivial⟩


/-- what `oidc.ParseToken` + `oidc.CheckSignature` (as regenerated from the source) establish together -/
theorem parse_and_signature_sound {now : Int} {t : Token} {p : Payload} {c c' : Claims} {algs : List String} {ks : KeySet}
    (hp : ParseToken now t = .ok (p, c)) (hs : CheckSignature now t p c algs ks = .ok c') :
    acceptedOK algs ks t c' = none ∧ ambiguous ks t = false := by
  unfold ParseToken at hp
  split at hp; · simp at hp
  rename_i hsegs
  split at hp; · simp at hp
  rename_i p0 hmid
  split at hp; · simp at hp
  rename_i c0 hc0
  simp at hp
  obtain ⟨hp1, hp2⟩ := hp
  subst hp1 hp2
  unfold CheckSignature at hs
  simp only [] at hs
  split at hs
  · split at hs <;> simp at hs
  rename_i j hj
  unfold joseParseSigned at hj
  split at hj; · simp at hj
  rename_i j0 hjws
  split at hj
  · rename_i hall
    simp at hj; subst hj
    split at hs; · simp at hs
    split at hs; · simp at hs
    split at hs; · simp at hs
    rename_i sp hv
    split at hs; · simp at hs
    rename_i hbytes
    simp at hs
    obtain ⟨s, k, hsig, hpay, hjust, hamb⟩ := verifySignature_sound hv
    subst hpay
    constructor
    · unfold acceptedOK
      have h3 : (t.segs != 3) = false := by simpa using hsegs
      simp only [h3, hjws, hsig, hmid, hc0]
      have hallowed : (allowed algs).contains s.Header.Algorithm = true := by
        simp [hsig] at hall
        simpa [allowed, toJoseSignatureAlgorithms] using hall
      have hany : (ks.keys.any fun k => justifies ks j0 s k) = true := by
        simp only [List.any_eq_true]
        refine ⟨k, ?_, hjust⟩
        simp only [justifies, Bool.and_eq_true, List.contains_eq_mem, decide_eq_true_eq] at hjust
        exact hjust.1.1
      have hb : (p0.bytes != j0.payload.bytes) = false := by
        simp [Go.bytesEqual] at hbytes; simp [hbytes]
      have hallowed' : s.Header.Algorithm ∈ allowed algs := by simpa using hallowed
      simp [hallowed', hany, hb, ← hs, Claims.SetSignatureAlgorithm]
    · unfold ambiguous
      cases hk : ks.kind <;> simp only [hjws, hsig]
      simp only [Bool.and_eq_false_iff, decide_eq_false_iff_not]
      by_cases hkid : s.Header.KeyID = ""
      · right; intro hge; exact hamb ⟨hk, hkid, hge⟩
      · left; simpa using hkid
  · simp at hj


theorem rp_paths {now t v c} (h : VerifyIDToken now t v = .ok c) :
    ∃ p c0, ParseToken now t = .ok (p, c0) ∧ ∃ c1, CheckSignature now t p c0 v.SupportedSignAlgs v.KeySet = .ok c1 ∧ c1 = c := by
  unfold VerifyIDToken DecryptToken at h
  simp only [] at h
  repeat' (split at h <;> try (simp at h))
  all_goals (subst h; exact ⟨_, _, by assumption, _, by assumption, rfl⟩)

theorem opAccessToken_paths {now t v c} (h : OPVerifyAccessToken now t v = .ok c) :
    ∃ p c0, ParseToken now t = .ok (p, c0) ∧ ∃ c1, CheckSignature now t p c0 v.SupportedSignAlgs v.KeySet = .ok c1 ∧ c1 = c := by
  unfold OPVerifyAccessToken DecryptToken at h
  simp only [] at h
  repeat' (split at h <;> try (simp at h))
  all_goals (subst h; exact ⟨_, _, by assumption, _, by assumption, rfl⟩)

def _root_.HintOut.claims : HintOut → Claims
  | .valid c => c
  | .expired c _ => c

theorem idTokenHint_paths {now t v o} (h : VerifyIDTokenHint now t v = .ok o) :
    ∃ p c0, ParseToken now t = .ok (p, c0) ∧ ∃ c1, CheckSignature now t p c0 v.SupportedSignAlgs v.KeySet = .ok c1 ∧ c1 = o.claims := by
  unfold VerifyIDTokenHint DecryptToken at h
  simp only [] at h
  repeat' (split at h <;> try (simp at h))
  all_goals (subst h; exact ⟨_, _, by assumption, _, by assumption, rfl⟩)

/-- the key set a JWT-profile verifier uses for an assertion with issuer `iss` -/
def assertionKeySet (v : JWTProfileVerifier) (iss : String) : KeySet :=
  if Go.isNil v.keySet then Hand.jwtProfileKeySet v.Storage iss else v.keySet

theorem jwtAssertion_paths {now t v c} (h : VerifyJWTAssertion now t v = .ok c) :
    ∃ p c0, ParseToken now t = .ok (p, c0) ∧ ∃ c1, CheckSignature now t p c0 [] (assertionKeySet v c0.iss) = .ok c1 ∧ c1 = c := by
  unfold VerifyJWTAssertion at h
  simp only [] at h
  repeat' (split at h <;> try (simp at h))
  all_goals
    subst h
    refine ⟨_, _, by assumption, _, ?_, rfl⟩
    simp_all [assertionKeySet, Go.nil, Go.HasNil.nilv, Claims.Issuer]

/-- C02 for the RP ID-token verifier -/
theorem c02_rp (now : Int) (t : Token) (v : Verifier) :
    monitor v.SupportedSignAlgs v.KeySet t (VerifyIDToken now t v).toOption = none := by
  cases h : VerifyIDToken now t v with
  | error e => rfl
  | ok c =>
    obtain ⟨p, c0, hp, c1, hs, rfl⟩ := rp_paths h
    have := parse_and_signature_sound hp hs
    simp [monitor, Except.toOption, this.1, this.2]

/-- C02 for the OP access-token verifier -/
theorem c02_accessToken (now : Int) (t : Token) (v : Verifier) :
    monitor v.SupportedSignAlgs v.KeySet t (OPVerifyAccessToken now t v).toOption = none := by
  cases h : OPVerifyAccessToken now t v with
  | error e => rfl
  | ok c =>
    obtain ⟨p, c0, hp, c1, hs, rfl⟩ := opAccessToken_paths h
    have := parse_and_signature_sound hp hs
    simp [monitor, Except.toOption, this.1, this.2]

/-- C02 for the id_token_hint verifier (claims are handed back for valid AND for expired hints) -/
theorem c02_idTokenHint (now : Int) (t : Token) (v : Verifier) :
    monitor v.SupportedSignAlgs v.KeySet t ((VerifyIDTokenHint now t v).toOption.map HintOut.claims) = none := by
  cases h : VerifyIDTokenHint now t v with
  | error e => rfl
  | ok o =>
    obtain ⟨p, c0, hp, c1, hs, hc⟩ := idTokenHint_paths h
    have := parse_and_signature_sound hp hs
    simp [monitor, Except.toOption, ← hc, this.1, this.2]

/-- C02 for JWT-profile assertions: default allow-list, keys of the client named as issuer -/
theorem c02_assertion (now : Int) (t : Token) (v : JWTProfileVerifier) :
    ∀ c, VerifyJWTAssertion now t v = .ok c →
      ∃ iss, payloadIssuer t = some iss ∧ monitor [] (assertionKeySet v iss) t (some c) = none := by
  intro c h
  obtain ⟨p, c0, hp, c1, hs, rfl⟩ := jwtAssertion_paths h
  have := parse_and_signature_sound hp hs
  refine ⟨c0.iss, ?_, by simp [monitor, this.1, this.2]⟩
  unfold ParseToken at hp
  repeat' (split at hp <;> try (simp at hp))
  simp_all [payloadIssuer]


/-! ### non-vacuity and why the payload comparison is needed -/
section examples
def exKeyA : JWK := { KeyID := "a", Use := "sig", kty := .rsa, keyNo := 1 }
def exKeyB : JWK := { KeyID := "", Use := "", kty := .rsa, keyNo := 2 }
def exKeyEnc : JWK := { KeyID := "e", Use := "enc", kty := .rsa, keyNo := 3 }
def exC : Claims := { iss := "https://op", sub := "u", aud := ["rp"], exp := 2000000600, iat := 2000000000 }
def exP : Payload := { bytes := 1, claims := some exC }
def exEvil : Payload := { bytes := 2, claims := some { exC with sub := "admin" } }
def exH : JHeader := { Algorithm := "RS256", KeyID := "a" }
def exS : JSig := { Header := exH, signer := some 1, signedAlg := "RS256", signedBytes := 1, signedHdr := exH }
def exT : Token := { segs := 3, middle := some exP, jws := some { Signatures := [exS], payload := exP } }
/-- JSON-serialisation smuggling: go-jose sees the genuinely signed payload, `ParseToken` another one -/
def exSmuggled : Token := { exT with middle := some exEvil }
def exKS : KeySet := { kind := .published, keys := [exKeyEnc, exKeyA, exKeyB] }
def exVv : Verifier := { Issuer := "https://op", ClientID := "rp", KeySet := exKS }

example : (VerifyIDToken (2000000100 * Go.second) exT exVv).toOption = some (exC.SetSignatureAlgorithm "RS256") := by decide
example : acceptedOK [] exKS exT (exC.SetSignatureAlgorithm "RS256") = none := by decide
-- the signature of the smuggled token verifies; only the byte comparison stops it
example : (exKS.VerifySignature { Signatures := [exS], payload := exP }).toOption = some exP := by decide
example : (VerifyIDToken (2000000100 * Go.second) exSmuggled exVv).toOption = none := by decide
example : acceptedOK [] exKS exSmuggled { exC with sub := "admin" } = some "payload-not-the-signed-one" := by decide
-- alg=none / HS256 never fit a key type, whatever the allow-list says
example : ∀ kty, algFits kty "none" = false ∧ algFits kty "HS256" = false := by intro kty; cases kty <;> decide
-- an `enc` key is never selected, two kid-less candidates are reported as ambiguous
example : (FindMatchingKey "e" "sig" "RS256" [exKeyEnc, exKeyA]).toOption = none := by
  rw [findMatchingKey_eq_spec]; decide
example : FindMatchingKey "" "sig" "RS256" exKS.keys = .error "ErrKeyMultiple" :=
  findMatchingKey_ambiguous (by decide)
end examples

end C02
