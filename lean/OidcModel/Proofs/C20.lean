/-
  C20 — shared instances are race-free and isolated: theorems about the write-set facts that `factgen`
  regenerates from the Go source on every run (`Gen.facts`).

  Shape (DESIGN §4 C20, §5):
   * the generic theorems of `Proofs/Footprint.lean` hold for ALL programs (any sequence of constructions with any
     options and of API calls on any instances) and ALL interleavings (any number of goroutines, any schedule);
   * their hypotheses are `decide`d here on the generated lists.  The hypotheses are stated as EXACT lists:
     `hidden_exact`, `undisciplined_exact`.  A new hidden write, a dropped eager initialisation, a lock that no longer
     covers a write, … changes the generated list, the `decide` fails and the error names the list (and through it
     the site); a repaired finding also changes the list.
   * The findings F-C20a, b, c, d, f, g are repaired in the source (Model/C20Known.lean): no package-level variable
     is written by any program (`c20_package_defaults_unchanged`, full strength), and of the caller-supplied objects
     only the spare capacity of option / audience slices (class E) and the call-local JWKS decode target remain
     excluded (`c20_supplied_objects_unchanged`, the `…_partial` theorems).
-/
import OidcModel.Proofs.Footprint
import OidcModel.Generated.Footprint
import OidcModel.Spec.C20
import OidcModel.Model.C20Known
namespace C20
open Footprint

/-- the source minus the sites above: what the race-freedom theorem is about -/
def rest : Facts := Gen.facts.drop knownUnsync auditedReads

/-! ## hypotheses decided on the generated lists -/

/- diagnostics for the build log (empty lists on the audited source): when one of the `…_exact` theorems below fails,
   these lines name the write sites that are new, or the audited entries that no longer exist. -/
#eval IO.println s!"C20-diagnostic new shared writes: {((hidden Gen.facts).filter fun p => !knownHidden.contains p).map fun p => (p.1, p.2.name)}"
#eval IO.println s!"C20-diagnostic new undisciplined sites: {(undisciplinedSites Gen.facts).filter fun p => !knownUnsync.contains p} reads: {(undisciplinedReads Gen.facts).filter fun p => !auditedReads.contains p}"
#eval IO.println s!"C20-diagnostic audited entries without a site: {(knownHidden.filter fun p => !(hidden Gen.facts).contains p).map fun p => (p.1, p.2.name)} {knownUnsync.filter fun p => !(undisciplinedSites Gen.facts).contains p}"

/-- the shared cells (package-level variables, caller-supplied objects) the library may write are EXACTLY the audited
    ones.  A new hidden write breaks this proof. -/
theorem hidden_exact : sameSet (hidden Gen.facts) knownHidden = true := by decide +kernel

/-- the write sites / guarded-field reads that fail the discipline check are EXACTLY the audited ones.
    Dropping an eager initialisation from a constructor, writing a field outside its mutex, … breaks this proof. -/
theorem undisciplined_exact :
    sameSet (undisciplinedSites Gen.facts) knownUnsync = true ∧ sameSet (undisciplinedReads Gen.facts) auditedReads = true := by decide +kernel

theorem rest_disciplined : disciplined rest = true := by decide +kernel

/-- "RP constructors pre-initialise lazily created fields": every `if x.f == nil { x.f = … }` of an instance type is
    executed by every constructor of that type -/
theorem lazy_fields_preinitialised :
    (Gen.facts.sites.filter fun s => s.guard == .ifNil && !lazyForm Gen.facts s) = [] := by decide +kernel

/-- "Provider holds only read-only configuration after NewProvider": no method of `op.Provider` writes at all -/
theorem provider_read_only :
    (Gen.facts.sites.filter fun s => apiPhase s && (siteTy s == "op.Provider")) = [] := by decide +kernel

/-! ## the property theorems -/

/-- **C20, defaults and supplied objects (partial)**: for EVERY program — any order of constructing providers, relying
    parties, resource servers, token exchangers and key sets with any options, interleaved with any API calls on any of
    them — every package-level variable and every caller-supplied object other than the audited cells
    (class E: spare capacity of option / audience slices; the call-local JWKS decode target) has, after the program,
    exactly the value it had before. -/
theorem c20_globals_unchanged_partial (prog : List Step) (m m' : Mem) (h : RunRel Gen.facts prog m m')
    (c : Cell) (hs : c.shared = true) (hk : c.norm ∉ knownCells) : m' c = m c := by
  apply run_shared_frame Gen.facts prog m m' h c hs
  intro hmem
  apply hk
  obtain ⟨p, hp, hpc⟩ := List.mem_map.mp hmem
  have hx := hidden_exact
  simp only [sameSet, Bool.and_eq_true, List.all_eq_true] at hx
  have := hx.1 p hp
  exact List.mem_map.mpr ⟨p, by simpa using this, hpc⟩

/-- no audited cell is a package-level variable -/
theorem knownCells_no_global (g : String) (p : List String) : Cell.global g p ∉ knownCells := by
  simp [knownCells, knownHidden, knownE, auditedHidden]

/-- **C20, package-level defaults (full strength)**: for EVERY program — any order of constructing providers (with any
    `WithCustom*Endpoint(s)` options), relying parties, resource servers, token exchangers and key sets, interleaved with
    any API calls (including `EndSession` / `RevokeToken`) — EVERY package-level variable of the library
    (`op.DefaultEndpoints`, `httphelper.DefaultHTTPClient`, …) has, after the program, exactly the value it had before.
    No exclusion. -/
theorem c20_package_defaults_unchanged (prog : List Step) (m m' : Mem) (h : RunRel Gen.facts prog m m')
    (g : String) (p : List String) : m' (.global g p) = m (.global g p) :=
  c20_globals_unchanged_partial prog m m' h (.global g p) rfl (knownCells_no_global g p)

/-- no audited cell is a closure-captured variable -/
theorem knownCells_no_captured (k : Nat) (o v : String) (p : List String) : Cell.captured k o v p ∉ knownCells := by
  simp [knownCells, knownHidden, knownE, auditedHidden]

/-- **C20, closure-captured state (full strength)**: for EVERY program, every variable captured by a closure inside an
    option / issuer-factory value — whichever value, made by whichever library function, handed to however many
    constructions in whatever order — has, after the program, exactly the value it had before: no construction and no
    API call writes state that lives in a value shared between constructions.  No exclusion. -/
theorem c20_captured_state_unchanged (prog : List Step) (m m' : Mem) (h : RunRel Gen.facts prog m m')
    (k : Nat) (o v : String) (p : List String) : m' (.captured k o v p) = m (.captured k o v p) :=
  c20_globals_unchanged_partial prog m m' h (.captured k o v p) rfl (knownCells_no_captured 0 o v p)

/-- the element types of the slices whose spare capacity may be written (class E) and the call-local decode target -/
def exemptTypes : List String := ["[]rp.VerifierOption", "[]string", "[]op.ServerOption", "rp.jsonWebKeySet"]

/-- **C20, caller-supplied objects**: for every program, every object handed in by a caller — the `*http.Client`
    (also the one reached through `caller.HttpClient()`), the `*oauth2.Config`, a `DeviceAuthorizationState`, a `[]byte` —
    is unchanged, with the only exception of the slice types of class E and the decode target (`exemptTypes`). -/
theorem c20_supplied_objects_unchanged (prog : List Step) (m m' : Mem) (h : RunRel Gen.facts prog m m')
    (t : String) (p : List String) (ht : t ∉ exemptTypes) : m' (.supplied t p) = m (.supplied t p) := by
  apply c20_globals_unchanged_partial prog m m' h (.supplied t p) rfl
  intro hmem
  apply ht
  simp [knownCells, knownHidden, knownE, auditedHidden, Cell.norm] at hmem
  simp only [exemptTypes, List.mem_cons]
  rcases hmem with h | h | h | h <;> simp [h.1]

/-- **C20, isolation (partial)**: a step that constructs or uses instance `i` changes no field of any other instance `j`,
    no package-level variable, and no caller-supplied object outside the audited cells (class E) — so whatever another
    instance reads is unchanged. -/
theorem c20_instances_isolated_partial (st : Step) (m m' : Mem) (h : StepRel Gen.facts st m m') (c : Cell)
    (hc : (∃ j t f, c = .own j t f ∧ j ≠ st.inst.id) ∨ (c.shared = true ∧ c.norm ∉ knownCells)) : m' c = m c := by
  rcases hc with ⟨j, t, f, rfl, hj⟩ | ⟨hs, hk⟩
  · exact own_cells_of_step Gen.facts st m m' h j t f hj
  · exact c20_globals_unchanged_partial [st] m m' (.cons h (.nil m')) c hs hk

/-- **C20, race freedom (partial)**: for every pool of goroutines, each running any sequence of constructions and API
    calls on any (shared) instances, and for every schedule, no data-race state is reachable — for the source minus
    the audited sites (`rest`).  Race freedom is derived from the extracted discipline (read-only after construction,
    eager initialisation of lazy fields, writes and reads of guarded fields under the instance's mutex); the Go memory
    model itself is not modelled. -/
theorem c20_race_free_partial (threads : List (List Step)) (p : Pool)
    (hr : Reach (initPool (threads.map (threadSegs rest))) p) : ¬ Race p :=
  race_free_of_disciplined rest rest_disciplined threads p hr

/-- the model's own observation of a step -/
def modelObs (F : Facts) (st : Step) : Obs :=
  let cs := (stepCells F st).filter Cell.shared
  { globalsChanged := (cs.filter fun c => match c with | .global .. => true | _ => false).map Cell.name,
    suppliedChanged := (cs.filter fun c => match c with | .supplied .. => true | _ => false).map Cell.name,
    behaviourChanged := [], othersChanged := [],
    -- state captured inside a shared option / issuer-factory value: every other holder of the value behaves differently
    instanceBehaviourChanged := (cs.filter fun c => match c with | .captured .. => true | _ => false).map Cell.name,
    races := 0, panicked := false }

/-- the model satisfies the monitor on every step that touches no shared cell -/
theorem c20_model_satisfies_monitor (F : Facts) (st : Step) (h : (stepCells F st).filter Cell.shared = []) :
    monitor (modelObs F st) = none := by
  simp [modelObs, monitor, h]

/-- the model never observes a changed package-level default, for any step (this was F-C20a / F-C20b) -/
theorem c20_model_never_changes_defaults (st : Step) : (modelObs Gen.facts st).globalsChanged = [] := by
  simp only [modelObs, List.map_eq_nil_iff, List.filter_eq_nil_iff, List.mem_filter]
  rintro c ⟨hc, hs⟩
  have hmem := stepCells_hidden Gen.facts st c hc hs
  have hx := hidden_exact
  simp only [sameSet, Bool.and_eq_true, List.all_eq_true] at hx
  obtain ⟨p, hp, hpc⟩ := List.mem_map.mp hmem
  have hk : c.norm ∈ knownCells := List.mem_map.mpr ⟨p, by simpa using hx.1 p hp, hpc⟩
  cases c with
  | global g q => exact absurd hk (knownCells_no_global g q)
  | supplied t q => simp
  | own i t f => simp
  | captured k o v q => simp

/-- the model never predicts that a step changes how ANOTHER holder of a shared option / issuer-factory value behaves:
    no step writes a closure-captured cell of a shared value (this is what seeded change C20-D breaks) -/
theorem c20_model_never_changes_instance_behaviour (st : Step) : (modelObs Gen.facts st).instanceBehaviourChanged = [] := by
  simp only [modelObs, List.map_eq_nil_iff, List.filter_eq_nil_iff, List.mem_filter]
  rintro c ⟨hc, hs⟩
  have hmem := stepCells_hidden Gen.facts st c hc hs
  have hx := hidden_exact
  simp only [sameSet, Bool.and_eq_true, List.all_eq_true] at hx
  obtain ⟨p, hp, hpc⟩ := List.mem_map.mp hmem
  have hk : c.norm ∈ knownCells := List.mem_map.mpr ⟨p, by simpa using hx.1 p hp, hpc⟩
  cases c with
  | global g q => simp
  | supplied t q => simp
  | own i t f => simp
  | captured k o v q => exact absurd hk (knownCells_no_captured 0 o v q)

/-! ## the repaired findings: the steps that used to violate the property touch no shared cell any more
    (concrete regression facts on the regenerated lists; reverting a repair in the source makes the corresponding
    `decide` — and `hidden_exact` — fail) -/

def provCustom : Inst := { id := 2, ty := "op.Provider", entry := "op.NewProvider", opts := ["op.WithCustomAuthEndpoint"] }
def provCustomAll : Inst :=
  { id := 2, ty := "op.Provider", entry := "op.NewProvider", opts := ["op.WithCustomEndpoints", "op.WithCustomIntrospectionEndpoint", "op.WithCustomDeviceAuthorizationEndpoint"] }
def rpDefault : Inst := { id := 1, ty := "rp.relyingParty", entry := "rp.NewRelyingPartyOIDC", opts := [] }
def rpOwnClient : Inst := { id := 1, ty := "rp.relyingParty", entry := "rp.NewRelyingPartyOIDC", opts := ["rp.WithHTTPClient"] }
def rpOAuth : Inst := { id := 1, ty := "rp.relyingParty", entry := "rp.NewRelyingPartyOAuth", opts := ["rp.WithAuthStyle"] }
def rpVOpts : Inst := { id := 1, ty := "rp.relyingParty", entry := "rp.NewRelyingPartyOIDC", opts := ["rp.WithVerifierOpts", "rp.WithSigningAlgsFromDiscovery"] }
def devState : Inst := { id := 3, ty := "op.Provider", entry := "op.NewProvider", opts := [] }

/-- F-C20a repaired: a provider with custom endpoints writes only its own `endpoints` -/
theorem c20a_repaired :
    (stepCells Gen.facts ⟨.construct, "op.NewProvider", provCustom⟩).filter Cell.shared = [] ∧
    (stepCells Gen.facts ⟨.construct, "op.NewProvider", provCustomAll⟩).filter Cell.shared = [] ∧
    Cell.own 2 "op.Provider" "endpoints" ∈ stepCells Gen.facts ⟨.construct, "op.NewProvider", provCustom⟩ := by decide +kernel

/-- F-C20b repaired: logout / revocation calls write neither the package default client nor the caller's client -/
theorem c20b_repaired :
    stepCells Gen.facts ⟨.call, "rp.EndSession", rpDefault⟩ = [] ∧
    stepCells Gen.facts ⟨.call, "rp.RevokeToken", rpOwnClient⟩ = [] ∧
    stepCells Gen.facts ⟨.call, "client.CallEndSessionEndpoint", rpOwnClient⟩ = [] ∧
    stepCells Gen.facts ⟨.call, "client.CallRevokeEndpoint", rpOwnClient⟩ = [] := by decide +kernel

/-- F-C20c repaired: the getter writes nothing -/
theorem c20c_repaired :
    stepCells Gen.facts ⟨.call, "op.DeviceAuthorizationState.GetAudience", devState⟩ = [] := by decide +kernel

/-- F-C20d repaired: `NewRelyingPartyOAuth` with `WithAuthStyle` writes the auth style into its own copy of the config -/
theorem c20d_repaired :
    (stepCells Gen.facts ⟨.construct, "rp.NewRelyingPartyOAuth", rpOAuth⟩).filter Cell.shared = [] ∧
    Cell.own 1 "rp.relyingParty" "oauthConfig" ∈ stepCells Gen.facts ⟨.construct, "rp.NewRelyingPartyOAuth", rpOAuth⟩ := by decide +kernel

/-- F-C20f / F-C20g repaired: `ConcatenateJSON` and the option returned by `WithIssuerFromCustomHeaders` write nothing the
    caller owns -/
theorem c20fg_repaired :
    stepCells Gen.facts ⟨.call, "http.ConcatenateJSON", devState⟩ = [] ∧
    stepCells Gen.facts ⟨.call, "op.WithIssuerFromCustomHeaders$ret", devState⟩ = [] ∧
    stepCells Gen.facts ⟨.call, "op.WithIssuerFromCustomHeaders", devState⟩ = [] := by decide +kernel

/-! ## witnesses: what is still excluded really is written (class E, DESIGN §5) -/

/-- class E: a constructor appends to a slice that may share its backing array with the caller's slice -/
theorem c20e_witness :
    Cell.supplied "[]rp.VerifierOption" ["[]"] ∈ stepCells Gen.facts ⟨.construct, "rp.NewRelyingPartyOIDC", rpVOpts⟩ := by decide +kernel

/-- the audited sites really make the unrestricted source fail the discipline check -/
theorem c20_full_discipline_fails : disciplined Gen.facts = false := by decide +kernel

/-! ## closure-captured state: what the theorems above exclude, made concrete (seeded change C20-D)

    `factsD` = the regenerated facts plus the two write sites that factgen extracts from the C20-D variant of
    `issuerFromForwardedOrHost` (the closure returned by `op.IssuerFromHost` / `op.IssuerFromForwardedOrHost` stores
    `path` and `allowInsecure` in the `issuerConfig` captured by the factory). -/

def siteD (f : String) : WriteSite :=
  { file := "pkg/op/config.go", fn := "op.issuerFromForwardedOrHost$ret", meth := "issuerFromForwardedOrHost", line := 112, lhs := "c." ++ f,
    root := .captured "op.issuerFromForwardedOrHost" "c" 0, path := [f], op := .assign, phase := .func, guard := .none }

def factsD : Facts :=
  { Gen.facts with
    sites := Gen.facts.sites ++ [siteD "path", siteD "allowInsecure"],
    reach := [("op.IssuerFromHost", ["op.issuerFromForwardedOrHost"]), ("op.IssuerFromForwardedOrHost", ["op.issuerFromForwardedOrHost"]),
              ("op.issuerFromForwardedOrHost", ["op.issuerFromForwardedOrHost"]),
              ("op.NewDynamicOpenIDProvider", ["op.NewProvider", "op.issuerFromForwardedOrHost"])] ++ Gen.facts.reach }

def provInsecureShared : Inst :=
  { id := 1, ty := "op.Provider", entry := "op.NewProvider", opts := ["op.WithAllowInsecure"], vals := [("op.IssuerFromHost", 1)] }
def provSecureShared : Inst := { id := 2, ty := "op.Provider", entry := "op.NewProvider", opts := [], vals := [("op.IssuerFromHost", 1)] }
def provSecureOwn : Inst := { id := 3, ty := "op.Provider", entry := "op.NewProvider", opts := [], vals := [("op.IssuerFromHost", 7)] }
def provFresh : Inst := { id := 4, ty := "op.Provider", entry := "op.NewDynamicOpenIDProvider", opts := [] }

/-- with C20-D the audited list is no longer exact: `hidden_exact` (and with it every frame theorem) does not go through -/
example : sameSet (hidden factsD) knownHidden = false := by decide +kernel
example : ("op.issuerFromForwardedOrHost$ret", Cell.captured 0 "op.issuerFromForwardedOrHost" "c" ["allowInsecure"]) ∈ hidden factsD := by decide +kernel
example : ("op.issuerFromForwardedOrHost$ret", "c.allowInsecure") ∈ undisciplinedSites factsD := by decide +kernel
/-- both constructions from value #1 write the SAME cell, a construction from value #7 another one: a cell captured at
    factory level is shared by exactly the constructions using that factory value -/
example : Cell.captured 1 "op.issuerFromForwardedOrHost" "c" ["allowInsecure"] ∈ stepCells factsD ⟨.construct, "op.NewProvider", provInsecureShared⟩ ∧
          Cell.captured 1 "op.issuerFromForwardedOrHost" "c" ["allowInsecure"] ∈ stepCells factsD ⟨.construct, "op.NewProvider", provSecureShared⟩ ∧
          Cell.captured 1 "op.issuerFromForwardedOrHost" "c" ["allowInsecure"] ∉ stepCells factsD ⟨.construct, "op.NewProvider", provSecureOwn⟩ ∧
          Cell.captured 7 "op.issuerFromForwardedOrHost" "c" ["allowInsecure"] ∈ stepCells factsD ⟨.construct, "op.NewProvider", provSecureOwn⟩ := by decide +kernel
/-- a construction that makes its own factory value owns the captured cell: nothing shared is touched -/
example : Cell.own 4 "closure:op.issuerFromForwardedOrHost" "c" ∈ stepCells factsD ⟨.construct, "op.NewDynamicOpenIDProvider", provFresh⟩ ∧
          (stepCells factsD ⟨.construct, "op.NewDynamicOpenIDProvider", provFresh⟩).filter Cell.shared = [] := by decide +kernel
/-- the monitor rejects the model's own observation of the second construction from a shared value under C20-D … -/
example : monitor (modelObs factsD ⟨.construct, "op.NewProvider", provSecureShared⟩) = some "instance-behaviour-changed" := by decide +kernel
/-- … and accepts it for the regenerated facts of the current source (same program) -/
example : monitor (modelObs Gen.facts ⟨.construct, "op.NewProvider", provSecureShared⟩) = none := by decide +kernel
/-- an observed behaviour change of an earlier instance is a violation -/
example : monitor { globalsChanged := [], suppliedChanged := [], behaviourChanged := [], othersChanged := [],
                    instanceBehaviourChanged := ["#1:op.Provider.discovery"], races := 0, panicked := false } = some "instance-behaviour-changed" := by decide
/-- a variable captured per construction (owner = a function literal, depth 1, or a constructor) is instance-owned whatever
    values the instance shares -/
example : siteCells factsD provInsecureShared { siteD "x" with root := .captured "op.issuerFromForwardedOrHost$ret" "allowInsecure" 1 } =
            [.own 1 "closure:op.issuerFromForwardedOrHost$ret" "allowInsecure"] ∧
          siteCells factsD provInsecureShared { siteD "x" with root := .captured "op.NewProvider" "o" 0 } = [.own 1 "closure:op.NewProvider" "o"] := by decide +kernel

/-! ## non-vacuity -/

/-- a provider with defaults / harmless options, an RP with its own client: no shared cell is touched, the monitor is satisfied -/
example : monitor (modelObs Gen.facts ⟨.construct, "op.NewProvider", { provCustom with opts := ["op.WithAllowInsecure", "op.WithLogger"] }⟩) = none := by decide +kernel
example : monitor (modelObs Gen.facts ⟨.construct, "rp.NewRelyingPartyOIDC", rpOwnClient⟩) = none := by decide +kernel
example : monitor (modelObs Gen.facts ⟨.call, "rp.CodeExchange", rpDefault⟩) = none := by decide +kernel
/-- the formerly violating steps (F-C20a, b, d) now satisfy the monitor -/
example : monitor (modelObs Gen.facts ⟨.construct, "op.NewProvider", provCustom⟩) = none := by decide +kernel
example : monitor (modelObs Gen.facts ⟨.call, "rp.EndSession", rpDefault⟩) = none := by decide +kernel
example : monitor (modelObs Gen.facts ⟨.construct, "rp.NewRelyingPartyOAuth", rpOAuth⟩) = none := by decide +kernel
/-- … and the monitor rejects the model's own observation of a class-E step, and an observed change of a package default -/
example : monitor (modelObs Gen.facts ⟨.construct, "rp.NewRelyingPartyOIDC", rpVOpts⟩) = some "supplied-object-changed" := by decide +kernel
example : monitor { globalsChanged := ["op.DefaultEndpoints.Authorization"], suppliedChanged := [], behaviourChanged := [], othersChanged := [], races := 0, panicked := false } = some "package-default-changed" := by decide
/-- logout and revocation no longer take part in a race with the other calls of the same relying party -/
example : mayRace rest [⟨.call, "rp.EndSession", rpDefault⟩, ⟨.call, "rp.RevokeToken", rpDefault⟩, ⟨.call, "rp.CodeExchange", rpDefault⟩] = false := by decide +kernel
/-- the lazily initialised RP fields are not written by API calls (constructor initialised them), the key-set cache is written under its mutex -/
example : mayRace rest [⟨.call, "rp.CodeExchange", rpDefault⟩, ⟨.call, "rp.Userinfo", rpDefault⟩] = false := by decide +kernel
example : (stepSegs rest ⟨.call, "rp.CodeExchange", rpDefault⟩).length > 0 := by decide +kernel
/-- an RP whose constructor did not call `IDTokenVerifier()` would race on first use -/
example : mayRace { rest with ctors := rest.ctors.map fun c => { c with eager := c.eager.filter (· != "IDTokenVerifier") } }
    [⟨.call, "rp.CodeExchange", rpDefault⟩] = true := by decide +kernel
/-- the machine does have races: two goroutines writing one unguarded cell -/
example : Race (initPool [[.free ⟨.global "g" [], true⟩], [.free ⟨.global "g" [], false⟩]]) :=
  ⟨0, 1, ⟨.global "g" [], true⟩, ⟨.global "g" [], false⟩, none, none, by decide, rfl, rfl, rfl, Or.inl rfl⟩

end C20
