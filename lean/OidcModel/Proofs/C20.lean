/-
  C20 — shared instances are race-free and isolated: theorems about the write-set facts that `factgen`
  regenerates from the Go source on every run (`Gen.facts`).

  Shape (DESIGN §4 C20, §5):
   * the generic theorems of `Proofs/Footprint.lean` hold for ALL programs (any sequence of constructions with any
     options and of API calls on any instances) and ALL interleavings (any number of goroutines, any schedule);
   * their hypotheses are `decide`d here on the generated lists.  The unchanged source has hidden writes
     (F-C20a…e), so the hypotheses are stated as EXACT lists: `hidden_exact`, `undisciplined_exact`.  A new hidden
     write, a dropped eager initialisation, a lock that no longer covers a write, … changes the generated list,
     the `decide` fails and the error names the list (and through it the site); a repaired finding also changes the
     list, which forces the `…_partial` theorems to be strengthened and the witness theorems to be deleted.
-/
import OidcModel.Proofs.Footprint
import OidcModel.Generated.Footprint
import OidcModel.Spec.C20
import OidcModel.Model.C20Known
namespace C20
open Footprint

/-- the source minus the sites above: what the race-freedom theorem is about -/
def rest : Facts := Gen.facts.drop knownUnsync auditedReads

/-! ## hypotheses decided on the generated lists -/

/- diagnostics for the build log (empty lists on the audited source): when one of the `…_exact` theorems below fails,
   these lines name the write sites that are new, or the audited entries that no longer exist. -/
#eval IO.println s!"C20-diagnostic new shared writes: {((hidden Gen.facts).filter fun p => !knownHidden.contains p).map fun p => (p.1, p.2.name)}"
#eval IO.println s!"C20-diagnostic new undisciplined sites: {(undisciplinedSites Gen.facts).filter fun p => !knownUnsync.contains p} reads: {(undisciplinedReads Gen.facts).filter fun p => !auditedReads.contains p}"
#eval IO.println s!"C20-diagnostic audited entries without a site: {(knownHidden.filter fun p => !(hidden Gen.facts).contains p).map fun p => (p.1, p.2.name)} {knownUnsync.filter fun p => !(undisciplinedSites Gen.facts).contains p}"

/-- the shared cells (package-level variables, caller-supplied objects) the library may write are EXACTLY the audited
    ones.  A new hidden write breaks this proof. -/
theorem hidden_exact : sameSet (hidden Gen.facts) knownHidden = true := by decide +kernel

/-- the write sites / guarded-field reads that fail the discipline check are EXACTLY the audited ones.
    Dropping an eager initialisation from a constructor, writing a field outside its mutex, … breaks this proof. -/
theorem undisciplined_exact :
    sameSet (undisciplinedSites Gen.facts) knownUnsync = true ∧ sameSet (undisciplinedReads Gen.facts) auditedReads = true := by decide +kernel

theorem rest_disciplined : disciplined rest = true := by decide +kernel

/-- "RP constructors pre-initialise lazily created fields": every `if x.f == nil { x.f = … }` of an instance type is
    executed by every constructor of that type -/
theorem lazy_fields_preinitialised :
    (Gen.facts.sites.filter fun s => s.guard == .ifNil && !lazyForm Gen.facts s) = [] := by decide +kernel

/-- "Provider holds only read-only configuration after NewProvider": no method of `op.Provider` writes at all -/
theorem provider_read_only :
    (Gen.facts.sites.filter fun s => apiPhase s && (siteTy s == "op.Provider")) = [] := by decide +kernel

/-! ## the property theorems -/

/-- **C20, defaults and supplied objects (partial)**: for EVERY program — any order of constructing providers, relying
    parties, resource servers, token exchangers and key sets with any options, interleaved with any API calls on any of
    them — every package-level variable and every caller-supplied object other than the audited cells
    (F-C20a…e) has, after the program, exactly the value it had before. -/
theorem c20_globals_unchanged_partial (prog : List Step) (m m' : Mem) (h : RunRel Gen.facts prog m m')
    (c : Cell) (hs : c.shared = true) (hk : c ∉ knownCells) : m' c = m c := by
  apply run_shared_frame Gen.facts prog m m' h c hs
  intro hmem
  apply hk
  obtain ⟨p, hp, rfl⟩ := List.mem_map.mp hmem
  have hx := hidden_exact
  simp only [sameSet, Bool.and_eq_true, List.all_eq_true] at hx
  have := hx.1 p hp
  exact List.mem_map.mpr ⟨p, by simpa using this, rfl⟩

/-- **C20, isolation (partial)**: a step that constructs or uses instance `i` changes no field of any other instance `j`,
    and (previous theorem) no shared cell outside the audited ones — so whatever another instance reads is unchanged. -/
theorem c20_instances_isolated_partial (st : Step) (m m' : Mem) (h : StepRel Gen.facts st m m') (c : Cell)
    (hc : (∃ j t f, c = .own j t f ∧ j ≠ st.inst.id) ∨ (c.shared = true ∧ c ∉ knownCells)) : m' c = m c := by
  rcases hc with ⟨j, t, f, rfl, hj⟩ | ⟨hs, hk⟩
  · exact own_cells_of_step Gen.facts st m m' h j t f hj
  · exact c20_globals_unchanged_partial [st] m m' (.cons h (.nil m')) c hs hk

/-- **C20, race freedom (partial)**: for every pool of goroutines, each running any sequence of constructions and API
    calls on any (shared) instances, and for every schedule, no data-race state is reachable — for the source minus
    the audited sites (`rest`).  Race freedom is derived from the extracted discipline (read-only after construction,
    eager initialisation of lazy fields, writes and reads of guarded fields under the instance's mutex); the Go memory
    model itself is not modelled. -/
theorem c20_race_free_partial (threads : List (List Step)) (p : Pool)
    (hr : Reach (initPool (threads.map (threadSegs rest))) p) : ¬ Race p :=
  race_free_of_disciplined rest rest_disciplined threads p hr

/-- the model's own observation of a step -/
def modelObs (F : Facts) (st : Step) : Obs :=
  let cs := (stepCells F st).filter Cell.shared
  { globalsChanged := (cs.filter fun c => match c with | .global .. => true | _ => false).map Cell.name,
    suppliedChanged := (cs.filter fun c => match c with | .supplied .. => true | _ => false).map Cell.name,
    behaviourChanged := [], othersChanged := [], races := 0, panicked := false }

/-- the model satisfies the monitor on every step that touches no shared cell -/
theorem c20_model_satisfies_monitor (F : Facts) (st : Step) (h : (stepCells F st).filter Cell.shared = []) :
    monitor (modelObs F st) = none := by
  simp [modelObs, monitor, h]

/-! ## witnesses: the full statement is FALSE for the unchanged source (DESIGN §5, F-C20a…e) -/

def provCustom : Inst := { id := 2, ty := "op.Provider", entry := "op.NewProvider", opts := ["op.WithCustomAuthEndpoint"] }
def rpDefault : Inst := { id := 1, ty := "rp.relyingParty", entry := "rp.NewRelyingPartyOIDC", opts := [] }
def rpOwnClient : Inst := { id := 1, ty := "rp.relyingParty", entry := "rp.NewRelyingPartyOIDC", opts := ["rp.WithHTTPClient"] }
def rpOAuth : Inst := { id := 1, ty := "rp.relyingParty", entry := "rp.NewRelyingPartyOAuth", opts := ["rp.WithAuthStyle"] }
def rpVOpts : Inst := { id := 1, ty := "rp.relyingParty", entry := "rp.NewRelyingPartyOIDC", opts := ["rp.WithVerifierOpts", "rp.WithSigningAlgsFromDiscovery"] }
def devState : Inst := { id := 3, ty := "op.Provider", entry := "op.NewProvider", opts := [] }

/-- F-C20a: creating a provider with a custom authorization endpoint writes the shared default -/
theorem c20a_witness :
    Cell.global "op.DefaultEndpoints" ["Authorization"] ∈ stepCells Gen.facts ⟨.construct, "op.NewProvider", provCustom⟩ := by decide +kernel

/-- F-C20b: a logout call writes `CheckRedirect` of the package default client / of the caller's client -/
theorem c20b_witness :
    Cell.global "http.DefaultHTTPClient" ["CheckRedirect"] ∈ stepCells Gen.facts ⟨.call, "rp.EndSession", rpDefault⟩ ∧
    Cell.supplied "http.Client" ["CheckRedirect"] ∈ stepCells Gen.facts ⟨.call, "rp.RevokeToken", rpOwnClient⟩ := by decide +kernel

/-- F-C20c: a getter writes the object it is called on -/
theorem c20c_witness :
    Cell.supplied "op.DeviceAuthorizationState" ["Audience"] ∈
      stepCells Gen.facts ⟨.call, "op.DeviceAuthorizationState.GetAudience", devState⟩ := by decide +kernel

/-- F-C20d / class E: constructors write caller-supplied objects -/
theorem c20de_witness :
    Cell.supplied "oauth2.Config" ["Endpoint", "AuthStyle"] ∈ stepCells Gen.facts ⟨.construct, "rp.NewRelyingPartyOAuth", rpOAuth⟩ ∧
    Cell.supplied "[]rp.VerifierOption" ["[]"] ∈ stepCells Gen.facts ⟨.construct, "rp.NewRelyingPartyOIDC", rpVOpts⟩ := by decide +kernel

/-- the audited sites really make the unrestricted source fail the discipline check -/
theorem c20_full_discipline_fails : disciplined Gen.facts = false := by decide +kernel

/-! ## non-vacuity -/

/-- a provider with defaults / harmless options, an RP with its own client: no shared cell is touched, the monitor is satisfied -/
example : monitor (modelObs Gen.facts ⟨.construct, "op.NewProvider", { provCustom with opts := ["op.WithAllowInsecure", "op.WithLogger"] }⟩) = none := by decide +kernel
example : monitor (modelObs Gen.facts ⟨.construct, "rp.NewRelyingPartyOIDC", rpOwnClient⟩) = none := by decide +kernel
example : monitor (modelObs Gen.facts ⟨.call, "rp.CodeExchange", rpDefault⟩) = none := by decide +kernel
/-- … and the monitor rejects the model's own observation of F-C20a -/
example : monitor (modelObs Gen.facts ⟨.construct, "op.NewProvider", provCustom⟩) = some "package-default-changed" := by decide +kernel
/-- the lazily initialised RP fields are not written by API calls (constructor initialised them), the key-set cache is written under its mutex -/
example : mayRace rest [⟨.call, "rp.CodeExchange", rpDefault⟩, ⟨.call, "rp.Userinfo", rpDefault⟩] = false := by decide +kernel
example : (stepSegs rest ⟨.call, "rp.CodeExchange", rpDefault⟩).length > 0 := by decide +kernel
/-- an RP whose constructor did not call `IDTokenVerifier()` would race on first use -/
example : mayRace { rest with ctors := rest.ctors.map fun c => { c with eager := c.eager.filter (· != "IDTokenVerifier") } }
    [⟨.call, "rp.CodeExchange", rpDefault⟩] = true := by decide +kernel
/-- the machine does have races: two goroutines writing one unguarded cell -/
example : Race (initPool [[.free ⟨.global "g" [], true⟩], [.free ⟨.global "g" [], false⟩]]) :=
  ⟨0, 1, ⟨.global "g" [], true⟩, ⟨.global "g" [], false⟩, none, none, by decide, rfl, rfl, rfl, Or.inl rfl⟩

end C20
