/-
  C17 (round 5, seeded C17-P) — the relying party the two handlers run on is one the library CONSTRUCTED.

  Up to round 4 every C17 theorem started from a relying-party value `rp : RP` with `rp.pkce` as a given, and the monitor was told
  `pkce := rp.pkce`.  "With PKCE enabled" in the property is what the APPLICATION configured (`rp.WithPKCE(..)` in the option list
  handed to the constructor), so a constructor that clears the flag (C17-P: when the discovered `code_challenge_methods_supported` is
  non-empty and lacks S256) made every theorem vacuously true about a relying party that no longer does PKCE.

  Here the regenerated constructors `GenC01.NewRelyingPartyOIDC` / `GenC01.NewRelyingPartyOAuth` and the regenerated `rp.Option`
  functions (Generated/RPConstruct.lean, the C01 slice's group, imported read-only with its characterisation lemmas
  `C01.applyAll_eq` / `C01.loopCtl_opts`) are composed with the regenerated GETTERS the handlers read the relying party through
  (Generated/RPGetters.lean, namespace GenC17: `IsPKCE`, `CookieHandler`, `OAuthConfig`, `Signer`, `Issuer`):

  for EVERY option list (any combination, any order, duplicates), EVERY world (= every answer of the discovery endpoint, every
  discovery document) a relying party that `NewRelyingPartyOIDC` hands out answers `IsPKCE() = true` iff `WithPKCE` is in the list,
  hands out the cookie handler of the last `WithPKCE` / `WithCookieHandler`, the client id / redirect URI / scopes of the constructor's
  arguments and the discovered authorization endpoint; composed with `c17_login_holds_configured` / `c17_callback_holds_configured`:
  the monitor, told what the APPLICATION configured, accepts every run of both handlers on the constructed relying party; in
  particular with `WithPKCE` in the list every redirect carries `code_challenge_method=S256` and the S256 challenge of the verifier in
  the signed pkce cookie of the same response.

  The model's discovery document (`RPCDiscoveryConfiguration`) has exactly the members the constructor reads on the unchanged tree; a
  constructor that reads another member (C17-P: `CodeChallengeMethodsSupported`) regenerates to a definition that does not elaborate.
-/
import OidcModel.Proofs.C01Construct
import OidcModel.Proofs.C17Keys
import OidcModel.Model.RPConstructC17
import OidcModel.GoTac

namespace C17Construct
open C17 C17Keys RPBrowser Go Hand

/-! ### characterisation lemmas of the regenerated getters -/

theorem isPKCE_eq (now : Int) (rp : RPCRelyingParty) : GenC17.IsPKCE now rp = rp.pkce := by go_char GenC17.IsPKCE
theorem cookieHandler_eq (now : Int) (rp : RPCRelyingParty) : GenC17.CookieHandler now rp = rp.cookieHandler := by
  go_char GenC17.CookieHandler
theorem oauthConfig_eq (now : Int) (rp : RPCRelyingParty) : GenC17.OAuthConfig now rp = rp.oauthConfig := by go_char GenC17.OAuthConfig
theorem signer_eq (now : Int) (rp : RPCRelyingParty) : GenC17.Signer now rp = rp.signer := by go_char GenC17.Signer
theorem issuer_eq (now : Int) (rp : RPCRelyingParty) : GenC17.Issuer now rp = rp.issuer := by go_char GenC17.Issuer

/-! ### what the constructors leave of what the handlers read -/

/-- the part of a relying party the two handlers read, after `NewRelyingPartyOIDC`: exactly what the option loop left (`rp1`), and
    the endpoints of the discovery document `d` -/
structure OIDCReads (rp1 : RPCRelyingParty) (d : RPCDiscoveryConfiguration) (rp : RPCRelyingParty) : Prop where
  pkce : rp.pkce = rp1.pkce
  cookieHandler : rp.cookieHandler = rp1.cookieHandler
  signer : rp.signer = rp1.signer
  issuer : rp.issuer = rp1.issuer
  clientID : rp.oauthConfig.ClientID = rp1.oauthConfig.ClientID
  clientSecret : rp.oauthConfig.ClientSecret = rp1.oauthConfig.ClientSecret
  redirectURL : rp.oauthConfig.RedirectURL = rp1.oauthConfig.RedirectURL
  scopes : rp.oauthConfig.Scopes = rp1.oauthConfig.Scopes
  authURL : rp.oauthConfig.Endpoint.AuthURL = d.AuthorizationEndpoint
  tokenURL : rp.oauthConfig.Endpoint.TokenURL = d.TokenEndpoint

/-- `NewRelyingPartyOIDC` (characterisation, the handlers' view): the option loop, discovery, and NOTHING the handlers read is
    touched afterwards except the two endpoints -/
theorem newRelyingPartyOIDC_reads (now : Int) (w : RPCWorld) (issuer clientID clientSecret redirectURI : String) (scopes : List String)
    (options : List RPCOption) (rp : RPCRelyingParty)
    (h : GenC01.NewRelyingPartyOIDC now w issuer clientID clientSecret redirectURI scopes options = .ok rp) :
    ∃ rp1 d, C01.applyAll options (C01.initOIDC issuer clientID clientSecret redirectURI scopes) = .ok rp1 ∧
      w.discover rp1.issuer rp1.httpClient rp1.DiscoveryEndpoint = .ok d ∧ OIDCReads rp1 d rp := by
  unfold GenC01.NewRelyingPartyOIDC C01.initOIDC at *
  simp only [] at h ⊢
  rw [C01.loopCtl_opts _ _ _ (by intro rp o; cases o rp <;> rfl)] at h
  generalize C01.applyAll options _ = r at h ⊢
  cases r with
  | error e0 => simp at h
  | ok rp1 =>
    simp only [] at h
    cases hd : w.discover rp1.issuer rp1.httpClient rp1.DiscoveryEndpoint with
    | error e1 => simp [hd] at h
    | ok d =>
      simp only [hd, C01.relyingPartyIDTokenVerifier_eq, C01.relyingPartyErrorHandler_eq, C01.relyingPartyUnauthorizedHandler_eq] at h
      refine ⟨rp1, d, rfl, hd, ?_⟩
      cases hu : rp1.useSigningAlgsFromDiscovery <;>
        (simp only [hu, Bool.not_false, Bool.not_true, Bool.false_eq_true, reduceIte, Except.ok.injEq] at h
         subst h
         constructor <;> simp [GenC01.GetEndpoints])

/-- the same for `NewRelyingPartyOAuth` (no discovery: the endpoints are the application's) -/
structure OAuthReads (rp1 rp : RPCRelyingParty) : Prop where
  pkce : rp.pkce = rp1.pkce
  cookieHandler : rp.cookieHandler = rp1.cookieHandler
  signer : rp.signer = rp1.signer
  clientID : rp.oauthConfig.ClientID = rp1.oauthConfig.ClientID
  redirectURL : rp.oauthConfig.RedirectURL = rp1.oauthConfig.RedirectURL
  scopes : rp.oauthConfig.Scopes = rp1.oauthConfig.Scopes
  authURL : rp.oauthConfig.Endpoint.AuthURL = rp1.oauthConfig.Endpoint.AuthURL

theorem newRelyingPartyOAuth_reads (now : Int) (config : RPCOAuthConfig) (options : List RPCOption) (rp : RPCRelyingParty)
    (h : GenC01.NewRelyingPartyOAuth now config options = .ok rp) :
    ∃ rp1, C01.applyAll options (C01.initOAuth config) = .ok rp1 ∧ OAuthReads rp1 rp := by
  unfold GenC01.NewRelyingPartyOAuth C01.initOAuth at *
  simp only [] at h ⊢
  rw [C01.loopCtl_opts _ _ _ (by intro rp o; cases o rp <;> rfl)] at h
  generalize C01.applyAll options _ = r at h ⊢
  cases r with
  | error e0 => simp at h
  | ok rp1 =>
    simp only [C01.relyingPartyIDTokenVerifier_eq, C01.relyingPartyErrorHandler_eq, C01.relyingPartyUnauthorizedHandler_eq,
      Except.ok.injEq] at h
    subst h
    exact ⟨rp1, rfl, by constructor <;> simp⟩

/-! ### what the APPLICATION configured -/

/-- PKCE is enabled by the application: `WithPKCE` occurs in its option list -/
def appPKCE (opts : List C01.ROptD) : Bool := opts.any (fun o => o.pkce?.isSome)

/-- the cookie handler the application configured: that of the last `WithPKCE` / `WithCookieHandler` -/
def appCookieHandler (opts : List C01.ROptD) : Option Nat := C01.lastOf C01.ROptD.cookie? opts none

theorem lastOf_pkce (opts : List C01.ROptD) (d : Bool) : C01.lastOf C01.ROptD.pkce? opts d = (d || appPKCE opts) := by
  induction opts generalizing d with
  | nil => simp [C01.lastOf_nil, appPKCE]
  | cons o os ih =>
    rw [C01.lastOf_cons, ih]
    cases o <;> simp [appPKCE, C01.ROptD.pkce?]

theorem appPKCE_of_mem (opts : List C01.ROptD) (h : Option Nat) (hm : C01.ROptD.pkce h ∈ opts) : appPKCE opts = true := by
  simp only [appPKCE, List.any_eq_true]
  exact ⟨_, hm, rfl⟩

/-- C17, construction (OIDC): for EVERY option list and EVERY world (whatever the discovery endpoint answers - every discovery
    document), what the handlers read of the relying party `NewRelyingPartyOIDC` hands out is what the application configured:
    `IsPKCE()` is true EXACTLY when `WithPKCE` is in the list, the cookie handler is that of the last `WithPKCE` /
    `WithCookieHandler`, client id / redirect URI / scopes are the constructor's arguments, the signer is that of the last
    `WithJWTProfile`, and the authorization / token endpoints are the discovered ones. -/
theorem c17_constructed_reads (now now' : Int) (w : RPCWorld) (issuer clientID clientSecret redirectURI : String) (scopes : List String)
    (opts : List C01.ROptD) (rp : RPCRelyingParty)
    (h : GenC01.NewRelyingPartyOIDC now w issuer clientID clientSecret redirectURI scopes (opts.map (C01.ROptD.denote now)) = .ok rp) :
    GenC17.IsPKCE now' rp = appPKCE opts ∧
    GenC17.CookieHandler now' rp = appCookieHandler opts ∧
    (GenC17.OAuthConfig now' rp).ClientID = clientID ∧
    (GenC17.OAuthConfig now' rp).RedirectURL = redirectURI ∧
    (GenC17.OAuthConfig now' rp).Scopes = scopes ∧
    GenC17.Signer now' rp = C01.lastOf C01.ROptD.signer? opts none ∧
    ∃ d, w.discover issuer (C01.clientOf opts) (C01.lastOf C01.ROptD.url? opts "") = .ok d ∧
      (GenC17.OAuthConfig now' rp).Endpoint.AuthURL = d.AuthorizationEndpoint ∧
      (GenC17.OAuthConfig now' rp).Endpoint.TokenURL = d.TokenEndpoint := by
  obtain ⟨rp1, d, hA, hD, hR⟩ := newRelyingPartyOIDC_reads now w issuer clientID clientSecret redirectURI scopes _ rp h
  rw [C01.applyAll_eq] at hA
  cases he : opts.findSome? C01.ROptD.error? with
  | some e => simp [he] at hA
  | none =>
    simp only [he, Except.ok.injEq] at hA
    subst hA
    simp only [isPKCE_eq, cookieHandler_eq, oauthConfig_eq, signer_eq, hR.pkce, hR.cookieHandler, hR.signer, hR.clientID,
      hR.redirectURL, hR.scopes, hR.authURL, hR.tokenURL]
    refine ⟨by simp [C01.afterOptions, C01.initOIDC, lastOf_pkce], by simp [C01.afterOptions, C01.initOIDC, appCookieHandler],
      by simp [C01.afterOptions, C01.initOIDC], by simp [C01.afterOptions, C01.initOIDC], by simp [C01.afterOptions, C01.initOIDC],
      by simp [C01.afterOptions, C01.initOIDC], d, ?_, rfl, rfl⟩
    simpa [C01.afterOptions, C01.initOIDC, C01.clientOf] using hD

/-- … in particular: `WithPKCE` in the option list ⇒ `IsPKCE() = true`, against EVERY discovery document (no member of the
    document - `code_challenge_methods_supported` or any other - switches off what the application switched on) -/
theorem c17_withPKCE_isPKCE (now now' : Int) (w : RPCWorld) (issuer clientID clientSecret redirectURI : String) (scopes : List String)
    (opts : List C01.ROptD) (hnd : Option Nat) (hm : C01.ROptD.pkce hnd ∈ opts) (rp : RPCRelyingParty)
    (h : GenC01.NewRelyingPartyOIDC now w issuer clientID clientSecret redirectURI scopes (opts.map (C01.ROptD.denote now)) = .ok rp) :
    GenC17.IsPKCE now' rp = true := by
  rw [(c17_constructed_reads now now' w issuer clientID clientSecret redirectURI scopes opts rp h).1]
  exact appPKCE_of_mem opts hnd hm

/-- C17, construction (OAuth): the same for `NewRelyingPartyOAuth` -/
theorem c17_constructed_reads_oauth (now now' : Int) (config : RPCOAuthConfig) (opts : List C01.ROptD) (rp : RPCRelyingParty)
    (h : GenC01.NewRelyingPartyOAuth now config (opts.map (C01.ROptD.denote now)) = .ok rp) :
    GenC17.IsPKCE now' rp = appPKCE opts ∧
    GenC17.CookieHandler now' rp = appCookieHandler opts ∧
    (GenC17.OAuthConfig now' rp).ClientID = config.ClientID ∧
    (GenC17.OAuthConfig now' rp).RedirectURL = config.RedirectURL ∧
    (GenC17.OAuthConfig now' rp).Scopes = config.Scopes ∧
    (GenC17.OAuthConfig now' rp).Endpoint.AuthURL = config.Endpoint.AuthURL ∧
    GenC17.Signer now' rp = C01.lastOf C01.ROptD.signer? opts none := by
  obtain ⟨rp1, hA, hR⟩ := newRelyingPartyOAuth_reads now config _ rp h
  rw [C01.applyAll_eq] at hA
  cases he : opts.findSome? C01.ROptD.error? with
  | some e => simp [he] at hA
  | none =>
    simp only [he, Except.ok.injEq] at hA
    subst hA
    simp only [isPKCE_eq, cookieHandler_eq, oauthConfig_eq, signer_eq, hR.pkce, hR.cookieHandler, hR.signer, hR.clientID,
      hR.redirectURL, hR.scopes, hR.authURL]
    exact ⟨by simp [C01.afterOptions, C01.initOAuth, lastOf_pkce], by simp [C01.afterOptions, C01.initOAuth, appCookieHandler],
      by simp [C01.afterOptions, C01.initOAuth], by simp [C01.afterOptions, C01.initOAuth], by simp [C01.afterOptions, C01.initOAuth],
      by simp [C01.afterOptions, C01.initOAuth], by simp [C01.afterOptions, C01.initOAuth]⟩

/-! ### the constructed relying party under the two handlers -/

/-! `view` (Model/RPConstructC17.lean): the relying party as the two handlers read it THROUGH THE REGENERATED GETTERS -/

/-- THE MONITOR'S CONFIGURATION AS THE APPLICATION WROTE IT: the keys handed to `NewCookieHandler`, the constructor's client id /
    redirect URI / scopes, and PKCE enabled = `WithPKCE` in the option list -/
def appCfg (hk ek : CookieKey) (clientID redirectURI : String) (scopes : List String) (opts : List C01.ROptD) : Cfg :=
  { hashKey := hk, blockKey := ek, clientID := clientID, redirectURI := redirectURI, scopes := scopes, pkce := appPKCE opts }

/-- C17 on a CONSTRUCTED relying party, login: for every option list with a cookie handler built by `NewCookieHandler` from the
    configured keys, every world / discovery document, every request: the monitor - told what the application configured, PKCE =
    "`WithPKCE` is in the list" - accepts what `AuthURLHandler` answers -/
theorem c17_constructed_login_holds (now : Int) (w : RPCWorld) (issuer clientID clientSecret redirectURI : String) (scopes : List String)
    (opts : List C01.ROptD) (rpc : RPCRelyingParty)
    (h : GenC01.NewRelyingPartyOIDC now w issuer clientID clientSecret redirectURI scopes (opts.map (C01.ROptD.denote now)) = .ok rpc)
    (n : Nat) (hn : appCookieHandler opts = some n)
    (handlers : Nat → CookieHandler) (signers : Nat → Signer) (provider : TokenReq → Go.R Tokens)
    (hk ek : CookieKey) (copts : List CookieHandlerOpt) (hcopts : ∀ o ∈ copts, KeyPreserving o)
    (hh : handlers n = Gen.NewCookieHandler now hk ek copts) (hage : 0 ≤ (Gen.NewCookieHandler now hk ek copts).maxAge)
    (state rnd : String) (urlParam : List UrlOpt) (hres : NoReserved urlParam) (r : HttpReq) :
    judgeLogin (appCfg hk ek clientID redirectURI scopes opts)
      (observeLogin (Gen.AuthURLHandler now state rnd (view now rpc handlers signers provider) urlParam [] r)) = none := by
  obtain ⟨h1, h2, h3, h4, h5, _, _⟩ := c17_constructed_reads now now w issuer clientID clientSecret redirectURI scopes opts rpc h
  have hc : (view now rpc handlers signers provider).cookieHandler = some (Gen.NewCookieHandler now hk ek copts) := by
    simp [view, h2, hn, hh]
  have hcfg : cfgConfigured (view now rpc handlers signers provider) hk ek = appCfg hk ek clientID redirectURI scopes opts := by
    simp [cfgConfigured, appCfg, view, h1, h3, h4, h5]
  rw [← hcfg]
  exact c17_login_holds_configured now state rnd _ hk ek copts hcopts hc hage urlParam hres r

/-- … and the callback -/
theorem c17_constructed_callback_holds (now : Int) (w : RPCWorld) (issuer clientID clientSecret redirectURI : String) (scopes : List String)
    (opts : List C01.ROptD) (rpc : RPCRelyingParty)
    (h : GenC01.NewRelyingPartyOIDC now w issuer clientID clientSecret redirectURI scopes (opts.map (C01.ROptD.denote now)) = .ok rpc)
    (n : Nat) (hn : appCookieHandler opts = some n)
    (handlers : Nat → CookieHandler) (signers : Nat → Signer) (provider : TokenReq → Go.R Tokens)
    (hk ek : CookieKey) (copts : List CookieHandlerOpt) (hcopts : ∀ o ∈ copts, KeyPreserving o)
    (hh : handlers n = Gen.NewCookieHandler now hk ek copts) (urlParam : List UrlOpt) (r : HttpReq) :
    judgeCallback (appCfg hk ek clientID redirectURI scopes opts) r.cookies r.form
      (observeCallback (Gen.CodeExchangeHandler now (view now rpc handlers signers provider) urlParam [] r)) = none := by
  obtain ⟨h1, h2, h3, h4, h5, _, _⟩ := c17_constructed_reads now now w issuer clientID clientSecret redirectURI scopes opts rpc h
  have hc : (view now rpc handlers signers provider).cookieHandler = some (Gen.NewCookieHandler now hk ek copts) := by
    simp [view, h2, hn, hh]
  have hcfg : cfgConfigured (view now rpc handlers signers provider) hk ek = appCfg hk ek clientID redirectURI scopes opts := by
    simp [cfgConfigured, appCfg, view, h1, h3, h4, h5]
  rw [← hcfg]
  exact c17_callback_holds_configured now _ hk ek copts hcopts hc urlParam r

/-- … and EVERY history of one browser (any number of login attempts, callbacks with any query, jar tampering by anyone who does not hold
    the keys, in any order) against a relying party built by `NewRelyingPartyOIDC` from any option list and any discovery document:
    every per-run and history verdict of the monitor - told what the APPLICATION configured - is `none` (induction over the event
    list: `c17_history`) -/
theorem c17_constructed_history (now : Int) (w : RPCWorld) (issuer clientID clientSecret redirectURI : String) (scopes : List String)
    (opts : List C01.ROptD) (rpc : RPCRelyingParty)
    (h : GenC01.NewRelyingPartyOIDC now w issuer clientID clientSecret redirectURI scopes (opts.map (C01.ROptD.denote now)) = .ok rpc)
    (n : Nat) (hn : appCookieHandler opts = some n)
    (handlers : Nat → CookieHandler) (signers : Nat → Signer) (provider : TokenReq → Go.R Tokens)
    (hk ek : CookieKey) (copts : List CookieHandlerOpt) (hcopts : ∀ o ∈ copts, KeyPreserving o)
    (hh : handlers n = Gen.NewCookieHandler now hk ek copts) (hage : 0 ≤ (Gen.NewCookieHandler now hk ek copts).maxAge)
    (loginParams cbParams : List UrlOpt) (hres : NoReserved loginParams) (evs : List Ev) :
    ∀ v ∈ (run now (view now rpc handlers signers provider) (appCfg hk ek clientID redirectURI scopes opts) loginParams cbParams evs).verdicts,
      v = none := by
  obtain ⟨h1, h2, h3, h4, h5, _, _⟩ := c17_constructed_reads now now w issuer clientID clientSecret redirectURI scopes opts rpc h
  have hc : (view now rpc handlers signers provider).cookieHandler = some (Gen.NewCookieHandler now hk ek copts) := by
    simp [view, h2, hn, hh]
  have hcfg : cfgOf (view now rpc handlers signers provider) (Gen.NewCookieHandler now hk ek copts)
      = appCfg hk ek clientID redirectURI scopes opts := by
    rw [cfgOf_constructed now _ hk ek copts hcopts]
    simp [cfgConfigured, appCfg, view, h1, h3, h4, h5]
  rw [← hcfg]
  exact c17_history now _ _ hc hage loginParams cbParams hres evs

/-! ### spelled out: `WithPKCE` ⇒ an S256 challenge in every redirect, the verifier of that challenge at the token endpoint -/

/-- pure fact about the monitor: a login response it accepts under a configuration with PKCE on, when it is a redirect, carries
    `code_challenge_method=S256` and the S256 challenge of the verifier in the signed pkce cookie of the same response -/
theorem judgeLogin_pkce (cfg : Cfg) (obs : LoginObs) (hp : cfg.pkce = true) (hj : judgeLogin cfg obs = none)
    (u : AuthURLRec) (hu : obs.redirect = some u) :
    getParam u.params "code_challenge_method" = "S256" ∧
    ∃ v, signedSet cfg obs.setCookies "pkce" = some v ∧ getParam u.params "code_challenge" = s256 v := by
  unfold judgeLogin at hj
  simp only [hu, hp, if_true] at hj
  split at hj
  · simp at hj
  · split at hj
    · simp at hj
    · split at hj
      · simp at hj
      · split at hj
        · simp at hj
        · split at hj
          · simp at hj
          · split at hj
            · simp at hj
            · rename_i v hv
              split at hj
              · simp at hj
              · rename_i hne
                simp only [Bool.or_eq_true, bne_iff_ne, ne_eq, not_or, Decidable.not_not] at hne
                exact ⟨hne.2, v, hv, hne.1⟩

/-- C17-P's statement: a relying party built by `NewRelyingPartyOIDC` with `WithPKCE(h)` in its option list (h a handler built by
    `NewCookieHandler`), against EVERY discovery document: every redirect of its `AuthURLHandler` carries
    `code_challenge_method=S256` and `code_challenge` = S256 of the verifier stored in the signed pkce cookie of the same response -/
theorem c17_withPKCE_challenge (now : Int) (w : RPCWorld) (issuer clientID clientSecret redirectURI : String) (scopes : List String)
    (opts : List C01.ROptD) (rpc : RPCRelyingParty)
    (h : GenC01.NewRelyingPartyOIDC now w issuer clientID clientSecret redirectURI scopes (opts.map (C01.ROptD.denote now)) = .ok rpc)
    (hnd : Option Nat) (hm : C01.ROptD.pkce hnd ∈ opts)
    (n : Nat) (hn : appCookieHandler opts = some n)
    (handlers : Nat → CookieHandler) (signers : Nat → Signer) (provider : TokenReq → Go.R Tokens)
    (hk ek : CookieKey) (copts : List CookieHandlerOpt) (hcopts : ∀ o ∈ copts, KeyPreserving o)
    (hh : handlers n = Gen.NewCookieHandler now hk ek copts) (hage : 0 ≤ (Gen.NewCookieHandler now hk ek copts).maxAge)
    (state rnd : String) (urlParam : List UrlOpt) (hres : NoReserved urlParam) (r : HttpReq) (u : AuthURLRec)
    (hu : (observeLogin (Gen.AuthURLHandler now state rnd (view now rpc handlers signers provider) urlParam [] r)).redirect = some u) :
    getParam u.params "code_challenge_method" = "S256" ∧
    ∃ v, signedSet (appCfg hk ek clientID redirectURI scopes opts)
          (observeLogin (Gen.AuthURLHandler now state rnd (view now rpc handlers signers provider) urlParam [] r)).setCookies "pkce" = some v ∧
      getParam u.params "code_challenge" = s256 v :=
  judgeLogin_pkce _ _ (by simp [appCfg, appPKCE_of_mem opts hnd hm])
    (c17_constructed_login_holds now w issuer clientID clientSecret redirectURI scopes opts rpc h n hn handlers signers provider
      hk ek copts hcopts hh hage state rnd urlParam hres r) u hu

/-! ### non-vacuity (closed terms, evaluated by the kernel) -/

/-- a provider whose discovery document is `d` whatever it is asked -/
def worldOf (d : RPCDiscoveryConfiguration) : RPCWorld := { discover := fun _ _ _ => .ok d, jwks := fun _ _ => {} }

def exDoc : RPCDiscoveryConfiguration :=
  { Issuer := "https://op", AuthorizationEndpoint := "https://op/authorize", TokenEndpoint := "https://op/token", JwksURI := "https://op/keys" }

/-- `WithCookieHandler(h)` then `WithPKCE(h)`, and the other order: PKCE stays on -/
example : (GenC01.NewRelyingPartyOIDC 0 (worldOf exDoc) "https://op" "cid" "s" "https://rp/cb" ["openid"]
    ([C01.ROptD.cookieHandler (some 1), .pkce (some 1)].map (C01.ROptD.denote 0))).toOption.map (GenC17.IsPKCE 0) = some true := by
  decide
example : (GenC01.NewRelyingPartyOIDC 0 (worldOf exDoc) "https://op" "cid" "s" "https://rp/cb" ["openid"]
    ([C01.ROptD.pkce (some 1), .authStyle 1, .cookieHandler (some 1)].map (C01.ROptD.denote 0))).toOption.map (GenC17.IsPKCE 0) = some true := by
  decide
/-- without `WithPKCE`: off -/
example : (GenC01.NewRelyingPartyOIDC 0 (worldOf exDoc) "https://op" "cid" "s" "https://rp/cb" ["openid"]
    ([C01.ROptD.cookieHandler (some 1)].map (C01.ROptD.denote 0))).toOption.map (GenC17.IsPKCE 0) = some false := by
  decide

end C17Construct
