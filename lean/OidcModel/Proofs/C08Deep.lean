/-
  C08 proofs, round 3: TIME and STORAGE FAULTS as dimensions of the histories.

  (a) time
  * `c08_exp_claim_is_storage_expiration` — REGENERATED `CreateAccessToken` / `CreateJWT` (pkg/op/token.go, namespace `GenC06`): the `exp` claim
    signed into a JWT access token is `oidc.FromTime` of the expiration the STORAGE returned (no clock skew, nothing else added), its `jti`
    is the storage's token id; for every request, client (any `ClockSkew()`), storage and signer.
  * `c08_jwt_dies_with_storage_expiration` — a token the regenerated `VerifyAccessToken` accepts at `now`, carrying that claim, is presented
    before the storage's expiration; `c08_jwt_honoured_before_storage_expiry`: so a JWT access token is honoured (userinfo, introspection,
    exchange; either router) only while the storage's expiration has not passed - also by a storage that keeps no expiry index of its own.
  * `expired_not_honoured` — timed machine (`stepT`): whatever is honoured has an expiration the clock of the request has not passed (stored
    tokens; JWTs under `expiryByClaim` excepted, they are covered by the line above); `revocation_sticksT`: deadness survives every TIMED history.
  (b) faults
  * `revoke_ok_took_effect_at` / `_rt` — for EVERY set of failing storage methods: a revocation the owner is answered 200 for has killed the token.
    `revoke_fault_refused`: a failing `RevokeToken` / `GetRefreshTokenInfo` is never answered 200 and changes nothing.
  * `refresh_fault_not_honoured` — a failing `TokenRequestByRefreshToken` honours nothing (refresh grant, exchange).
  * `c08_terminate_error_never_redirects` — REGENERATED `EndSession` and `LegacyServer.EndSession` behind `webServer.endSessionHandler`
    (Generated/Session.lean): when the storage call that ends the session fails, NEITHER router answers with a redirect; conversely
    `c08_redirect_means_terminated`.  `logout_redirect_kills` + `logout_sticks`: after a logout answered with the redirect, no token of that
    session is honoured in ANY later (timed) history.
  (c) delegation
  * `exchange_getters` — the REGENERATED getters of `op.tokenExchangeRequest` (Generated/ResourceTE.lean) hand out the like-named fields.
  * `c08_exchange_ids_reach_policy` — REGENERATED `CreateTokenExchangeRequest` (Generated/TokenExchangeTE.lean): the request the storage
    policy is asked about carries, behind `GetExchangeSubjectTokenIDOrToken()` / `GetExchangeActorTokenIDOrToken()`, the ids the SUBJECT
    resp. the ACTOR token resolved to (and their declared types) - for every provider, storage and oracle.
  * `exchangeD_live`, `dead_actor_refused`, `exchangeD_actor_id` — a delegation exchange succeeds only when subject AND actor are live.
-/
import OidcModel.Proofs.C08
import OidcModel.Model.ResourceTime
import OidcModel.Generated.IssueC06
import OidcModel.Generated.TokenExchangeTE
set_option linter.unusedSimpArgs false
namespace Res
open Go Hand

/-! ### (a) time: issuance -/

/-- `oidc.Time` keeps whole seconds: what `FromTime` stores never lies after the instant it was made from -/
theorem asTime_fromTime_le (x : Int) : Go.asTime (Go.fromTime x) ≤ x := by
  unfold Go.asTime Go.fromTime Go.tIsZero Go.tUnix Go.tToUnix Go.second Go.zeroTime
  by_cases h0 : x = -62135596800000000000
  · subst h0; decide
  · have hb : (x == -62135596800000000000) = false := by simpa using h0
    simp only [hb, Bool.false_eq_true, if_false]
    by_cases h1 : x / 1000000000 = 0
    · simp only [h1, beq_self_eq_true, if_true]; omega
    · have hb1 : (x / 1000000000 == 0) = false := by simpa using h1
      simp only [hb1, Bool.false_eq_true, if_false]; omega

/-- characterisation of the regenerated `CreateJWT`: what is signed carries the expiration and token id it was GIVEN -/
theorem createJWT_claims {now : Int} {issuer : String} {req : IssRequest} {exp : Int} {id : String} {client : IssClient}
    {storage : IssStorage} {tok : String} (h : GenC06.CreateJWT now issuer req exp id client storage = .ok tok) :
    ∃ key claims, storage.SigningKey = .ok key ∧ key.signAT claims = .ok tok ∧
      claims.Expiration = Go.fromTime exp ∧ claims.JWTID = id ∧ claims.Issuer = issuer := by
  unfold GenC06.CreateJWT at h
  simp only [] at h
  split at h
  · simp at h
  · rename_i claims hclaims
    have hP : claims.Expiration = Go.fromTime exp ∧ claims.JWTID = id ∧ claims.Issuer = issuer := by
      repeat' (split at hclaims)
      all_goals first
        | (cases hclaims; exact ⟨rfl, rfl, rfl⟩)
        | (simp at hclaims)
    split at h
    · simp at h
    · rename_i key hkey
      simp only [Hand.issSignerFromKey, Hand.issSignAT] at h
      by_cases hok : key.signerOK = true
      · simp only [hok, if_true] at h
        refine ⟨key, _, hkey, h, ?_, ?_, ?_⟩
        · split <;> simp [hP.1]
        · split <;> simp [hP.2.1]
        · split <;> simp [hP.2.2]
      · simp [hok] at h

/-- C08 (time, issuance): the `exp` claim of a JWT access token IS the storage's expiration.  Whatever `CreateAccessToken` hands out as a
    JWT was signed over claims whose `exp` is `FromTime` of the expiration the storage returned from `CreateAccessToken` /
    `CreateAccessAndRefreshTokens` and whose `jti` is the storage's token id - for every request, every client (ANY clock skew), every
    storage and signer.  (The clock skew only enters `expires_in`, `iat` and `nbf`.) -/
theorem c08_exp_claim_is_storage_expiration (now : Int) (request : IssRequest) (creator : IssCreator) (client : IssClient)
    (cur at' rt : String) (validity : Int)
    (h : GenC06.CreateAccessToken now request IssConst.AccessTokenTypeJWT creator client cur = .ok (at', rt, validity)) :
    ∃ id exp key claims, GenC06.createTokens now request creator.Storage cur client = .ok (id, rt, exp) ∧
      creator.Storage.SigningKey = .ok key ∧ key.signAT claims = .ok at' ∧
      claims.Expiration = Go.fromTime exp ∧ claims.JWTID = id := by
  unfold GenC06.CreateAccessToken at h
  simp only [] at h
  split at h
  · simp at h
  · rename_i id rt' exp hct
    simp only [beq_self_eq_true, if_true] at h
    split at h
    · simp at h
    · rename_i tok hj
      simp only [Except.ok.injEq, Prod.mk.injEq] at h
      obtain ⟨rfl, rfl, _⟩ := h
      obtain ⟨key, claims, hk, hs, he, hi, _⟩ := createJWT_claims hj
      exact ⟨id, exp, key, claims, hct, hk, hs, he, hi⟩

/-! ### (a) time: use -/

/-- a token the regenerated `VerifyAccessToken` accepts at `now` whose `exp` claim was made from the storage's expiration `exp`
    (`c08_exp_claim_is_storage_expiration`) is presented BEFORE that expiration -/
theorem c08_jwt_dies_with_storage_expiration {now : Int} {t : Token} {v : Verifier} {c : Claims} {exp : Int}
    (h : Gen.OPVerifyAccessToken now t v = .ok c) (hexp : c.exp = Go.fromTime exp) : now + v.Offset < exp := by
  obtain ⟨_, _, _, _, _, he⟩ := opVerifyAccessToken_ok h
  have h1 := C01.checkExpiration_ok.mp he
  have h2 := asTime_fromTime_le exp
  simp only [C01.ns, hexp] at h1
  omega

/-- the claims the verifier hands back are the parsed ones with the signature algorithm noted: same `exp` -/
theorem opVerifyAccessToken_exp {now : Int} {t : Token} {v : Verifier} {c : Claims} (h : Gen.OPVerifyAccessToken now t v = .ok c) :
    ∃ p c0, ParseToken now t = .ok (p, c0) ∧ c.exp = c0.exp := by
  obtain ⟨p, c0, hp, _, hs, _⟩ := opVerifyAccessToken_ok h
  obtain ⟨_, s, _, _, _, _, _, hc⟩ := C01.checkSignature_ok hs
  exact ⟨p, c0, hp, by rw [hc]; rfl⟩

/-- C08 (time, use): a JWT access token (a presented string that is not an opaque token) whose `exp` claim is the one the provider wrote for
    the storage's expiration `exp` is honoured - userinfo claims, `active:true`, accepted exchange subject; either router; ANY storage
    state, in particular a storage that does not look at the clock for self-contained tokens - only by requests made BEFORE `exp` -/
theorem c08_jwt_honoured_before_storage_expiry (atp : ResATProvider) (s : St) (op : Op) (x : Ref) (e : Env) (tok : String) (exp : Int)
    (hp : presentedAt op = some (e, tok)) (hd : ∀ pl, e.decrypt tok ≠ .ok pl) (h : (step atp s op).2 = some x)
    (hclaim : ∀ p c0, ParseToken e.now (e.tokenOf tok) = .ok (p, c0) → c0.exp = Go.fromTime exp) :
    e.now < exp := by
  obtain ⟨id, sub, hr⟩ := honoured_resolves atp s op x e tok hp h
  unfold resolve at hr
  cases hdec : (provider atp e s).decrypt tok with
  | ok pl => exact absurd hdec (hd pl)
  | error err =>
    simp only [hdec] at hr
    cases hv : Gen.OPVerifyAccessToken e.now ((provider atp e s).tokenOf tok) (provider atp e s).verifier with
    | error e' => simp [hv] at hr
    | ok c =>
      obtain ⟨p, c0, hpt, hce⟩ := opVerifyAccessToken_exp hv
      have := c08_jwt_dies_with_storage_expiration hv (by rw [hce]; exact hclaim p c0 hpt)
      rw [provider_verifier] at this
      simpa using this

/-! ### (a) time: the timed machine -/

theorem markTok_id (b : Bool) (n : Int) (t : Tok) : (markTok b n t).id = t.id := by unfold markTok; split <;> rfl
theorem markTok_live (b : Bool) (n : Int) (t : Tok) (h : t.live = false) : (markTok b n t).live = false := by
  unfold markTok; split <;> simp_all [Tok.live]
theorem markR_token (n : Int) (r : RTok) : (markR n r).token = r.token := by unfold markR; split <;> rfl
theorem markR_live (n : Int) (r : RTok) (h : r.live = false) : (markR n r).live = false := by
  unfold markR; split <;> simp_all [RTok.live]

/-- looking at the clock revives nothing and renames nothing -/
theorem atTime_rewrites (s : St) (b : Bool) (n : Int) : Rewrites s (s.atTime b n) :=
  ⟨⟨markTok b n, rfl, markTok_id b n, markTok_live b n⟩, ⟨markR n, rfl, markR_token n, markR_live n⟩⟩

/-- a record the storage still calls live at `now` has an expiration that `now` has not passed (or is a JWT whose expiry the storage
    leaves to the exp claim) -/
theorem atTime_live_tok {s : St} {b : Bool} {n : Int} {t : Tok} (hm : t ∈ (s.atTime b n).toks) (hl : t.live = true) :
    ¬ t.exp < n ∨ (b = true ∧ t.jwt = true) := by
  simp only [St.atTime, List.mem_map] at hm
  obtain ⟨t0, _, rfl⟩ := hm
  unfold markTok at hl ⊢
  split
  · rename_i he; simp [he, Tok.live] at hl
  · rename_i he
    simp only [Tok.expiredAt, Bool.and_eq_true, decide_eq_true_eq, Bool.not_eq_true', Bool.and_eq_false_iff, not_and] at he
    by_cases hx : t0.exp < n
    · right
      have := he hx
      cases b <;> cases hj : t0.jwt <;> simp_all
    · left; exact hx

theorem atTime_live_rt {s : St} {b : Bool} {n : Int} {r : RTok} (hm : r ∈ (s.atTime b n).rtoks) (hl : r.live = true) : ¬ r.exp < n := by
  simp only [St.atTime, List.mem_map] at hm
  obtain ⟨r0, _, rfl⟩ := hm
  unfold markR at hl ⊢
  split
  · rename_i he; simp [he, RTok.live] at hl
  · rename_i he; simpa [RTok.expiredAt] using he

/-- the token was handed out with an expiration that the instant `n` has not passed -/
def Unexpired (s : St) (byClaim : Bool) (n : Int) : Ref → Prop
  | .at id => ∃ t, t ∈ s.toks ∧ t.id = id ∧ t.live = true ∧ (¬ t.exp < n ∨ (byClaim = true ∧ t.jwt = true))
  | .rt tok => ∃ r, r ∈ s.rtoks ∧ r.token = tok ∧ r.live = true ∧ ¬ r.exp < n

theorem tick_clock_ge (x : Timed) (n : Int) : n ≤ (x.tick n).clock := by
  unfold Timed.tick; simp only []; split <;> omega

/-- C08 (time): in the timed machine whatever a request made at `n` gets honoured - userinfo claims, `active:true`, an exchange subject,
    a refresh grant; either router; any oracle - is a live token whose storage expiration `n` has not passed; the one exception is a JWT
    access token at a storage that leaves its expiry to the exp claim, and that one is bounded by `c08_jwt_honoured_before_storage_expiry` -/
theorem expired_not_honoured (atp : ResATProvider) (x : Timed) (op : Op) (n : Int) (r : Ref)
    (ht : op.time = some n) (h : (stepT atp x op).2 = some r) :
    Unexpired (x.tick n).st x.expiryByClaim n r := by
  simp only [stepT, ht] at h
  have hl := honoured_implies_live atp (x.tick n).st op r h
  have hc := tick_clock_ge x n
  have hst : (x.tick n).st = x.st.atTime x.expiryByClaim (x.tick n).clock := by unfold Timed.tick; rfl
  cases r with
  | «at» id =>
    obtain ⟨t, hm, hi, hlive⟩ := hl
    refine ⟨t, hm, hi, hlive, ?_⟩
    rw [hst] at hm
    rcases atTime_live_tok hm hlive with h1 | h1
    · left; omega
    · right; exact h1
  | rt tok =>
    obtain ⟨t, hm, hi, hlive⟩ := hl
    refine ⟨t, hm, hi, hlive, ?_⟩
    rw [hst] at hm
    have := atTime_live_rt hm hlive
    omega

theorem tick_rewrites (x : Timed) (n : Int) : Rewrites x.st (x.tick n).st := by
  unfold Timed.tick; exact atTime_rewrites _ _ _

theorem dead_stepT (atp : ResATProvider) (x : Timed) (op : Op) (r : Ref) (h : Dead x.st r) (hk : Known x.st r) :
    Dead (stepT atp x op).1.st r ∧ Known (stepT atp x op).1.st r := by
  unfold stepT
  cases ht : op.time with
  | none => simp only []; exact dead_step atp x.st op r h hk
  | some n =>
    simp only []
    obtain ⟨h1, h2⟩ := (tick_rewrites x n).dead r h hk
    exact dead_step atp (x.tick n).st op r h1 h2

theorem dead_not_honouredT (atp : ResATProvider) (x : Timed) (op : Op) (r : Ref) (h : Dead x.st r) (hk : Known x.st r) :
    (stepT atp x op).2 ≠ some r := by
  unfold stepT
  cases ht : op.time with
  | none => simp only []; exact dead_not_honoured atp x.st op r h
  | some n => simp only []; exact dead_not_honoured atp (x.tick n).st op r ((tick_rewrites x n).dead r h hk).1

/-- C08 (2), timed: once a known access or refresh token is dead (revoked, logged out, rotated away, or seen expired), NO later history -
    any operations, at any instants, with any storage faults, either router - gets it honoured again -/
theorem revocation_sticksT (atp : ResATProvider) (ops : List Op) (x : Timed) (r : Ref) (h : Dead x.st r) (hk : Known x.st r) :
    ∀ o, o ∈ (runT atp x ops).2 → o ≠ some r := by
  induction ops generalizing x with
  | nil => intro o ho; simp [runT] at ho
  | cons op rest ih =>
    intro o ho
    simp only [runT, List.mem_cons] at ho
    rcases ho with rfl | ho
    · exact dead_not_honouredT atp x op r h hk
    · obtain ⟨h1, h2⟩ := dead_stepT atp x op r h hk
      exact ih (stepT atp x op).1 h1 h2 o ho

/-- an access token whose expiration has passed when a request looks at it is dead from then on (at a storage that checks it) -/
theorem expired_is_dead (x : Timed) (n : Int) (id : String) (hu : ∀ t, t ∈ x.st.toks → t.id = id → t.exp < n ∧ (x.expiryByClaim && t.jwt) = false) :
    Dead (x.tick n).st (.at id) := by
  intro t hm hi
  have hc := tick_clock_ge x n
  unfold Timed.tick at hm
  simp only [St.atTime, List.mem_map] at hm
  obtain ⟨t0, hm0, rfl⟩ := hm
  have hid : t0.id = id := by rw [← markTok_id]; exact hi
  obtain ⟨he, hb⟩ := hu t0 hm0 hid
  unfold markTok
  have : t0.expiredAt x.expiryByClaim (if x.clock < n then n else x.clock) = true := by
    simp only [Tok.expiredAt, hb, Bool.not_false, Bool.and_true, decide_eq_true_eq]
    split <;> omega
  simp [this, Tok.live]

/-! ### (b) storage faults: revocation, refresh grant, exchange -/

/-- while `RevokeToken` or `GetRefreshTokenInfo` fails, both revocation handlers end in an error and leave the storage alone -/
theorem refRevoke_fault (now : Int) (p : ResProvider) (e : Env) (s : St) (tok cid : String) (hf : ¬ NoRevocationFault e) :
    ∃ err, refRevoke now p (worldOf e s) tok cid = (worldOf e s, .error err) := by
  unfold refRevoke
  by_cases hg : e.faults.contains "GetRefreshTokenInfo" = true
  · have h1 : (worldOf e s).GetRefreshTokenInfo cid tok = .error "storage unavailable" := by
      simp only [ResWorld.GetRefreshTokenInfo, worldOf, hg, if_true]
    have h2 : revokeTarget now p (worldOf e s) tok cid = .error "ErrServerError" := by
      unfold revokeTarget; rw [h1]; simp [Hand.resErrorsIs]
    rw [h2]; exact ⟨_, rfl⟩
  · have hr : e.faults.contains "RevokeToken" = true := by
      by_cases hr : e.faults.contains "RevokeToken" = true
      · exact hr
      · exact absurd ⟨by simpa using hr, by simpa using hg⟩ hf
    cases ht : revokeTarget now p (worldOf e s) tok cid with
    | error err => exact ⟨err, rfl⟩
    | ok pr =>
      obtain ⟨t, sub⟩ := pr
      refine ⟨"ErrServerError", ?_⟩
      simp only [ResWorld.RevokeToken, worldOf, hr, if_true]

/-- a failing `RevokeToken` or `GetRefreshTokenInfo` is never answered 200, and nothing is changed - on both routers, whatever the string is -/
theorem revoke_fault_refused (rt : Router) (atp : ResATProvider) (e : Env) (s : St) (cid hint tok : String)
    (hf : ¬ NoRevocationFault e) : revoke rt atp e s (some cid) hint tok = (s, .refused) := by
  rw [revoke_spec]
  obtain ⟨err, h⟩ := refRevoke_fault e.now (provider atp e s) e s tok cid hf
  simp only [h]; rfl

/-- C08 (faults, 3a): what was answered 200 has taken effect.  Whatever storage methods fail while the request is served: when the owner's
    revocation of an ACCESS token is answered 200, the token is dead - on both routers, every hint, every oracle -/
theorem revoke_ok_took_effect_at (rt : Router) (atp : ResATProvider) (e : Env) (s : St) (cid hint tok id sub : String) (t : Tok)
    (hr : resolve e.now (provider atp e s) tok = some (id, sub)) (hl : s.lookup e.issuer id = some t) (hown : t.client = cid)
    (hnr : s.lookupR e.issuer tok = none) (hok : (revoke rt atp e s (some cid) hint tok).2 = .ok) :
    Dead (revoke rt atp e s (some cid) hint tok).1 (.at id) := by
  by_cases hf : NoRevocationFault e
  · exact (revoke_kills_at rt atp e s cid hint tok id sub t hf hr hl hown hnr).2
  · rw [revoke_fault_refused rt atp e s cid hint tok hf] at hok; cases hok

/-- C08 (faults, 3b): likewise for a REFRESH token - answered 200 means the refresh token and the access token of its grant are dead -/
theorem revoke_ok_took_effect_rt (rt : Router) (atp : ResATProvider) (e : Env) (s : St) (cid hint tok : String) (r : RTok)
    (hl : s.lookupR e.issuer tok = some r) (hown : r.client = cid) (hn : s.lookup e.issuer tok = none)
    (hok : (revoke rt atp e s (some cid) hint tok).2 = .ok) :
    Dead (revoke rt atp e s (some cid) hint tok).1 (.rt tok) ∧ Dead (revoke rt atp e s (some cid) hint tok).1 (.at r.access) := by
  by_cases hf : NoRevocationFault e
  · exact (revoke_kills_rt rt atp e s cid hint tok r hf hl hown hn).2
  · rw [revoke_fault_refused rt atp e s cid hint tok hf] at hok; cases hok

theorem Rewrites.known {s s' : St} (h : Rewrites s s') (x : Ref) (hk : Known s x) : Known s' x := by
  obtain ⟨⟨f, hf, hfid, _⟩, ⟨g, hg, hgid, _⟩⟩ := h
  cases x with
  | «at» id => obtain ⟨t, ht, hti⟩ := hk; exact ⟨f t, by rw [hf]; exact List.mem_map_of_mem ht, by rw [hfid]; exact hti⟩
  | rt tok => obtain ⟨r, hr, hri⟩ := hk; exact ⟨g r, by rw [hg]; exact List.mem_map_of_mem hr, by rw [hgid]; exact hri⟩

theorem stepT_revoke_st (atp : ResATProvider) (x : Timed) (rt : Router) (e : Env) (c : Option String) (hint tok : String) :
    (stepT atp x (.revoke rt e c hint tok)).1.st = (revoke rt atp e (x.tick e.now).st c hint tok).1 := rfl

/-- ... and from then on, in every later timed history (any operations, instants, faults), it is never honoured again -/
theorem revoke_ok_sticks (rt : Router) (atp : ResATProvider) (e : Env) (x : Timed) (cid hint tok id sub : String) (t : Tok) (ops : List Op)
    (hr : resolve e.now (provider atp e (x.tick e.now).st) tok = some (id, sub)) (hl : (x.tick e.now).st.lookup e.issuer id = some t)
    (hown : t.client = cid) (hnr : (x.tick e.now).st.lookupR e.issuer tok = none)
    (hok : (revoke rt atp e (x.tick e.now).st (some cid) hint tok).2 = .ok) :
    ∀ o, o ∈ (runT atp (stepT atp x (.revoke rt e (some cid) hint tok)).1 ops).2 → o ≠ some (.at id) := by
  have hd := revoke_ok_took_effect_at rt atp e (x.tick e.now).st cid hint tok id sub t hr hl hown hnr hok
  have hk : Known (x.tick e.now).st (.at id) := ⟨t, (lookup_some hl).1, (lookup_some hl).2.1⟩
  have hk' := (revoke_rewrites rt atp e (x.tick e.now).st (some cid) hint tok).known (.at id) hk
  exact revocation_sticksT atp ops _ (.at id) (by rw [stepT_revoke_st]; exact hd) (by rw [stepT_revoke_st]; exact hk')

/-- a failing `TokenRequestByRefreshToken` honours nothing: neither the refresh grant nor a refresh token as exchange subject -/
theorem refresh_fault_not_honoured (atp : ResATProvider) (s : St) (e : Env) (tok : String)
    (hf : e.faults.contains "TokenRequestByRefreshToken" = true) :
    step atp s (.refresh e tok) = (s, none) ∧ (step atp s (.exchange e true tok)).2 = none := by
  simp only [step, exchange, tokenRequestByRefreshToken, hf, if_true, and_self]

/-! ### (b) storage faults: end_session on both routers -/

/-- characterisation of BOTH regenerated end_session handlers (`op.EndSession`; `webServer.endSessionHandler` → `LegacyServer.EndSession`):
    a redirect is written iff the request validates AND the storage call that ends the session succeeds -/
theorem handle_redirect_iff (rt : Sess.Router) (now : Int) (o : SessOracles) (r : EndSessionReq) (e : SessionEnder) (loc : String) :
    Sess.handle rt now o (.ok r) e = .redirect loc ↔
      ∃ sess, Gen.ValidateEndSessionRequest now o r e = .ok sess ∧ e.store.termOK sess.UserID sess.ClientID = true ∧ sess.RedirectURI = loc := by
  cases rt <;>
    simp only [Sess.handle, Gen.EndSession, Gen.LegacyEndSessionHandler, Gen.LegacyEndSession, Hand.parseEndSessionRequest, Hand.decodeEndSession,
      Hand.newRequest, SessionEnder.Storage, Hand.sessNewRedirect, SessStore.TerminateSession, SessStore.TerminateSessionFromRequest] <;>
    (cases hv : Gen.ValidateEndSessionRequest now o r e with
     | error err =>
       simp only [SessResp.canon]
       constructor
       · intro h; split at h <;> cases h
       · rintro ⟨_, h, _⟩; cases h
     | ok sess =>
       by_cases hcan : e.store.is_CanTerminateSessionFromRequest = true <;>
         by_cases ht : e.store.termOK sess.UserID sess.ClientID = true <;>
         simp [hcan, ht, SessResp.canon] <;> (try split) <;> simp)
/-- C08 (faults, logout): a `TerminateSession` / `TerminateSessionFromRequest` error is NEVER answered with a redirect - on neither router,
    for every request, provider configuration and storage -/
theorem c08_terminate_error_never_redirects (rt : Sess.Router) (now : Int) (o : SessOracles) (r : EndSessionReq) (e : SessionEnder)
    (sess : EndSessionRequest) (hv : Gen.ValidateEndSessionRequest now o r e = .ok sess)
    (hfail : e.store.termOK sess.UserID sess.ClientID = false) (loc : String) :
    Sess.handle rt now o (.ok r) e ≠ .redirect loc := by
  intro h
  obtain ⟨s', hv', ht, _⟩ := (handle_redirect_iff rt now o r e loc).mp h
  rw [hv] at hv'; cases hv'
  rw [hfail] at ht; cases ht

/-- ... and an undecodable request is not answered with a redirect either -/
theorem handle_undecodable (rt : Sess.Router) (now : Int) (o : SessOracles) (err : String) (e : SessionEnder) (loc : String) :
    Sess.handle rt now o (.error err) e ≠ .redirect loc := by
  cases rt <;> simp [Sess.handle, Gen.EndSession, Gen.LegacyEndSessionHandler, Hand.parseEndSessionRequest, Hand.decodeEndSession, SessResp.canon] <;>
    (try split) <;> simp

/-- C08 (faults, logout): the success redirect means the session HAS been terminated.  With the storage methods `faults` failing: when
    either router answers an end_session request with a redirect, the storage has ended the session the request names (all its access and
    refresh tokens, at the issuer the request is addressed to) -/
theorem c08_redirect_means_terminated (rt : Sess.Router) (now : Int) (o : SessOracles) (rq : Go.R EndSessionReq) (ender : SessionEnder)
    (faults : List String) (iss : String) (s : St) (loc : String)
    (h : (logout rt now o rq ender faults iss s).2 = .redirect loc) :
    ∃ r sess, rq = .ok r ∧ Gen.ValidateEndSessionRequest now o r (logoutEnder ender faults) = .ok sess ∧
      faults.contains (terminateCall ender.store) = false ∧
      (logout rt now o rq ender faults iss s).1 = s.TerminateSession iss sess.UserID sess.ClientID := by
  unfold logout at h ⊢
  cases rq with
  | error err => exact absurd h (handle_undecodable rt now o err _ loc)
  | ok r =>
    obtain ⟨sess, hv, ht, _⟩ := (handle_redirect_iff rt now o r _ loc).mp h
    refine ⟨r, sess, rfl, hv, ?_, ?_⟩
    · simp only [logoutEnder, Bool.and_eq_true, Bool.not_eq_true'] at ht; exact ht.2
    · simp only [hv, ht, if_true]

/-- C08 (faults, logout, histories): after a logout that either router answered with the success redirect - whatever storage methods
    failed - an access token of that session (known under one id only, shown under the issuer of the logout) is never honoured again:
    in NO later timed history, at any endpoint of either router, under any faults -/
theorem logout_sticks (rt : Sess.Router) (atp : ResATProvider) (now : Int) (o : SessOracles) (rq : Go.R EndSessionReq) (ender : SessionEnder)
    (faults : List String) (iss : String) (x : Timed) (loc : String) (ops : List Op) (id : String)
    (h : (logout rt now o rq ender faults iss x.st).2 = .redirect loc)
    (hk : Known x.st (.at id))
    (hsess : ∀ r sess, rq = .ok r → Gen.ValidateEndSessionRequest now o r (logoutEnder ender faults) = .ok sess →
      ∀ t, t ∈ x.st.toks → t.id = id → t.subject = sess.UserID ∧ t.client = sess.ClientID ∧ x.st.sees iss t.issuer = true) :
    ∀ ob, ob ∈ (runT atp { x with st := (logout rt now o rq ender faults iss x.st).1 } ops).2 → ob ≠ some (.at id) := by
  obtain ⟨r, sess, hrq, hv, _, hst⟩ := c08_redirect_means_terminated rt now o rq ender faults iss x.st loc h
  have hrw := terminate_rewrites x.st iss sess.UserID sess.ClientID
  have hdead : Dead (x.st.TerminateSession iss sess.UserID sess.ClientID) (.at id) := by
    intro t ht hi
    simp only [St.TerminateSession, List.mem_map] at ht
    obtain ⟨t0, ht0, rfl⟩ := ht
    have hid : t0.id = id := by
      revert hi; split <;> exact fun h => h
    obtain ⟨h1, h2, h3⟩ := hsess r sess hrq hv t0 ht0 hid
    simp [h1, h2, h3, Tok.live]
  refine revocation_sticksT atp ops _ (.at id) ?_ ?_
  · simp only [hst]; exact hdead
  · simp only [hst]; exact hrw.known (.at id) hk

/-! ### (c) delegation: subject token AND actor token -/


/-- the REGENERATED getters of `op.tokenExchangeRequest` hand out the like-named fields: subject data for the subject getters, actor data
    for the actor getters -/
theorem exchange_getters (now : Int) (r : TEReq) :
    GenRes.GetExchangeSubjectTokenIDOrToken now r = r.exchangeSubjectTokenIDOrToken ∧ GenRes.GetExchangeSubject now r = r.exchangeSubject ∧
    GenRes.GetExchangeSubjectTokenType now r = r.exchangeSubjectTokenType ∧
    GenRes.GetExchangeActorTokenIDOrToken now r = r.exchangeActorTokenIDOrToken ∧ GenRes.GetExchangeActor now r = r.exchangeActor ∧
    GenRes.GetExchangeActorTokenType now r = r.exchangeActorTokenType := ⟨rfl, rfl, rfl, rfl, rfl, rfl⟩

theorem c08_exchange_ids_reach_policy (now : Int) (inp : TEIn) (client : OPClient) (ex : TEProvider) (req : TEReq)
    (h : GenTE.CreateTokenExchangeRequest now inp client ex = .ok req) :
    ∃ r0 r1, ex.Storage.ValidateTokenExchangeRequest r0 = .ok r1 ∧
      (GenTE.GetTokenIDAndSubjectFromToken now ex inp.SubjectToken inp.SubjectTokenType false).2.2.2 = true ∧
      GenRes.GetExchangeSubjectTokenIDOrToken now r0 = (GenTE.GetTokenIDAndSubjectFromToken now ex inp.SubjectToken inp.SubjectTokenType false).1 ∧
      GenRes.GetExchangeSubjectTokenType now r0 = inp.SubjectTokenType ∧
      (inp.ActorToken ≠ "" →
        (GenTE.GetTokenIDAndSubjectFromToken now ex inp.ActorToken inp.ActorTokenType true).2.2.2 = true ∧
        GenRes.GetExchangeActorTokenIDOrToken now r0 = (GenTE.GetTokenIDAndSubjectFromToken now ex inp.ActorToken inp.ActorTokenType true).1 ∧
        GenRes.GetExchangeActorTokenType now r0 = inp.ActorTokenType) := by
  unfold GenTE.CreateTokenExchangeRequest at h
  simp only [] at h
  split at h
  · simp at h
  · cases hs : GenTE.GetTokenIDAndSubjectFromToken now ex inp.SubjectToken inp.SubjectTokenType false with
    | mk sid rest =>
      obtain ⟨ssub, scl, sok⟩ := rest
      simp only [hs] at h
      split at h
      · simp at h
      · rename_i hsok
        split at h
        · rename_i hact
          cases ha : GenTE.GetTokenIDAndSubjectFromToken now ex inp.ActorToken inp.ActorTokenType true with
          | mk aid arest =>
            obtain ⟨asub, acl, aok⟩ := arest
            simp only [ha] at h
            split at h
            · simp at h
            · rename_i haok
              split at h
              · simp at h
              · rename_i r1 hv
                refine ⟨_, r1, hv, by simpa using hsok, rfl, rfl, fun _ => ⟨by simpa using haok, rfl, rfl⟩⟩
        · rename_i hact
          split at h
          · simp at h
          · rename_i r1 hv
            refine ⟨_, r1, hv, by simpa using hsok, rfl, rfl, fun hne => absurd (by simpa using hact) hne⟩


/-- what `exchange` honours is what the `exchange` operation of the machine honours -/
theorem exchange_is_step (atp : ResATProvider) (e : Env) (s : St) (asRefresh : Bool) (tok : String) :
    exchange atp e s asRefresh tok = (step atp s (.exchange e asRefresh tok)).2 := rfl

/-- C08 (delegation): a token exchange that carries an actor token succeeds only when BOTH the subject token and the actor token are
    live tokens the storage shows under the issuer of the request - for every oracle (whatever the two strings decrypt to) -/
theorem exchangeD_live (atp : ResATProvider) (e : Env) (s : St) (asRefresh : Bool) (tok a : String) (x : Ref) (y : Option Ref)
    (h : exchangeD atp e s asRefresh tok (some a) = some (x, y)) :
    VisibleLive s e.issuer x ∧ ∃ y', y = some y' ∧ VisibleLive s e.issuer y' := by
  unfold exchangeD at h
  cases hx : exchange atp e s asRefresh tok with
  | none => simp [hx] at h
  | some x' =>
    simp only [hx] at h
    obtain ⟨iss, hi, hv⟩ := honoured_visible atp s (.exchange e asRefresh tok) x' (by rw [← exchange_is_step]; exact hx)
    simp only [requestIssuer, Option.some.injEq] at hi; subst hi
    split at h
    · rename_i aid asub cl heq
      cases hl : s.liveTok e.issuer (GenRes.GetExchangeActorTokenIDOrToken e.now (exchangeRequest asRefresh x' aid asub)) with
      | none => simp [hl] at h
      | some t =>
        simp only [hl, Option.map_some, Option.some.injEq, Prod.mk.injEq] at h
        obtain ⟨rfl, rfl⟩ := h
        exact ⟨hv, _, rfl, t, (liveTok_some hl).1, rfl, (liveTok_some hl).2.2.1, (liveTok_some hl).2.2.2⟩
    · simp at h

/-- ... in particular a revoked / expired / logged-out token is refused as ACTOR as it is refused as subject -/
theorem dead_actor_refused (atp : ResATProvider) (e : Env) (s : St) (asRefresh : Bool) (tok a : String) (x y : Ref)
    (hd : Dead s y) : exchangeD atp e s asRefresh tok (some a) ≠ some (x, some y) := by
  intro h
  obtain ⟨_, y', hy, hv⟩ := exchangeD_live atp e s asRefresh tok a x (some y) h
  cases hy
  cases y with
  | «at» id => obtain ⟨t, ht, hi, hl, _⟩ := hv; rw [hd t ht hi] at hl; cases hl
  | rt tk => obtain ⟨t, ht, hi, hl, _⟩ := hv; rw [hd t ht hi] at hl; cases hl

/-- the id the storage policy looks the actor up under is the id the ACTOR string resolved to (through the regenerated getter) -/
theorem exchangeD_actor_id (atp : ResATProvider) (e : Env) (s : St) (asRefresh : Bool) (tok a : String) (x y : Ref)
    (h : exchangeD atp e s asRefresh tok (some a) = some (x, some y)) :
    ∃ aid asub, resolve e.now (provider atp e s) a = some (aid, asub) ∧ y = .at aid := by
  unfold exchangeD at h
  cases hx : exchange atp e s asRefresh tok with
  | none => simp [hx] at h
  | some x' =>
    simp only [hx] at h
    have hb := getTokenIDAndClaims_eq e.now (provider atp e s) a
    split at h
    · rename_i aid asub cl heq
      rw [heq] at hb
      cases hr : resolve e.now (provider atp e s) a with
      | none => rw [hr] at hb; simp [resolved] at hb
      | some pr =>
        rw [hr] at hb
        simp only [resolved, Prod.mk.injEq] at hb
        cases hl : s.liveTok e.issuer (GenRes.GetExchangeActorTokenIDOrToken e.now (exchangeRequest asRefresh x' aid asub)) with
        | none => simp [hl] at h
        | some t =>
          simp only [hl, Option.map_some, Option.some.injEq, Prod.mk.injEq] at h
          obtain ⟨_, rfl⟩ := h
          have hid := (liveTok_some hl).2.1
          refine ⟨pr.1, pr.2, rfl, ?_⟩
          rw [hid]
          rw [(exchange_getters e.now _).2.2.2.1]
          simp only [exchangeRequest]
          rw [hb.1]
    · simp at h

/-! ### non-vacuity -/

def exTokJ : Tok := { id := "atJ", client := "webjwt", subject := "u1", audience := ["webjwt"], exp := 1500 * Go.second, jwt := true }
def exTokO : Tok := { id := "at1", client := "web", subject := "u1", audience := ["web"], refresh := "rt1", exp := 1500 * Go.second }
def exRTO : RTok := { token := "rt1", client := "web", subject := "u1", access := "at1", exp := 9000 * Go.second }
def exTimed (byClaim : Bool) : Timed := { st := { toks := [exTokO, exTokJ], rtoks := [exRTO] }, expiryByClaim := byClaim }
def exEnvT (n : Int) : Env := { now := n * Go.second, decrypt := fun t => if t == "opaque1" then .ok "at1:u1" else .error "illegal base64 data" }
/-- a JWT access token of the provider for the stored token `atJ` with the given exp claim (seconds) -/
def exJWTok (exp : Int) : Token :=
  let p : Payload := { bytes := 1, claims := some { iss := "https://op", sub := "u1", aud := ["webjwt"], exp := exp } }
  { segs := 3, middle := some p,
    jws := some { Signatures := [{ Header := ⟨"RS256", "sig1"⟩, signer := some 0, signedAlg := "RS256", signedBytes := 1, signedHdr := ⟨"RS256", "sig1"⟩ }], payload := p } }
def exEnvJ (n exp : Int) : Env := { now := n * Go.second, issuer := "https://op", tokenOf := fun _ => exJWTok exp, jtiOf := fun _ => "atJ" }

-- an opaque token: honoured before its storage expiration, refused after it; the refresh token lives on
example : (runT {} (exTimed false) [.userinfo .provider (exEnvT 1000) "opaque1", .userinfo .provider (exEnvT 1501) "opaque1",
    .introspect .legacy (exEnvT 1502) (some "web") "opaque1", .exchange (exEnvT 1503) false "opaque1", .refresh (exEnvT 1504) "rt1"]).2
    = [some (.at "at1"), none, none, none, some (.rt "rt1")] := by decide
-- faults: a failing RevokeToken is refused and the token stays usable; the retry kills it; a failing refresh lookup honours nothing
example : (runT {} (exTimed false) [.revoke .provider { exEnvT 1000 with faults := ["RevokeToken"] } (some "web") "" "opaque1",
    .userinfo .legacy (exEnvT 1001) "opaque1", .revoke .legacy (exEnvT 1002) (some "web") "" "opaque1", .userinfo .provider (exEnvT 1003) "opaque1",
    .refresh { exEnvT 1004 with faults := ["TokenRequestByRefreshToken"] } "rt1"]).2 = [none, some (.at "at1"), none, none, none] := by decide
example : (revoke .legacy {} { exEnvT 1000 with faults := ["GetRefreshTokenInfo"] } (exTimed false).st (some "web") "" "rt1").2 = .refused := by decide
-- a JWT whose exp claim is the storage's expiration (1500 s) dies with it - at a storage that checks the clock and at one that leaves the
-- expiry of JWTs to the claim alike
example : (runT exATP (exTimed false) [.userinfo .provider (exEnvJ 1000 1500) "jwt", .userinfo .provider (exEnvJ 1501 1500) "jwt"]).2
    = [some (.at "atJ"), none] := by decide
example : (runT exATP (exTimed true) [.userinfo .legacy (exEnvJ 1000 1500) "jwt", .introspect .provider (exEnvJ 1501 1500) (some "webjwt") "jwt",
    .exchange (exEnvJ 1502 1500) false "jwt"]).2 = [some (.at "atJ"), none, none] := by decide
-- what `c08_exp_claim_is_storage_expiration` excludes: were the claim the storage's expiration PLUS a clock skew (1500 + 3600), the
-- claim-trusting storage would honour the token after the expiration it gave it
example : (runT exATP (exTimed true) [.userinfo .provider (exEnvJ 1501 5100) "jwt"]).2 = [some (.at "atJ")] := by decide
example : (runT exATP (exTimed false) [.userinfo .provider (exEnvJ 1501 5100) "jwt"]).2 = [none] := by decide
-- the regenerated issuance: the storage says 1500 s, the client has an hour of clock skew; the signer is shown the claims
example : (GenC06.CreateAccessToken (1000 * Go.second) {} IssConst.AccessTokenTypeJWT
    { Storage := { CreateAccessToken := fun _ => .ok ("atJ", 1500 * Go.second),
                   SigningKey := .ok { signAT := fun c => .ok (toString c.Expiration ++ "/" ++ c.JWTID) } } }
    { ClockSkew := 3600 * Go.second } "").toOption = some ("1500/atJ", "", 4100 * Go.second) := by decide
-- delegation: a live subject with a live actor is accepted, with a revoked actor refused (and the other way round)
def exEnv2 (n : Int) : Env := { now := n * Go.second, decrypt := fun t => if t == "opaque1" then .ok "at1:u1" else if t == "opaque2" then .ok "at2:u2" else .error "illegal base64 data" }
def exSt2 : St := { toks := [exTokO, { exTokO with id := "at2", subject := "u2", refresh := "" }], rtoks := [exRTO] }
example : exchangeD {} (exEnv2 1000) exSt2 false "opaque1" (some "opaque2") = some (.at "at1", some (.at "at2")) := by decide
example : exchangeD {} (exEnv2 1000) (revoke .provider {} (exEnv2 999) exSt2 (some "web") "" "opaque2").1 false "opaque1" (some "opaque2") = none := by decide
example : exchangeD {} (exEnv2 1000) (revoke .provider {} (exEnv2 999) exSt2 (some "web") "" "opaque2").1 false "opaque1" none = some (.at "at1", none) := by decide
example : exchangeD {} (exEnv2 1000) (revoke .legacy {} (exEnv2 999) exSt2 (some "web") "" "opaque1").1 false "opaque1" (some "opaque2") = none := by decide
example : exchangeD {} (exEnv2 1000) (exSt2.atTime false (1501 * Go.second)) true "rt1" (some "opaque2") = none := by decide
-- end_session: the legacy and the provider router, a storage without / with TerminateSessionFromRequest, a fault at the call
def exEnder (cap : Bool) : SessionEnder := { store := { is_CanTerminateSessionFromRequest := cap }, defaultLogoutURI := "https://op/out" }
def exSessO : SessOracles := { pathMatch := fun _ _ => .ok false, urlParse := fun _ => .error "x", tokenOf := fun _ => default }
example : (logout .legacy 0 exSessO (.ok {}) (exEnder false) ["TerminateSession"] "" (exTimed false).st).2 = .error 500 "server_error" := by decide
example : (logout .provider 0 exSessO (.ok {}) (exEnder false) ["TerminateSession"] "" (exTimed false).st).2 = .error 400 "server_error" := by decide
example : (logout .legacy 0 exSessO (.ok {}) (exEnder true) ["TerminateSession"] "" (exTimed false).st).2 = .redirect "https://op/out" := by decide
example : (logout .legacy 0 exSessO (.ok {}) (exEnder true) ["TerminateSessionFromRequest"] "" (exTimed false).st).2 = .error 500 "server_error" := by decide
example : (logout .provider 0 exSessO (.ok {}) (exEnder false) [] "" (exTimed false).st).2 = .redirect "https://op/out" := by decide

end Res
