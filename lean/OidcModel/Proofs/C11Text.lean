/-
  C11, part 2b: the page rendered from a well-formed form_post template has NO character data outside its tags
  (`pageText … = []`): nothing before the document, nothing after it, no value that ends up as text.
-/
import OidcModel.Proofs.C11Html

namespace C11
open UA

theorem strayText_append (st : TState) (a b : Bytes) :
    strayText st (a ++ b) = strayText st a ++ strayText (run st a) b := by
  induction a generalizing st with
  | nil => rfl
  | cons c a ih => simp only [List.cons_append, strayText, run_cons, ih, List.append_assoc]

/-- the tokenizer's next mode depends on its mode and the byte only -/
theorem step_mode (st : TState) (c : UInt8) : (step st c).mode = (step { mode := st.mode } c).mode := by
  obtain ⟨mode, name, attrs, an, av, out⟩ := st
  cases mode <;> simp only [step, TState.emit, TState.pushAttr] <;> (repeat' split) <;> simp_all

theorem strayText_mode (st : TState) (x : Bytes) : strayText st x = strayText { mode := st.mode } x := by
  induction x generalizing st with
  | nil => rfl
  | cons c x ih =>
    show (if st.mode == .data && c != 0x3C && !isSpace c then [c] else []) ++ strayText (step st c) x
      = (if st.mode == .data && c != 0x3C && !isSpace c then [c] else []) ++ strayText (step { mode := st.mode } c) x
    rw [ih (step st c), ih (step { mode := st.mode } c), step_mode st c]

/-- inside a double-quoted attribute value nothing is text -/
theorem strayText_valueDQ (st : TState) (hs : st.mode = .valueDQ) (x : Bytes) (hx : ∀ b ∈ x, b ≠ 0x22) :
    strayText st x = [] := by
  induction x generalizing st with
  | nil => rfl
  | cons c x ih =>
    have hc : (c == 0x22) = false := by simpa using hx c (by simp)
    have hstep : step st c = { st with av := c :: st.av } := by
      obtain ⟨mode, name, attrs, an, av, out⟩ := st
      simp only at hs; subst hs
      simp [step, hc]
    have htail := ih { st with av := c :: st.av } hs (fun b hb => hx b (by simp [hb]))
    simp only [strayText, hstep, htail]
    simp [hs]

/-- the template's literal text has no character data outside tags (decidable, evaluated on the regenerated template) -/
def restTextOK : List AR.Node → Bool
  | [] => true
  | .text t :: rest => (strayText {} t == []) && restTextOK rest
  | .withParam _ pre post :: rest => (strayText {} pre == []) && (strayText { mode := .valueDQ } post == []) && restTextOK rest
  | .redirectURI :: _ => false

def templateTextOK (tmpl : List AR.Node) : Bool :=
  match tmpl with
  | .text t0 :: .redirectURI :: .text t1 :: rest =>
    (strayText {} t0 == []) && (strayText { mode := .valueDQ } t1 == []) && restTextOK rest
  | _ => false

theorem strayText_rest (uri : Bytes) (params : AR.Values) (rest : List AR.Node) (h : restOK rest = true)
    (ht : restTextOK rest = true) (o : List Tag) :
    strayText (addOut {} o) (rest.flatMap (AR.renderNode true uri params)) = [] := by
  induction rest generalizing o with
  | nil => rfl
  | cons n rest ih =>
    cases n with
    | text t =>
      simp only [restOK, Bool.and_eq_true, beq_iff_eq] at h
      simp only [restTextOK, Bool.and_eq_true, beq_iff_eq] at ht
      have e1 : strayText (addOut {} o) t = [] := by rw [strayText_mode]; exact ht.1
      rw [List.flatMap_cons, strayText_append]
      show strayText (addOut {} o) t ++ strayText (run (addOut {} o) t) _ = []
      rw [e1, run_addOut, h.1.1, ih h.2 ht.2]
      rfl
    | redirectURI => simp [restOK] at h
    | withParam name pre post =>
      simp only [restOK, Bool.and_eq_true, beq_iff_eq] at h
      simp only [restTextOK, Bool.and_eq_true, beq_iff_eq] at ht
      obtain ⟨⟨⟨⟨h1, h2⟩, _⟩, _⟩, h5⟩ := h
      obtain ⟨⟨t1, t2⟩, t3⟩ := ht
      rw [List.flatMap_cons]
      simp only [AR.renderNode]
      cases hg : params.get name with
      | nil => simpa using ih h5 t3 o
      | cons v vs =>
        simp only [if_true]
        have e1 : strayText (addOut {} o) pre = [] := by rw [strayText_mode]; exact t1
        have hq := run_valueDQ (addOut (inputOpen name) o) rfl (AR.attrEscape v) (attrEscape_noquote v)
        have hst : ({ addOut (inputOpen name) o with av := (AR.attrEscape v).reverse ++ (addOut (inputOpen name) o).av } : TState)
            = addOut { inputOpen name with av := (AR.attrEscape v).reverse } o := by
          simp [addOut, inputOpen]
        have e2 : strayText (addOut (inputOpen name) o) (AR.attrEscape v) = [] :=
          strayText_valueDQ _ rfl _ (attrEscape_noquote v)
        have e3 : strayText (addOut { inputOpen name with av := (AR.attrEscape v).reverse } o) post = [] := by
          rw [strayText_mode]; exact t2
        simp only [strayText_append, run_append]
        rw [e1, run_addOut, h1, e2, hq, hst, e3, run_closeInput name _ post h2 o, ih h5 t3]
        rfl

/-- **the page rendered from a well-formed template has no character data outside its tags**, whatever the redirect URI and
    the parameter values are (values without CR) -/
theorem pageText_render (t0 t1 : Bytes) (rest : List AR.Node)
    (h : templateOK (.text t0 :: .redirectURI :: .text t1 :: rest) = true)
    (ht : templateTextOK (.text t0 :: .redirectURI :: .text t1 :: rest) = true)
    (uri : Bytes) (params : AR.Values) (hv : ∀ name, ∀ v ∈ params.get name, ∀ c ∈ v, c ≠ 0x0D) :
    pageText (AR.render true (.text t0 :: .redirectURI :: .text t1 :: rest) uri params) = [] := by
  simp only [templateOK, Bool.and_eq_true, beq_iff_eq] at h
  simp only [templateTextOK, Bool.and_eq_true, beq_iff_eq] at ht
  obtain ⟨⟨⟨⟨⟨h0, h1⟩, h1'⟩, hc0⟩, hc1⟩, hr⟩ := h
  obtain ⟨⟨x0, x1⟩, xr⟩ := ht
  have ht1 : t1 = [0x22, 0x3E] ++ t1.drop 2 := by rw [← h1, List.take_append_drop]
  have hpage : AR.render true (.text t0 :: .redirectURI :: .text t1 :: rest) uri params
      = t0 ++ (AR.attrEscape (AR.urlNormalize (AR.urlFilter uri)) ++ (t1 ++ rest.flatMap (AR.renderNode true uri params))) := by
    simp [AR.render, AR.renderNode]
  have hnocr : ∀ b ∈ AR.render true (.text t0 :: .redirectURI :: .text t1 :: rest) uri params, b ≠ 0x0D := by
    intro b hb
    rw [hpage] at hb
    simp only [List.mem_append] at hb
    rcases hb with hb | hb | hb | hb
    · exact noCR_mem t0 hc0 b hb
    · exact urlFilter_normalize_clean uri b hb
    · exact noCR_mem t1 hc1 b hb
    · exact rest_noCR uri params hv rest hr b hb
  unfold pageText normalizeNewlines
  rw [normalizeNL_id _ hnocr, hpage]
  have hform : run { formOpen with av := (AR.attrEscape (AR.urlNormalize (AR.urlFilter uri))).reverse ++ formOpen.av } [0x22, 0x3E]
      = addOut {} (formTag (AR.attrEscape (AR.urlNormalize (AR.urlFilter uri))) :: pageFrame.reverse) := by
    simp [run, step, addOut, formOpen, formTag, TState.pushAttr, TState.emit, isSpace]
  have e1 : strayText { formOpen with av := (AR.attrEscape (AR.urlNormalize (AR.urlFilter uri))).reverse ++ formOpen.av } t1 = [] := by
    rw [strayText_mode]; exact x1
  have hrun1 : run { formOpen with av := (AR.attrEscape (AR.urlNormalize (AR.urlFilter uri))).reverse ++ formOpen.av } t1
      = addOut {} (formTag (AR.attrEscape (AR.urlNormalize (AR.urlFilter uri))) :: pageFrame.reverse) := by
    rw [ht1, run_append, hform, run_addOut, h1']
  rw [strayText_append, x0, h0, strayText_append, strayText_valueDQ formOpen rfl _ (attrEscape_noquote _),
    run_valueDQ formOpen rfl _ (attrEscape_noquote _), strayText_append, e1, hrun1, strayText_rest uri params rest hr xr]
  rfl

end C11
