/-
  C14 proofs over the REGENERATED VerifyJWTAssertion / AuthorizePrivateJWTKey / ParseRequestObject /
  CopyRequestObjectToAuthRequest: assertions and request objects count only when signed by a key the
  storage holds for the client they name as issuer (composition with the C02 theorems).
-/
import OidcModel.Spec.C14
import OidcModel.Proofs.C01
import OidcModel.Proofs.C02
import OidcModel.Generated.RequestObject
-- (deep 4) Proofs.C04 is no longer imported: nothing here uses it, and a change that breaks C04's own lemma about AuthorizePrivateJWTKey
-- must not hide WHICH C14 theorem stops checking
import OidcModel.Generated.TokenEndpoint
import OidcModel.Proofs.C14Reuse
namespace C14
open Go Gen Hand

theorem clientKeys_eq (registry : List (String × JWK)) (id : String) :
    Hand.jwtProfileKeySet registry id = clientKeys registry id := rfl

theorem subjectIsIssuer_ok {now c} : SubjectIsIssuer now c = .ok () ↔ c.iss = c.sub := by
  unfold SubjectIsIssuer Claims.Issuer Claims.Subject Go.ok; go_leaf

/-- every accepting path of VerifyJWTAssertion (default key set = storage registry); from the characterisation lemma
    `verifyJWTAssertion_ok` (Proofs/C14Reuse.lean) - the regenerated definition is not unfolded here -/
theorem verifyJWTAssertion_paths {now t v c} (hks : v.keySet.kind = .nilSet) (h : VerifyJWTAssertion now t v = .ok c) :
    ∃ p c0, ParseToken now t = .ok (p, c0) ∧ CheckAudience now c0 v.Issuer = .ok () ∧ CheckExpiration now c0 v.Offset = .ok () ∧
      CheckIssuedAt now c0 v.MaxAgeIAT v.Offset = .ok () ∧ applySubjectCheck (SubjectIsIssuer now) v.CheckSubject c0 = .ok () ∧
      CheckSignature now t p c0 [] (clientKeys v.Storage c0.iss) = .ok c := by
  obtain ⟨p, c0, h1, h2, h3, h4, h5, h6⟩ := verifyJWTAssertion_ok.1 h
  have hn : Go.isNil v.keySet = true := by simp [Go.isNil, Nilable.isNil, hks]
  exact ⟨p, c0, h1, h2, h3, h4, h5, by simpa [assertionKeys, hn, clientKeys_eq] using h6⟩

/-- C14: an accepted assertion is signed with a key the storage holds for the client named as
    issuer, targets this provider, is within its time window and (default check) has sub = iss -/
theorem c14_assertion_sound {now t v c} (hks : v.keySet.kind = .nilSet) (h : VerifyJWTAssertion now t v = .ok c) :
    assertionOK v.Issuer v.MaxAgeIAT v.Offset v.CheckSubject.isNone v.Storage t now c = none := by
  obtain ⟨p, c0, hp, haud, hexp, hiat, hsub, hsig⟩ := verifyJWTAssertion_paths hks h
  have hs := C02.parse_and_signature_sound hp hsig
  obtain ⟨_, _, _, _, _, _, _, hc⟩ := C01.checkSignature_ok hsig
  have hiss : c.iss = c0.iss := by subst hc; rfl
  unfold assertionOK
  rw [hiss, hs.1]
  simp only []
  rw [C01.checkAudience_ok] at haud
  rw [C01.checkExpiration_ok] at hexp
  rw [C01.checkIssuedAt_ok] at hiat
  have r1 := C01.tRound_second_bounds (now + v.Offset)
  have r2 := C01.tRound_second_bounds (now - v.MaxAgeIAT)
  have hfind : (claimClauses v.Issuer v.MaxAgeIAT v.Offset v.CheckSubject.isNone c now (-halfSecond)).find? (fun p => !p.2) = none := by
    rw [List.find?_eq_none]
    intro x hx
    subst hc
    simp only [claimClauses, Claims.SetSignatureAlgorithm, List.mem_cons, List.mem_nil_iff, or_false] at hx
    simp only [C01.ns, C01.halfSecond, halfSecond, second] at *
    rcases hx with rfl | rfl | rfl | rfl | rfl | rfl
    · simpa using haud
    · simp; exact decide_eq_true (by omega)
    · simpa using hiat.1
    · simp; exact decide_eq_true (by omega)
    · simp; rcases hiat.2.2 with h0 | h0
      · intro hne; exact absurd h0 hne
      · intro _; omega
    · cases hcs : v.CheckSubject with
      | none =>
        simp only [applySubjectCheck, hcs] at hsub
        have := subjectIsIssuer_ok.1 hsub
        simp [this]
      | some f => simp
  simp [hfind]


/-- CHARACTERISATION (shape-independent) of the regenerated `AuthorizePrivateJWTKey` of the token-endpoint model -/
theorem genAuthorizePrivateJWTKey_ok {now t p c} : AuthorizePrivateJWTKey now t p = .ok c ↔
    ∃ j, VerifyJWTAssertion now t p.JWTProfileVerifier = .ok j ∧ p.store.GetClientByClientID j.iss = .ok c ∧ c.auth = Const.AuthMethodPrivateKeyJWT := by
  unfold AuthorizePrivateJWTKey
  -- field or getter, whichever the Go code reads the issuer through
  simp only [Provider.Storage, Claims.Issuer, Claims.GetIssuer, OPClient.AuthMethod]
  go_leaf

/-- the authenticated identity of `private_key_jwt` is exactly the assertion's issuer, and only for
    clients registered for that method -/
theorem c14_private_key_client {now t p c} (h : AuthorizePrivateJWTKey now t p = .ok c) :
    ∃ j, VerifyJWTAssertion now t p.JWTProfileVerifier = .ok j ∧ p.store.GetClientByClientID j.iss = .ok c ∧
      c.auth = Const.AuthMethodPrivateKeyJWT ∧
      assertionOK p.issuer p.jwtMaxAgeIAT p.jwtOffset true p.store.keyRegistry t now j = none := by
  obtain ⟨j, hj, hc, ha⟩ := genAuthorizePrivateJWTKey_ok.1 h
  refine ⟨j, hj, hc, ha, ?_⟩
  have := c14_assertion_sound (v := p.JWTProfileVerifier) (by rfl) hj
  simpa [Provider.JWTProfileVerifier] using this

/-- CHARACTERISATION (shape-independent) of the regenerated `ParseRequestObject` -/
theorem parseRequestObject_ok {now a st issuer a'} : ParseRequestObject now a st issuer = .ok a' ↔
    ∃ p ro0 ro, ParseToken now a.RequestToken = .ok (p, ro0) ∧
      (ro0.clientID = "" ∨ ro0.clientID = a.ClientID) ∧ (ro0.ro.ResponseType = "" ∨ ro0.ro.ResponseType = a.ResponseType) ∧
      ro0.iss = ro0.clientID ∧ issuer ∈ ro0.aud ∧
      CheckSignature now a.RequestToken p ro0 [] (jwtProfileKeySetS st ro0.iss) = .ok ro ∧
      a' = CopyRequestObjectToAuthRequest now a ro := by
  unfold ParseRequestObject Claims.ClientID Claims.ResponseType Claims.Issuer Claims.Audience Go.contains Go.nil HasNil.nilv instHasNilList
  go_leaf

/-- what an accepted request object must have been: a token signed by a key registered for the client
    it names as issuer, the issuer equal to its client_id claim, this provider in the audience, and
    client_id / response_type agreeing with the plain parameters; only then are parameters copied -/
theorem c14_request_object_sound {now a st issuer a'} (h : ParseRequestObject now a st issuer = .ok a') :
    ∃ p ro0 ro, ParseToken now a.RequestToken = .ok (p, ro0) ∧
      (ro0.clientID = "" ∨ ro0.clientID = a.ClientID) ∧ (ro0.ro.ResponseType = "" ∨ ro0.ro.ResponseType = a.ResponseType) ∧
      ro0.iss = ro0.clientID ∧ issuer ∈ ro0.aud ∧
      C02.acceptedOK [] (clientKeys st.keyRegistry ro0.iss) a.RequestToken ro = none ∧
      a' = CopyRequestObjectToAuthRequest now a ro := by
  obtain ⟨p, ro0, ro, hp, h1, h2, h3, h4, hs, ha⟩ := parseRequestObject_ok.1 h
  have hsound := C02.parse_and_signature_sound hp hs
  exact ⟨p, ro0, ro, hp, h1, h2, h3, h4, by simpa [jwtProfileKeySetS, clientKeys_eq] using hsound.1, ha⟩

end C14
