/-
  C19 proofs: the discovery document is truthful in EVERY configuration.

  All statements are about the REGENERATED functions (`Gen.*` of Generated/Discovery.lean,
  Generated/TokenEndpoint.lean): if the Go source changes what it advertises, routes or accepts, these
  theorems are re-checked against the new definitions on the next run.

  * `c19_holds`               : ∀ configuration (both routers, every endpoint shape incl. nil / custom path / absolute DiscURL,
                                every option and capability combination, every issuer string) the model's observation
                                satisfies the monitor `C19.monitor`.
  * `c19_issuer_eq`           : the document's issuer is the request issuer (= the `iss` of issued tokens).
  * `c19_endpoints_routed`    : every advertised endpoint is the configured DiscURL or the issuer-relative address of a registered route.
  * `c19_grants_exact`        : advertised \ {implicit} = grant types the token endpoint does not answer with unsupported_grant_type
                                (finite: `decide` over all 2·2⁸ combinations IS the proof here).
  * `c19_pkce_honoured`, `c19_request_object_honoured`.
  * `c19_issuer_validation`   : `ValidateIssuer` accepts exactly the acceptable issuers, ∀ strings, ∀ DiscURL-parser oracles.
  * `c19_dynamic_issuer`      : issuer-from-host / Forwarded construction refuses paths with query / fragment; produced scheme — over the
                                REGENERATED `issuerFromForwardedOrHost` / `hostFromForwarded` (`issuerFromForwardedOrHost_ok`, `staticIssuer_ok`).
  * `c19_document_per_request`, `c19_no_state_between_requests`, `c19_first_request_not_special` : over the regenerated request path of
                                both routers, the response to a discovery request is the document built with issuer := issuerFromRequest(THIS
                                request) and the configuration — in every sequence of requests.
  * `c19_request_issuer`      : the regenerated strategies give a request exactly the issuer `C19.issuerOfRequest` entitles it to.
  * `c19_visit_holds`, `c19_sequence_holds` : every visit of every sequence of requests satisfies `C19.monitorVisit` / `monitorSequence`.
  * `serve_wiring_pinned`     : the regenerated wiring facts the hand-written composition `Disco.serve` / `discoveryRoute` / `issuerFn` stands for.
  * `c19_rp_rejects_foreign_issuer` : `client.Discover` returns a document only if its issuer is the one asked for (∀ transports).
-/
import OidcModel.Model.DiscoveryModel

namespace C19
open Go Gen Disco

/-! ### regenerated tables the model relies on -/

/-- the hand-written `Const.*` values are the values of the pkg/oidc constants in the source -/
theorem const_table_ok : Gen.oidcConstTable =
    [("AuthMethodBasic", Const.AuthMethodBasic), ("AuthMethodNone", Const.AuthMethodNone), ("AuthMethodPost", Const.AuthMethodPost),
     ("AuthMethodPrivateKeyJWT", Const.AuthMethodPrivateKeyJWT), ("CodeChallengeMethodPlain", Const.CodeChallengeMethodPlain),
     ("CodeChallengeMethodS256", Const.CodeChallengeMethodS256), ("DiscoveryEndpoint", Const.DiscoveryEndpoint),
     ("GrantTypeBearer", Const.GrantTypeBearer), ("GrantTypeClientCredentials", Const.GrantTypeClientCredentials),
     ("GrantTypeCode", Const.GrantTypeCode), ("GrantTypeDeviceCode", Const.GrantTypeDeviceCode), ("GrantTypeImplicit", Const.GrantTypeImplicit),
     ("GrantTypeRefreshToken", Const.GrantTypeRefreshToken), ("GrantTypeTokenExchange", Const.GrantTypeTokenExchange)] := by decide

/-- the audited list of functions in pkg/op that can produce `unsupported_grant_type`. Besides the two dispatchers and the
    LegacyServer guards (all modelled), the remaining sites (`assertDeviceStorage`, `ValidateClientCredentialsRequest`,
    `CreateTokenExchangeRequest`, `LegacyServer.VerifyClient`) test the very storage capability whose presence is the
    condition for reaching them; `UnimplementedServer.*` is not used by either router. A new site breaks this theorem. -/
theorem unsupportedGrantSites_audited : Gen.unsupportedGrantSites =
    [("server.go", "UnimplementedServer.ClientCredentialsExchange"), ("server.go", "UnimplementedServer.CodeExchange"),
     ("server.go", "UnimplementedServer.DeviceToken"), ("server.go", "UnimplementedServer.JWTProfile"),
     ("server.go", "UnimplementedServer.RefreshToken"), ("server.go", "UnimplementedServer.TokenExchange"),
     ("server.go", "unimplementedGrantError"), ("server_http.go", "webServer.tokensHandler"),
     ("server_legacy.go", "LegacyServer.ClientCredentialsExchange"), ("server_legacy.go", "LegacyServer.DeviceToken"),
     ("server_legacy.go", "LegacyServer.JWTProfile"), ("server_legacy.go", "LegacyServer.RefreshToken"),
     ("server_legacy.go", "LegacyServer.TokenExchange"), ("server_legacy.go", "LegacyServer.VerifyClient"),
     ("storage.go", "assertDeviceStorage"), ("token_client_credentials.go", "ValidateClientCredentialsRequest"),
     ("token_exchange.go", "CreateTokenExchangeRequest"), ("token_request.go", "Exchange")] := by decide

/-! ### issuer -/

/-- the document's issuer is the issuer the interceptor established for the request, which is what
    `IssuerFromContext` hands to every token constructor -/
theorem c19_issuer_eq (i : Input) : (discovery i).Issuer = i.issuer := by
  unfold discovery; cases i.cfg.router <;> rfl

/-! ### endpoints -/

/-- what `Endpoint.Absolute` yields: the monitor's three cases -/
theorem absolute_cases (e : Endpoint) (iss : String) :
    Endpoint_Absolute 0 e iss = if e.isNil then "" else if e.url != "" then e.url else issuerRelative iss e := by
  unfold Endpoint_Absolute absoluteEndpoint relativeEndpoint issuerRelative
  cases h : e.isNil <;> simp [Go.isNil, Nilable.isNil, h, HAdd.hAdd]

theorem fieldOK_of (c : Config) (o : Obs) (f : Field) (st : Nat)
    (hadv : f.advertised o.doc = Endpoint_Absolute 0 (f.configured c.endpoints) o.doc.Issuer)
    (hp : o.probe.find? (·.1 == f) = some (f, st))
    (hs : (f.configured c.endpoints).isNil = false → (f.configured c.endpoints).url = "" → served st = true) :
    fieldOK c o f = true := by
  unfold fieldOK
  simp only [hadv, absolute_cases, hp]
  cases hn : (f.configured c.endpoints).isNil <;> simp
  by_cases hu : (f.configured c.endpoints).url = "" <;> simp [hu]
  exact Or.inr (hs hn hu)

theorem probe_find (i : Input) (f : Field) : (modelObs i).probe.find? (·.1 == f) = some (f, routeStatus i f) := by
  cases f <;> simp [modelObs, Field.all]

theorem routeStatus_served (i : Input) (f : Field)
    (h : (routes i).contains (Endpoint_Relative 0 (f.configured i.cfg.endpoints)) = true) : served (routeStatus i f) = true := by
  unfold routeStatus; rw [if_pos h]; decide

/-- a configured path-only endpoint is a registered route of the handler (both routers) -/
theorem configured_routed (i : Input) (hw : i.wellFormed) (f : Field)
    (hn : (f.configured i.cfg.endpoints).isNil = false) (hf : i.cfg.router = .legacy → f ≠ .checkSession) :
    (routes i).contains (Endpoint_Relative 0 (f.configured i.cfg.endpoints)) = true := by
  obtain ⟨⟨router, eps, flags, caps, insecure⟩, peps, iss⟩ := i
  cases router
  · obtain ⟨h1, hcs⟩ := hw rfl
    simp only at h1 hcs
    subst h1
    cases f <;> first
      | (simp [Field.configured] at hn; simp [hcs] at hn; done)
      | simp [routes, CreateRouter_routes, Field.configured, Input.conf, Input.provider, Provider_asConfiguration,
          Provider_AuthorizationEndpoint, Provider_TokenEndpoint, Provider_IntrospectionEndpoint, Provider_UserinfoEndpoint,
          Provider_RevocationEndpoint, Provider_EndSessionEndpoint, Provider_KeysEndpoint, Provider_DeviceAuthorizationEndpoint]
  · cases f
    case checkSession => exact absurd rfl (hf rfl)
    all_goals (
      simp [Field.configured] at hn
      simp [routes, webServer_createRouter_routes, webServer_endpointRoute_routes, Field.configured, Go.notNil, Nilable.isNil, hn])

/-- every document member is what `Endpoint.Absolute` makes of the configured endpoint (second router: `check_session_iframe`
    is not part of the document) -/
theorem advertised_eq (i : Input) (hw : i.wellFormed) (f : Field) (hf : i.cfg.router = .legacy → f ≠ .checkSession) :
    f.advertised (modelObs i).doc = Endpoint_Absolute 0 (f.configured i.cfg.endpoints) (modelObs i).doc.Issuer := by
  obtain ⟨⟨router, eps, flags, caps, insecure⟩, peps, iss⟩ := i
  cases router
  · obtain ⟨h1, _⟩ := hw rfl
    simp only at h1
    subst h1
    cases f <;> rfl
  · cases f
    case checkSession => exact absurd rfl (hf rfl)
    all_goals rfl

theorem fields_ok (i : Input) (hw : i.wellFormed) (f : Field) : fieldOK i.cfg (modelObs i) f = true := by
  by_cases hf : i.cfg.router = .legacy ∧ f = .checkSession
  · obtain ⟨⟨router, eps, flags, caps, insecure⟩, peps, iss⟩ := i
    obtain ⟨hr, rfl⟩ := hf
    simp only at hr
    subst hr
    simp [fieldOK, Field.advertised, modelObs, discovery, createDiscoveryConfigV2]
  · have hf' : i.cfg.router = .legacy → f ≠ .checkSession := fun h1 h2 => hf ⟨h1, h2⟩
    exact fieldOK_of _ _ f _ (advertised_eq i hw f hf') (probe_find i f)
      (fun hn _ => routeStatus_served i f (configured_routed i hw f hn hf'))

/-- readable form: for every configuration and every document member, what is advertised is "" for a disabled endpoint,
    the configured absolute DiscURL verbatim, or the issuer-relative address of a route the handler registers -/
theorem c19_endpoints_routed (i : Input) (hw : i.wellFormed) (f : Field) (hf : i.cfg.router = .legacy → f ≠ .checkSession) :
    let e := f.configured i.cfg.endpoints
    let adv := f.advertised (discovery i)
    (e.isNil = true → adv = "") ∧
    (e.isNil = false → e.url ≠ "" → adv = e.url) ∧
    (e.isNil = false → e.url = "" → adv = issuerRelative i.issuer e ∧ Endpoint_Relative 0 e ∈ routes i) := by
  have h := advertised_eq i hw f hf
  have hd : (modelObs i).doc = discovery i := rfl
  rw [hd, c19_issuer_eq, absolute_cases] at h
  refine ⟨fun hn => by simp [h, hn], fun hn hu => by simp [h, hn, hu], fun hn hu => ⟨by simp [h, hn, hu], ?_⟩⟩
  have := configured_routed i hw f hn hf
  simpa [List.contains_iff_mem] using this

/-! ### grant types -/

def bogusGrant : String := "urn:example:bogus-grant"

/-- advertised = accepted, as one boolean over the router, the options and the capabilities -/
def exactCore (router : Router) (flags : OpConfig) (caps : OpStorage) : Bool :=
  let adv := GrantTypes 0 (coreConf flags caps)
  let code := fun g => (tokenAnswer router flags caps g).code
  tokenGrants.all (fun g => adv.contains g == (code g != unsupportedGrantType)) &&
  adv.all (fun g => tokenGrants.contains g || g == Const.GrantTypeImplicit) &&
  code bogusGrant == unsupportedGrantType

/-- the configuration space is finite: both routers × 2⁵ options × 2³ capabilities, enumerated completely by the kernel -/
theorem exactCore_all : ∀ (router : Router) (a b c d e x y z : Bool), exactCore router ⟨a, b, c, d, e⟩ ⟨x, y, z⟩ = true := by
  intro r; cases r <;> decide

theorem grantsAgree_probed (adv : List String) (code : String → String) :
    grantsAgree adv (probedGrants.map fun g => (g, code g)) =
      (tokenGrants.all (fun g => adv.contains g == (code g != unsupportedGrantType)) &&
       adv.all (fun g => tokenGrants.contains g || g == Const.GrantTypeImplicit) &&
       code bogusGrant == unsupportedGrantType) := by
  simp [grantsAgree, probedGrants, tokenGrants, bogusGrant, List.all, List.find?, Const.GrantTypeCode, Const.GrantTypeRefreshToken,
    Const.GrantTypeClientCredentials, Const.GrantTypeBearer, Const.GrantTypeTokenExchange, Const.GrantTypeDeviceCode]

theorem doc_grants (i : Input) : (modelObs i).doc.GrantTypesSupported = GrantTypes 0 (coreConf i.cfg.flags i.cfg.caps) := by
  unfold modelObs discovery; cases i.cfg.router <;> rfl

theorem grants_ok (i : Input) : grantsOK (modelObs i) = true := by
  unfold grantsOK
  cases hn : i.cfg.endpoints.Token.isNil
  · have h : (modelObs i).grantAnswer =
        some (probedGrants.map fun g => (g, (tokenAnswer i.cfg.router i.cfg.flags i.cfg.caps g).code)) := by
      simp [modelObs, hn]
    rw [h]
    simp only []
    rw [doc_grants, grantsAgree_probed]
    obtain ⟨⟨router, eps, ⟨a, b, c, d, e⟩, ⟨x, y, z⟩, insecure⟩, peps, iss⟩ := i
    exact exactCore_all router a b c d e x y z
  · have h : (modelObs i).grantAnswer = none := by simp [modelObs, hn]
    rw [h]

/-- readable form: for every router, option and capability combination, a token-endpoint grant type is advertised iff the token
    endpoint does not answer it with unsupported_grant_type; everything else that is advertised is `implicit`; an unknown grant
    type is refused with unsupported_grant_type -/
theorem c19_grants_exact (router : Router) (flags : OpConfig) (caps : OpStorage) :
    (∀ g ∈ tokenGrants, (g ∈ GrantTypes 0 (coreConf flags caps) ↔ (tokenAnswer router flags caps g).code ≠ unsupportedGrantType)) ∧
    (∀ g ∈ GrantTypes 0 (coreConf flags caps), g ∈ tokenGrants ∨ g = Const.GrantTypeImplicit) ∧
    (tokenAnswer router flags caps bogusGrant).code = unsupportedGrantType := by
  obtain ⟨a, b, c, d, e⟩ := flags
  obtain ⟨x, y, z⟩ := caps
  have h := exactCore_all router a b c d e x y z
  simp only [exactCore, Bool.and_eq_true, List.all_eq_true, beq_iff_eq, Bool.or_eq_true, List.contains_iff_mem] at h
  obtain ⟨⟨h1, h2⟩, h3⟩ := h
  refine ⟨fun g hg => ?_, fun g hg => ?_, h3⟩
  · have := h1 g hg
    rw [Bool.eq_iff_iff] at this
    simpa only [List.contains_iff_mem, bne_iff_ne, ne_eq] using this
  · simpa using h2 g hg

/-! ### PKCE and request objects -/

theorem codeChallengeMethods_eq (flags : OpConfig) (caps : OpStorage) :
    CodeChallengeMethods 0 (coreConf flags caps) = if flags.CodeMethodS256 then [Const.CodeChallengeMethodS256] else [] := by
  cases h : flags.CodeMethodS256 <;>
    simp [CodeChallengeMethods, coreConf, Provider_asConfiguration, Provider_CodeMethodS256Supported, h, Go.append]

theorem pkceAnswer_S256 : pkceAnswer Const.CodeChallengeMethodS256 = "ok" := by decide

/-- every PKCE method any configuration advertises is honoured by the regenerated `VerifyCodeChallenge`:
    the right verifier passes, a wrong one is refused -/
theorem c19_pkce_honoured (flags : OpConfig) (caps : OpStorage) :
    ∀ m ∈ CodeChallengeMethods 0 (coreConf flags caps), pkceAnswer m = "ok" := by
  intro m hm
  rw [codeChallengeMethods_eq] at hm
  cases h : flags.CodeMethodS256 <;> simp [h] at hm
  subst hm
  exact pkceAnswer_S256

theorem pkce_ok (i : Input) : pkceOK (modelObs i) = true := by
  have h : (modelObs i).doc.CodeChallengeMethodsSupported = CodeChallengeMethods 0 (coreConf i.cfg.flags i.cfg.caps) := by
    unfold modelObs discovery; cases i.cfg.router <;> rfl
  have h2 : (modelObs i).pkce = (CodeChallengeMethods 0 (coreConf i.cfg.flags i.cfg.caps)).map
      (fun m => (m, if i.codeFlowPossible then pkceAnswer m else "na")) := by
    unfold modelObs; simp only []; rw [← h]; rfl
  unfold pkceOK
  rw [h, h2, codeChallengeMethods_eq]
  cases i.cfg.flags.CodeMethodS256 <;> cases i.codeFlowPossible <;> simp [pkceAnswer_S256]

/-- `request_parameter_supported` is advertised exactly when request objects are processed -/
theorem c19_request_object_honoured (i : Input) :
    (discovery i).RequestParameterSupported = true ↔ requestObjectAnswer i.conf = "honoured" := by
  have h : (discovery i).RequestParameterSupported = i.conf.RequestObjectSupported := by
    unfold discovery; cases i.cfg.router <;> rfl
  rw [h]; unfold requestObjectAnswer
  cases i.conf.RequestObjectSupported <;> simp

/-! ### the property -/

/-- **C19**: in every configuration — either router, every endpoint shape, every combination of options and storage
    capabilities, every issuer — the model's externally visible behaviour satisfies the monitor -/
theorem c19_holds (i : Input) (hw : i.wellFormed) : monitor i.cfg (modelObs i) = none := by
  have h1 : (modelObs i).status = 200 := rfl
  have h2 : (modelObs i).tokenIssuer = some i.issuer := rfl
  have h3 : (modelObs i).doc.Issuer = i.issuer := c19_issuer_eq i
  have h4 : Field.all.find? (fun f => !fieldOK i.cfg (modelObs i) f) = none := by
    simp [List.find?_eq_none, fields_ok i hw]
  have h5 : ((modelObs i).doc.RequestParameterSupported &&
      !((modelObs i).requestObject == "honoured" || (modelObs i).requestObject == "na")) = false := by
    have hd : (modelObs i).doc = discovery i := rfl
    have hr : (modelObs i).requestObject = if i.cfg.endpoints.Authorization.isNil then "na" else requestObjectAnswer i.conf := rfl
    have := c19_request_object_honoured i
    rw [hd, hr]
    cases hq : (discovery i).RequestParameterSupported
    · simp
    · cases i.cfg.endpoints.Authorization.isNil <;> simp [this.mp hq]
  unfold monitor
  simp [h1, h2, h3, h4, grants_ok i, pkce_ok i]
  simpa using h5

/-! ### issuer validation (DiscURL parser = oracle) -/

/-- `ValidateIssuer` accepts exactly the issuers that are non-empty, parse, have a host, no fragment, no query and use
    https (or http under the insecure opt-in) — for every string and every behaviour of `net/url.Parse` -/
theorem validateIssuer_iff (parse : String → Go.R DiscURL) (issuer : String) (insecure : Bool) :
    (ValidateIssuer 0 parse issuer insecure = .ok ()) ↔ issuerAcceptable parse issuer insecure = true := by
  unfold ValidateIssuer issuerAcceptable ValidateIssuerPath devLocalAllowed
  by_cases h0 : issuer = ""
  · simp [h0]
  · cases hp : parse issuer with
    | error e => simp [h0]
    | ok u =>
      by_cases hh : u.Host = "" <;> by_cases hs : u.Scheme = "https" <;> by_cases hs2 : u.Scheme = "http" <;>
        by_cases hf : u.Fragment = "" <;> cases hq : u.query <;>
        cases insecure <;> simp_all [Go.len, HasLen.len, Go.ok, DiscURL.Query]

theorem validateIssuerPath_iff (u : DiscURL) : (ValidateIssuerPath 0 u = .ok ()) ↔ (u.Fragment = "" ∧ u.Query = []) := by
  unfold ValidateIssuerPath
  by_cases hf : u.Fragment = "" <;> cases hq : u.query <;> simp_all [Go.len, HasLen.len, Go.ok, DiscURL.Query]

theorem isOk_iff (x : Go.R Unit) : x.isOk = true ↔ x = .ok () := by
  cases x <;> simp [Except.isOk, Except.toBool]

/-! ### the regenerated issuer strategies (`StaticIssuer`, `issuerFromForwardedOrHost`, `hostFromForwarded`) -/

/-- `StaticIssuer(iss)(insecure)` succeeds exactly when `ValidateIssuer` does, and then names `iss` for every request -/
theorem staticIssuer_ok (parse : String → Go.R DiscURL) (iss : String) (insecure : Bool) (f : DiscReq → String)
    (h : GenServe.StaticIssuer 0 parse iss insecure = .ok f) :
    ValidateIssuer 0 parse iss insecure = .ok () ∧ ∀ r, f r = iss := by
  unfold GenServe.StaticIssuer at h
  cases hv : ValidateIssuer 0 parse iss insecure with
  | error e => simp [hv] at h
  | ok x =>
    simp only [hv] at h
    injection h with h
    subst h
    exact ⟨rfl, fun _ => rfl⟩

theorem staticIssuer_isOk (parse : String → Go.R DiscURL) (iss : String) (insecure : Bool) :
    (GenServe.StaticIssuer 0 parse iss insecure).isOk = (ValidateIssuer 0 parse iss insecure).isOk := by
  unfold GenServe.StaticIssuer
  cases hv : ValidateIssuer 0 parse iss insecure <;> simp [Except.isOk, Except.toBool]

/-- the host `issuerFromForwardedOrHost` builds the issuer of a request from: what `hostFromForwarded` finds, else the Host line -/
def effectiveHost (parseFwd : String → List String → Go.R (List String)) (headers : List String) (r : DiscReq) : String :=
  if (GenServe.hostFromForwarded 0 parseFwd r headers).2 then (GenServe.hostFromForwarded 0 parseFwd r headers).1 else r.Host

/-- `issuerFromForwardedOrHost(path, c)(insecure)` succeeds exactly when the path parses and carries neither query nor fragment, and the
    function it returns is `dynamicIssuer(effective host of THIS request, path, insecure)` -/
theorem issuerFromForwardedOrHost_ok (parse : String → Go.R DiscURL) (parseFwd : String → List String → Go.R (List String))
    (path : String) (c : DiscIssuerConfig) (insecure : Bool) (f : DiscReq → String)
    (h : GenServe.issuerFromForwardedOrHost 0 parse parseFwd path c insecure = .ok f) :
    (∃ u, parse path = .ok u ∧ ValidateIssuerPath 0 u = .ok ()) ∧
    ∀ r, f r = dynamicIssuer 0 (effectiveHost parseFwd c.headers r) path insecure := by
  unfold GenServe.issuerFromForwardedOrHost at h
  cases hp : parse path with
  | error e => simp [hp] at h
  | ok u =>
    simp only [hp] at h
    cases hv : ValidateIssuerPath 0 u with
    | error e => simp [hv] at h
    | ok x =>
      simp only [hv] at h
      injection h with h
      subst h
      refine ⟨⟨u, rfl, hv⟩, fun r => ?_⟩
      unfold effectiveHost
      cases h2 : (GenServe.hostFromForwarded 0 parseFwd r c.headers).2 <;> simp [h2]

theorem issuerFromForwardedOrHost_isOk (parse : String → Go.R DiscURL) (parseFwd : String → List String → Go.R (List String))
    (path : String) (c : DiscIssuerConfig) (insecure : Bool) :
    (GenServe.issuerFromForwardedOrHost 0 parse parseFwd path c insecure).isOk =
      (match parse path with | .error _ => false | .ok u => (ValidateIssuerPath 0 u).isOk) := by
  unfold GenServe.issuerFromForwardedOrHost
  cases hp : parse path with
  | error e => rfl
  | ok u => cases hv : ValidateIssuerPath 0 u <;> simp [hv, Except.isOk, Except.toBool]

/-- no configured header: the Host line counts (`IssuerFromHost`) -/
theorem hostFromForwarded_nil (parseFwd : String → List String → Go.R (List String)) (r : DiscReq) :
    GenServe.hostFromForwarded 0 parseFwd r [] = ("", false) := rfl

theorem constructIssuer_isOk (parse : String → Go.R DiscURL) (s : IssuerStrategy) (insecure : Bool) :
    (constructIssuer parse s insecure).isOk = (issuerFn ⟨parse, fwdOracle⟩ s none insecure).isOk := by
  unfold constructIssuer
  cases issuerFn ⟨parse, fwdOracle⟩ s none insecure <;> rfl

/-- provider construction with a static issuer (the regenerated `StaticIssuer`) never lets an unacceptable issuer through -/
theorem c19_issuer_validation (parse : String → Go.R DiscURL) (issuer : String) (insecure : Bool) :
    monitorIssuer parse issuer insecure (constructIssuer parse (.static issuer) insecure).isOk = none := by
  rw [constructIssuer_isOk]
  simp only [monitorIssuer, issuerFn, staticIssuer_isOk]
  by_cases h : (ValidateIssuer 0 parse issuer insecure).isOk = true
  · simp [(validateIssuer_iff parse issuer insecure).mp ((isOk_iff _).mp h)]
  · simp [h]

/-- the five rejections of the statement, one by one -/
theorem c19_issuer_rejections (parse : String → Go.R DiscURL) (issuer : String) (insecure : Bool) (u : DiscURL) (hp : parse issuer = .ok u) :
    ValidateIssuer 0 parse "" insecure ≠ .ok () ∧
    (u.Host = "" → ValidateIssuer 0 parse issuer insecure ≠ .ok ()) ∧
    (u.Fragment ≠ "" → ValidateIssuer 0 parse issuer insecure ≠ .ok ()) ∧
    (u.Query ≠ [] → ValidateIssuer 0 parse issuer insecure ≠ .ok ()) ∧
    (u.Scheme = "http" → insecure = false → ValidateIssuer 0 parse issuer insecure ≠ .ok ()) ∧
    (u.Scheme ≠ "https" → u.Scheme ≠ "http" → ValidateIssuer 0 parse issuer insecure ≠ .ok ()) := by
  refine ⟨?_, ?_, ?_, ?_, ?_, ?_⟩
  · intro h; have := (validateIssuer_iff parse "" insecure).mp h; simp [issuerAcceptable] at this
  all_goals (
    intros
    intro h
    have := (validateIssuer_iff parse issuer insecure).mp h
    simp_all [issuerAcceptable, DiscURL.Query])

theorem dynamicIssuer_scheme (host path : String) (insecure : Bool) :
    Go.hasPrefix (dynamicIssuer 0 host path insecure) (if insecure then "http://" else "https://") = true := by
  unfold dynamicIssuer
  cases insecure <;> simp only [Bool.false_eq_true, if_false, if_true] <;> split <;>
    simp [Go.hasPrefix, HAdd.hAdd, String.toList_append]

/-- issuer from request host / Forwarded header, over the REGENERATED `issuerFromForwardedOrHost` / `hostFromForwarded`: construction
    refuses a path with query or fragment, and the issuer produced for any request uses http only under the insecure opt-in —
    ∀ paths, hosts, forwarded hosts, parser behaviours -/
theorem c19_dynamic_issuer (parse : String → Go.R DiscURL) (path : String) (fromFwd : Bool) (insecure : Bool)
    (host : String) (fwd : Option String) :
    let s : IssuerStrategy := if fromFwd then .fromForwarded path else .fromHost path
    let acc := (constructIssuer parse s insecure).isOk
    monitorDynamicIssuer parse path insecure acc (if acc then requestIssuer parse s insecure host fwd else none) = none := by
  have key : ∀ c : DiscIssuerConfig,
      (let acc := (GenServe.issuerFromForwardedOrHost 0 parse fwdOracle path c insecure).isOk
       monitorDynamicIssuer parse path insecure acc
         (if acc then applyIssuer (GenServe.issuerFromForwardedOrHost 0 parse fwdOracle path c insecure) (requestOf host fwd) else none)) = none := by
    intro c
    cases hf : GenServe.issuerFromForwardedOrHost 0 parse fwdOracle path c insecure with
    | error e =>
      simp [monitorDynamicIssuer, Except.isOk, Except.toBool]
    | ok f =>
      obtain ⟨⟨u, hp, hv⟩, hfr⟩ := issuerFromForwardedOrHost_ok parse fwdOracle path c insecure f hf
      have h := (validateIssuerPath_iff u).mp hv
      have hpre := dynamicIssuer_scheme (effectiveHost fwdOracle c.headers (requestOf host fwd)) path insecure
      rw [← hfr] at hpre
      cases insecure <;> simp_all [monitorDynamicIssuer, applyIssuer, Except.isOk, Except.toBool, DiscURL.Query]
  cases fromFwd
  · simpa [constructIssuer_isOk, requestIssuer, issuerFn] using key _
  · simpa [constructIssuer_isOk, requestIssuer, issuerFn] using key _

/-! ### one request after another: the document is a function of THIS request only -/

theorem issuerFromContext_withIssuer (ctx : DiscCtx) (x : String) :
    GenServe.IssuerFromContext 0 (GenServe.ContextWithIssuer 0 ctx x) = x := by
  simp [GenServe.IssuerFromContext, GenServe.ContextWithIssuer, DiscCtx.WithValue, DiscCtx.Value, DiscCtxVal.asString]

/-- the second translation of the two document builders (with their context parameter) is the first one applied to
    `IssuerFromContext(ctx)` -/
theorem createDiscoveryConfig_ctx (ctx : DiscCtx) (c : Configuration) (st : OpStorage) :
    GenServe.CreateDiscoveryConfig 0 ctx c st = Gen.CreateDiscoveryConfig 0 (GenServe.IssuerFromContext 0 ctx) c := rfl

theorem createDiscoveryConfigV2_ctx (ctx : DiscCtx) (c : Configuration) (st : OpStorage) (eps : Endpoints) :
    GenServe.createDiscoveryConfigV2 0 ctx c st eps = Gen.createDiscoveryConfigV2 0 (GenServe.IssuerFromContext 0 ctx) c eps := rfl

/-- `setIssuerCtx` hands the next handler the request with the issuer of THIS request in its context -/
theorem setIssuerCtx_eq (f : DiscReq → String) (w : DiscW) (r : DiscReq) (next : DiscHandler) :
    GenServe.setIssuerCtx 0 ⟨f⟩ w r next = next.ServeHTTP w (r.WithContext (GenServe.ContextWithIssuer 0 r.Context (f r))) := rfl

/-- **c19_document_per_request**: on both routers the response to a discovery request is exactly one document, and that document is
    `CreateDiscoveryConfig` / `createDiscoveryConfigV2` with `issuer := issuerFromRequest(THIS request)` and the provider's
    configuration — nothing else enters (the regenerated handlers are functions of the configuration, the writer and the request; a
    handler that remembers an earlier request has no translation) -/
theorem c19_document_per_request (i : Input) (f : DiscReq → String) (r : DiscReq) (hform : r.parseFormFails = false) :
    serve f (discoveryRoute i) r = [.json (discovery { i with issuer := f r })] := by
  unfold serve discoveryRoute discovery
  cases hr : i.cfg.router
  · simp [GenServe.IssuerInterceptor_Handler, GenServe.setIssuerCtx, GenServe.discoveryHandler, GenServe.opDiscover,
      Hand.discMarshalJSON, createDiscoveryConfig_ctx, DiscReq.WithContext, DiscReq.Context, issuerFromContext_withIssuer]
    rfl
  · simp [GenServe.IssuerInterceptor_Handler, GenServe.setIssuerCtx, GenServe.simpleHandler, GenServe.LegacyServer_Discovery,
      GenServe.Response_writeOut, Hand.discNewResponse, Hand.discMarshalJSON, createDiscoveryConfigV2_ctx, DiscReq.WithContext,
      DiscReq.Context, DiscReq.ParseForm, hform, issuerFromContext_withIssuer]
    rfl

/-- whatever was asked before: in ANY sequence of requests to one provider, every response is the document of its own request -/
theorem c19_no_state_between_requests (i : Input) (f : DiscReq → String) (rs : List DiscReq)
    (hform : ∀ r ∈ rs, r.parseFormFails = false) :
    rs.map (serve f (discoveryRoute i)) = rs.map (fun r => [.json (discovery { i with issuer := f r })]) :=
  List.map_congr_left (fun r hr => c19_document_per_request i f r (hform r hr))

/-- two requests with the same issuer get the same document; the first request of a provider's life is not special -/
theorem c19_first_request_not_special (i : Input) (f : DiscReq → String) (first r : DiscReq)
    (h1 : first.parseFormFails = false) (h2 : r.parseFormFails = false) :
    (servedDoc (serve f (discoveryRoute i) r)).map (·.Issuer) = some (f r) ∧
    (f first ≠ f r → servedDoc (serve f (discoveryRoute i) r) ≠ servedDoc (serve f (discoveryRoute i) first)) := by
  rw [c19_document_per_request i f r h2, c19_document_per_request i f first h1]
  refine ⟨by simp [servedDoc, c19_issuer_eq], fun hne heq => hne ?_⟩
  simp only [servedDoc, Option.some.injEq] at heq
  have := congrArg DiscoveryConfiguration.Issuer heq
  simpa [c19_issuer_eq] using this.symm

/-! ### the issuer a request is entitled to (Spec) = the issuer the regenerated strategy computes -/

theorem len_pos_iff (s : String) : (decide ((Go.len s) > (0 : Int))) = (s != "") := by
  by_cases h : s = ""
  · subst h; simp [Go.len, HasLen.len]
  · have h1 : s.utf8ByteSize ≠ 0 := fun h0 => h (String.utf8ByteSize_eq_zero_iff.mp h0)
    have h2 : 0 < s.utf8ByteSize := by omega
    have h3 : (s != "") = true := by simpa using h
    simp [Go.len, HasLen.len, h2, h3]

/-- `dynamicIssuer` is scheme://host + the path with the one leading slash it needs -/
theorem dynamicIssuer_eq (host path : String) (insecure : Bool) :
    dynamicIssuer 0 host path insecure = (if insecure then "http" else "https") ++ "://" ++ host ++ issuerPathSuffix path := by
  unfold dynamicIssuer issuerPathSuffix
  rw [len_pos_iff]
  by_cases h0 : path = ""
  · subst h0; cases insecure <;> simp [Go.hasPrefix, HAdd.hAdd]
  · cases hp : Go.hasPrefix path "/" <;> cases insecure <;> simp [h0, HAdd.hAdd, String.append_assoc]

/-- the forwarding headers of request `r` say what the sender of visit `v` put there (the oracle / request side of the tie;
    the driver checks it by computing `hostFromForwarded` on the observed headers with the library's answers) -/
def headersAgree (o : ServeOracles) (custom : Option (List String)) (v : Visit) (r : DiscReq) : Prop :=
  r.Host = v.host ∧
  ∀ p, v.strategy = .fromForwarded p →
    GenServe.hostFromForwarded 0 o.parseFwd r (v.strategy.issuerConfig custom).headers = fwdResult v.fwdHost

/-- for a provider that could be constructed, the issuer function it got names for every request exactly the issuer the
    specification entitles that request to -/
theorem c19_request_issuer (o : ServeOracles) (custom : Option (List String)) (insecure : Bool) (v : Visit) (r : DiscReq)
    (f : DiscReq → String) (hf : issuerFn o v.strategy custom insecure = .ok f) (hh : headersAgree o custom v r) :
    f r = issuerOfRequest insecure v := by
  obtain ⟨hhost, hfwd⟩ := hh
  cases hs : v.strategy with
  | static iss =>
    rw [hs] at hf
    simp only [issuerFn] at hf
    rw [(staticIssuer_ok _ _ _ _ hf).2 r]
    simp [issuerOfRequest, hs]
  | fromHost path =>
    rw [hs] at hf
    simp only [issuerFn] at hf
    rw [(issuerFromForwardedOrHost_ok _ _ _ _ _ _ hf).2 r, dynamicIssuer_eq]
    simp [issuerOfRequest, hs, effectiveHost, IssuerStrategy.issuerConfig, hostFromForwarded_nil, hhost]
  | fromForwarded path =>
    have h2 := hfwd path hs
    rw [hs] at hf h2
    simp only [issuerFn] at hf
    rw [(issuerFromForwardedOrHost_ok _ _ _ _ _ _ hf).2 r, dynamicIssuer_eq]
    cases hv : v.fwdHost <;> simp [issuerOfRequest, hs, effectiveHost, h2, hv, fwdResult, hhost]

/-! ### every visit of every sequence satisfies the monitor -/

theorem wellFormed_withIssuer (i : Input) (x : String) (hw : i.wellFormed) : ({ i with issuer := x } : Input).wellFormed := hw

theorem fieldAddress_ok (i : Input) (hw : i.wellFormed) (f : Field) : fieldAddressOK i.cfg (discovery i) f = true := by
  by_cases hf : i.cfg.router = .legacy ∧ f = .checkSession
  · obtain ⟨⟨router, eps, flags, caps, insecure⟩, peps, iss⟩ := i
    obtain ⟨hr, rfl⟩ := hf
    simp only at hr
    subst hr
    simp [fieldAddressOK, Field.advertised, discovery, createDiscoveryConfigV2]
  · have hf' : i.cfg.router = .legacy → f ≠ .checkSession := fun h1 h2 => hf ⟨h1, h2⟩
    have hadv := advertised_eq i hw f hf'
    have hd : (modelObs i).doc = discovery i := rfl
    rw [hd] at hadv
    unfold fieldAddressOK
    simp only [hadv, absolute_cases]
    cases hn : (f.configured i.cfg.endpoints).isNil <;> simp
    by_cases hu : (f.configured i.cfg.endpoints).url = "" <;> simp [hu]

theorem modelVisit_eq (i : Input) (f : DiscReq → String) (r : DiscReq) (kinds : List String) (hform : r.parseFormFails = false) :
    modelVisit i f r kinds =
      { status := 200, doc := discovery { i with issuer := f r }, tokenIssuers := kinds.map fun k => (k, f r) } := by
  unfold modelVisit
  rw [c19_document_per_request i f r hform]
  simp [servedDoc, issuerFromContext_withIssuer]

/-- **one visit**: for every configuration, every issuer strategy (with or without custom header names), every request — the
    document served to the request names the issuer that request is entitled to, which is the issuer of the tokens issued through
    it, and every advertised endpoint is the configured URL or relative to that issuer -/
theorem c19_visit_holds (i : Input) (hw : i.wellFormed) (o : ServeOracles) (custom : Option (List String)) (v : Visit) (r : DiscReq)
    (f : DiscReq → String) (kinds : List String)
    (hf : issuerFn o v.strategy custom i.cfg.insecure = .ok f) (hh : headersAgree o custom v r) (hform : r.parseFormFails = false) :
    monitorVisit i.cfg v (modelVisit i f r kinds) = none := by
  rw [modelVisit_eq i f r kinds hform]
  have hiss := c19_request_issuer o custom i.cfg.insecure v r f hf hh
  have hdoc : (discovery { i with issuer := f r }).Issuer = f r := c19_issuer_eq _
  have hfields : Field.all.find? (fun g => !fieldAddressOK i.cfg (discovery { i with issuer := f r }) g) = none := by
    simp only [List.find?_eq_none]
    intro g _
    have := fieldAddress_ok { i with issuer := f r } (wellFormed_withIssuer i (f r) hw) g
    simpa using this
  have htok : (kinds.map fun k => (k, f r)).find? (fun ki => ki.2 != f r) = none := by
    simp [List.find?_eq_none]
  unfold monitorVisit
  simp [hdoc, hiss.symm, hfields, htok]

/-- **every sequence**: whatever hosts ask, in whatever order, however often — no visit of the sequence fails -/
theorem c19_sequence_holds (i : Input) (hw : i.wellFormed) (o : ServeOracles) (custom : Option (List String)) (s : IssuerStrategy)
    (f : DiscReq → String) (kinds : List String) (hf : issuerFn o s custom i.cfg.insecure = .ok f)
    (visits : List (Visit × DiscReq))
    (hv : ∀ vr ∈ visits, vr.1.strategy = s ∧ headersAgree o custom vr.1 vr.2 ∧ vr.2.parseFormFails = false) :
    monitorSequence i.cfg (visits.map fun vr => (vr.1, modelVisit i f vr.2 kinds)) = none := by
  induction visits with
  | nil => rfl
  | cons vr rest ih =>
    obtain ⟨hs, hh, hform⟩ := hv vr (List.mem_cons_self)
    have h1 := c19_visit_holds i hw o custom vr.1 vr.2 f kinds (hs ▸ hf) hh hform
    have h2 := ih (fun x hx => hv x (List.mem_cons_of_mem _ hx))
    simp [monitorSequence, h1, h2]

/-! ### who serves the discovery route, and behind which middleware (regenerated facts, pinned) -/

/-- `Disco.discoveryRoute` / `Disco.serve` / `Disco.issuerFn` are hand-written compositions of regenerated functions. The
    expressions they stand for are read from the source on every run; if one of them changes this theorem fails and the
    composition has to be looked at again. -/
theorem serve_wiring_pinned :
    GenServe.wiring_CreateRouter = ("discoveryHandler(o, o.Storage())",
      ["cors.New(*opts).Handler", "cors.New(defaultCORSOptions).Handler", "intercept(o.IssuerFromRequest, interceptors...)"]) ∧
    GenServe.wiring_webServer_createRouter = ("simpleHandler(s, s.server.Discovery)", []) ∧
    GenServe.wiring_RegisterLegacyServer = ("", ["intercept(s.Provider().IssuerFromRequest)"]) ∧
    GenServe.src_intercept = "{ issuerInterceptor := NewIssuerInterceptor(i) return func(handler http.Handler) http.Handler { for i := len(interceptors) - 1; i >= 0; i-- { handler = interceptors[i](handler) } return issuerInterceptor.Handler(handler) } }" ∧
    GenServe.src_NewIssuerInterceptor = "{ return &IssuerInterceptor{ issuerFromRequest: issuerFromRequest, } }" ∧
    GenServe.src_Provider_IssuerFromRequest = "{ return o.issuer(r) }" := by
  -- (round 3) the text pins of `IssuerFromHost` / `IssuerFromForwardedOrHost` are gone: both are REGENERATED now
  -- (Generated/ProviderC19.lean) and `C19.issuerFn_regenerated` / `issuerFromForwardedOrHost_opts` (Proofs/C19Construct.lean) prove that
  -- the hand-written `Disco.issuerFn` is what they build.
  exact ⟨rfl, rfl, rfl, rfl, rfl, rfl⟩

/-! ### the RP's discovery client -/

/-- `client.Discover` hands a document back only if its issuer is the one asked for — for every transport behaviour -/
theorem discover_sound {nr : String → String → Option Unit → Go.R String} {hr : Int → Unit → String → Go.R DiscoveryConfiguration}
    {issuer : String} {c : Unit} {wk : List String} {d : DiscoveryConfiguration}
    (h : Discover 0 nr hr issuer c wk = .ok d) : d.Issuer = issuer := by
  unfold Discover at h
  repeat' (split at h <;> try (simp at h))
  all_goals (subst h; simp_all)

/-- whatever document the transport delivers, whatever well-known override is used: the monitor is satisfied -/
theorem c19_rp_rejects_foreign_issuer (nr : String → String → Option Unit → Go.R String) (asked : String) (wk : List String)
    (served : DiscoveryConfiguration) :
    monitorDiscover asked served.Issuer
      (match Discover 0 nr (fun _ _ _ => .ok served) asked () wk with | .ok d => some d.Issuer | .error _ => none) = none := by
  cases h : Discover 0 nr (fun _ _ _ => .ok served) asked () wk with
  | error e => rfl
  | ok d =>
    have h1 := discover_sound h
    have h2 : d = served := by
      unfold Discover at h
      repeat' (split at h <;> try (simp at h))
      all_goals simp_all
    subst h2
    simp [monitorDiscover, h1]

/-! ### non-vacuity -/

def exEndpoints : Endpoints :=
  { Authorization := { path := "authorize" }, Token := { path := "oauth/token" }, Introspection := { path := "oauth/introspect" },
    Userinfo := { path := "userinfo" }, Revocation := { path := "revoke" }, EndSession := { path := "end_session" },
    JwksURI := { path := "keys" }, DeviceAuthorization := { path := "/device_authorization" } }

def exInput : Input :=
  { cfg := { router := .provider, endpoints := exEndpoints, flags := { CodeMethodS256 := true, GrantTypeRefreshToken := true },
             caps := { is_TokenExchangeStorage := true } },
    providerEndpoints := exEndpoints, issuer := "https://op.example" }

/-- a concrete configuration is well-formed and satisfies the monitor … -/
example : monitor exInput.cfg (modelObs exInput) = none := by decide
example : (modelObs exInput).doc.TokenEndpoint = "https://op.example/oauth/token" := by decide
example : Const.GrantTypeRefreshToken ∈ (modelObs exInput).doc.GrantTypesSupported ∧
    Const.GrantTypeClientCredentials ∉ (modelObs exInput).doc.GrantTypesSupported := by decide
/-- … and the monitor is not vacuous: advertising a grant the token endpoint refuses, an unserved address, a stale
    address on the second router, or a foreign issuer are all flagged -/
example : monitor exInput.cfg { modelObs exInput with doc := { (modelObs exInput).doc with
    GrantTypesSupported := (modelObs exInput).doc.GrantTypesSupported ++ [Const.GrantTypeClientCredentials] } } = some "grant-types" := by decide
example : monitor exInput.cfg { modelObs exInput with probe := [(.token, 404)] } = some "endpoint:authorization_endpoint" := by decide
example : monitor { exInput.cfg with router := .legacy, endpoints := { exEndpoints with DeviceAuthorization := .nilPtr } }
    (modelObs exInput) = some "endpoint:device_authorization_endpoint" := by decide
example : monitor exInput.cfg { modelObs exInput with tokenIssuer := some "https://other.example" } = some "issuer-differs-from-token-issuer" := by decide

def exParse : String → Go.R DiscURL
  | "https://op.example" => .ok { Scheme := "https", Host := "op.example" }
  | "http://op.example" => .ok { Scheme := "http", Host := "op.example" }
  | "https://op.example?x=1" => .ok { Scheme := "https", Host := "op.example", query := ["x"] }
  | "https:///path" => .ok { Scheme := "https" }
  | _ => .error "parse"

example : ValidateIssuer 0 exParse "https://op.example" false = .ok () := by rfl
example : ValidateIssuer 0 exParse "http://op.example" true = .ok () := by rfl
example : ValidateIssuer 0 exParse "http://op.example" false = .error "ErrInvalidIssuerHTTPS" := by rfl
example : ValidateIssuer 0 exParse "https://op.example?x=1" false = .error "ErrInvalidIssuerPath" := by rfl
example : ValidateIssuer 0 exParse "https:///path" false = .error "ErrInvalidIssuerMissingHost" := by rfl
example : ValidateIssuer 0 exParse "" true = .error "ErrInvalidIssuerNoIssuer" := by rfl
example : monitorIssuer exParse "http://op.example" false true = some "bad-issuer-accepted" := by decide
example : Discover 0 (fun _ u _ => .ok u) (fun _ _ _ => .ok { Issuer := "https://op.example" }) "https://op.example" () [] =
    .ok { Issuer := "https://op.example" } := by rfl
example : Discover 0 (fun _ u _ => .ok u) (fun _ _ _ => .ok { Issuer := "https://evil.example" }) "https://op.example" () [] =
    .error "ErrIssuerInvalid" := by rfl
example : monitorDiscover "https://op.example" "https://evil.example" (some "https://evil.example") = some "foreign-issuer-accepted" := by decide

/-! ### non-vacuity: sequences of requests -/

def exOracles : ServeOracles :=
  { urlParse := fun s => if s == "/oidc" || s == "" || s == "realm" then .ok {} else if s == "/x?y=1" then .ok { query := ["y"] } else .error "parse",
    parseFwd := fun _ vs => match vs with
      | ["for=192.0.2.1;host=\"pub.example\";proto=https"] => .ok ["pub.example"]
      | ["for=192.0.2.1"] => .ok []
      | [] => .ok []
      | _ => .error "malformed" }

def exReqA : DiscReq := { Host := "a.example" }
def exReqB : DiscReq := { Host := "b.example:8443" }
def exReqFwd : DiscReq := { Host := "internal.local", headers := [("Forwarded", ["for=192.0.2.1;host=\"pub.example\";proto=https"])] }
def exReqBadFwd : DiscReq := { Host := "internal.local", headers := [("Forwarded", ["for=;;"])] }

/-- the regenerated strategies on concrete requests: host, forwarded host, fallback on a malformed header, custom header names,
    refused path -/
example : applyIssuer (issuerFn exOracles (.fromHost "/oidc") none false) exReqA = some "https://a.example/oidc" := by decide
example : applyIssuer (issuerFn exOracles (.fromHost "realm") none true) exReqB = some "http://b.example:8443/realm" := by decide
example : applyIssuer (issuerFn exOracles (.fromForwarded "") none false) exReqFwd = some "https://pub.example" := by decide
example : applyIssuer (issuerFn exOracles (.fromForwarded "") none false) exReqBadFwd = some "https://internal.local" := by decide
example : applyIssuer (issuerFn exOracles (.fromForwarded "") (some ["X-Forwarded"]) false) exReqFwd = some "https://internal.local" := by decide
example : applyIssuer (issuerFn exOracles (.fromHost "") none false) exReqFwd = some "https://internal.local" := by decide
example : (issuerFn exOracles (.fromHost "/x?y=1") none false).isOk = false := by decide

def exVisitA : Visit := { strategy := .fromHost "/oidc", host := "a.example" }
def exVisitB : Visit := { strategy := .fromHost "/oidc", host := "b.example:8443" }
def exHostFn : DiscReq → String := fun r => "https://" ++ r.Host ++ "/oidc"

/-- the hypotheses of `c19_visit_holds` are satisfiable, and its conclusion can be computed on a concrete sequence a, b, a … -/
example : headersAgree exOracles none exVisitA exReqA := ⟨rfl, fun p h => by simp [exVisitA] at h⟩
example : applyIssuer (issuerFn exOracles (.fromHost "/oidc") none false) exReqB = some (exHostFn exReqB) := by decide
example : monitorSequence exInput.cfg
    [(exVisitA, modelVisit exInput exHostFn exReqA ["id", "at"]), (exVisitB, modelVisit exInput exHostFn exReqB ["id"]),
     (exVisitA, modelVisit exInput exHostFn exReqA [])] = none := by decide
example : (modelVisit exInput exHostFn exReqB ["id"]).doc.TokenEndpoint = "https://b.example:8443/oidc/oauth/token" := by decide
/-- … and the monitor is not vacuous: a provider that keeps serving the document it built for the FIRST host (host a) is flagged at
    the first visit of another host, with the position of that visit in the sequence; so are a token of another issuer and an
    endpoint that is relative to another host's issuer -/
example : monitorSequence exInput.cfg
    [(exVisitA, modelVisit exInput exHostFn exReqA ["id"]), (exVisitB, { modelVisit exInput exHostFn exReqA [] with tokenIssuers := [("id", exHostFn exReqB)] })]
    = some (1, "document-issuer-not-of-this-request") := by decide
example : monitorVisit exInput.cfg exVisitB { modelVisit exInput exHostFn exReqB [] with tokenIssuers := [("id", exHostFn exReqB), ("at", exHostFn exReqA)] }
    = some "issuer-differs-from-token-issuer:at" := by decide
example : monitorVisit exInput.cfg exVisitB { modelVisit exInput exHostFn exReqB [] with
    doc := { (modelVisit exInput exHostFn exReqB []).doc with UserinfoEndpoint := (modelVisit exInput exHostFn exReqA []).doc.UserinfoEndpoint } }
    = some "endpoint:userinfo_endpoint" := by decide
/-- a Server-router request whose form cannot be parsed gets an error, not a document (the hypothesis of `c19_document_per_request`) -/
example : serve exHostFn (discoveryRoute { exInput with cfg := { exInput.cfg with router := .legacy } }) { exReqA with parseFormFails := true }
    = [.error "ErrInvalidRequest"] := by decide

end C19
