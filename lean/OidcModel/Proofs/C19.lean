/-
  C19 proofs: the discovery document is truthful in EVERY configuration.

  All statements are about the REGENERATED functions (`Gen.*` of Generated/Discovery.lean,
  Generated/TokenEndpoint.lean): if the Go source changes what it advertises, routes or accepts, these
  theorems are re-checked against the new definitions on the next run.

  * `c19_holds`               : ∀ configuration (both routers, every endpoint shape incl. nil / custom path / absolute DiscURL,
                                every option and capability combination, every issuer string) the model's observation
                                satisfies the monitor `C19.monitor`.
  * `c19_issuer_eq`           : the document's issuer is the request issuer (= the `iss` of issued tokens).
  * `c19_endpoints_routed`    : every advertised endpoint is the configured DiscURL or the issuer-relative address of a registered route.
  * `c19_grants_exact`        : advertised \ {implicit} = grant types the token endpoint does not answer with unsupported_grant_type
                                (finite: `decide` over all 2·2⁸ combinations IS the proof here).
  * `c19_pkce_honoured`, `c19_request_object_honoured`.
  * `c19_issuer_validation`   : `ValidateIssuer` accepts exactly the acceptable issuers, ∀ strings, ∀ DiscURL-parser oracles.
  * `c19_dynamic_issuer`      : issuer-from-host construction refuses paths with query / fragment; produced scheme.
  * `c19_rp_rejects_foreign_issuer` : `client.Discover` returns a document only if its issuer is the one asked for (∀ transports).
-/
import OidcModel.Model.DiscoveryModel

namespace C19
open Go Gen Disco

/-! ### regenerated tables the model relies on -/

/-- the hand-written `Const.*` values are the values of the pkg/oidc constants in the source -/
theorem const_table_ok : Gen.oidcConstTable =
    [("AuthMethodBasic", Const.AuthMethodBasic), ("AuthMethodNone", Const.AuthMethodNone), ("AuthMethodPost", Const.AuthMethodPost),
     ("AuthMethodPrivateKeyJWT", Const.AuthMethodPrivateKeyJWT), ("CodeChallengeMethodPlain", Const.CodeChallengeMethodPlain),
     ("CodeChallengeMethodS256", Const.CodeChallengeMethodS256), ("DiscoveryEndpoint", Const.DiscoveryEndpoint),
     ("GrantTypeBearer", Const.GrantTypeBearer), ("GrantTypeClientCredentials", Const.GrantTypeClientCredentials),
     ("GrantTypeCode", Const.GrantTypeCode), ("GrantTypeDeviceCode", Const.GrantTypeDeviceCode), ("GrantTypeImplicit", Const.GrantTypeImplicit),
     ("GrantTypeRefreshToken", Const.GrantTypeRefreshToken), ("GrantTypeTokenExchange", Const.GrantTypeTokenExchange)] := by decide

/-- the audited list of functions in pkg/op that can produce `unsupported_grant_type`. Besides the two dispatchers and the
    LegacyServer guards (all modelled), the remaining sites (`assertDeviceStorage`, `ValidateClientCredentialsRequest`,
    `CreateTokenExchangeRequest`, `LegacyServer.VerifyClient`) test the very storage capability whose presence is the
    condition for reaching them; `UnimplementedServer.*` is not used by either router. A new site breaks this theorem. -/
theorem unsupportedGrantSites_audited : Gen.unsupportedGrantSites =
    [("server.go", "UnimplementedServer.ClientCredentialsExchange"), ("server.go", "UnimplementedServer.CodeExchange"),
     ("server.go", "UnimplementedServer.DeviceToken"), ("server.go", "UnimplementedServer.JWTProfile"),
     ("server.go", "UnimplementedServer.RefreshToken"), ("server.go", "UnimplementedServer.TokenExchange"),
     ("server.go", "unimplementedGrantError"), ("server_http.go", "webServer.tokensHandler"),
     ("server_legacy.go", "LegacyServer.ClientCredentialsExchange"), ("server_legacy.go", "LegacyServer.DeviceToken"),
     ("server_legacy.go", "LegacyServer.JWTProfile"), ("server_legacy.go", "LegacyServer.RefreshToken"),
     ("server_legacy.go", "LegacyServer.TokenExchange"), ("server_legacy.go", "LegacyServer.VerifyClient"),
     ("storage.go", "assertDeviceStorage"), ("token_client_credentials.go", "ValidateClientCredentialsRequest"),
     ("token_exchange.go", "CreateTokenExchangeRequest"), ("token_request.go", "Exchange")] := by decide

/-! ### issuer -/

/-- the document's issuer is the issuer the interceptor established for the request, which is what
    `IssuerFromContext` hands to every token constructor -/
theorem c19_issuer_eq (i : Input) : (discovery i).Issuer = i.issuer := by
  unfold discovery; cases i.cfg.router <;> rfl

/-! ### endpoints -/

/-- what `Endpoint.Absolute` yields: the monitor's three cases -/
theorem absolute_cases (e : Endpoint) (iss : String) :
    Endpoint_Absolute 0 e iss = if e.isNil then "" else if e.url != "" then e.url else issuerRelative iss e := by
  unfold Endpoint_Absolute absoluteEndpoint relativeEndpoint issuerRelative
  cases h : e.isNil <;> simp [Go.isNil, Nilable.isNil, h, HAdd.hAdd]

theorem fieldOK_of (c : Config) (o : Obs) (f : Field) (st : Nat)
    (hadv : f.advertised o.doc = Endpoint_Absolute 0 (f.configured c.endpoints) o.doc.Issuer)
    (hp : o.probe.find? (·.1 == f) = some (f, st))
    (hs : (f.configured c.endpoints).isNil = false → (f.configured c.endpoints).url = "" → served st = true) :
    fieldOK c o f = true := by
  unfold fieldOK
  simp only [hadv, absolute_cases, hp]
  cases hn : (f.configured c.endpoints).isNil <;> simp
  by_cases hu : (f.configured c.endpoints).url = "" <;> simp [hu]
  exact Or.inr (hs hn hu)

theorem probe_find (i : Input) (f : Field) : (modelObs i).probe.find? (·.1 == f) = some (f, routeStatus i f) := by
  cases f <;> simp [modelObs, Field.all]

theorem routeStatus_served (i : Input) (f : Field)
    (h : (routes i).contains (Endpoint_Relative 0 (f.configured i.cfg.endpoints)) = true) : served (routeStatus i f) = true := by
  unfold routeStatus; rw [if_pos h]; decide

/-- a configured path-only endpoint is a registered route of the handler (both routers) -/
theorem configured_routed (i : Input) (hw : i.wellFormed) (f : Field)
    (hn : (f.configured i.cfg.endpoints).isNil = false) (hf : i.cfg.router = .legacy → f ≠ .checkSession) :
    (routes i).contains (Endpoint_Relative 0 (f.configured i.cfg.endpoints)) = true := by
  obtain ⟨⟨router, eps, flags, caps, insecure⟩, peps, iss⟩ := i
  cases router
  · obtain ⟨h1, hcs⟩ := hw rfl
    simp only at h1 hcs
    subst h1
    cases f <;> first
      | (simp [Field.configured] at hn; simp [hcs] at hn; done)
      | simp [routes, CreateRouter_routes, Field.configured, Input.conf, Input.provider, Provider_asConfiguration,
          Provider_AuthorizationEndpoint, Provider_TokenEndpoint, Provider_IntrospectionEndpoint, Provider_UserinfoEndpoint,
          Provider_RevocationEndpoint, Provider_EndSessionEndpoint, Provider_KeysEndpoint, Provider_DeviceAuthorizationEndpoint]
  · cases f
    case checkSession => exact absurd rfl (hf rfl)
    all_goals (
      simp [Field.configured] at hn
      simp [routes, webServer_createRouter_routes, webServer_endpointRoute_routes, Field.configured, Go.notNil, Nilable.isNil, hn])

/-- every document member is what `Endpoint.Absolute` makes of the configured endpoint (second router: `check_session_iframe`
    is not part of the document) -/
theorem advertised_eq (i : Input) (hw : i.wellFormed) (f : Field) (hf : i.cfg.router = .legacy → f ≠ .checkSession) :
    f.advertised (modelObs i).doc = Endpoint_Absolute 0 (f.configured i.cfg.endpoints) (modelObs i).doc.Issuer := by
  obtain ⟨⟨router, eps, flags, caps, insecure⟩, peps, iss⟩ := i
  cases router
  · obtain ⟨h1, _⟩ := hw rfl
    simp only at h1
    subst h1
    cases f <;> rfl
  · cases f
    case checkSession => exact absurd rfl (hf rfl)
    all_goals rfl

theorem fields_ok (i : Input) (hw : i.wellFormed) (f : Field) : fieldOK i.cfg (modelObs i) f = true := by
  by_cases hf : i.cfg.router = .legacy ∧ f = .checkSession
  · obtain ⟨⟨router, eps, flags, caps, insecure⟩, peps, iss⟩ := i
    obtain ⟨hr, rfl⟩ := hf
    simp only at hr
    subst hr
    simp [fieldOK, Field.advertised, modelObs, discovery, createDiscoveryConfigV2]
  · have hf' : i.cfg.router = .legacy → f ≠ .checkSession := fun h1 h2 => hf ⟨h1, h2⟩
    exact fieldOK_of _ _ f _ (advertised_eq i hw f hf') (probe_find i f)
      (fun hn _ => routeStatus_served i f (configured_routed i hw f hn hf'))

/-- readable form: for every configuration and every document member, what is advertised is "" for a disabled endpoint,
    the configured absolute DiscURL verbatim, or the issuer-relative address of a route the handler registers -/
theorem c19_endpoints_routed (i : Input) (hw : i.wellFormed) (f : Field) (hf : i.cfg.router = .legacy → f ≠ .checkSession) :
    let e := f.configured i.cfg.endpoints
    let adv := f.advertised (discovery i)
    (e.isNil = true → adv = "") ∧
    (e.isNil = false → e.url ≠ "" → adv = e.url) ∧
    (e.isNil = false → e.url = "" → adv = issuerRelative i.issuer e ∧ Endpoint_Relative 0 e ∈ routes i) := by
  have h := advertised_eq i hw f hf
  have hd : (modelObs i).doc = discovery i := rfl
  rw [hd, c19_issuer_eq, absolute_cases] at h
  refine ⟨fun hn => by simp [h, hn], fun hn hu => by simp [h, hn, hu], fun hn hu => ⟨by simp [h, hn, hu], ?_⟩⟩
  have := configured_routed i hw f hn hf
  simpa [List.contains_iff_mem] using this

/-! ### grant types -/

def bogusGrant : String := "urn:example:bogus-grant"

/-- advertised = accepted, as one boolean over the router, the options and the capabilities -/
def exactCore (router : Router) (flags : OpConfig) (caps : OpStorage) : Bool :=
  let adv := GrantTypes 0 (coreConf flags caps)
  let code := fun g => (tokenAnswer router flags caps g).code
  tokenGrants.all (fun g => adv.contains g == (code g != unsupportedGrantType)) &&
  adv.all (fun g => tokenGrants.contains g || g == Const.GrantTypeImplicit) &&
  code bogusGrant == unsupportedGrantType

/-- the configuration space is finite: both routers × 2⁵ options × 2³ capabilities, enumerated completely by the kernel -/
theorem exactCore_all : ∀ (router : Router) (a b c d e x y z : Bool), exactCore router ⟨a, b, c, d, e⟩ ⟨x, y, z⟩ = true := by
  intro r; cases r <;> decide

theorem grantsAgree_probed (adv : List String) (code : String → String) :
    grantsAgree adv (probedGrants.map fun g => (g, code g)) =
      (tokenGrants.all (fun g => adv.contains g == (code g != unsupportedGrantType)) &&
       adv.all (fun g => tokenGrants.contains g || g == Const.GrantTypeImplicit) &&
       code bogusGrant == unsupportedGrantType) := by
  simp [grantsAgree, probedGrants, tokenGrants, bogusGrant, List.all, List.find?, Const.GrantTypeCode, Const.GrantTypeRefreshToken,
    Const.GrantTypeClientCredentials, Const.GrantTypeBearer, Const.GrantTypeTokenExchange, Const.GrantTypeDeviceCode]

theorem doc_grants (i : Input) : (modelObs i).doc.GrantTypesSupported = GrantTypes 0 (coreConf i.cfg.flags i.cfg.caps) := by
  unfold modelObs discovery; cases i.cfg.router <;> rfl

theorem grants_ok (i : Input) : grantsOK (modelObs i) = true := by
  unfold grantsOK
  cases hn : i.cfg.endpoints.Token.isNil
  · have h : (modelObs i).grantAnswer =
        some (probedGrants.map fun g => (g, (tokenAnswer i.cfg.router i.cfg.flags i.cfg.caps g).code)) := by
      simp [modelObs, hn]
    rw [h]
    simp only []
    rw [doc_grants, grantsAgree_probed]
    obtain ⟨⟨router, eps, ⟨a, b, c, d, e⟩, ⟨x, y, z⟩, insecure⟩, peps, iss⟩ := i
    exact exactCore_all router a b c d e x y z
  · have h : (modelObs i).grantAnswer = none := by simp [modelObs, hn]
    rw [h]

/-- readable form: for every router, option and capability combination, a token-endpoint grant type is advertised iff the token
    endpoint does not answer it with unsupported_grant_type; everything else that is advertised is `implicit`; an unknown grant
    type is refused with unsupported_grant_type -/
theorem c19_grants_exact (router : Router) (flags : OpConfig) (caps : OpStorage) :
    (∀ g ∈ tokenGrants, (g ∈ GrantTypes 0 (coreConf flags caps) ↔ (tokenAnswer router flags caps g).code ≠ unsupportedGrantType)) ∧
    (∀ g ∈ GrantTypes 0 (coreConf flags caps), g ∈ tokenGrants ∨ g = Const.GrantTypeImplicit) ∧
    (tokenAnswer router flags caps bogusGrant).code = unsupportedGrantType := by
  obtain ⟨a, b, c, d, e⟩ := flags
  obtain ⟨x, y, z⟩ := caps
  have h := exactCore_all router a b c d e x y z
  simp only [exactCore, Bool.and_eq_true, List.all_eq_true, beq_iff_eq, Bool.or_eq_true, List.contains_iff_mem] at h
  obtain ⟨⟨h1, h2⟩, h3⟩ := h
  refine ⟨fun g hg => ?_, fun g hg => ?_, h3⟩
  · have := h1 g hg
    rw [Bool.eq_iff_iff] at this
    simpa only [List.contains_iff_mem, bne_iff_ne, ne_eq] using this
  · simpa using h2 g hg

/-! ### PKCE and request objects -/

theorem codeChallengeMethods_eq (flags : OpConfig) (caps : OpStorage) :
    CodeChallengeMethods 0 (coreConf flags caps) = if flags.CodeMethodS256 then [Const.CodeChallengeMethodS256] else [] := by
  cases h : flags.CodeMethodS256 <;>
    simp [CodeChallengeMethods, coreConf, Provider_asConfiguration, Provider_CodeMethodS256Supported, h, Go.append]

theorem pkceAnswer_S256 : pkceAnswer Const.CodeChallengeMethodS256 = "ok" := by decide

/-- every PKCE method any configuration advertises is honoured by the regenerated `VerifyCodeChallenge`:
    the right verifier passes, a wrong one is refused -/
theorem c19_pkce_honoured (flags : OpConfig) (caps : OpStorage) :
    ∀ m ∈ CodeChallengeMethods 0 (coreConf flags caps), pkceAnswer m = "ok" := by
  intro m hm
  rw [codeChallengeMethods_eq] at hm
  cases h : flags.CodeMethodS256 <;> simp [h] at hm
  subst hm
  exact pkceAnswer_S256

theorem pkce_ok (i : Input) : pkceOK (modelObs i) = true := by
  have h : (modelObs i).doc.CodeChallengeMethodsSupported = CodeChallengeMethods 0 (coreConf i.cfg.flags i.cfg.caps) := by
    unfold modelObs discovery; cases i.cfg.router <;> rfl
  have h2 : (modelObs i).pkce = (CodeChallengeMethods 0 (coreConf i.cfg.flags i.cfg.caps)).map
      (fun m => (m, if i.codeFlowPossible then pkceAnswer m else "na")) := by
    unfold modelObs; simp only []; rw [← h]; rfl
  unfold pkceOK
  rw [h, h2, codeChallengeMethods_eq]
  cases i.cfg.flags.CodeMethodS256 <;> cases i.codeFlowPossible <;> simp [pkceAnswer_S256]

/-- `request_parameter_supported` is advertised exactly when request objects are processed -/
theorem c19_request_object_honoured (i : Input) :
    (discovery i).RequestParameterSupported = true ↔ requestObjectAnswer i.conf = "honoured" := by
  have h : (discovery i).RequestParameterSupported = i.conf.RequestObjectSupported := by
    unfold discovery; cases i.cfg.router <;> rfl
  rw [h]; unfold requestObjectAnswer
  cases i.conf.RequestObjectSupported <;> simp

/-! ### the property -/

/-- **C19**: in every configuration — either router, every endpoint shape, every combination of options and storage
    capabilities, every issuer — the model's externally visible behaviour satisfies the monitor -/
theorem c19_holds (i : Input) (hw : i.wellFormed) : monitor i.cfg (modelObs i) = none := by
  have h1 : (modelObs i).status = 200 := rfl
  have h2 : (modelObs i).tokenIssuer = some i.issuer := rfl
  have h3 : (modelObs i).doc.Issuer = i.issuer := c19_issuer_eq i
  have h4 : Field.all.find? (fun f => !fieldOK i.cfg (modelObs i) f) = none := by
    simp [List.find?_eq_none, fields_ok i hw]
  have h5 : ((modelObs i).doc.RequestParameterSupported &&
      !((modelObs i).requestObject == "honoured" || (modelObs i).requestObject == "na")) = false := by
    have hd : (modelObs i).doc = discovery i := rfl
    have hr : (modelObs i).requestObject = if i.cfg.endpoints.Authorization.isNil then "na" else requestObjectAnswer i.conf := rfl
    have := c19_request_object_honoured i
    rw [hd, hr]
    cases hq : (discovery i).RequestParameterSupported
    · simp
    · cases i.cfg.endpoints.Authorization.isNil <;> simp [this.mp hq]
  unfold monitor
  simp [h1, h2, h3, h4, grants_ok i, pkce_ok i]
  simpa using h5

/-! ### issuer validation (DiscURL parser = oracle) -/

/-- `ValidateIssuer` accepts exactly the issuers that are non-empty, parse, have a host, no fragment, no query and use
    https (or http under the insecure opt-in) — for every string and every behaviour of `net/url.Parse` -/
theorem validateIssuer_iff (parse : String → Go.R DiscURL) (issuer : String) (insecure : Bool) :
    (ValidateIssuer 0 parse issuer insecure = .ok ()) ↔ issuerAcceptable parse issuer insecure = true := by
  unfold ValidateIssuer issuerAcceptable ValidateIssuerPath devLocalAllowed
  by_cases h0 : issuer = ""
  · simp [h0]
  · cases hp : parse issuer with
    | error e => simp [h0]
    | ok u =>
      by_cases hh : u.Host = "" <;> by_cases hs : u.Scheme = "https" <;> by_cases hs2 : u.Scheme = "http" <;>
        by_cases hf : u.Fragment = "" <;> cases hq : u.query <;>
        cases insecure <;> simp_all [Go.len, HasLen.len, Go.ok, DiscURL.Query]

theorem validateIssuerPath_iff (u : DiscURL) : (ValidateIssuerPath 0 u = .ok ()) ↔ (u.Fragment = "" ∧ u.Query = []) := by
  unfold ValidateIssuerPath
  by_cases hf : u.Fragment = "" <;> cases hq : u.query <;> simp_all [Go.len, HasLen.len, Go.ok, DiscURL.Query]

theorem isOk_iff (x : Go.R Unit) : x.isOk = true ↔ x = .ok () := by
  cases x <;> simp [Except.isOk, Except.toBool]

/-- provider construction with a static issuer never lets an unacceptable issuer through -/
theorem c19_issuer_validation (parse : String → Go.R DiscURL) (issuer : String) (insecure : Bool) :
    monitorIssuer parse issuer insecure (constructIssuer parse (.static issuer) insecure).isOk = none := by
  simp only [monitorIssuer, constructIssuer]
  by_cases h : (ValidateIssuer 0 parse issuer insecure).isOk = true
  · simp [(validateIssuer_iff parse issuer insecure).mp ((isOk_iff _).mp h)]
  · simp [h]

/-- the five rejections of the statement, one by one -/
theorem c19_issuer_rejections (parse : String → Go.R DiscURL) (issuer : String) (insecure : Bool) (u : DiscURL) (hp : parse issuer = .ok u) :
    ValidateIssuer 0 parse "" insecure ≠ .ok () ∧
    (u.Host = "" → ValidateIssuer 0 parse issuer insecure ≠ .ok ()) ∧
    (u.Fragment ≠ "" → ValidateIssuer 0 parse issuer insecure ≠ .ok ()) ∧
    (u.Query ≠ [] → ValidateIssuer 0 parse issuer insecure ≠ .ok ()) ∧
    (u.Scheme = "http" → insecure = false → ValidateIssuer 0 parse issuer insecure ≠ .ok ()) ∧
    (u.Scheme ≠ "https" → u.Scheme ≠ "http" → ValidateIssuer 0 parse issuer insecure ≠ .ok ()) := by
  refine ⟨?_, ?_, ?_, ?_, ?_, ?_⟩
  · intro h; have := (validateIssuer_iff parse "" insecure).mp h; simp [issuerAcceptable] at this
  all_goals (
    intros
    intro h
    have := (validateIssuer_iff parse issuer insecure).mp h
    simp_all [issuerAcceptable, DiscURL.Query])

theorem dynamicIssuer_scheme (host path : String) (insecure : Bool) :
    Go.hasPrefix (dynamicIssuer 0 host path insecure) (if insecure then "http://" else "https://") = true := by
  unfold dynamicIssuer
  cases insecure <;> simp only [Bool.false_eq_true, if_false, if_true] <;> split <;>
    simp [Go.hasPrefix, HAdd.hAdd, String.toList_append]

theorem dyn_aux (r : Go.R DiscURL) (insecure : Bool) (iss : String)
    (hpre : Go.hasPrefix iss (if insecure then "http://" else "https://") = true) :
    (let acc := (match r with | .error _ => (.error "ErrInvalidIssuerURL" : Go.R Unit) | .ok u => ValidateIssuerPath 0 u).isOk
     if acc && (match r with | .error _ => true | .ok u => u.Fragment != "" || !u.Query.isEmpty) then some "bad-issuer-path-accepted"
     else match (if acc then some iss else none) with
       | some iss => if Go.hasPrefix iss "https://" || (insecure && Go.hasPrefix iss "http://") then none else some "insecure-issuer-produced"
       | none => none) = none := by
  cases r with
  | error e => simp [Except.isOk, Except.toBool]
  | ok u =>
    simp only []
    by_cases hv : (ValidateIssuerPath 0 u).isOk = true
    · have h := (validateIssuerPath_iff u).mp ((isOk_iff _).mp hv)
      cases insecure <;> simp_all [DiscURL.Query]
    · simp [hv]

/-- issuer from request host / Forwarded header: construction refuses a path with query or fragment, and the issuer
    produced for any host uses http only under the insecure opt-in — ∀ paths, hosts, parser behaviours -/
theorem c19_dynamic_issuer (parse : String → Go.R DiscURL) (path : String) (fromFwd : Bool) (insecure : Bool)
    (host : String) (fwd : Option String) :
    let s : IssuerStrategy := if fromFwd then .fromForwarded path else .fromHost path
    let acc := (constructIssuer parse s insecure).isOk
    monitorDynamicIssuer parse path insecure acc (if acc then some (requestIssuer s insecure host fwd) else none) = none := by
  cases fromFwd
  · exact dyn_aux (parse path) insecure _ (dynamicIssuer_scheme host path insecure)
  · exact dyn_aux (parse path) insecure _ (dynamicIssuer_scheme (fwd.getD host) path insecure)

/-! ### the RP's discovery client -/

/-- `client.Discover` hands a document back only if its issuer is the one asked for — for every transport behaviour -/
theorem discover_sound {nr : String → String → Option Unit → Go.R String} {hr : Int → Unit → String → Go.R DiscoveryConfiguration}
    {issuer : String} {c : Unit} {wk : List String} {d : DiscoveryConfiguration}
    (h : Discover 0 nr hr issuer c wk = .ok d) : d.Issuer = issuer := by
  unfold Discover at h
  repeat' (split at h <;> try (simp at h))
  all_goals (subst h; simp_all)

/-- whatever document the transport delivers, whatever well-known override is used: the monitor is satisfied -/
theorem c19_rp_rejects_foreign_issuer (nr : String → String → Option Unit → Go.R String) (asked : String) (wk : List String)
    (served : DiscoveryConfiguration) :
    monitorDiscover asked served.Issuer
      (match Discover 0 nr (fun _ _ _ => .ok served) asked () wk with | .ok d => some d.Issuer | .error _ => none) = none := by
  cases h : Discover 0 nr (fun _ _ _ => .ok served) asked () wk with
  | error e => rfl
  | ok d =>
    have h1 := discover_sound h
    have h2 : d = served := by
      unfold Discover at h
      repeat' (split at h <;> try (simp at h))
      all_goals simp_all
    subst h2
    simp [monitorDiscover, h1]

/-! ### non-vacuity -/

def exEndpoints : Endpoints :=
  { Authorization := { path := "authorize" }, Token := { path := "oauth/token" }, Introspection := { path := "oauth/introspect" },
    Userinfo := { path := "userinfo" }, Revocation := { path := "revoke" }, EndSession := { path := "end_session" },
    JwksURI := { path := "keys" }, DeviceAuthorization := { path := "/device_authorization" } }

def exInput : Input :=
  { cfg := { router := .provider, endpoints := exEndpoints, flags := { CodeMethodS256 := true, GrantTypeRefreshToken := true },
             caps := { is_TokenExchangeStorage := true } },
    providerEndpoints := exEndpoints, issuer := "https://op.example" }

/-- a concrete configuration is well-formed and satisfies the monitor … -/
example : monitor exInput.cfg (modelObs exInput) = none := by decide
example : (modelObs exInput).doc.TokenEndpoint = "https://op.example/oauth/token" := by decide
example : Const.GrantTypeRefreshToken ∈ (modelObs exInput).doc.GrantTypesSupported ∧
    Const.GrantTypeClientCredentials ∉ (modelObs exInput).doc.GrantTypesSupported := by decide
/-- … and the monitor is not vacuous: advertising a grant the token endpoint refuses, an unserved address, a stale
    address on the second router, or a foreign issuer are all flagged -/
example : monitor exInput.cfg { modelObs exInput with doc := { (modelObs exInput).doc with
    GrantTypesSupported := (modelObs exInput).doc.GrantTypesSupported ++ [Const.GrantTypeClientCredentials] } } = some "grant-types" := by decide
example : monitor exInput.cfg { modelObs exInput with probe := [(.token, 404)] } = some "endpoint:authorization_endpoint" := by decide
example : monitor { exInput.cfg with router := .legacy, endpoints := { exEndpoints with DeviceAuthorization := .nilPtr } }
    (modelObs exInput) = some "endpoint:device_authorization_endpoint" := by decide
example : monitor exInput.cfg { modelObs exInput with tokenIssuer := some "https://other.example" } = some "issuer-differs-from-token-issuer" := by decide

def exParse : String → Go.R DiscURL
  | "https://op.example" => .ok { Scheme := "https", Host := "op.example" }
  | "http://op.example" => .ok { Scheme := "http", Host := "op.example" }
  | "https://op.example?x=1" => .ok { Scheme := "https", Host := "op.example", query := ["x"] }
  | "https:///path" => .ok { Scheme := "https" }
  | _ => .error "parse"

example : ValidateIssuer 0 exParse "https://op.example" false = .ok () := by rfl
example : ValidateIssuer 0 exParse "http://op.example" true = .ok () := by rfl
example : ValidateIssuer 0 exParse "http://op.example" false = .error "ErrInvalidIssuerHTTPS" := by rfl
example : ValidateIssuer 0 exParse "https://op.example?x=1" false = .error "ErrInvalidIssuerPath" := by rfl
example : ValidateIssuer 0 exParse "https:///path" false = .error "ErrInvalidIssuerMissingHost" := by rfl
example : ValidateIssuer 0 exParse "" true = .error "ErrInvalidIssuerNoIssuer" := by rfl
example : monitorIssuer exParse "http://op.example" false true = some "bad-issuer-accepted" := by decide
example : Discover 0 (fun _ u _ => .ok u) (fun _ _ _ => .ok { Issuer := "https://op.example" }) "https://op.example" () [] =
    .ok { Issuer := "https://op.example" } := by rfl
example : Discover 0 (fun _ u _ => .ok u) (fun _ _ _ => .ok { Issuer := "https://evil.example" }) "https://op.example" () [] =
    .error "ErrIssuerInvalid" := by rfl
example : monitorDiscover "https://op.example" "https://evil.example" (some "https://evil.example") = some "foreign-issuer-accepted" := by decide

end C19
