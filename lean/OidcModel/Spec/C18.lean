/-
  C18 — Logout redirects only to post-logout URIs registered for the proven client.
  The property as an executable predicate over (configuration, registrations, request, library
  oracles, OBSERVED response).  It never looks at how the code computes its answer.

  Reading of the statement (DESIGN §4 C18):
  * "validly signed" is C02's statement (exactly one signature, allowed algorithm, trusted fitting key of
    the key set CONFIGURED FOR HINTS, over exactly the payload that is read).  The key set configured for hints
    is the one the deployment passed with `WithIDTokenHintKeySet`, and without that option the provider's own
    published keys (the keys it signs ID tokens with) - never the key set configured for ACCESS tokens
    (`WithAccessTokenKeySet`), unless the same set was also configured for hints.
    "own issuer" = the issuer the request was addressed to; expiry / iat / auth_time of a hint are irrelevant for logout.
  * proven client = the hint's `azp`, without a hint the `client_id` parameter.
  * a redirect target is the default logout URI, or the requested URI if it is registered for the proven
    client (exactly, or via a glob of a client that opted in; `path.Match` is an oracle); with a `state`
    the target is that URI plus exactly one more `state` value (as a user agent decodes the Location):
    same URL in front of the query, same fragment, every parameter of the URI's own query still there, the
    settings of its query that Go's decoder does not read (`a;b=1`, a malformed escape) still there unchanged.
  * the session handed to the storage is (hint subject or "", proven client or "").
  * a request that satisfies all rules must not be rejected ("an expired hint is still accepted") - unless the storage
    refuses to terminate the session: then rejecting is right and redirecting is not (nothing was terminated) - or the
    storage fails to answer the lookup of the client's registration (rejecting is right; a redirect is judged as always:
    against the registrations, and the session must have been terminated).
-/
import OidcModel.Spec.C02
import OidcModel.Model.Session

namespace C18

structure Cfg where
  issuer : String                 -- issuer the request is addressed to
  keys : KeySet                   -- the provider's own published key set (the keys it signs with)
  hintKeys : Option KeySet := none          -- `WithIDTokenHintKeySet(Y)`: a key set configured for hints (the last one given)
  accessTokenKeys : Option KeySet := none   -- `WithAccessTokenKeySet(X)`: configured for access tokens; says nothing about hints
  algs : List String := []        -- allow-list configured for hints ([] = library default)
  clients : List OPClient
  defaultURI : String

structure Req where
  hint : Option Token             -- none: no (or an empty) id_token_hint
  clientID : String
  plu : String                    -- post_logout_redirect_uri
  state : String
  malformed : Bool := false       -- the form could not be parsed / decoded at all (the fields above are then empty)
  termRefused : Bool := false     -- the storage reported a failure when it was asked to terminate the session
  lookupRefused : Bool := false   -- the storage reported a failure when it was asked for the client's registration

/-- library behaviour the statement refers to -/
structure Orc where
  pathMatch : String → String → Go.R Bool
  urlParse : String → Go.R SessURL

inductive Obs
  | redirect (loc : String) (dec : Go.R SessURL) (terminated : List (String × String))   -- 302; `dec` = Location as a user agent parses it
  | rejected (terminated : List (String × String))                                    -- any error answer without Location
  | panic

def claimsOf (t : Token) : Option Claims := t.middle.bind (·.claims)

/-- the key set a hint has to verify under: the one configured for hints, else the provider's own published keys;
    the access-token key set plays no part -/
def Cfg.hintKeySet (cfg : Cfg) : KeySet := cfg.hintKeys.getD cfg.keys

/-- claims of a hint that is validly signed by this provider and names this issuer -/
def hintProven (cfg : Cfg) (t : Token) : Option Claims :=
  match claimsOf t with
  | some c => if (C02.monitor cfg.algs cfg.hintKeySet t (some c)).isNone && c.iss == cfg.issuer then some c else none
  | none => none

/-- a hint that does not verify under the hint key set does verify under the key set configured for access tokens
    (only used to NAME the defect) -/
def underAccessTokenKeys (cfg : Cfg) (t : Token) (c : Claims) : Bool :=
  match cfg.accessTokenKeys with
  | some x => (C02.monitor cfg.algs x t (some c)).isNone
  | none => false

/-- why a hint must not be believed -/
def hintDefect (cfg : Cfg) (t : Token) : Option String :=
  match claimsOf t with
  | none => some "hint:unreadable"
  | some c =>
    if (C02.monitor cfg.algs cfg.hintKeySet t (some c)).isSome then
      some (if underAccessTokenKeys cfg t c then "hint:trusted-only-by-access-token-keyset" else "hint:untrusted-signature")
    else if c.iss != cfg.issuer then some "hint:foreign-issuer" else none

def lookup (cfg : Cfg) (id : String) : Option OPClient := cfg.clients.find? (·.id == id)

def optedIn (c : OPClient) : Bool := c.globs.isSome || c.postLogoutGlobs.isSome
def plGlobs (c : OPClient) : List String := c.postLogoutGlobs.getD []

/-- the matcher says: pattern `g` matches `uri` -/
def globMatches (pm : String → String → Go.R Bool) (g uri : String) : Bool :=
  match pm g uri with
  | .ok b => b
  | .error _ => false

/-- registered exactly, or via an opted-in glob -/
def registered (pm : String → String → Go.R Bool) (c : OPClient) (uri : String) : Bool :=
  c.postLogoutURIs.contains uri || (optedIn c && (plGlobs c).any fun g => globMatches pm g uri)

/-- no glob of the client makes the matcher fail on this URI -/
def globsClean (pm : String → String → Go.R Bool) (c : OPClient) (uri : String) : Bool :=
  !optedIn c || (plGlobs c).all fun g => (pm g uri).toBool

/-- claims the request is entitled to rely on -/
def proven (cfg : Cfg) (req : Req) : Option Claims := req.hint.bind (hintProven cfg)

/-- the client the request is proven to come from ("" = none) -/
def provenClientID (req : Req) (hc : Option Claims) : String :=
  match hc with
  | some c => c.azp
  | none => req.clientID

/-- a `client_id` parameter that names another client than the hint's authorized party -/
def contradicts (hc : Option Claims) (clientID : String) : Bool :=
  match hc with
  | some c => clientID != "" && clientID != c.azp
  | none => false

def qvals (q : List (String × List String)) (k : String) : List String := ((q.find? (·.1 == k)).map (·.2)).getD []

/-- the decoded query `lq` is the query `tq` plus one more value `s` of `state` -/
def queryPlusState (tq lq : List (String × List String)) (s : String) : Bool :=
  (lq.map (·.1) ++ tq.map (·.1) ++ ["state"]).all fun k => qvals lq k == qvals tq k ++ (if k == "state" then [s] else [])

inductive TargetVerdict | exact | altered | other
  deriving DecidableEq, Repr

/-- is the observed Location the URI `t` (plus `state`)? `altered`: same SessURL up to the query, but the
    query is not `t`'s own query (decoded parameters and unread settings) plus the state -/
def targetVerdict (o : Orc) (state loc : String) (dec : Go.R SessURL) (t : String) : TargetVerdict :=
  if state == "" then (if loc == t then .exact else .other)
  else
    match o.urlParse t, dec with
    | .ok tu, .ok lu =>
      if lu.base == tu.base && lu.frag == tu.frag then
        (if queryPlusState tu.query lu.query state && lu.unread == tu.unread then .exact else .altered)
      else .other
    | _, _ => .other

/-- URIs the response may redirect to -/
def allowedTargets (cfg : Cfg) (o : Orc) (req : Req) (cid : String) : List String :=
  cfg.defaultURI ::
    (match (if cid == "" then none else lookup cfg cid) with
     | some c => if req.plu != "" && registered o.pathMatch c req.plu then [req.plu] else []
     | none => [])

/-- a request that fulfils every rule of the statement, so that rejecting it is a violation -/
def mustAccept (cfg : Cfg) (o : Orc) (req : Req) : Bool :=
  !req.malformed &&
  (match req.hint with
   | none => true
   | some t => (hintProven cfg t).isSome) &&
  !contradicts (proven cfg req) req.clientID &&
  (let cid := provenClientID req (proven cfg req)
   let target : Option String :=
     if cid == "" then some cfg.defaultURI
     else match lookup cfg cid with
       | none => none
       | some c =>
         if req.plu == "" then some cfg.defaultURI
         else if c.postLogoutURIs.contains req.plu || (globsClean o.pathMatch c req.plu && registered o.pathMatch c req.plu) then some req.plu
         else none
   match target with
   | none => false
   | some t => req.state == "" || (o.urlParse t).toBool)

/-- The monitor: `none` = the observed response satisfies C18, `some clause` = the clause it violates. -/
def monitor (cfg : Cfg) (o : Orc) (req : Req) : Obs → Option String
  | .panic => some "panic"
  | .rejected term =>
    if !term.isEmpty then some "rejected:session-terminated"
    else if mustAccept cfg o req && !req.termRefused && !req.lookupRefused then some "rejected:valid-logout-request"
    else none
  | .redirect loc dec term =>
    if req.malformed then some "malformed-request-accepted" else
    match req.hint.bind (hintDefect cfg) with
    | some clause => some clause
    | none =>
      let hc := proven cfg req
      if contradicts hc req.clientID then some "hint:client_id-contradicts-azp"
      else
        let cid := provenClientID req hc
        let verdicts := (allowedTargets cfg o req cid).map (targetVerdict o req.state loc dec)
        if !verdicts.contains .exact then
          (if verdicts.contains .altered then
             (match dec with
              | .ok lu => if (qvals lu.query "state").getLast? != some req.state then some "state:altered" else some "redirect:query-altered"
              | .error _ => some "redirect:query-altered")
           else some "redirect:unregistered-target")
        else
          let expected := ((hc.map (·.sub)).getD "", cid)
          if term.isEmpty then some "session:not-terminated"
          else if term != [expected] then some "session:wrong-identity"
          else none

end C18
