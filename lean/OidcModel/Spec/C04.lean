/-
  C04 — A code yields tokens once, only to its client, redirect URI and PKCE proof.
  A reference monitor over OBSERVED histories: it remembers which codes the provider handed out (and
  for which stored request) and judges every token response of the code grant.
-/
import OidcModel.Spec.C14

namespace C04

/-- a code the provider handed out at /authorize/callback, with the request it belongs to -/
structure Issued where
  code : String
  req : AuthReq
  used : Bool := false
  deriving Repr, Inhabited

structure MonState where
  issuer : String := ""
  clients : List OPClient := []
  issued : List Issued := []
  jwtMaxAgeIAT : Int := 0
  jwtOffset : Int := 0
  /-- round 4b: configuration, like the issuer: the provider's `JWTProfileVerifier` was built with the public option
      `op.SubjectCheck` (a custom check on an assertion's `sub`; the default is `sub = iss`) -/
  subjectCheckCustom : Bool := false
  deriving Repr, Inhabited

/-- what was presented at the token endpoint -/
structure Presented where
  clientID : String := ""
  secret : String := ""
  assertion : Option Token := none
  code : String := ""
  redirectURI : String := ""
  verifier : String := ""
  deriving Repr, Inhabited

/-- ONE of the tokens of a response as the observer decodes it (deep3-C04): which token it is (`id_token`, `access_token` -
    a JWT is read, an opaque one is resolved -, `refresh_token`) and what it carries; a member this kind of token does
    not carry is `none` -/
structure Carried where
  kind : String := ""
  subject : Option String := none
  client : Option String := none
  scopes : Option (List String) := none
  nonce : Option String := none
  deriving Repr, Inhabited, DecidableEq

/-- tokens handed out, decoded by the observer -/
structure Tokens where
  subject : String := ""
  client : String := ""       -- azp / client_id of the issued tokens
  scopes : List String := []
  nonce : String := ""
  carried : List Carried := []   -- deep3-C04: every single token of the response, each judged on its own
  deriving Repr, Inhabited, DecidableEq

/-- does this token carry something else than the request's subject / client / scopes / nonce?  (the clause it breaks) -/
def carriedBad (req : AuthReq) (v : Carried) : Option String :=
  if v.subject.any (· != req.subject) then some ("tokens:" ++ v.kind ++ ":subject")
  else if v.client.any (· != req.clientID) then some ("tokens:" ++ v.kind ++ ":client")
  else if v.scopes.any (· != req.scopes) then some ("tokens:" ++ v.kind ++ ":scopes")
  else if v.nonce.any (· != req.nonce) then some ("tokens:" ++ v.kind ++ ":nonce")
  else none

def registry (clients : List OPClient) : List (String × JWK) :=
  clients.flatMap fun c => c.keys.map fun k => (c.id, k)

/-- PKCE verification as the statement means it (S256 is symbolic, see Hand.NewSHACodeChallenge) -/
def pkceOK (ch : CodeChallenge) (verifier : String) : Bool :=
  verifier != "" &&
    (if ch.Method == "S256" then ch.Challenge == "S256(" ++ verifier ++ ")" else ch.Challenge == verifier)

/-- round 4c: the PKCE parameters of an authorization request as they TRAVELLED in one place (the query, or the signed request object);
    "" = not sent there -/
structure SentPkce where
  challenge : String := ""
  method : String := ""
  deriving Repr, Inhabited, DecidableEq

/-- round 4c: the code challenge an authorization request CARRIED, as an onlooker decides it from what the client sent: a parameter of
    an accepted request object supersedes the query's (OIDC Core 6.1; the library's documented rule "overwrites present values from the
    Request Object", per parameter), a parameter the object does not set is the query's.  `objAccepted`: the request had a `request`
    parameter, request objects are supported and the provider accepted the request.  A request carried a challenge iff the effective
    code_challenge is not empty. -/
def effectiveChallenge (objAccepted : Bool) (q o : SentPkce) : Option CodeChallenge :=
  let c := if objAccepted && o.challenge != "" then o.challenge else q.challenge
  let m := if objAccepted && o.method != "" then o.method else q.method
  if c == "" then none else some { Challenge := c, Method := m }

/-- is the caller authenticated as - or, for a public client, does it identify as - client `c`? -/
def callerIs (m : MonState) (now : Int) (c : OPClient) (p : Presented) : Bool :=
  if c.auth == "none" then p.clientID == c.id && p.assertion.isNone
  else if c.auth == "private_key_jwt" then
    match p.assertion with
    | some t => C14.provesClient m.issuer m.jwtMaxAgeIAT m.jwtOffset (registry m.clients) t now == some c.id
    | none => false
  else p.assertion.isNone && p.clientID == c.id && p.secret == c.secret

/-- round 4b: the client identity a `client_assertion` proves as an onlooker reads it: the ISSUER it names, provided the
    signature verifies under a key the storage holds for THAT client (audience, times as ever).  With the default subject
    check the assertion must also say `sub = iss` (this is `C14.provesClient`); under a custom subject check what `sub` may
    say is that check's business - it never changes WHO signed. -/
def provesIssuer (m : MonState) (t : Token) (now : Int) : Option String :=
  match t.middle.bind (·.claims) with
  | none => none
  | some c =>
    if (C14.assertionOK m.issuer m.jwtMaxAgeIAT m.jwtOffset (!m.subjectCheckCustom) (registry m.clients) t now c).isNone then some c.iss else none

/-- `callerIs` under the provider's configuration: for a private_key_jwt client of a provider with a custom subject check the
    authenticated identity is `provesIssuer`; everything else is `callerIs` -/
def callerIsCfg (m : MonState) (now : Int) (c : OPClient) (p : Presented) : Bool :=
  if m.subjectCheckCustom && c.auth == "private_key_jwt" then
    match p.assertion with
    | some t => provesIssuer m t now == some c.id
    | none => false
  else callerIs m now c p

/-- judgement of one token response to a code-grant request; `obs = some tokens` = success -/
def judge (m : MonState) (now : Int) (p : Presented) (obs : Option Tokens) : Option String :=
  match obs with
  | none => none
  | some tk =>
    match m.issued.find? (·.code == p.code) with
    | none => some "code-never-issued"
    | some i =>
      if i.used then some "code-replayed"
      else if !i.req.done then some "request-not-completed"
      else
        match m.clients.find? (·.id == i.req.clientID) with
        | none => some "unknown-client"
        | some c =>
          if !callerIsCfg m now c p then some "caller-is-not-the-code's-client"
          else if !c.grants.contains "authorization_code" then some "grant-not-registered"
          else if p.redirectURI != i.req.redirectURI then some "redirect-uri-differs"
          else if (match i.req.challenge with | some ch => !pkceOK ch p.verifier | none => c.auth == "none") then some "pkce"
          else if tk.subject != i.req.subject then some "tokens:subject"
          else if tk.client != i.req.clientID then some "tokens:client"
          else if tk.scopes != i.req.scopes then some "tokens:scopes"
          else if tk.nonce != i.req.nonce then some "tokens:nonce"
          else tk.carried.findSome? (carriedBad i.req)   -- deep3-C04: each token of the response carries the request's values

/-- deep4-C04: a second answer with tokens for a spent code breaks "once" (`code-replayed`).  Whether that answer ALSO breaks
    "only to its client, redirect URI and PKCE proof" is judged here: the same judgement with the code taken as unspent.  Only
    used to NAME the further clause in a verdict that is a violation already (Driver/FlowMon.lean); `judge` is the monitor. -/
def judgeBinding (m : MonState) (now : Int) (p : Presented) (obs : Option Tokens) : Option String :=
  judge { m with issued := m.issued.map fun i => if i.code == p.code then { i with used := false } else i } now p obs

/-- state update: a callback that handed out `code` for request `req` -/
def onCallback (m : MonState) (code : String) (req : AuthReq) : MonState :=
  { m with issued := m.issued.filter (·.code != code) ++ [{ code := code, req := req }] }

/-- state update: the user (re-)authenticated for request `id`.  The tokens of a later exchange carry the subject
    and authentication time the request has THEN, so the codes handed out for it follow the request. -/
def onLogin (m : MonState) (id subject : String) (authTime : Int) : MonState :=
  { m with issued := m.issued.map fun i =>
      if i.req.id == id then { i with req := { i.req with done := true, subject := subject, authTime := authTime } } else i }

/-- state update: a successful exchange consumes the code -/
def onExchange (m : MonState) (p : Presented) (obs : Option Tokens) : MonState :=
  match obs with
  | none => m
  | some _ => { m with issued := m.issued.map fun i => if i.code == p.code then { i with used := true } else i }

end C04
