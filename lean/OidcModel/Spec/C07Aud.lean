/-
  C07 (deep5) - "... and the new tokens keep the original subject, AUDIENCE and authentication time", said about every token a
  refresh produces and about the ORIGINAL grant:

  The onlooker remembers the audience of the grant as the storage recorded it when the refresh token family was created (the code
  exchange; `C07.MonState.rts`, whose `audience` field is never rewritten by a refresh).  For every refresh that is answered with
  tokens he looks at
    * the audience of the token request the storage was handed for rotation (`CreateAccessAndRefreshTokens`),
    * the `aud` claim of the access token when it is a JWT,
    * the `aud` claim of the ID token,
  and compares each with the ORIGINAL audience - not with what the storage holds now (a provider that scribbles into the storage's
  own record would otherwise be compared with its own damage).

  INTERPRETATION.  OIDC Core demands that the ID token names the client as an audience, and the library adds the client id to the
  `aud` of a JWT access token as well - the tokens of the ORIGINAL code exchange carry "granted audience plus the client".  An `aud`
  claim therefore keeps the original audience iff, the client itself aside, it names exactly the originally granted audiences
  (as a set: the order of `aud` members means nothing).  The rotation request must carry the original audience itself.
  Nothing here says how the provider computes the claims.
-/
import OidcModel.Spec.C07Fault

namespace FlowObs

/-- the audiences the tokens of one refresh response carry, as the onlooker decodes them (`none`: no such token / not decodable) -/
structure TokenAuds where
  /-- audience of the token request handed to the storage for rotation -/
  rotation : Option (List String) := none
  /-- `aud` of a JWT access token -/
  jwtAccess : Option (List String) := none
  /-- `aud` of the ID token -/
  idToken : Option (List String) := none
  deriving Repr, Inhabited, DecidableEq

def sameSet (a b : List String) : Bool := a.all b.contains && b.all a.contains

/-- an `aud` claim names, the client aside, exactly the original audiences -/
def keepsAudience (client : String) (orig aud : List String) : Bool :=
  sameSet (aud.filter (· != client)) (orig.filter (· != client))

/-- the ORIGINAL grant of the refresh token `rt` (the one the storage was handed for rotation) -/
def originalGrant (m : C07.MonState) (rt : String) : Option C07.RT := m.rts.find? (fun t => t.token == rt && t.live)

def judgeAud (m : C07.MonState) (rt : String) (ta : TokenAuds) : Option String :=
  match originalGrant m rt with
  | none => none   -- Spec/C07.lean has flagged the response already
  | some t =>
    if (match ta.rotation with | some a => !sameSet a t.audience | none => false) then some "tokens:rotation-request-audience-is-not-the-original"
    else if (match ta.jwtAccess with | some a => !keepsAudience t.client t.audience a | none => false) then some "tokens:jwt-access-token-audience-is-not-the-original"
    else if (match ta.idToken with | some a => !keepsAudience t.client t.audience a | none => false) then some "tokens:id_token-audience-is-not-the-original"
    else none

/-- the verdict about the audiences of a refresh that was answered with tokens, given what Spec/C07Wire.lean / C07Fault.lean said -/
def audVerdict (s : ObsState) (a : Answer) (ta : TokenAuds) (earlier : Option String) : Option String :=
  match earlier with
  | some v => some v
  | none => if a.tokens.isSome then a.handed.bind fun h => judgeAud s.m07 h ta else none

end FlowObs
