/-
  C19 — the monitor for a provider that was configured with a LIST of options (core Lean, Spec/Model imports only).

  The integrator writes `op.NewProvider(config, storage, issuer, opt₁, …, optₙ)`. What he configured for a document member is what the
  documentation of the options says: `WithCustom<X>Endpoint(e)` / `WithCustomEndpoints(..)` set the endpoint of X, a later option for
  the same member replaces an earlier one, members without an option keep the documented default paths of `op.NewProvider`
  (/authorize, /oauth/token, /oauth/introspect, /userinfo, /revoke, /end_session, /keys, /device_authorization); `WithAllowInsecure()`
  anywhere in the list is the insecure opt-in. The monitor then is the property's monitor `C19.monitor` for THAT configuration, plus
  the property's issuer clause (`monitorIssuer`) with the opt-in read off the list. It does not say how the library applies options.
-/
import OidcModel.Spec.C19

namespace C19
open Disco

/-- one option as far as the property reads it -/
inductive OptionSpec
  | allowInsecure
  | endpoint (f : Field) (e : Endpoint)
  | endpoints (auth token userInfo revocation endSession keys : Endpoint)
  | other
  deriving Repr, Inhabited

/-- the default endpoint set documented at `op.NewProvider` -/
def documentedDefaults : Endpoints :=
  { Authorization := { path := "/authorize" }, Token := { path := "/oauth/token" }, Introspection := { path := "/oauth/introspect" },
    Userinfo := { path := "/userinfo" }, Revocation := { path := "/revoke" }, EndSession := { path := "/end_session" },
    JwksURI := { path := "/keys" }, DeviceAuthorization := { path := "/device_authorization" } }

def setField (eps : Endpoints) (f : Field) (e : Endpoint) : Endpoints :=
  match f with
  | .authorization => { eps with Authorization := e } | .token => { eps with Token := e } | .introspection => { eps with Introspection := e }
  | .userinfo => { eps with Userinfo := e } | .revocation => { eps with Revocation := e } | .endSession => { eps with EndSession := e }
  | .jwks => { eps with JwksURI := e } | .deviceAuthorization => { eps with DeviceAuthorization := e } | .checkSession => eps

/-- what the integrator configured: every option in order, a later one replacing an earlier one -/
def configuredBy (os : List OptionSpec) : Endpoints :=
  os.foldl (fun eps o =>
    match o with
    | .endpoint f e => setField eps f e
    | .endpoints a t u r s k =>
      { eps with Authorization := a, Token := t, Userinfo := u, Revocation := r, EndSession := s, JwksURI := k }
    | _ => eps) documentedDefaults

def insecureOptIn (os : List OptionSpec) : Bool := os.any fun | .allowInsecure => true | _ => false

/-- a provider built with an option list. `legacy`: the endpoint set handed to `NewLegacyServer` when the provider is served through the
    second router (the provider's own options are documented to be ineffective there). `accepted`: the constructor returned a provider. -/
def monitorOptions (parse : String → Go.R DiscURL) (issuer : String) (flags : OpConfig) (caps : OpStorage) (legacy : Option Endpoints)
    (os : List OptionSpec) (accepted : Bool) (o : Obs) : Option String :=
  match monitorIssuer parse issuer (insecureOptIn os) accepted with
  | some c => some c
  | none =>
    if !accepted then none
    else
      monitor { router := if legacy.isSome then .legacy else .provider, endpoints := legacy.getD (configuredBy os), flags := flags, caps := caps,
                insecure := insecureOptIn os } o

end C19
