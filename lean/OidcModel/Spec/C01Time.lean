/-
  C01, round 4 — what a time claim (exp / iat / auth_time) of an ID Token MEANS, as it is WRITTEN in the JSON payload.

  The monitor of Spec/C01 judges a token by the claims its payload contains (`Token.middle.claims`).  For the time claims
  this file says which claims a payload contains: RFC 7519 defines a NumericDate as "a JSON numeric value" - ANY spelling
  RFC 8259 allows (integer, fraction, exponent part) - counting seconds since the epoch; `oidc.Time` is a count of WHOLE
  seconds (the fraction is dropped, toward zero) and additionally documents `null` (absent) and RFC 3339 strings.
  Nothing here mentions how the library decodes.  The value of a JSON number is taken from the JSON reader (oracle, see
  `Cdc.Oracles.jsonAny`: floor of the value, whether it has a fraction), the instant of an RFC 3339 string from `time.Parse`.
-/
import OidcModel.Spec.C01
import OidcModel.Model.CodecGen

namespace C01
open Go Cdc

/-- `time.Time` counts the seconds of an instant from January 1 of year 1 in an int64; `time.Unix(sec, 0)` computes that count
    as `sec + 62135596800` IN int64 ARITHMETIC (for the last 62135596800 seconds of the int64 range the sum wraps around to an
    instant 292 billion years in the past).  This is the count it arrives at. -/
def unixInternalSeconds (sec : Int) : Int := (sec + 62135596800 + 9223372036854775808) % 18446744073709551616 - 9223372036854775808

/-- the last second (counted from 1970) whose instant a `time.Time` can hold -/
def maxInstantSeconds : Int := 9223372036854775807 - 62135596800

/-- the whole seconds a JSON number names (fraction dropped toward zero), if `oidc.Time` (an int64) can hold them AND the
    instant they name is one `time.Time` can hold (finding F-C01a, fixed: up to then every int64 was admitted and the instants
    of the last 62135596800 seconds were judged as dates in the far past) -/
def numberSeconds (x : F64) : Option Int :=
  if x.nan = false ∧ -9223372036854775808 ≤ x.floor ∧ x.floor ≤ maxInstantSeconds then
    some (if x.floor < 0 ∧ x.frac = true then x.floor + 1 else x.floor)
  else none

/-- seconds since the epoch of the instant `t` (nanoseconds); the zero time is "absent" (0) -/
def instantSeconds (t : Int) : Int := if t = zeroTime then 0 else t / second

/-- what a time claim written as the JSON value `doc` means, in seconds since the epoch (0 = absent);
    `none`: not a time in any documented form.  `rfc3339` = the instant an RFC 3339 string names. -/
def writtenTime (rfc3339 : String → Option Int) : JVal → Option Int
  | .num x => numberSeconds x
  | .null => some 0
  | .str s => (rfc3339 s).map instantSeconds
  | _ => none

/-- every member of a JSON array is a string / the strings of the array -/
def allStrings : List JVal → Bool
  | [] => true
  | .str _ :: r => allStrings r
  | _ :: _ => false
def stringsOf : List JVal → List String
  | [] => []
  | .str s :: r => s :: stringsOf r
  | _ :: r => stringsOf r

/-- the audience(s) a payload names with its `aud` member written as `doc` (OIDC Core 2: a string or an array of strings):
    a string is one audience, an array of strings is that list; an array with a member that is not a string is not an audience
    (`none`: the payload is not a decodable ID Token); anything else (null, a number, ...) names no audience -/
def writtenAudience : JVal → Option (List String)
  | .str s => some [s]
  | .arr l => if allStrings l then some (stringsOf l) else none
  | _ => some []

/-- the JSON text of the members of a payload whose decoding is the library's own code (`none`: member absent; for `aud`:
    not spoken about, the audience is `base`'s) -/
structure TimeTexts where
  exp : Option String := none
  iat : Option String := none
  auth : Option String := none
  aud : Option String := none

/-- an absent member leaves the claim absent (0) -/
def writtenMember (json : String → Option JVal) (rfc3339 : String → Option Int) : Option String → Option Int
  | none => some 0
  | some text => (json text).bind (writtenTime rfc3339)

/-- `base` (everything that is not a time) with the three time claims filled in; `none` when one of them is not a time -/
def withTimes (base : Claims) : Option Int → Option Int → Option Int → Option Claims
  | some e, some i, some a => some { base with exp := e, iat := i, authTime := a }
  | _, _, _ => none

/-- the audience member as written (`none`: not spoken about) -/
def writtenAud (json : String → Option JVal) (base : Claims) : Option String → Option (List String)
  | none => some base.aud
  | some text => (json text).bind writtenAudience

/-- the claims with this audience -/
def withAud (c : Option Claims) (a : Option (List String)) : Option Claims :=
  match c, a with
  | some c, some a => some { c with aud := a }
  | _, _ => none

/-- the claims a payload contains: `base` with each time claim (and the audience) the value of what is written;
    `none` when a time member is not a time or the audience not an audience (the payload is then not a decodable ID Token) -/
def claimsAsWritten (json : String → Option JVal) (rfc3339 : String → Option Int) (base : Claims) (w : TimeTexts) : Option Claims :=
  withAud (withTimes base (writtenMember json rfc3339 w.exp) (writtenMember json rfc3339 w.iat) (writtenMember json rfc3339 w.auth))
    (writtenAud json base w.aud)

/-- the token with these payload claims -/
def withClaims (t : Token) (c : Option Claims) : Token :=
  { t with middle := t.middle.map fun p => { p with claims := c } }

end C01
