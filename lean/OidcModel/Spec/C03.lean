/-
  C03 — The OP never redirects an authorization response or error to an unregistered URI.

  The monitor judges what an OBSERVED response to `/authorize` or `/authorize/callback` does with the user
  agent (`Sent`), given the client registrations, the request's redirect_uri / response_type and the answers
  of net/url, net.ParseIP and doublestar (`UriOracle`).  It never mentions how the code decides.

  `strict = true` is the reading of the statement (DESIGN §4.21): the scheme of a URI is what a URL parser
  says it is, and a native "loopback variant" may differ from a registered loopback URI in scheme, host
  spelling and port ONLY (userinfo, path as written, raw query and fragment equal).
  `strict = false` is the weaker reading the theorems of Proofs/C03 establish for all inputs: scheme = the
  literal prefix `http://` / `https://`, loopback variant = equal decoded path and raw query.
-/
import OidcModel.Model.Uri

namespace C03

def isNative (c : OPClient) : Bool := c.app == Const.ApplicationTypeNative
/-- "confidential client" in this library's terms: application type web -/
def confidential (c : OPClient) : Bool := c.app == Const.ApplicationTypeWeb

/-- `u` parsed as an http(s) URL whose host is `localhost` or a loopback IP address -/
def loopbackHTTP (o : UriOracle) (u : String) : Option URL :=
  match o.urlParse u with
  | .ok p =>
    if (p.Scheme == "http" || p.Scheme == "https") && (p.Hostname == "localhost" || (o.parseIP p.Hostname).IsLoopback)
    then some p else none
  | .error _ => none

/-- requested `uri` is a loopback URI that differs from the registered loopback URI `reg` only in scheme,
    host spelling and port -/
def loopbackVariant (strict : Bool) (o : UriOracle) (uri reg : String) : Bool :=
  match loopbackHTTP o uri, loopbackHTTP o reg with
  | some a, some b =>
    a.Path == b.Path && a.RawQuery == b.RawQuery &&
      (!strict || (a.User == b.User && a.EscapedPath == b.EscapedPath && a.Fragment == b.Fragment))
  | _, _ => false

def globMatches (o : UriOracle) (g uri : String) : Bool :=
  match o.globMatch g uri with
  | .ok true => true
  | _ => false

/-- the URI is one the client registered: exact string, opted-in glob, or (native) loopback variant -/
def matchesRegistration (strict : Bool) (o : UriOracle) (c : OPClient) (uri : String) : Bool :=
  c.redirectURIs.contains uri
  || (match c.globs with
      | some gs => gs.any (fun g => globMatches o g uri)
      | none => false)
  || (isNative c && c.redirectURIs.any (fun reg => loopbackVariant strict o uri reg))

def prefixScheme (uri : String) : String :=
  if Go.hasPrefix uri "https://" then "https" else if Go.hasPrefix uri "http://" then "http" else ""

/-- scheme of the target: what the URL parser says (strict) / the literal prefix (weak reading) -/
def schemeOf (strict : Bool) (o : UriOracle) (uri : String) : String :=
  if strict then
    match o.urlParse uri with
    | .ok p => p.Scheme
    | .error _ => prefixScheme uri
  else prefixScheme uri

/-- plain http only for dev-mode clients, native loopback, confidential clients using the code flow;
    custom schemes only for native clients -/
def schemeAllowed (strict : Bool) (o : UriOracle) (c : OPClient) (uri rt : String) : Bool :=
  let s := schemeOf strict o uri
  if s == "https" then true
  else if s == "http" then
    c.devMode || (isNative c && (loopbackHTTP o uri).isSome) || (confidential c && rt == Const.ResponseTypeCode)
  else isNative c

/-- "a redirect URI the client registered" (the statement's notion) -/
def Registered (strict : Bool) (o : UriOracle) (c : OPClient) (uri rt : String) : Bool :=
  uri != "" && matchesRegistration strict o c uri && schemeAllowed strict o c uri rt

/-- where a URI sends the user agent: scheme, userinfo, host[:port], path (query and fragment carry the
    response parameters and are not part of the destination) -/
def destOf (o : UriOracle) (u : String) : String :=
  match o.urlParse u with
  | .ok p => p.Scheme ++ "://" ++ p.User ++ "@" ++ p.Host ++ p.EscapedPath
  | .error _ => "unparseable:" ++ u

/-- what a response does with the user agent -/
inductive Sent
  | nowhere                     -- a direct page (error page / JSON document): no Location, no auto-submitted form
  | login (id : String)         -- 302 to the client's login page for the freshly stored request `id` (exempt, §4.21)
  | to (dest : String)          -- 302 / auto-submitted form: the user agent goes to destination `dest`
  deriving DecidableEq, Repr, Inhabited

/-- an authorization request the provider accepted (the observer saw the login redirect) -/
structure Accepted where
  id : String
  client : String
  uri : String
  rt : String
  deriving DecidableEq, Repr, Inhabited

structure MonState where
  clients : List OPClient := []
  accepted : List Accepted := []
  deriving Repr, Inhabited

def registeredFor (strict : Bool) (m : MonState) (o : UriOracle) (client uri rt : String) : Bool :=
  match m.clients.find? (·.id == client) with
  | some c => Registered strict o c uri rt
  | none => false

/-- the judgement: nothing is sent anywhere for an unregistered URI; otherwise only to the URI's destination
    (or, at /authorize, to the login page) -/
def judge (registered : Bool) (expectedDest : String) (loginAllowed : Bool) (s : Sent) : Option String :=
  match s with
  | .nowhere => none
  | .login _ =>
    if !registered then some "request-with-unregistered-uri-accepted"
    else if loginAllowed then none else some "unexpected-login-redirect"
  | .to d =>
    if !registered then some "redirect-for-unregistered-uri"
    else if d != expectedDest then some "redirect-target-is-not-the-redirect-uri"
    else none

/-- response to `/authorize` for (client, redirect_uri, response_type) -/
def monitorAuthorize (strict : Bool) (m : MonState) (o : UriOracle) (client uri rt : String) (s : Sent) : Option String :=
  judge (registeredFor strict m o client uri rt) (destOf o uri) true s

/-- response to `/authorize/callback?id=…` -/
def monitorCallback (strict : Bool) (m : MonState) (o : UriOracle) (id : String) (s : Sent) : Option String :=
  match m.accepted.find? (·.id == id) with
  | some a => judge (registeredFor strict m o a.client a.uri a.rt) (destOf o a.uri) false s
  | none => if s == .nowhere then none else some "redirect-for-a-request-never-accepted"

/-- observer state: a login redirect at /authorize means the request was stored under that id -/
def onAuthorize (m : MonState) (client uri rt : String) (s : Sent) : MonState :=
  match s with
  | .login id => { m with accepted := m.accepted ++ [{ id := id, client := client, uri := uri, rt := rt }] }
  | _ => m

end C03
