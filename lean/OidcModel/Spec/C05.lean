/-
  C05 — No tokens or token metadata without client authentication and a registered grant.
  Monitor over single requests to the token / introspection / revocation / device_authorization
  endpoints of either router: the REQUEST (abstract: raw Basic header, form pairs), the registrations and flags, and the
  OBSERVED response (status, success, error document, the client the response acted for).
-/
import OidcModel.Spec.C04
import OidcModel.Model.EndpointReq

namespace C05

inductive Endpoint
  | token (grant : String)
  | introspect | revoke | deviceAuthorization
  deriving Repr, DecidableEq

structure Cfg where
  base : C04.MonState := {}                 -- issuer, registrations, assertion settings
  post : Bool := false                      -- op.Config flags / optional storage capabilities
  pkjwt : Bool := false
  refresh : Bool := false
  capCC : Bool := false
  capTE : Bool := false
  capDevice : Bool := false
  deriving Repr, Inhabited

/-- is this grant switched on in the provider at all -/
def grantEnabled (c : Cfg) (g : String) : Bool :=
  if g == "authorization_code" then true
  else if g == "refresh_token" then c.refresh
  else if g == "client_credentials" then c.capCC
  else if g == "urn:ietf:params:oauth:grant-type:token-exchange" then c.capTE
  else if g == "urn:ietf:params:oauth:grant-type:device_code" then c.capDevice
  else if g == "urn:ietf:params:oauth:grant-type:jwt-bearer" then true
  else false

/-- what the response amounted to -/
structure Obs where
  status : Nat := 0
  success : Bool := false        -- tokens / active:true / revocation performed / device codes handed out
  errorDoc : Bool := false       -- a JSON document with an `error` member
  /-- the client the successful response ACTED FOR: client of the issued tokens (client_credentials / jwt-bearer: their subject),
      caller handed to the storage's introspection / revocation, client the device codes were stored for -/
  actor : String := ""
  deriving Repr, Inhabited

/-- the grant type a token request asks for: the first `grant_type` value (body before URL query) -/
def grantOf (r : EPRequest) : String := r.Form.Get "grant_type"

/-- the credentials a request presents -/
structure Creds where
  /-- the `client_assertion` parameter, as the JWT parsers read it -/
  assertion : Option Token := none
  /-- the secret-type credential: the Basic header (user name and password are form-urlencoded, RFC 6749 §2.3.1) takes
      precedence over `client_id` / `client_secret` of the form; `none` = a Basic header that does not unescape -/
  primary : Option C04.Presented := none
  /-- the `assertion` parameter of the jwt-bearer grant -/
  grantAssertion : Option Token := none
  deriving Repr, Inhabited

def credsOf (o : EPOracles) (r : EPRequest) : Creds :=
  { assertion := some (o.tokenOf (r.Form.last "client_assertion")),      -- an absent parameter reads as the empty string
    grantAssertion := some (o.tokenOf (r.Form.last "assertion")),
    primary :=
      match r.basic with
      | some (u, p) =>
        match o.unescape u, o.unescape p with
        | .ok id, .ok sec => some { clientID := id, secret := sec }
        | _, _ => none
      | none => some { clientID := r.Form.last "client_id", secret := r.Form.last "client_secret" } }

/-- does the presentation fit the registration of the client it names (and the way the credential is
    sent is one the provider has enabled) -/
def credentialFits (c : Cfg) (now : Int) (cl : OPClient) (p : C04.Presented) (viaPost : Bool) : Bool :=
  C04.callerIs c.base now cl p &&
    (if cl.auth == "client_secret_post" then c.post else true) &&
    -- the statement ties only POST to an enabling flag; the private_key_jwt flag is not demanded here
    -- (the device and introspection paths of the Provider router accept assertions regardless of it)
    (!viaPost || true)

/-- does SOME credential of the request fit the registration of client `cl`: a `client_assertion` that proves it
    (private_key_jwt clients), or the secret-type credential -/
def credsFit (c : Cfg) (now : Int) (cl : OPClient) (k : Creds) : Bool :=
  (match k.assertion with
   | some t => credentialFits c now cl { assertion := some t } false
   | none => false) ||
  (match k.primary with
   | some p => credentialFits c now cl { clientID := p.clientID, secret := p.secret } false
   | none => false)

/-- why no credential of the request fits client `cl` (only the NAME of the clause; `credsFit` decides) -/
def whyNotFit (c : Cfg) (now : Int) (cl : OPClient) (k : Creds) : String :=
  if credsFit { c with post := true } now cl k then "client_secret_post-client-served-while-POST-is-disabled"
  else if cl.auth != "private_key_jwt" &&
      (match k.assertion with
       | some t => C14.provesClient c.base.issuer c.base.jwtMaxAgeIAT c.base.jwtOffset (C04.registry c.base.clients) t now == some cl.id
       | none => false) then "assertion-accepted-for-a-client-not-registered-for-private_key_jwt"
  else if cl.auth == "private_key_jwt" &&
      (match k.primary with
       | some p => p.clientID == cl.id && p.secret == cl.secret
       | none => false) then "secret-accepted-for-a-private_key_jwt-client"
  else "credential-does-not-fit-registration"

def judge (c : Cfg) (now : Int) (e : Endpoint) (k : Creds) (o : Obs) : Option String :=
  if o.success then
    if o.status ≥ 300 then some "success-with-error-status" else
    match e with
    | .token g =>
      if g == "urn:ietf:params:oauth:grant-type:jwt-bearer" then
        -- the "client" is the assertion's issuer: the assertion must prove that identity (C14)
        match k.grantAssertion with
        | some t =>
          match C14.provesClient c.base.issuer c.base.jwtMaxAgeIAT c.base.jwtOffset (C04.registry c.base.clients) t now with
          | some iss => if iss == o.actor then none else some "jwt-bearer:tokens-for-another-issuer"
          | none => some "jwt-bearer:unproven-assertion"
        | none => some "jwt-bearer:no-assertion"
      else
      match c.base.clients.find? (·.id == o.actor) with
      | none => some "unknown-client"
      | some cl =>
        if g == "client_credentials" then
          -- authentication is the storage's: known client, registered for the grant, secret equal
          if !c.capCC then some "grant-disabled"
          else if !cl.grants.contains "client_credentials" then some "grant-not-registered"
          else match k.primary with
            | some p => if p.clientID != cl.id then some "credential-names-another-client"
                        else if cl.secret != p.secret then some "wrong-secret" else none
            | none => some "malformed-credential"
        else if !credsFit c now cl k then some (whyNotFit c now cl k)
        else if !grantEnabled c g then some "grant-disabled"
        else if !cl.grants.contains g then some "grant-not-registered"
        else none
    | .introspect =>
      -- introspection needs an AUTHENTICATED caller (a public client has nothing to authenticate with)
      match c.base.clients.find? (·.id == o.actor) with
      | none => some "unknown-client"
      | some cl => if cl.auth == "none" then some "unauthenticated-introspection"
                   else if !credsFit c now cl k then some (whyNotFit c now cl k) else none
    | .revoke =>
      match c.base.clients.find? (·.id == o.actor) with
      | none => some "unknown-client"
      | some cl => if !credsFit c now cl k then some (whyNotFit c now cl k) else none
    | .deviceAuthorization =>
      -- a known client registered for the device grant; authentication is not demanded here (as stated)
      match c.base.clients.find? (·.id == o.actor) with
      | none => some "unknown-client"
      | some cl => if !cl.grants.contains "urn:ietf:params:oauth:grant-type:device_code" then some "device-grant-not-registered"
                   else if !c.capDevice then some "grant-disabled" else none
  else
    match e with
    | .token _ => if o.status < 400 then some "refusal-without-error-status"
                  else if !o.errorDoc then some "refusal-without-oauth-error-document" else none
    | _ => if o.status ≥ 200 ∧ o.status < 300 ∧ e != .revoke ∧ e != .introspect then some "refusal-with-success-status" else none

end C05
