/-
  C05 — No tokens or token metadata without client authentication and a registered grant.
  Monitor over single requests to the token / introspection / revocation / device_authorization
  endpoints of either router.
-/
import OidcModel.Spec.C04

namespace C05

inductive Endpoint
  | token (grant : String)
  | introspect | revoke | deviceAuthorization
  deriving Repr, DecidableEq

structure Cfg where
  base : C04.MonState := {}                 -- issuer, registrations, assertion settings
  post : Bool := false                      -- op.Config flags / optional storage capabilities
  pkjwt : Bool := false
  refresh : Bool := false
  capCC : Bool := false
  capTE : Bool := false
  capDevice : Bool := false
  deriving Repr, Inhabited

/-- is this grant switched on in the provider at all -/
def grantEnabled (c : Cfg) (g : String) : Bool :=
  if g == "authorization_code" then true
  else if g == "refresh_token" then c.refresh
  else if g == "client_credentials" then c.capCC
  else if g == "urn:ietf:params:oauth:grant-type:token-exchange" then c.capTE
  else if g == "urn:ietf:params:oauth:grant-type:device_code" then c.capDevice
  else if g == "urn:ietf:params:oauth:grant-type:jwt-bearer" then true
  else false

/-- what the response amounted to -/
structure Obs where
  status : Nat := 0
  success : Bool := false        -- tokens / active:true / revocation performed / device codes handed out
  errorDoc : Bool := false       -- a JSON document with an `error` member
  deriving Repr, Inhabited

/-- does the presentation fit the registration of the client it names (and the way the credential is
    sent is one the provider has enabled) -/
def credentialFits (c : Cfg) (now : Int) (cl : OPClient) (p : C04.Presented) (viaPost : Bool) : Bool :=
  C04.callerIs c.base now cl p &&
    (if cl.auth == "client_secret_post" then c.post else true) &&
    -- the statement ties only POST to an enabling flag; the private_key_jwt flag is not demanded here
    -- (the device and introspection paths of the Provider router accept assertions regardless of it)
    (!viaPost || true)

def judge (c : Cfg) (now : Int) (e : Endpoint) (p : C04.Presented) (viaPost : Bool) (o : Obs) : Option String :=
  if o.success then
    if o.status ≥ 300 then some "success-with-error-status" else
    match e with
    | .token "urn:ietf:params:oauth:grant-type:jwt-bearer" =>
      -- the "client" is the assertion's issuer: the assertion must prove an identity (C14)
      match p.assertion with
      | some t => if (C14.provesClient c.base.issuer c.base.jwtMaxAgeIAT c.base.jwtOffset (C04.registry c.base.clients) t now).isSome then none else some "jwt-bearer:unproven-assertion"
      | none => some "jwt-bearer:no-assertion"
    | .token "client_credentials" =>
      -- authentication is the storage's: known client, registered for the grant, secret equal
      match c.base.clients.find? (·.id == p.clientID) with
      | none => some "unknown-client"
      | some cl =>
        if !c.capCC then some "grant-disabled"
        else if !cl.grants.contains "client_credentials" then some "grant-not-registered"
        else if cl.secret != p.secret then some "wrong-secret" else none
    | .token g =>
      let cid := match p.assertion with
        | some t => (C14.provesClient c.base.issuer c.base.jwtMaxAgeIAT c.base.jwtOffset (C04.registry c.base.clients) t now).getD ""
        | none => p.clientID
      match c.base.clients.find? (·.id == cid) with
      | none => some "unknown-client"
      | some cl =>
        if !credentialFits c now cl p viaPost then some "credential-does-not-fit-registration"
        else if !grantEnabled c g then some "grant-disabled"
        else if !cl.grants.contains g then some "grant-not-registered"
        else none
    | .introspect =>
      -- introspection needs an AUTHENTICATED caller (a public client has nothing to authenticate with)
      let cid := match p.assertion with
        | some t => (C14.provesClient c.base.issuer c.base.jwtMaxAgeIAT c.base.jwtOffset (C04.registry c.base.clients) t now).getD ""
        | none => p.clientID
      match c.base.clients.find? (·.id == cid) with
      | none => some "unknown-client"
      | some cl => if cl.auth == "none" then some "unauthenticated-introspection"
                   else if !credentialFits c now cl p viaPost then some "credential-does-not-fit-registration" else none
    | .revoke =>
      let cid := match p.assertion with
        | some t => (C14.provesClient c.base.issuer c.base.jwtMaxAgeIAT c.base.jwtOffset (C04.registry c.base.clients) t now).getD ""
        | none => p.clientID
      match c.base.clients.find? (·.id == cid) with
      | none => some "unknown-client"
      | some cl => if !credentialFits c now cl p viaPost then some "credential-does-not-fit-registration" else none
    | .deviceAuthorization =>
      let cid := match p.assertion with
        | some t => (C14.provesClient c.base.issuer c.base.jwtMaxAgeIAT c.base.jwtOffset (C04.registry c.base.clients) t now).getD ""
        | none => p.clientID
      match c.base.clients.find? (·.id == cid) with
      | none => some "unknown-client"
      | some cl => if !cl.grants.contains "urn:ietf:params:oauth:grant-type:device_code" then some "device-grant-not-registered"
                   else if !c.capDevice then some "grant-disabled" else none
  else
    match e with
    | .token _ => if o.status < 400 then some "refusal-without-error-status"
                  else if !o.errorDoc then some "refusal-without-oauth-error-document" else none
    | _ => if o.status ≥ 200 ∧ o.status < 300 ∧ e != .revoke ∧ e != .introspect then some "refusal-with-success-status" else none

end C05
