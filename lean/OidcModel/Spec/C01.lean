/-
  C01 — RP ID-token validation is sound and complete w.r.t. OIDC Core 3.1.3.7.
  The property as an executable predicate over (verifier configuration, token, instant, OBSERVED
  result).  Nothing in this file mentions how the code computes its answer.  The same functions are
  (a) what the theorems of Proofs/C01 are about and (b) what the driver evaluates on the answers of
  the real implementation.
-/
import OidcModel.Model.KeySet

namespace C01
open Go

def halfSecond : Int := 500000000

/-- nanosecond instant of an `oidc.Time` claim (absent = the zero time, year 1) -/
abbrev ns (t : Int) : Int := Go.asTime t

def acrOK (v : Verifier) (c : Claims) : Bool :=
  match v.ACR with
  | none => true
  | some f => (f c.acr).toBool

def nonceOK (v : Verifier) (c : Claims) : Bool :=
  match v.Nonce with
  | none => true
  | some n => c.nonce == n

/-- The conditions of the statement at instant `now`, each with its name.  `m` is the margin
    demanded on the time comparisons: `-halfSecond` (rounding tolerance) for soundness,
    `second` for the completeness direction ("more than clock-rounding margin"). -/
def clauses (v : Verifier) (c : Claims) (now : Int) (m : Int) : List (String × Bool) :=
  [ ("issuer",       c.iss == v.Issuer),
    ("subject",      c.sub != ""),
    ("audience",     c.aud.contains v.ClientID),
    ("azp-value",    c.azp == "" || c.azp == v.ClientID),
    ("azp-present",  decide (c.aud.length ≤ 1) || c.azp != ""),
    ("not-expired",  decide (now + v.Offset + max m 0 < ns c.exp)),
    ("iat-present",  ns c.iat != zeroTime),
    ("iat-not-future", decide (ns c.iat + m ≤ now + v.Offset)),
    ("iat-not-old",  v.MaxAgeIAT == 0 || decide (ns c.iat ≥ now - v.MaxAgeIAT + m)),
    ("nonce",        nonceOK v c),
    ("acr",          acrOK v c),
    ("auth-age",     v.MaxAge == 0 || (ns c.authTime != zeroTime && decide (ns c.authTime ≥ now - v.MaxAge + m))) ]

def firstFailing (cs : List (String × Bool)) : Option String :=
  (cs.find? (fun p => !p.2)).map (·.1)

/-- conditions hold up to clock rounding (what an accepted token must satisfy) -/
def idTokenOK (v : Verifier) (c : Claims) (now : Int) : Bool :=
  (clauses v c now (-halfSecond)).all (·.2)

/-- conditions hold with one second of margin (what must be accepted) -/
def idTokenOKMargin (v : Verifier) (c : Claims) (now : Int) : Bool :=
  (clauses v c now second).all (·.2)

/-- "correctly signed": three segments, decodable payload, exactly one signature with an allowed
    algorithm that the configured key set verifies, over exactly the bytes of the middle segment.
    (What "verifies under the key set" means is the subject of C02.)  Returns the claims and alg. -/
def correctlySigned (v : Verifier) (t : Token) : Option (Claims × String) :=
  if t.segs != 3 then none else
  match t.middle, t.jws with
  | some p, some j =>
    match p.claims, j.Signatures with
    | some c, [s] =>
      if (Hand.toJoseSignatureAlgorithms v.SupportedSignAlgs).contains s.Header.Algorithm then
        match v.KeySet.VerifySignature j with
        | .ok p' => if p'.bytes == p.bytes then some (c, s.Header.Algorithm) else none
        | .error _ => none
      else none
    | _, _ => none
  | _, _ => none

/-- hash family per signature algorithm (OIDC Core 3.1.3.6; EdDSA ↦ SHA-512) -/
def hashOf (alg : String) : Option HashAlg :=
  if ["RS256", "ES256", "PS256"].contains alg then some .sha256
  else if ["RS384", "ES384", "PS384"].contains alg then some .sha384
  else if ["RS512", "ES512", "PS512", "EdDSA"].contains alg then some .sha512
  else none

/-- at_hash condition of `VerifyTokens`: a present at_hash is the left-half hash (for the hash
    family of the verified signature algorithm) of exactly this access token. -/
def atHashOK (accessToken : String) (c : Claims) (alg : String) : Bool :=
  c.atHash == "" ||
    match hashOf alg with
    | some h => c.atHash == Hand.leftHalfHash h accessToken
    | none => false

/-- what was observed: `some claims` = accepted and these claims were returned -/
abbrev Observed := Option Claims

/-- the claims contained in the token's payload (if decodable) -/
def payloadClaims (t : Token) : Option Claims := t.middle.bind (·.claims)

/-- The monitor: `none` = property respected, `some clause` = violated.
    `withAT = some at`: the call was `VerifyTokens` with that access token. -/
def monitor (v : Verifier) (t : Token) (withAT : Option String) (now : Int) (obs : Observed) : Option String :=
  match obs with
  | some c =>
    -- soundness: accepted ⇒ all conditions, and the claims are those of the payload, unchanged
    match payloadClaims t with
    | none => some "accepted-undecodable"
    | some pc =>
      if { c with sigAlg := "" } != { pc with sigAlg := "" } then some "claims-changed" else
      match firstFailing (clauses v pc now (-halfSecond)) with
      | some cl => some ("sound:" ++ cl)
      | none =>
        match withAT with
        | some atk => if atHashOK atk pc c.sigAlg then none else some "sound:at_hash"
        | none => none
  | none =>
    -- completeness: correctly signed + conditions with margin (+ matching at_hash) ⇒ accepted
    match correctlySigned v t with
    | none => none
    | some (pc, alg) =>
      if idTokenOKMargin v pc now && (match withAT with | some atk => atHashOK atk pc alg | none => true)
      then some "complete:rejected-valid-token" else none

end C01
