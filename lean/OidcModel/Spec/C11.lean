/-
  C11 — authorization response parameters arrive intact and cannot inject markup.

  The property as an executable predicate over (redirect URI, response mode, response type, the
  parameters the provider produced) and the OBSERVED response (the bytes of the Location header, or
  the bytes of the HTML page).  The decoders a user agent / the relying party applies to those bytes
  are part of the specification and are defined HERE, over bytes, independently of the model:
    * `UA.parseQuery`         application/x-www-form-urlencoded decoding ('+' = space, %XX = byte)
    * `UA.locationQuery/…Fragment`  what is the query / the raw fragment of a Location value
    * `UA.tokenize`           the start tags an HTML tokenizer finds in a page (names, raw attribute values)
    * `UA.attrUnescape`       character-reference decoding of an attribute value
    * `UA.sameTarget`         two URL spellings address the same target (equal up to the percent-encoding
                              of bytes without delimiter role, an unescaped `%`, and the case of the scheme)
  Nothing in this file mentions how the code computes its answer.  (Core Lean only.)
-/

namespace UA

abbrev Bytes := List UInt8

/-- the bytes of an ASCII literal (kernel-friendly) -/
def ascii (x : String) : Bytes := x.toList.map fun c => UInt8.ofNat c.toNat

def hexVal (c : UInt8) : Option Nat :=
  if 0x30 ≤ c ∧ c ≤ 0x39 then some (c.toNat - 0x30)
  else if 0x61 ≤ c ∧ c ≤ 0x66 then some (c.toNat - 0x61 + 10)
  else if 0x41 ≤ c ∧ c ≤ 0x46 then some (c.toNat - 0x41 + 10)
  else none

/-- how far into a possible `%XX` a scan is -/
inductive Pct
  | none | pct | pct1 (a : UInt8)
  deriving DecidableEq, Repr

/-- decoding of one form-urlencoded component: `+` is a space, `%XX` a byte; a `%` that is not followed
    by two hexadecimal digits makes the component undecodable.  (A scan with the pending `%` / `%X` as state.) -/
def formDecodeS : Pct → Bytes → Option Bytes
  | .none, [] => some []
  | .pct, [] => none
  | .pct1 _, [] => none
  | .none, c :: r =>
    if c == 0x25 then formDecodeS .pct r
    else if c == 0x2B then (formDecodeS .none r).map (0x20 :: ·)
    else (formDecodeS .none r).map (c :: ·)
  | .pct, c :: r => if (hexVal c).isSome then formDecodeS (.pct1 c) r else none
  | .pct1 a, c :: r =>
    match hexVal a, hexVal c with
    | some x, some y => (formDecodeS .none r).map (UInt8.ofNat (x * 16 + y) :: ·)
    | _, _ => none

def formDecode (s : Bytes) : Option Bytes := formDecodeS .none s

/-- split at the first occurrence of `sep`: (before, after) — `after = none` when `sep` does not occur -/
def cut (sep : UInt8) : Bytes → Bytes × Option Bytes
  | [] => ([], none)
  | c :: rest =>
    if c == sep then ([], some rest)
    else match cut sep rest with
      | (a, b) => (c :: a, b)

/-- all segments between occurrences of `sep` -/
def splitOn (sep : UInt8) : Bytes → List Bytes
  | [] => [[]]
  | c :: rest =>
    if c == sep then [] :: splitOn sep rest
    else match splitOn sep rest with
      | s :: ss => (c :: s) :: ss
      | [] => [[c]]

/-- one `name=value` setting; settings that are empty, contain an unescaped `;` or do not decode are no parameters -/
def parsePair (seg : Bytes) : Option (Bytes × Bytes) :=
  if seg.isEmpty || seg.contains 0x3B then none else
  match formDecode (cut 0x3D seg).1, formDecode ((cut 0x3D seg).2.getD []) with
  | some k, some v => some (k, v)
  | _, _ => none

/-- the parameters of a query string / of a fragment read as form-urlencoded data, in order -/
def parseQuery (q : Bytes) : List (Bytes × Bytes) := (splitOn 0x26 q).filterMap parsePair

def valuesOf (k : Bytes) (ps : List (Bytes × Bytes)) : List Bytes := (ps.filter (·.1 == k)).map (·.2)
def keysOf (ps : List (Bytes × Bytes)) : List Bytes := ps.map (·.1)

/-- the raw text after the first `#` (what `location.hash.slice(1)` is) -/
def locationFragment (loc : Bytes) : Option Bytes := (cut 0x23 loc).2
/-- the text between the first `?` and the first `#` -/
def locationQuery (loc : Bytes) : Bytes := ((cut 0x3F (cut 0x23 loc).1).2).getD []
/-- everything before the query and the fragment -/
def locationBase (loc : Bytes) : Bytes := (cut 0x3F (cut 0x23 loc).1).1

-- ---------------------------------------------------------------- URL spellings

def upperHex (n : Nat) : UInt8 := if n < 10 then UInt8.ofNat (0x30 + n) else UInt8.ofNat (0x41 + (n - 10))

/-- bytes with a delimiter role in a URL: `: / ? # [ ] @ ! $ & * + , ; = %` -/
def structural (c : UInt8) : Bool :=
  [0x3A, 0x2F, 0x3F, 0x23, 0x5B, 0x5D, 0x40, 0x21, 0x24, 0x26, 0x2A, 0x2B, 0x2C, 0x3B, 0x3D, 0x25].contains c

def pct25 : Bytes := [0x25, 0x32, 0x35]

/-- canonical spelling: `%XX` of a byte without delimiter role is that byte, `%XX` of a delimiter keeps its
    escape (upper-case hex), a `%` that starts no escape is `%25`.  (Written as a scan with the pending
    `%`/`%X` as state, so that it is structurally recursive.) -/
def canonS : Pct → Bytes → Bytes
  | .none, [] => []
  | .pct, [] => pct25
  | .pct1 a, [] => pct25 ++ [a]
  | .none, c :: r => if c == 0x25 then canonS .pct r else c :: canonS .none r
  | .pct, c :: r =>
    if (hexVal c).isSome then canonS (.pct1 c) r
    else pct25 ++ (if c == 0x25 then canonS .pct r else c :: canonS .none r)
  | .pct1 a, c :: r =>
    match hexVal a, hexVal c with
    | some x, some y =>
      (if structural (UInt8.ofNat (x * 16 + y)) then [0x25, upperHex x, upperHex y] else [UInt8.ofNat (x * 16 + y)]) ++ canonS .none r
    | _, _ => pct25 ++ a :: (if c == 0x25 then canonS .pct r else c :: canonS .none r)

def canon (u : Bytes) : Bytes := canonS .none u

def lowerByte (c : UInt8) : UInt8 := if 0x41 ≤ c ∧ c ≤ 0x5A then c + 0x20 else c

/-- lower-case the scheme (the text before the first `:`, when there is one) -/
def lowerScheme (u : Bytes) : Bytes :=
  match (cut 0x3A u).2 with
  | some rest => (cut 0x3A u).1.map lowerByte ++ 0x3A :: rest
  | none => u

def sameTarget (a b : Bytes) : Bool := lowerScheme (canon a) == lowerScheme (canon b)

-- ---------------------------------------------------------------- HTML

/-- input stream preprocessing: CR LF and CR become LF (`afterCR`: the previous byte was a CR) -/
def normalizeNL : Bool → Bytes → Bytes
  | _, [] => []
  | afterCR, c :: r =>
    if c == 0x0D then 0x0A :: normalizeNL true r
    else if c == 0x0A && afterCR then normalizeNL false r
    else c :: normalizeNL false r

def normalizeNewlines (page : Bytes) : Bytes := normalizeNL false page

structure Tag where
  name : Bytes
  attrs : List (Bytes × Bytes)
  deriving DecidableEq, Repr, Inhabited

inductive TMode
  | data | tagOpen | markup | tagName | beforeAttr | attrName | afterAttrName | beforeValue
  | valueDQ | valueSQ | valueUQ | afterValueQ
  deriving DecidableEq, Repr, Inhabited

/-- tokenizer state; all accumulators are kept reversed -/
structure TState where
  mode : TMode := .data
  name : Bytes := []
  attrs : List (Bytes × Bytes) := []
  an : Bytes := []
  av : Bytes := []
  out : List Tag := []
  deriving Repr, Inhabited, DecidableEq

def isSpace (c : UInt8) : Bool := c == 0x20 || c == 0x09 || c == 0x0A || c == 0x0C || c == 0x0D
def isLetter (c : UInt8) : Bool := (0x41 ≤ c ∧ c ≤ 0x5A) || (0x61 ≤ c ∧ c ≤ 0x7A)

namespace TState
/-- the attribute under construction is complete -/
def pushAttr (s : TState) : TState := { s with attrs := (s.an.reverse, s.av.reverse) :: s.attrs, an := [], av := [] }
/-- `>`: the start tag is complete -/
def emit (s : TState) : TState :=
  { s with mode := .data, out := { name := s.name.reverse, attrs := s.attrs.reverse } :: s.out, name := [], attrs := [], an := [], av := [] }
end TState

/-- one step of a (simplified, WHATWG-shaped) HTML tokenizer that records START TAGS only: names and attribute
    names lower-cased, attribute values raw.  `<!…>`, `<?…>` and end tags are skipped up to the next `>`; there
    are no raw-text states (`<script>`, `<style>` are start tags like any other and what follows them is scanned
    for tags as well), so every element a user agent could see is seen. -/
def step (s : TState) (c : UInt8) : TState :=
  match s.mode with
  | .data => if c == 0x3C then { s with mode := .tagOpen } else s
  | .tagOpen =>
    if isLetter c then { s with mode := .tagName, name := [lowerByte c], attrs := [], an := [], av := [] }
    else if c == 0x21 || c == 0x2F || c == 0x3F then { s with mode := .markup }
    else if c == 0x3C then s
    else { s with mode := .data }
  | .markup => if c == 0x3E then { s with mode := .data } else s
  | .tagName =>
    if isSpace c || c == 0x2F then { s with mode := .beforeAttr }
    else if c == 0x3E then s.emit
    else { s with name := lowerByte c :: s.name }
  | .beforeAttr =>
    if isSpace c || c == 0x2F then s
    else if c == 0x3E then s.emit
    else { s with mode := .attrName, an := [lowerByte c], av := [] }
  | .attrName =>
    if isSpace c then { s with mode := .afterAttrName }
    else if c == 0x2F then { s.pushAttr with mode := .beforeAttr }
    else if c == 0x3D then { s with mode := .beforeValue }
    else if c == 0x3E then s.pushAttr.emit
    else { s with an := lowerByte c :: s.an }
  | .afterAttrName =>
    if isSpace c then s
    else if c == 0x2F then { s.pushAttr with mode := .beforeAttr }
    else if c == 0x3D then { s with mode := .beforeValue }
    else if c == 0x3E then s.pushAttr.emit
    else { s.pushAttr with mode := .attrName, an := [lowerByte c] }
  | .beforeValue =>
    if isSpace c then s
    else if c == 0x22 then { s with mode := .valueDQ }
    else if c == 0x27 then { s with mode := .valueSQ }
    else if c == 0x3E then s.pushAttr.emit
    else { s with mode := .valueUQ, av := [c] }
  | .valueDQ => if c == 0x22 then { s.pushAttr with mode := .afterValueQ } else { s with av := c :: s.av }
  | .valueSQ => if c == 0x27 then { s.pushAttr with mode := .afterValueQ } else { s with av := c :: s.av }
  | .valueUQ =>
    if isSpace c then { s.pushAttr with mode := .beforeAttr }
    else if c == 0x3E then s.pushAttr.emit
    else { s with av := c :: s.av }
  | .afterValueQ =>
    if isSpace c || c == 0x2F then { s with mode := .beforeAttr }
    else if c == 0x3E then s.emit
    else { s with mode := .attrName, an := [lowerByte c], av := [] }

/-- the start tags of a page, in document order -/
def tokenize (page : Bytes) : List Tag := ((normalizeNewlines page).foldl step {}).out.reverse

/-- character data of a page that is not white space: the bytes the tokenizer passes in its data state (outside every
    tag, comment and doctype) other than `<` and white space.  An auto-submitting form has none. -/
def strayText : TState → Bytes → Bytes
  | _, [] => []
  | st, c :: r => (if st.mode == .data && c != 0x3C && !isSpace c then [c] else []) ++ strayText (step st c) r

def pageText (page : Bytes) : Bytes := strayText {} (normalizeNewlines page)

-- character references in attribute values

def utf8Encode (n : Nat) : Bytes :=
  if n < 0x80 then [UInt8.ofNat n]
  else if n < 0x800 then [UInt8.ofNat (0xC0 + n / 64), UInt8.ofNat (0x80 + n % 64)]
  else if n < 0x10000 then [UInt8.ofNat (0xE0 + n / 4096), UInt8.ofNat (0x80 + n / 64 % 64), UInt8.ofNat (0x80 + n % 64)]
  else [UInt8.ofNat (0xF0 + n / 262144), UInt8.ofNat (0x80 + n / 4096 % 64), UInt8.ofNat (0x80 + n / 64 % 64), UInt8.ofNat (0x80 + n % 64)]

/-- numeric character reference → code point actually produced (0, surrogates and out-of-range give U+FFFD,
    0x80–0x9F follow the windows-1252 table) -/
def fixCodePoint (n : Nat) : Nat :=
  if n == 0 || n > 0x10FFFF || (0xD800 ≤ n ∧ n ≤ 0xDFFF) then 0xFFFD
  else if 0x80 ≤ n ∧ n ≤ 0x9F then
    [0x20AC, 0x81, 0x201A, 0x0192, 0x201E, 0x2026, 0x2020, 0x2021, 0x02C6, 0x2030, 0x0160, 0x2039, 0x0152, 0x8D, 0x017D, 0x8F,
     0x90, 0x2018, 0x2019, 0x201C, 0x201D, 0x2022, 0x2013, 0x2014, 0x02DC, 0x2122, 0x0161, 0x203A, 0x0153, 0x9D, 0x017E, 0x0178].getD (n - 0x80) n
  else n

def isDigit (c : UInt8) : Bool := 0x30 ≤ c ∧ c ≤ 0x39
def isAlnum (c : UInt8) : Bool := isDigit c || isLetter c

/-- named references known to this decoder: (name, replacement, may be written without `;`) -/
def namedRefs : List (String × Nat × Bool) :=
  [("amp", 0x26, true), ("lt", 0x3C, true), ("gt", 0x3E, true), ("quot", 0x22, true), ("apos", 0x27, false),
   ("AMP", 0x26, true), ("LT", 0x3C, true), ("GT", 0x3E, true), ("QUOT", 0x22, true),
   ("nbsp", 0xA0, true), ("copy", 0xA9, true), ("reg", 0xAE, true), ("hearts", 0x2665, false), ("euro", 0x20AC, false)]

def lookupRef (name : Bytes) : Option (Nat × Bool) :=
  (namedRefs.find? (fun e => ascii e.1 == name)).map (·.2)

def digitsVal (base : Nat) (ds : Bytes) : Nat := ds.foldl (fun acc d => acc * base + (hexVal d).getD 0) 0

/-- character-reference decoding of an attribute value.  `fuel` bounds the recursion (one unit per byte). -/
def attrUnescapeAux : Nat → Bytes → Bytes
  | 0, bs => bs
  | _, [] => []
  | fuel + 1, c :: rest =>
    if c != 0x26 then c :: attrUnescapeAux fuel rest else
    match rest with
    | [] => [c]
    | d :: rest1 =>
      if d == 0x23 then
        -- numeric
        let (hex, body) := match rest1 with
          | x :: r => if x == 0x78 || x == 0x58 then (true, r) else (false, rest1)
          | [] => (false, rest1)
        let ds := body.takeWhile (fun b => if hex then (hexVal b).isSome else isDigit b)
        if ds.isEmpty then c :: attrUnescapeAux fuel rest else
        let after := body.drop ds.length
        let after := match after with | s :: r => if s == 0x3B then r else after | [] => after
        utf8Encode (fixCodePoint (digitsVal (if hex then 16 else 10) ds)) ++ attrUnescapeAux fuel after
      else
        let nm := rest.takeWhile isAlnum
        let after := rest.drop nm.length
        match lookupRef nm, after with
        | some (cp, _), s :: r =>
          if s == 0x3B then utf8Encode cp ++ attrUnescapeAux fuel r
          else if s == 0x3D then c :: attrUnescapeAux fuel rest
          else match lookupRef nm with
            | some (cp', true) => utf8Encode cp' ++ attrUnescapeAux fuel after
            | _ => c :: attrUnescapeAux fuel rest
        | some (cp, true), [] => utf8Encode cp
        | _, _ => c :: attrUnescapeAux fuel rest

def attrUnescape (v : Bytes) : Bytes := attrUnescapeAux (v.length + 1) v

/-- a start tag with its attribute values decoded -/
def decodeTag (t : Tag) : Tag := { t with attrs := t.attrs.map fun a => (a.1, attrUnescape a.2) }

end UA

namespace C11
open UA

abbrev s (x : String) : Bytes := ascii x
def showBytes (b : Bytes) : String := String.ofList (b.map fun c => if 0x21 ≤ c ∧ c ≤ 0x7E then Char.ofNat c.toNat else '?')

/-- where the values of an authorization response COME FROM, for requests that went through the provider's handlers:
    what the client sent and what the failing component reported -/
structure Source where
  statePlain : Bytes               -- the `state` the client sent as an ordinary request parameter ([] = none)
  stateRO : Bytes                  -- the `state` claim of the signed request object it sent ([] = none / no request object)
  roHonoured : Bool                -- the provider supports request objects and this one is valid (signed by the client, addressed to the provider)
  desc : Option Bytes := none      -- an error answer: the description the provider produced (the storage's OAuth error description,
                                   -- the text of its plain error, or the provider's own wording where it replaces that text)
  code : Option Bytes := none      -- … and the error code (the storage's OAuth error code, `server_error` for a plain error)
  deriving Repr, Inhabited

structure Input where
  uri : Bytes                      -- the redirect URI of the request (registered by the client)
  uriOK : Bool                     -- it is a URL at all (net/url accepts it)
  mode : String                    -- requested response_mode: "", "query", "fragment", "form_post"
  rtype : String                   -- response_type
  isError : Bool                   -- an error response (error, error_description, state, session_state)
  params : List (Bytes × Bytes)    -- the parameters the provider produced (empty ones are not produced)
  source : Option Source := none   -- where state / error text come from (cases driven through the HTTP handlers)
  deriving Repr, Inhabited

inductive Observed
  | redirect (loc : Bytes)                 -- 302 with this Location value
  | form (page : Bytes) (ua : List Tag)    -- 200 with this HTML page; `ua` = the start tags golang.org/x/net/html found in it (values decoded)
  | refused                                -- an error answer that delivers nothing to any URI
  | panic
  | cutOff (page : Bytes) (ua : List Tag)  -- 200, but the connection broke while the page was written: the bytes that did arrive (`ua` as for `form`)
  deriving Repr, Inhabited

inductive Channel | query | fragment | form
  deriving DecidableEq, Repr

/-- response types whose default response mode is the fragment (OAuth 2.0 Multiple Response Types §3) -/
def implicitType (rtype : String) : Bool := rtype == "id_token token" || rtype == "id_token"

/-- where the parameters have to be found.  An error answer to a form_post request may also use the
    response type's default channel (the library does; the statement only demands intact values). -/
def channels (i : Input) : List Channel :=
  let dflt := if implicitType i.rtype then Channel.fragment else Channel.query
  if i.mode == "query" then [.query]
  else if i.mode == "fragment" then [.fragment]
  else if i.mode == "form_post" then (if i.isError then [.form, dflt] else [.form])
  else [dflt]

/-- parameters of an authorization response named by the statement (code, state, session_state, tokens, error,
    error_description): these must arrive.  The tokens of an authorization response are `access_token` (with
    `token_type`, `expires_in`) and `id_token`; a `refresh_token` is never part of one (RFC 6749 §4.2.2, OIDC Core
    §3.2.2.5 / §3.3.2.5: it is issued by the token endpoint only).  Other names (`scope`, `refresh_token`, anything
    else a caller puts into the response) must be unaltered when they arrive. -/
def required (k : Bytes) : Bool :=
  ["code", "state", "session_state", "access_token", "id_token", "token_type", "expires_in", "error", "error_description"].any (s · == k)

def firstSome {α} (l : List α) (f : α → Option String) : Option String := l.findSome? f

/-- every produced parameter is recovered from `got` next to what `existing` already had under that name,
    nothing existing is lost, nothing is invented -/
def paramsArrive (what : String) (produced existing got : List (Bytes × Bytes)) : Option String :=
  (firstSome (keysOf produced) fun k =>
    let want := valuesOf k existing ++ valuesOf k produced
    if valuesOf k got == want then none
    else if !required k && valuesOf k got == valuesOf k existing then none
    else if valuesOf k got == valuesOf k existing then some s!"{what}-param-missing:{showBytes k}"
    else if (valuesOf k got).map formDecode == want.map some then some s!"{what}-param-encoded-twice:{showBytes k}"
    else some s!"{what}-param-altered:{showBytes k}")
  <|> (firstSome (keysOf existing) fun k =>
    if (keysOf produced).contains k || valuesOf k got == valuesOf k existing then none else some s!"existing-query-not-preserved:{showBytes k}")
  <|> (firstSome (keysOf got) fun k =>
    if (keysOf produced).contains k || (keysOf existing).contains k then none else some s!"{what}-param-invented:{showBytes k}")

/-- settings of a query string that `parseQuery` does not read as a parameter (an unescaped `;`, a malformed
    escape).  Other decoders do read them (`URLSearchParams` takes `a;b=1` as the parameter `a;b`), so they belong
    to the redirect URI's query like any other setting and have to stay as they are. -/
def unread (q : Bytes) : List Bytes := (splitOn 0x26 q).filter fun seg => !seg.isEmpty && (parsePair seg).isNone

/-- the settings of the redirect URI's query that are not read as parameters are still in the Location's query, unchanged -/
def unreadKept (uriQuery locQuery : Bytes) : Option String :=
  if unread locQuery == unread uriQuery then none else some "existing-query-not-preserved:unread-setting"

/-- **the state the client has to get back.**  OIDC Core §6.1 lets a client split its parameters between the request
    object and ordinary parameters and says that those of the request object supersede; the library documents the
    same ("overwrites present values from the Request Object into the auth request"): a request object the provider
    honours wins WHEN IT CARRIES a state, otherwise the plain parameter counts. -/
def Source.state (src : Source) : Bytes :=
  if src.roHonoured && !src.stateRO.isEmpty then src.stateRO else src.statePlain

/-- the value `v` from the source arrives under `name`: next to what the redirect URI itself had under that name,
    exactly once when it is not empty, not at all when it is (`always`: also when it is empty — the `error` parameter) -/
def sourceValue (clause : String) (name v : Bytes) (existing got : List (Bytes × Bytes)) (always : Bool := false) : Option String :=
  if valuesOf name got == valuesOf name existing ++ (if v.isEmpty && !always then [] else [v]) then none else some clause

/-- **source equality**: the state that arrives is the state the client sent, the error code and description that
    arrive are the ones the provider produced -/
def sourceArrives (what : String) (i : Input) (existing got : List (Bytes × Bytes)) : Option String :=
  match i.source with
  | none => none
  | some src =>
    sourceValue s!"{what}-state-not-the-one-the-client-sent" (s "state") src.state existing got
    <|> (match src.desc with
         | some d => sourceValue s!"{what}-error_description-not-the-one-the-provider-produced" (s "error_description") d existing got
         | none => none)
    <|> (match src.code with
         | some c => sourceValue s!"{what}-error-not-the-one-the-provider-produced" (s "error") c existing got true
         | none => none)

def checkQuery (i : Input) (loc : Bytes) : Option String :=
  if !sameTarget (locationBase loc) (locationBase i.uri) then some "redirect-target-differs" else
  paramsArrive "query" i.params (parseQuery (locationQuery i.uri)) (parseQuery (locationQuery loc))
  <|> unreadKept (locationQuery i.uri) (locationQuery loc)
  <|> sourceArrives "query" i (parseQuery (locationQuery i.uri)) (parseQuery (locationQuery loc))

def checkFragment (i : Input) (loc : Bytes) : Option String :=
  if !sameTarget (locationBase loc) (locationBase i.uri) then some "redirect-target-differs" else
  match locationFragment loc with
  | none => (if i.params.isEmpty then none else some "fragment-missing") <|> sourceArrives "fragment" i [] []
  | some f =>
    paramsArrive "fragment" i.params [] (parseQuery f)
    <|> paramsArrive "query" [] (parseQuery (locationQuery i.uri)) (parseQuery (locationQuery loc))
    <|> unreadKept (locationQuery i.uri) (locationQuery loc)
    <|> sourceArrives "fragment" i [] (parseQuery f)

/-- the fixed part of the auto-submitting page: these start tags, with exactly these attributes -/
def pageFrame : List Tag :=
  [ { name := s "html", attrs := [] }, { name := s "head", attrs := [] },
    { name := s "meta", attrs := [(s "charset", s "UTF-8")] },
    { name := s "body", attrs := [(s "onload", s "javascript:document.forms[0].submit()")] } ]

def isInput (t : Tag) : Option (Bytes × Bytes) :=
  match t.attrs with
  | [(a, v), (b, n), (c, x)] => if t.name == s "input" && a == s "type" && v == s "hidden" && b == s "name" && c == s "value" then some (n, x) else none
  | _ => none

/-- what the page submits: `some (action, fields)` iff the decoded start tags are exactly the frame, ONE form
    `method=post action=…` and hidden inputs — no other element, no other attribute -/
def formOf (tags : List Tag) : Except String (Bytes × List (Bytes × Bytes)) :=
  if tags.take 4 != pageFrame then .error "page-frame-differs" else
  match tags.drop 4 with
  | f :: inputs =>
    match f.attrs with
    | [(m, p), (a, action)] =>
      if f.name == s "form" && m == s "method" && p == s "post" && a == s "action" then
        match inputs.find? (fun t => (isInput t).isNone) with
        | some t => .error s!"unexpected-element-or-attribute:{showBytes t.name}"
        | none => .ok (action, inputs.filterMap isInput)
      else .error "form-tag-differs"
    | _ => .error "form-tag-differs"
  | [] => .error "no-form"

def checkForm (i : Input) (page : Bytes) (ua : List Tag) : Option String :=
  let tags := (tokenize page).map decodeTag
  if !(pageText page).isEmpty then some "text-outside-the-form" else
  if tags != ua then some "ua-views-differ" else
  match formOf tags with
  | .error e => some e
  | .ok (action, fields) =>
    if !sameTarget action i.uri then some "form-action-differs" else
    paramsArrive "form" i.params [] fields
    <|> sourceArrives "form" i [] fields

def isForm (t : Tag) : Option Bytes :=
  match t.attrs with
  | [(m, p), (a, action)] => if t.name == s "form" && m == s "method" && p == s "post" && a == s "action" then some action else none
  | _ => none

/-- what the second tokenizer (golang.org/x/net/html) reports for character data that is not white space: the harness writes
    such a pseudo tag into `ua` (for a `form` page the two views then differ: `ua-views-differ`; the specification's own
    reading of "text outside the tags" is `pageText`) -/
def isStrayText (t : Tag) : Bool := t.name == s "#text"

/-- a page that was CUT OFF while it was written (the connection to the user agent broke).  Nothing can be demanded to
    arrive; but whatever the user agent finds in the part that did arrive belongs to THIS response: start tags of the
    fixed frame, at most one form whose action addresses this request's redirect URI, hidden inputs that carry
    parameters of this response with their values — no other element or attribute, no text, nothing of another response. -/
def checkPartial (i : Input) (page : Bytes) (ua : List Tag) : Option String :=
  let tags := (tokenize page).map decodeTag
  if !(pageText page).isEmpty || ua.any isStrayText then some "partial-text-outside-the-form" else
  if (tags.filter fun t => (isForm t).isSome).length > 1 then some "partial-more-than-one-form" else
  firstSome tags fun t =>
    if pageFrame.contains t then none else
    match isForm t with
    | some action => if sameTarget action i.uri then none else some "form-action-differs"
    | none =>
      match isInput t with
      | some (n, v) => if (valuesOf n i.params).contains v then none else some s!"partial-input-not-of-this-response:{showBytes n}"
      | none => some s!"partial-unexpected-element-or-attribute:{showBytes t.name}"

/-- THE MONITOR: `none` = the observed response satisfies C11 on this input, `some clause` = it does not -/
def monitor (i : Input) (o : Observed) : Option String :=
  match o with
  | .panic => some "panic"
  | .refused => if i.uriOK then some "not-delivered" else none
  | .redirect loc =>
    if (channels i).contains .query then checkQuery i loc
    else if (channels i).contains .fragment then checkFragment i loc
    else some "wrong-channel:redirect"
  | .form page ua =>
    if (channels i).contains .form then checkForm i page ua else some "wrong-channel:form"
  | .cutOff page ua =>
    if (channels i).contains .form then checkPartial i page ua else some "wrong-channel:form"

end C11
