/-
  C12 — claims codec: lossless round trip, registered claims win, tolerant decoding; AES sealing.
  Executable monitors over what was OBSERVED from the real library.
-/
import OidcModel.Model.Codec
import OidcModel.Model.Cfb
import OidcModel.Model.Base64

namespace C12
open Codec

def sameMap (a b : Obj) : Bool :=
  (keys a ++ keys b).all fun k => lookup a k == lookup b k

/-- marshal: a registered claim that is set always overrides a custom claim of the same name, custom
    claims that do not collide survive, and nothing else appears -/
def marshalOK (registered custom observed : Obj) : Option String :=
  if !(keys registered).all (fun k => lookup observed k == lookup registered k) then some "registered-claim-lost-or-overridden"
  else if !(keys custom).all (fun k => (keys registered).contains k || lookup observed k == lookup custom k) then some "custom-claim-lost"
  else if !(keys observed).all (fun k => (keys registered).contains k || (keys custom).contains k) then some "invented-claim"
  else none

/-- unmarshal ∘ marshal: registered fields come back equal, custom claims are preserved -/
def roundTripOK (registered custom registered2 custom2 : Obj) : Option String :=
  if !(keys registered).all (fun k => lookup registered2 k == lookup registered k) then some "registered-not-lossless"
  -- a registered field that was unset may only be populated from a custom claim of that name (the document contains it)
  else if !(keys registered2).all (fun k => (keys registered).contains k || (keys custom).contains k) then some "registered-invented"
  else if !(keys custom).all (fun k => (keys registered).contains k || lookup custom2 k == lookup custom k) then some "custom-not-lossless"
  else none

/-- a document with ONE registered member in an unsupported form: the decoder answers with an error,
    or (zero value for that member) every OTHER registered member it decodes is the document's -/
def badMemberOK (doc : Obj) (bad : String) (decoded : Option Obj) : Option String :=
  match decoded with
  | none => none
  | some reg2 =>
    if (keys reg2).all (fun k => k == bad || lookup doc k == lookup reg2 k) && !(keys reg2).contains bad
    then none else some "value-not-in-document"

/-- tolerant decoding, stated from the DOCUMENT's point of view: each documented form yields exactly
    the value in the document; anything else yields an error or the zero value; never a panic. -/
def audienceOK (doc : JIn) (obs : Out (List String)) : Bool :=
  match obs with
  | .panic => false
  | .err => match doc with
    | .atom (.str _) => false
    | .arr l => !(l.all JAtom.isStr)   -- only a malformed array may be refused
    | _ => true
  | .val v => match doc with
    | .atom (.str s) => v == [s]
    | .arr l => l.all JAtom.isStr && v == l.filterMap JAtom.strOf
    | _ => v == []

def timeOK (rfc3339 : String → Option Int) (doc : JIn) (obs : Out Int) : Bool :=
  match obs with
  | .panic => false
  | .err => match doc with
    | .atom (.int n) => !(int64Min ≤ n ∧ n ≤ int64Max)
    | .atom (.float _ ok) => !ok
    | .atom (.str s) => (rfc3339 s).isNone
    | .atom .null => false
    | _ => true
  | .val v => match doc with
    | .atom (.int n) => v == n
    | .atom (.float t ok) => ok && v == t
    | .atom (.str s) => rfc3339 s == some v
    | .atom .null => v == 0
    | _ => v == 0

def boolOK (doc : JIn) (obs : Out Bool) : Bool :=
  match obs with
  | .panic => false
  | .err => match doc with | .atom (.bool _) => false | .atom (.str "true") => false | _ => true
  | .val v => match doc with
    | .atom (.bool b) => v == b
    | .atom (.str "true") => v == true
    | _ => v == false

/-- sealing: what was decrypted under the same key is the plaintext; under another key it is not
    (the latter only for plaintexts of at least 4 bytes: shorter ones can collide by chance) -/
def sealOK (plain : List UInt8) (sameKey : Option (List UInt8)) (otherKey : Option (List UInt8)) : Option String :=
  if sameKey != some plain then some "decrypt-differs-from-plaintext"
  else if plain.length ≥ 4 && otherKey == some plain then some "decrypts-under-another-key"
  else none

end C12
