/-
  C12 — claims codec: lossless round trip, registered claims win, tolerant decoding; AES sealing.
  Executable monitors over what was OBSERVED from the real library.
-/
import OidcModel.Model.Codec
import OidcModel.Model.Cfb
import OidcModel.Model.Base64
import OidcModel.Model.CodecGen

namespace C12
open Codec

def sameMap (a b : Obj) : Bool :=
  (keys a ++ keys b).all fun k => lookup a k == lookup b k

/-- marshal: a registered claim that is set always overrides a custom claim of the same name, custom
    claims that do not collide survive, and nothing else appears -/
def marshalOK (registered custom observed : Obj) : Option String :=
  if !(keys registered).all (fun k => lookup observed k == lookup registered k) then some "registered-claim-lost-or-overridden"
  else if !(keys custom).all (fun k => (keys registered).contains k || lookup observed k == lookup custom k) then some "custom-claim-lost"
  else if !(keys observed).all (fun k => (keys registered).contains k || (keys custom).contains k) then some "invented-claim"
  else none

/-- unmarshal ∘ marshal: registered fields come back equal, custom claims are preserved -/
def roundTripOK (registered custom registered2 custom2 : Obj) : Option String :=
  if !(keys registered).all (fun k => lookup registered2 k == lookup registered k) then some "registered-not-lossless"
  -- a registered field that was unset may only be populated from a custom claim of that name (the document contains it)
  else if !(keys registered2).all (fun k => (keys registered).contains k || (keys custom).contains k) then some "registered-invented"
  else if !(keys custom).all (fun k => (keys registered).contains k || lookup custom2 k == lookup custom k) then some "custom-not-lossless"
  else none

/-- a document with ONE registered member in an unsupported form: the decoder answers with an error,
    or (zero value for that member) every OTHER registered member it decodes is the document's -/
def badMemberOK (doc : Obj) (bad : String) (decoded : Option Obj) : Option String :=
  match decoded with
  | none => none
  | some reg2 =>
    if (keys reg2).all (fun k => k == bad || lookup doc k == lookup reg2 k) && !(keys reg2).contains bad
    then none else some "value-not-in-document"

/-- tolerant decoding, stated from the DOCUMENT's point of view: each documented form yields exactly
    the value in the document; anything else yields an error or the zero value; never a panic. -/
def audienceOK (doc : JIn) (obs : Out (List String)) : Bool :=
  match obs with
  | .panic => false
  | .err => match doc with
    | .atom (.str _) => false
    | .arr l => !(l.all JAtom.isStr)   -- only a malformed array may be refused
    | _ => true
  | .val v => match doc with
    | .atom (.str s) => v == [s]
    | .arr l => l.all JAtom.isStr && v == l.filterMap JAtom.strOf
    | _ => v == []

def timeOK (rfc3339 : String → Option Int) (doc : JIn) (obs : Out Int) : Bool :=
  match obs with
  | .panic => false
  | .err => match doc with
    | .atom (.int n) => !(int64Min ≤ n ∧ n ≤ timeMax)
    | .atom (.float _ ok) => !ok
    | .atom (.str s) => (rfc3339 s).isNone
    | .atom .null => false
    | _ => true
  | .val v => match doc with
    | .atom (.int n) => decide (int64Min ≤ n ∧ n ≤ timeMax) && v == n
    | .atom (.float t ok) => ok && v == t
    | .atom (.str s) => rfc3339 s == some v
    | .atom .null => v == 0
    | _ => v == 0

def boolOK (doc : JIn) (obs : Out Bool) : Bool :=
  match obs with
  | .panic => false
  | .err => match doc with | .atom (.bool _) => false | .atom (.str "true") => false | _ => true
  | .val v => match doc with
    | .atom (.bool b) => v == b
    | .atom (.str "true") => v == true
    | _ => v == false

/-- sealing: what was decrypted under the same key is the plaintext; under another key it is not
    (the latter only for plaintexts of at least 4 bytes: shorter ones can collide by chance) -/
def sealOK (plain : List UInt8) (sameKey : Option (List UInt8)) (otherKey : Option (List UInt8)) : Option String :=
  if sameKey != some plain then some "decrypt-differs-from-plaintext"
  else if plain.length ≥ 4 && otherKey == some plain then some "decrypts-under-another-key"
  else none

/-! ## Tolerant decoders over generic JSON documents (`Cdc.JVal`): language tags, locales lists, audience, time,
     boolean-as-string, space-delimited arrays, display.  Every clause is stated from the DOCUMENT's point of view:
     a documented form yields exactly the value the document contains, anything else an error or the zero value,
     never a panic and never a value the document did not contain. -/
open Cdc

/-- how x/text reads a tag string (an ORACLE answer that comes with each document): fully valid, with this canonical
    tag; well-formed but with an unknown subtag (`language.ValueError`); ill-formed (syntax error) -/
inductive TagClass
  | valid (t : Tag)
  | unknown
  | illformed
  deriving DecidableEq, Repr

/-- `Locale`: a valid tag decodes to itself; a well-formed tag with an unknown subtag decodes to the documented zero
    value `und` WITHOUT an error (tolerant decoding must not reject the whole UserInfo); an ill-formed tag or a
    non-string is an error or the zero value; the empty string is the zero value -/
def localeOK (cls : String → TagClass) (doc : JVal) (obs : Out Tag) : Bool :=
  match obs with
  | .panic => false
  | .val v =>
    match doc with
    | .str s => if s == "" then v == Tag.zero else
      match cls s with
      | .valid t => v == t
      | _ => v == Tag.zero
    | _ => v == Tag.zero
  | .err =>
    match doc with
    | .str s => if s == "" then false else
      match cls s with
      | .illformed => true
      | _ => false
    | _ => true

/-- the entries of a locales list that count: fully valid, not `und` -/
def validTags (cls : String → TagClass) (ss : List String) : List Tag :=
  ss.filterMap fun s => match cls s with
    | .valid t => if t.root then none else some t
    | _ => none

def allStr : List JVal → Bool
  | [] => true
  | .str _ :: r => allStr r
  | _ :: _ => false
def strsOf : List JVal → List String
  | [] => []
  | .str s :: r => s :: strsOf r
  | _ :: r => strsOf r

/-- `Locales`: a space separated string or an array of strings; valid entries decode to themselves in order,
    unknown / ill-formed / `und` entries are skipped (never an error, never another tag); `null` is the empty list;
    an array with a non-string member or any other form is an error or the zero value -/
def localesOK (cls : String → TagClass) (doc : JVal) (obs : Out (List Tag)) : Bool :=
  match obs with
  | .panic => false
  | .val v =>
    match doc with
    | .null => v == []
    | .str s => v == validTags cls (Cdc.split s " ")
    | .arr l => if allStr l then v == validTags cls (strsOf l) else v == []
    | _ => v == []
  | .err =>
    match doc with
    | .null => false
    | .str _ => false
    | .arr l => !allStr l
    | _ => true

def audienceOKJ (doc : JVal) (obs : Out (List String)) : Bool :=
  match obs with
  | .panic => false
  | .val v =>
    match doc with
    | .str s => v == [s]
    | .arr l => allStr l && v == strsOf l
    | _ => v == []
  | .err =>
    match doc with
    | .str _ => false
    | .arr l => !allStr l
    | _ => true

/-- the numbers `oidc.Time` stands for: whole seconds (toward zero) an int64 holds AND whose instant `time.Unix` computes
    without wrap-around (`timeMax`); every other number must be REFUSED - a decoded value in the wrap zone would be judged as
    an instant the document did not contain (finding F-C01a, fixed) -/
def F64.inTime (x : F64) : Bool := !x.nan && decide (int64Min ≤ x.floor) && decide (x.floor ≤ timeMax)

/-- `Time`: a number inside the range of instants is truncated toward zero, an RFC 3339 string (`tp` = time.Parse, ns) is that
    instant in seconds (the zero time is 0), `null` is 0; anything else is an error or 0 -/
def timeOKJ (tp : String → Go.R Int) (doc : JVal) (obs : Out Int) : Bool :=
  match obs with
  | .panic => false
  | .val v =>
    match doc with
    | .num x => F64.inTime x && v == x.toInt64
    | .str s => match tp s with | .ok t => v == Go.fromTime t | .error _ => v == 0
    | _ => v == 0
  | .err =>
    match doc with
    | .num x => !F64.inTime x
    | .str s => match tp s with | .ok _ => false | .error _ => true
    | .null => false
    | _ => true

/-- `Bool`: `true` and the string `"true"` are true; everything else is false (or an error) -/
def boolOKJ (doc : JVal) (obs : Out Bool) : Bool :=
  match obs with
  | .panic => false
  | .val v =>
    match doc with
    | .bool b => v == b
    | .str s => v == (s == "true")
    | _ => v == false
  | .err =>
    match doc with
    | .bool _ => false
    | .str s => s != "true"
    | _ => true

/-- `SpaceDelimitedArray`: a JSON string split on single spaces; `null` leaves nothing (the code yields `[""]`, the split
    of the empty string); any other form is an error or empty -/
def spaceOK (doc : JVal) (obs : Out (List String)) : Bool :=
  match obs with
  | .panic => false
  | .val v =>
    match doc with
    | .str s => v == Cdc.split s " "
    | _ => v == [] || v == [""]
  | .err =>
    match doc with
    | .str _ => false
    | _ => true

/-- `Display`: one of the four values of OIDC Core 3.1.2.1 decodes to itself, anything else leaves the zero value -/
def displayValues : List String := ["page", "popup", "touch", "wap"]
def displayOK (text : String) (obs : Out String) : Bool :=
  match obs with
  | .val v => if displayValues.contains text then v == text else v == ""
  | _ => false

/-- a document with a `locale` member, decoded into a claims type and encoded again: the decoded locale obeys `localeOK`
    (an absent / `null` member leaves no locale), and the `locale` member written back is the document's own value, the
    canonical text of the document's valid tag, `null` or absent - never another tag -/
def docLocaleOK (cls : String → TagClass) (member : Option JVal) (memberText : String) (decoded : Out (Option Tag))
    (reencoded : Option String) : Option String :=
  match decoded with
  | .panic => some "panic"
  | .err =>
    match member with
    | none => some "absent-locale-refused"
    | some .null => some "null-locale-refused"
    | some d => if localeOK cls d .err then none else some "locale-refused"
  | .val dec =>
    let decOK := match member, dec with
      | none, none => true
      | some .null, none => true
      | some d, some t => localeOK cls d (.val t)
      | _, _ => false
    if !decOK then some "locale-not-in-document" else
    match reencoded with
    | none => none
    | some out =>
      let canon : Option String := match member with
        | some (.str s) => (match cls s with | .valid t => some ("\"" ++ t.s ++ "\"") | _ => none)
        | _ => none
      if out == "null" || out == memberText || some out == canon then none else some "reencoded-locale-invented"

/-- the re-encoded document decodes again, to the same locale (`und` and "no locale" are the same answer) -/
def secondDecodeOK (first : Option Tag) (second : Out (Option Tag)) : Option String :=
  match second with
  | .val s => if first.filter (fun t => !t.root) == s.filter (fun t => !t.root) then none else some "second-decode-differs"
  | _ => some "reencoded-document-refused"

/-- a document with ONE registered member in an unsupported form, strengthened: when the decoder does not refuse it, every
    OTHER registered member of the document must have been decoded (nothing is silently dropped) -/
def badMemberLosslessOK (doc : Codec.Obj) (bad : String) (customKeys : List String) (decoded : Option Codec.Obj) : Option String :=
  match badMemberOK doc bad decoded with
  | some c => some c
  | none =>
    match decoded with
    | none => none
    | some reg2 =>
      if (keys doc).all (fun k => k == bad || customKeys.contains k || lookup reg2 k == lookup doc k) then none
      else some "members-dropped-after-unsupported-form"

/-- opening a sealed string never invents bytes: what comes out has the length of the input minus the iv -/
def unsealOK (rawLen : Nat) (obs : Out (List UInt8)) : Option String :=
  match obs with
  | .panic => some "panic"
  | .err => none
  | .val p => if rawLen ≥ 16 && p.length + 16 == rawLen then none else some "decrypt-invented-bytes"

/-! ## JSON wrapper methods of the claims types: both-set-and-different values and multi-step sequences
     (decode -> modify registered fields -> encode).  `registered` is what encoding/json writes for the value's exported
     fields through a method-less copy of the type (struct tags only) BEFORE the call, `custom` the custom-claims map
     before the call, `observed` the document the type's own MarshalJSON produced. -/

/-- IntrospectionResponse: `username` (RFC 7662) may be filled from `preferred_username` - only when it is not set -/
def withUsernameFallback (registered : Codec.Obj) : Codec.Obj :=
  if (keys registered).contains "username" then registered else
  match lookup registered "preferred_username" with
  | some p => registered ++ [("username", p)]
  | none => registered

def introMarshalOK (registered custom observed : Codec.Obj) : Option String :=
  match marshalOK registered custom observed with
  | none => none
  | some _ => marshalOK (withUsernameFallback registered) custom observed

/-- encoding does not change a registered field of the receiver that is set (`user` / `pref`: Username and PreferredUsername
    before the call, `userAfter`: Username afterwards) -/
def introRecvOK (user pref userAfter : String) : Option String :=
  if userAfter == user || (user == "" && userAfter == pref) then none else some "registered-field-changed-by-encoding"

/-- encoding does not lose a custom claim from the receiver (JWTTokenRequest keeps the merged members in its private map):
    every custom claim that does not collide with a registered name is still there, unchanged -/
def customKeptOK (registered customBefore customAfter : Codec.Obj) : Option String :=
  if (keys customBefore).all (fun k => (keys registered).contains k || lookup customAfter k == lookup customBefore k) then none
  else some "custom-claim-lost-from-receiver"

/-- a JSON text that is the zero value of its Go type (dropped by `omitempty`, or what an absent member leaves) -/
def zeroText (t : String) : Bool := t == "\"\"" || t == "0" || t == "null" || t == "false" || t == "[]" || t == "{}"

/-- decoding a document whose registered members are in canonical form (`names`: the registered JSON names of the type):
    every member arrives - registered ones in the typed fields (`registered2`, the exported fields encoded again), all of
    them in the custom map - and nothing arrives that the document did not contain -/
def decodeOK (names : List String) (doc registered2 custom2 : Codec.Obj) : Option String :=
  if !(keys doc).all (fun k => !names.contains k || lookup registered2 k == lookup doc k || (lookup doc k).all zeroText) then some "registered-member-not-decoded"
  else if !(keys registered2).all (fun k => lookup registered2 k == lookup doc k || (lookup registered2 k).all zeroText) then some "decoded-value-not-in-document"
  else if !(keys doc).all (fun k => lookup custom2 k == lookup doc k) then some "member-missing-from-custom-claims"
  else if !(keys custom2).all (fun k => (keys doc).contains k) then some "custom-claim-invented"
  else none

/-- … into a value that is already in use (its fields and its custom map keep what the document does not mention): every member
    of the document arrives -/
def redecodeOK (names : List String) (doc registered2 custom2 : Codec.Obj) : Option String :=
  if !(keys doc).all (fun k => !names.contains k || lookup registered2 k == lookup doc k || (lookup doc k).all zeroText) then some "registered-member-not-decoded"
  else if !(keys doc).all (fun k => lookup custom2 k == lookup doc k) then some "member-missing-from-custom-claims"
  else none

/-- one encode step of a history, any of the eight types (`intro`: the type is IntrospectionResponse, with its Username /
    PreferredUsername before the call and its Username afterwards) -/
def encodeStepOK (intro : Bool) (registered custom observed customAfter : Codec.Obj) (user pref userAfter : String) : Option String :=
  match (if intro then introMarshalOK registered custom observed else marshalOK registered custom observed) with
  | some c => some c
  | none =>
    match customKeptOK registered custom customAfter with
    | some c => some c
    | none => if intro then introRecvOK user pref userAfter else none

/-- one decode step: `intro` = the type is IntrospectionResponse (whose encoder may have filled `username`); `ok` = the decoder accepted the document; `rt` = the document is the output of the preceding encode step of
    the value (`srcReg`, `srcCustom`: registered encoding and custom map before THAT step), `collide` = one of those custom
    claims took the place of an unset registered member (only then may the typed fields refuse the document) -/
def decodeStepOK (intro ok fresh rt collide : Bool) (names : List String) (doc registered2 custom2 srcReg srcCustom : Codec.Obj) : Option String :=
  if !ok then (if rt && collide then none else some (if rt then "roundtrip-refused" else "canonical-document-refused")) else
  match (if fresh then decodeOK names doc registered2 custom2 else redecodeOK names doc registered2 custom2) with
  | some c => if rt && collide && c == "registered-member-not-decoded" then none else some c
  | none =>
    if rt && fresh then
      match roundTripOK srcReg srcCustom registered2 custom2 with
      | none => none
      | some c => if intro then roundTripOK (withUsernameFallback srcReg) srcCustom registered2 custom2 else some c
    else none

end C12
