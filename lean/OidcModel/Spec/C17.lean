/-
  C17 — RP callback exchanges a code only if state matches its signed cookie; PKCE bound.

  The monitor judges what is OBSERVED of the two handlers (what the browser receives, what the provider
  is sent, which application hooks run) against the inputs (cookie jar, callback query, configuration).
  Cookies are symbolic (Model/RP.lean `CookieVal`): `minted hashKey blockKey name value` is what
  securecookie produces under those keys for that cookie name, anything else is `plain`.
-/
import OidcModel.Model.RP

namespace C17

/-- the part of the RP's configuration the property speaks about -/
structure Cfg where
  hashKey : CookieKey := []   -- the hash key the cookie handler was CONFIGURED with (byte string; same key = same bytes)
  blockKey : CookieKey := []  -- … and its encryption key (`[]` = none)
  clientID : String := ""
  redirectURI : String := ""
  scopes : List String := []
  pkce : Bool := false
  deriving Repr, Inhabited

/-- symbolic S256 transform (injective by construction, as in C04) -/
def s256 (verifier : String) : String := "S256(" ++ verifier ++ ")"

/-- is `v` a value the RP signed for the cookie `name`?  then its content -/
def signedFor (cfg : Cfg) (name : String) (v : CookieVal) : Option String :=
  match v with
  | .minted hk bk n val => if hk == cfg.hashKey && bk == cfg.blockKey && n == name then some val else none
  | .plain _ => none

/-- content of the cookie `name` the browser sends (the first of that name), if the RP signed it for that name -/
def signedValue (cfg : Cfg) (jar : List Http.Cookie) (name : String) : Option String :=
  match jar.find? (·.Name == name) with
  | some c => signedFor cfg name c.Value
  | none => none

def formValue (q : List (String × String)) (k : String) : String := ((q.find? (·.1 == k)).map (·.2)).getD ""

/-- what was observed of one run of the callback handler -/
structure CallbackObs where
  tokenRequests : List TokenReq := []     -- what the provider's token endpoint received
  callback : Option String := none        -- the application callback ran, with this state
  unauthorized : Bool := false            -- the unauthorized handler ran
  errorHandled : Bool := false            -- the error handler ran (provider reported `error=`)
  deriving Repr, Inhabited, DecidableEq

/-- judgement of one callback: `none` = fine, `some clause` = violated -/
def judgeCallback (cfg : Cfg) (jar : List Http.Cookie) (query : List (String × String)) (obs : CallbackObs) : Option String :=
  let acted := !obs.tokenRequests.isEmpty || obs.callback.isSome
  if signedValue cfg jar "state" != some (formValue query "state") then
    -- missing / foreign-key / other-name / tampered cookie, or a state that differs from the signed one
    if acted then some "state-binding"
    else if !obs.unauthorized then some "state:not-unauthorized"
    else none
  else if obs.callback.any (· != formValue query "state") then some "callback-state"
  else if cfg.pkce then
    match signedValue cfg jar "pkce" with
    | none =>
      if acted then some "pkce-binding"
      else if !(obs.unauthorized || obs.errorHandled) then some "pkce:not-unauthorized"
      else none
    | some v =>
      if obs.tokenRequests.any (fun q => getParam q.params "code_verifier" != v) then some "pkce-verifier" else none
  else none

/-- what was observed of one run of the login (auth URL) handler -/
structure LoginObs where
  redirect : Option AuthURLRec := none       -- Location of the 302, parsed
  setCookies : List Http.Cookie := []        -- Set-Cookie headers, in order
  deriving Repr, Inhabited, DecidableEq

/-- content of the cookie `name` this response leaves in the browser, if the RP signed it for that name -/
def signedSet (cfg : Cfg) (cs : List Http.Cookie) (name : String) : Option String :=
  match (cs.filter (·.Name == name)).getLast? with
  | some c => if c.MaxAge < 0 then none else signedFor cfg name c.Value
  | none => none

/-- judgement of one login response: a redirect to the provider carries the configured client, redirect URI,
    scopes, the state of the signed cookie of the SAME response and (PKCE) the S256 challenge of the verifier
    in the signed cookie of the same response -/
def judgeLogin (cfg : Cfg) (obs : LoginObs) : Option String :=
  match obs.redirect with
  | none => none
  | some u =>
    match signedSet cfg obs.setCookies "state" with
    | none => some "login:no-signed-state-cookie"
    | some s =>
      if getParam u.params "state" != s then some "login:url-state"
      else if getParam u.params "client_id" != cfg.clientID then some "login:url-client"
      else if getParam u.params "redirect_uri" != cfg.redirectURI then some "login:url-redirect-uri"
      else if getParam u.params "scope" != " ".intercalate cfg.scopes then some "login:url-scope"
      else if cfg.pkce then
        match signedSet cfg obs.setCookies "pkce" with
        | none => some "login:no-signed-pkce-cookie"
        | some v =>
          if getParam u.params "code_challenge" != s256 v || getParam u.params "code_challenge_method" != "S256"
          then some "login:challenge" else none
      else none

/-! ### one browser, several attempts -/

/-- what one login response handed to this browser -/
structure Attempt where
  state : Option String := none      -- content of the signed state cookie
  verifier : Option String := none   -- content of the signed pkce cookie
  challenge : String := ""           -- code_challenge of the authorization URL of the same response
  deriving Repr, Inhabited, DecidableEq

structure MonState where
  attempts : List Attempt := []
  deriving Repr, Inhabited

/-- what a login response hands to the browser, as an observer reads it off the response -/
def attemptOf (cfg : Cfg) (obs : LoginObs) : Attempt :=
  { state := signedSet cfg obs.setCookies "state",
    verifier := signedSet cfg obs.setCookies "pkce",
    challenge := match obs.redirect with
      | some u => getParam u.params "code_challenge"
      | none => "" }

def onLogin (cfg : Cfg) (m : MonState) (obs : LoginObs) : MonState :=
  { attempts := m.attempts ++ [attemptOf cfg obs] }

/-- judgement of a callback whose jar evolved inside this browser (responses of this RP, lost / planted / renamed
    cookies; nobody else holds the RP's keys): an exchange happens only for a state this browser was handed in a
    signed cookie, and with a verifier whose S256 challenge went into the authorization URL of the response that
    set it -/
def judgeHistory (cfg : Cfg) (m : MonState) (query : List (String × String)) (obs : CallbackObs) : Option String :=
  let acted := !obs.tokenRequests.isEmpty || obs.callback.isSome
  if acted && !m.attempts.any (·.state == some (formValue query "state")) then some "history:state-never-handed-out"
  else if cfg.pkce && obs.tokenRequests.any (fun q =>
      !m.attempts.any (fun a => a.verifier == some (getParam q.params "code_verifier")
                                && a.challenge == s256 (getParam q.params "code_verifier")))
    then some "history:verifier-without-challenge"
  else none

end C17
