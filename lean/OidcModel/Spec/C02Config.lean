/-
  C02 (round 4): "the CONFIGURED key set" / "the allowed list" of the two verifiers an `op.Provider` derives per request, as a
  function of what the CALLER passed to `op.NewProvider` (not of what the provider's getters hand out).

  A provider is constructed with a storage and a list of options.  Functional options are applied in order, so for every
  setting the LAST option that concerns it decides; a setting no option concerns keeps its documented default:
  * `WithAccessTokenKeySet(ks)` / `WithIDTokenHintKeySet(ks)`: "allows passing a KeySet with public keys for Access Token /
    ID Token Hint verification. The default KeySet uses the Storage interface" (pkg/op/op.go);
  * `WithAccessTokenVerifierOpts(WithSupportedAccessTokenSigningAlgorithms(..), ..)` / `WithIDTokenHintVerifierOpts(..)`: the
    option list of the verifier (the last `WithSupported…SigningAlgorithms` of the list decides; none: the library default,
    written `[]` as everywhere in Spec/C02.lean).
  The monitor of the configuration cases is `C02.monitor` with these two values; this file only says which values they are.
-/
import OidcModel.Spec.C02
namespace C02

/-- an option of the construction call, as far as the two derived verifiers are concerned -/
inductive CfgOpt
  | atKeySet (ks : KeySet)
  | hintKeySet (ks : KeySet)
  /-- `WithAccessTokenVerifierOpts(WithSupportedAccessTokenSigningAlgorithms(l₁…), WithSupported…(l₂…), …)` -/
  | atAlgs (lists : List (List String))
  | hintAlgs (lists : List (List String))
  /-- an option that concerns neither verifier (`WithAllowInsecure`, `WithLogger`, `WithCustom…Endpoint`, …) -/
  | other
  deriving Repr, Inhabited

/-- the list a verifier option list leaves in force (`[]`: the library default) -/
def cfgLast (lists : List (List String)) : List String := lists.foldl (fun _ l => l) []

/-- key set configured for the access-token verifier: the last `WithAccessTokenKeySet`, default: the storage's keys -/
def cfgKeySetAT (storageKeys : KeySet) (opts : List CfgOpt) : KeySet :=
  opts.foldl (fun acc o => match o with | .atKeySet ks => ks | _ => acc) storageKeys

/-- key set configured for the id_token_hint verifier: the last `WithIDTokenHintKeySet`, default: the storage's keys -/
def cfgKeySetHint (storageKeys : KeySet) (opts : List CfgOpt) : KeySet :=
  opts.foldl (fun acc o => match o with | .hintKeySet ks => ks | _ => acc) storageKeys

/-- allowed list configured for the access-token verifier -/
def cfgAlgsAT (opts : List CfgOpt) : List String :=
  opts.foldl (fun acc o => match o with | .atAlgs ls => cfgLast ls | _ => acc) []

/-- allowed list configured for the id_token_hint verifier -/
def cfgAlgsHint (opts : List CfgOpt) : List String :=
  opts.foldl (fun acc o => match o with | .hintAlgs ls => cfgLast ls | _ => acc) []

end C02
