/-
  C15 — Token exchange needs live subject/actor tokens and returns what it declares.
  Monitor over single token-exchange requests.  Whether a presented token is "live" is the reference
  storage's ground truth at the moment of the request (supplied by the observer).
-/
import OidcModel.Spec.C05

namespace C15

structure Presented where
  subjectType : String := ""
  subjectLive : Bool := false          -- a live token of the DECLARED type
  subjectSubject : String := ""        -- the identity resolved for the SUBJECT role (provider's own resolution / the storage's subject policy)
  actorGiven : Bool := false
  actorType : String := ""
  actorLive : Bool := false
  actorSubject : String := ""          -- the identity resolved for the ACTOR role (provider's own resolution / the storage's actor policy)
  requestedType : String := ""         -- "" = left to the storage policy
  scopes : List String := []
  audience : List String := []
  storageVeto : Bool := false          -- the storage policy refuses this exchange
  actPolicy : String := "flat"         -- which of the storage's policies for the `act` member is in force (`actValue`)
  deriving Repr, Inhabited

structure Issued where
  issuedTokenType : String := ""
  accessToken : String := ""           -- what kind of thing the access_token member is: "access" | "id" | "" (empty) | "other"
  accessLive : Bool := false           -- it is live at the provider (access) / verifies under the provider's keys (id)
  refreshToken : Bool := false         -- a refresh_token member is present
  refreshLive : Bool := false
  subject : String := ""
  scopes : List String := []
  audience : List String := []         -- audience the issued token carries
  policyAsked : Bool := false          -- the storage policy was consulted, about this exchange subject / actor:
  exchangeSubject : String := ""
  actor : String := ""
  -- what the issued token ITSELF carries when it is self-contained (a JWT access token, an ID token): its `sub` and `act.sub` claims
  selfContained : Bool := false
  tokenSubject : String := ""
  tokenActor : String := ""            -- (rounds 3-4: `act.sub` alone; kept for the record, the clause now judges the whole member)
  -- the WHOLE `act` member of a self-contained token, nested members and all, as canonical JSON (keys sorted, no blanks; "" = absent)
  tokenAct : String := ""
  -- journal of the exchange storage: its claims hook was asked for THIS request, and the `act` value it answered (same rendering)
  policyActAnswered : Bool := false
  policyAct : String := ""
  deriving Repr, Inhabited

def supported : List String :=
  ["urn:ietf:params:oauth:token-type:access_token", "urn:ietf:params:oauth:token-type:refresh_token",
   "urn:ietf:params:oauth:token-type:id_token", "urn:ietf:params:oauth:token-type:jwt"]

def tAccess := "urn:ietf:params:oauth:token-type:access_token"
def tRefresh := "urn:ietf:params:oauth:token-type:refresh_token"
def tID := "urn:ietf:params:oauth:token-type:id_token"

/-- expected subject of the new tokens: the subject token's, unless the storage policy's impersonation scope names another -/
def expectedSubject (p : Presented) : String :=
  match p.scopes.find? (fun s => Go.hasPrefix s "custom_scope:impersonate:") with
  | some s => String.ofList (s.toList.drop "custom_scope:impersonate:".length)
  | none => p.subjectSubject

/-- the actor the storage policy decides: delegation (an actor token was presented) - the identity resolved for the actor role;
    impersonation (the policy's scope, no actor token) - the original subject, on whose token the exchange rests; otherwise none -/
def expectedActor (p : Presented) : String :=
  if p.actorGiven then p.actorSubject
  else if p.scopes.any (fun s => Go.hasPrefix s "custom_scope:impersonate:") then p.subjectSubject
  else ""

/-- a JSON string (the identities of this stream need no escaping: letters, digits, `:`, `-`) -/
def jstr (s : String) : String := "\"" ++ s ++ "\""

/-- THE STORAGE POLICY'S DECISION about the `act` member (the policy table of the reference storage, harness/cmd/vharness/c15store.go
    `c15PolicyAct`), as canonical JSON: for the party `who` that is to be named (`expectedActor`; "" = nobody), the original subject
    `subj` and the presenting client -
    `flat` `{sub: who}` · `chain` a nested delegation chain `{sub: who, act: {sub: gw, act: {sub: prior:subj}}}` ·
    `pairwise` a renamed actor `{sub: pw:client:who}` · `extra` further members next to `sub` · `none` no `act` member at all -/
def actValue (mode who subj client : String) : String :=
  if who == "" then "" else
  match mode with
  | "none" => ""
  | "chain" => "{\"act\":{\"act\":{\"sub\":" ++ jstr ("prior:" ++ subj) ++ "},\"sub\":\"gw\"},\"sub\":" ++ jstr who ++ "}"
  | "pairwise" => "{\"sub\":" ++ jstr ("pw:" ++ client ++ ":" ++ who) ++ "}"
  | "extra" => "{\"amr\":[\"mfa\"],\"client_id\":" ++ jstr client ++ ",\"sub\":" ++ jstr who ++ "}"
  | _ => "{\"sub\":" ++ jstr who ++ "}"

def judge (cfg : C05.Cfg) (now : Int) (cred : C04.Presented) (p : Presented) (obs : Option Issued) : Option String :=
  match obs with
  | none => none
  | some o =>
    let cid := match cred.assertion with
      | some t => (C14.provesClient cfg.base.issuer cfg.base.jwtMaxAgeIAT cfg.base.jwtOffset (C04.registry cfg.base.clients) t now).getD ""
      | none => cred.clientID
    match cfg.base.clients.find? (·.id == cid) with
    | none => some "unknown-client"
    | some cl =>
      if !C05.credentialFits cfg now cl cred false then some "client-not-authenticated"
      else if !cfg.capTE then some "grant-disabled"
      else if !cl.grants.contains "urn:ietf:params:oauth:grant-type:token-exchange" then some "grant-not-registered"
      else if !supported.contains p.subjectType then some "subject-type-unsupported"
      else if !p.subjectLive then some "subject-token-not-live"
      else if p.actorGiven && (!supported.contains p.actorType || !p.actorLive) then some "actor-token-not-live"
      else if p.storageVeto then some "storage-veto-ignored"
      else if o.accessToken == "" then some "success-with-empty-token"
      else
      -- issued_token_type names a token actually contained (whatever the client's other grants)
      let contents : Option String :=
        if o.issuedTokenType == tAccess then
          (if o.accessToken != "access" || !o.accessLive then some "declared-access-token-not-contained"
           else if o.refreshToken then some "undeclared-refresh-token" else none)
        else if o.issuedTokenType == tRefresh then
          (if !o.refreshToken || !o.refreshLive then some "declared-refresh-token-not-contained"
           else if o.accessToken != "access" || !o.accessLive then some "access-token-missing" else none)
        else if o.issuedTokenType == tID then
          (if o.accessToken != "id" || !o.accessLive then some "declared-id-token-not-contained" else none)
        else some "issued_token_type-not-issuable"
      if contents.isSome then contents
      else if o.subject != expectedSubject p then some "tokens:subject"
      -- a self-contained token carries the subject and the ACTOR the storage policy decided
      else if o.selfContained && o.tokenSubject != expectedSubject p then some "tokens:subject-claim"
      -- ... the WHOLE `act` member the policy decides for the party resolved for the actor role (policy table), and it is the value the
      -- storage's claims hook answered for this very request (journal): not flattened, not renamed back, not invented, not dropped
      else if o.selfContained && o.tokenAct != actValue p.actPolicy (expectedActor p) p.subjectSubject cl.id then some "tokens:actor"
      else if o.selfContained && o.policyActAnswered && o.tokenAct != o.policyAct then some "tokens:actor-is-not-the-policy's-answer"
      else if o.scopes != p.scopes.filter (· != "address") then some "tokens:scopes"
      else if p.requestedType != "" && o.issuedTokenType != p.requestedType then some "issued-type-differs-from-requested"
      -- the identities are the ones resolved FOR THAT ROLE, and they are what the storage policy was asked about
      else if !o.policyAsked then some "storage-policy-not-consulted"
      else if o.exchangeSubject != p.subjectSubject then some "exchange:subject-is-not-the-subject-role's"
      else if o.actor != (if p.actorGiven then p.actorSubject else "") then some "exchange:actor-is-not-the-actor-role's"
      else if o.audience != p.audience && o.audience != p.audience ++ [cl.id] then some "tokens:audience" else none

end C15
