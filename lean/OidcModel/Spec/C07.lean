/-
  C07 — Refresh tokens stay bound to their client and can only narrow scope.
  Reference monitor over observed histories of code exchanges and refresh requests.
-/
import OidcModel.Spec.C04

namespace C07

/-- a refresh token the provider handed out -/
structure RT where
  token : String
  client : String
  subject : String
  scopes : List String
  audience : List String := []
  authTime : Int := 0
  live : Bool := true
  deriving Repr, Inhabited

structure MonState where
  base : C04.MonState := {}          -- issuer, clients, assertion settings
  refreshEnabled : Bool := true
  rts : List RT := []
  deriving Repr, Inhabited

/-- what a successful refresh response contained / created -/
structure Result where
  newRT : String := ""
  scopes : List String := []
  client : String := ""
  subject : String := ""
  audience : List String := []
  authTime : Int := 0
  handedOver : Bool := false      -- the presented refresh token was handed to the storage for rotation
  deriving Repr, Inhabited

def subset (a b : List String) : Bool := a.all b.contains

/-- judgement of one response to a refresh request (`obs = some r` = success, `none` = refused with
    OAuth error `err`, `created` = the storage was asked to create tokens) -/
def judge (m : MonState) (now : Int) (p : C04.Presented) (rt : String) (requested : List String)
    (obs : Option Result) (err : String) (created : Bool) : Option String :=
  match obs with
  | some r =>
    match m.rts.find? (fun t => t.token == rt && t.live) with
    | none => some "unknown-or-dead-refresh-token"
    | some t =>
      match m.base.clients.find? (·.id == t.client) with
      | none => some "unknown-client"
      | some c =>
        if !m.refreshEnabled then some "refresh-disabled"
        else if !C04.callerIs m.base now c p then some "caller-is-not-the-token's-client"
        else if !c.grants.contains "refresh_token" then some "grant-not-registered"
        else if !subset requested t.scopes then some "scope-widened"
        else if r.scopes != (if requested.isEmpty then t.scopes else requested) then some "granted-scope-differs-from-request"
        else if !subset r.scopes t.scopes then some "scope-grew"
        else if r.client != t.client then some "tokens:client"
        else if r.subject != t.subject then some "tokens:subject"
        else if r.audience != t.audience then some "tokens:audience"
        else if r.authTime != t.authTime then some "tokens:auth_time"
        else if r.newRT == "" || r.newRT == rt then some "no-new-refresh-token"
        else if !r.handedOver then some "old-token-not-handed-to-storage"
        else none
  | none =>
    -- a request that fails ONLY because of its scope must be answered invalid_scope with nothing issued
    if created then some "tokens-created-on-refused-request" else
    match m.rts.find? (fun t => t.token == rt && t.live) with
    | none => none
    | some t =>
      match m.base.clients.find? (·.id == t.client) with
      | none => none
      | some c =>
        if m.refreshEnabled && C04.callerIs m.base now c p && c.grants.contains "refresh_token" && !subset requested t.scopes
            && err != "invalid_scope" then some "widening-not-answered-with-invalid_scope"
        else none

def onIssue (m : MonState) (t : RT) : MonState := { m with rts := m.rts ++ [t] }

def onRefresh (m : MonState) (rt : String) (obs : Option Result) : MonState :=
  match obs with
  | none => m
  | some r =>
    match m.rts.find? (fun t => t.token == rt && t.live) with
    | none => m
    | some t =>
      { m with rts := (m.rts.map fun x => if x.token == rt then { x with live := false } else x) ++
          [{ t with token := r.newRT, scopes := r.scopes, live := true }] }

end C07
