/-
  C16 — Device grant: tokens only after user approval and only to the initiating client.
  A reference monitor over OBSERVED histories of device_authorization / approve / deny / expire / poll.
  It remembers which device codes the provider handed out (to whom, for which scopes) and what the user did
  with them, and judges every observed response.  Nothing here mentions how the provider computes its answers.

  Readings fixed here (DESIGN §4.21):
  * a client "has credentials" iff its registered auth method is not `none` (RFC 6749 §2.3, §3.2.1; RFC 8628 §3.4):
    such a client receives tokens only when the poll carried its secret; a client without credentials is identified
    by the bare client_id;
  * order of the state answers as anchored in the property: denied ≻ approved ≻ expired ≻ pending;
  * the exact error codes are demanded of polls by the initiating client in its canonical presentation
    (`properlyPresented`); any other poller merely must not get tokens;
  * "storage time-out" = the state lookup of this poll failed with a deadline error.
-/
import OidcModel.Model.OP
import OidcModel.Model.Base64

namespace C16

structure Cfg where
  issuer : String := ""
  formPath : String := "/device"
  lifetime : Int := 300            -- seconds
  interval : Int := 5              -- seconds
  charset : List Char := []
  amount : Nat := 0
  dash : Nat := 0
  deviceEnabled : Bool := true     -- the storage implements DeviceAuthorizationStorage
  deviceCodeBytes : Nat := 16      -- op.RecommendedDeviceCodeBytes
  deriving Repr, Inhabited

/-- a device authorization the provider handed out, and what the observer saw happen to it -/
structure Dev where
  code : String := ""
  userCode : String := ""
  client : String := ""
  scopes : List String := []
  expires : Int := 0               -- instant (ns) after which the code counts as expired
  approvedBy : Option String := none
  denied : Bool := false
  deriving Repr, Inhabited, DecidableEq

structure MonState where
  cfg : Cfg := {}
  clients : List OPClient := []
  devs : List Dev := []
  deriving Repr, Inhabited

/-- how the caller presented itself -/
structure Presented where
  kind : String := "none"          -- basic | post | id-only | none
  clientID : String := ""
  secret : String := ""            -- "" unless sent by Basic auth or in the form
  deriving Repr, Inhabited

/-- tokens handed out, decoded by the observer -/
structure Tokens where
  subject : String := ""
  client : String := ""
  scopes : List String := []
  audience : List String := []
  idToken : Option (String × String) := none     -- (sub, azp) of the ID token, if one was issued
  deriving Repr, Inhabited, DecidableEq

inductive PollObs
  | tokens (t : Tokens)
  | error (code : String) (status : Nat)
  | panic
  deriving Repr, Inhabited

inductive Fault | none | timeout | other
  deriving Repr, Inhabited, DecidableEq

structure AuthResp where
  deviceCode : String := ""
  userCode : String := ""
  uri : String := ""
  uriComplete : String := ""
  expiresIn : Int := 0
  interval : Int := 0
  storedExpires : Int := 0         -- expiry instant (ns) the provider handed to the storage for this device code
  deriving Repr, Inhabited, DecidableEq

inductive AuthObs
  | ok (r : AuthResp)
  | error (code : String) (status : Nat)
  | panic
  deriving Repr, Inhabited

/-- one observed step of a history -/
inductive Event
  | auth (now : Int) (p : Presented) (scopes : List String) (obs : AuthObs)
  | approve (code subject : String)
  | deny (code : String)
  | expire (code : String) (expires : Int)
  | poll (now : Int) (p : Presented) (deviceCode : String) (fault : Fault) (obs : PollObs)
  deriving Repr, Inhabited

-- ---------------------------------------------------------------- user code format

/-- recogniser of the user-code format: `left` alphabet characters still to come, `g` characters in the current
    group; with a dash interval `d > 0` a group holds exactly `d` characters and groups are separated by one '-' -/
def userCodeWF (cs : List Char) (d : Nat) : Nat → Nat → List Char → Bool
  | 0, _, s => s.isEmpty
  | _ + 1, _, [] => false
  | left + 1, g, c :: rest =>
    if d != 0 && g == d then
      c == '-' && (match rest with
        | c' :: rest' => cs.contains c' && userCodeWF cs d left 1 rest'
        | [] => false)
    else cs.contains c && userCodeWF cs d left (g + 1) rest

/-- the user code consists of `amount` characters of the alphabet in groups of `dash` -/
def userCodeOK (cs : List Char) (amount dash : Nat) (s : List Char) : Bool :=
  userCodeWF cs dash amount 0 s && s.length == amount + (if dash == 0 then 0 else (amount - 1) / dash)

-- ---------------------------------------------------------------- device code format

/-- length and alphabet of an unpadded base64url string of `n` bytes -/
def deviceCodeOK (n : Nat) (s : List Char) : Bool :=
  s.length == (4 * n + 2) / 3 && s.all (fun c => B64.alphabet.contains c)

-- ---------------------------------------------------------------- verification URIs as a user agent reads them

def hexVal (c : Char) : Option Nat :=
  if '0' ≤ c ∧ c ≤ '9' then some (c.toNat - '0'.toNat)
  else if 'a' ≤ c ∧ c ≤ 'f' then some (c.toNat - 'a'.toNat + 10)
  else if 'A' ≤ c ∧ c ≤ 'F' then some (c.toNat - 'A'.toNat + 10)
  else none

def charBytes (c : Char) : List UInt8 := (String.singleton c).toUTF8.toList
def utf8 (s : List Char) : List UInt8 := s.flatMap charBytes

/-- application/x-www-form-urlencoded decoding of one key or value, to bytes -/
def formDecode : List Char → Option (List UInt8)
  | [] => some []
  | c :: rest =>
    if c == '%' then
      match rest with
      | a :: b :: rest' =>
        match hexVal a, hexVal b, formDecode rest' with
        | some x, some y, some r => some (UInt8.ofNat (16 * x + y) :: r)
        | _, _, _ => none
      | _ => none
    else if c == '+' then (formDecode rest).map (32 :: ·)
    else (formDecode rest).map (charBytes c ++ ·)

/-- split at the first occurrence of `sep` -/
def splitFirst (sep : Char) : List Char → List Char × Option (List Char)
  | [] => ([], none)
  | c :: cs => if c == sep then ([], some cs) else ((splitFirst sep cs).1.cons c, (splitFirst sep cs).2)

def stripPrefix : List Char → List Char → Option (List Char)
  | [], l => some l
  | _ :: _, [] => none
  | p :: ps, x :: xs => if p == x then stripPrefix ps xs else none

/-- `complete` is `uri` + "?" + a query (up to a fragment) that consists of the single parameter user_code = `userCode` -/
def uriCompleteOK (uri complete userCode : List Char) : Bool :=
  match stripPrefix uri complete with
  | some ('?' :: q) =>
    let q := (splitFirst '#' q).1
    match splitFirst '&' q with
    | (kv, none) =>
      match splitFirst '=' kv with
      | (k, some v) => formDecode k == some (utf8 "user_code".toList) && formDecode v == some (utf8 userCode)
      | _ => false
    | _ => false
  | _ => false

-- ---------------------------------------------------------------- who is polling

def hasCredentials (c : OPClient) : Bool := c.auth != "none"

/-- the poll carried the client's registered secret (`secret` is "" when none was sent) -/
def authenticated (c : OPClient) (p : Presented) : Bool :=
  p.clientID == c.id && p.secret == c.secret

/-- canonical presentation of a registered client: Basic auth with its secret, or - without credentials - the bare client_id -/
def properlyPresented (c : OPClient) (p : Presented) : Bool :=
  p.clientID == c.id &&
    (if c.auth == "none" then p.kind == "id-only"
     else c.auth == "client_secret_basic" && p.kind == "basic" && p.secret == c.secret)

def deviceGrant : String := "urn:ietf:params:oauth:grant-type:device_code"

/-- the initiating-client-in-good-standing: registered, device grant registered, canonical presentation -/
def legit (m : MonState) (p : Presented) : Bool :=
  m.cfg.deviceEnabled && p.clientID != "" &&
    match m.clients.find? (·.id == p.clientID) with
    | some c => c.grants.contains deviceGrant && properlyPresented c p
    | none => false

-- ---------------------------------------------------------------- judgements

/-- device_authorization response; `now` = an instant during the request -/
def judgeAuth (m : MonState) (now : Int) (obs : AuthObs) : Option String :=
  match obs with
  | .panic => some "panic"
  | .error _ status => if status < 400 then some "error-without-error-status" else none
  | .ok r =>
    if !deviceCodeOK m.cfg.deviceCodeBytes r.deviceCode.toList then some "device-code-format"
    else if m.devs.any (·.code == r.deviceCode) then some "device-code-reused"
    else if !userCodeOK m.cfg.charset m.cfg.amount m.cfg.dash r.userCode.toList then some "user-code-format"
    else if r.uri != m.cfg.issuer ++ m.cfg.formPath then some "verification-uri-not-on-issuer"
    else if !uriCompleteOK r.uri.toList r.uriComplete.toList r.userCode.toList then some "verification-uri-complete"
    else if r.expiresIn != m.cfg.lifetime then some "expires_in"
    else if r.interval != m.cfg.interval then some "interval"
    else if (r.storedExpires - (now + r.expiresIn * Go.second)).natAbs > 1000000000 then some "stored-expiry-differs-from-expires_in"
    else none

/-- token response to a device-code poll -/
def judgePoll (m : MonState) (now : Int) (p : Presented) (deviceCode : String) (fault : Fault) (obs : PollObs) : Option String :=
  match obs with
  | .panic => some "panic"
  | .tokens tk =>
    match m.devs.find? (·.code == deviceCode) with
    | none => some "tokens-for-unknown-device-code"
    | some d =>
      if fault != .none then some "tokens-despite-storage-failure"
      else if d.client != p.clientID then some "tokens-to-another-client"
      else
        match m.clients.find? (·.id == d.client) with
        | none => some "tokens-to-unregistered-client"
        | some c =>
          if hasCredentials c && !authenticated c p then some "tokens-without-client-authentication"
          else if d.denied then some "tokens-after-denial"
          else
            match d.approvedBy with
            | none => some "tokens-before-approval"
            | some u =>
              if tk.subject != u then some "tokens:subject"
              else if tk.client != d.client then some "tokens:client"
              else if tk.scopes != d.scopes then some "tokens:scopes"
              else if !tk.audience.contains d.client then some "tokens:audience"
              else
                match tk.idToken with
                | some (sub, azp) => if sub != u || azp != d.client then some "tokens:id_token" else none
                | none => none
  | .error code status =>
    if status < 400 then some "error-without-error-status"
    else if !legit m p || deviceCode == "" then none           -- refused: fine
    else if fault == .timeout then (if code == "slow_down" then none else some "timeout-not-slow_down")
    else if fault == .other then none
    else
      match m.devs.find? (·.code == deviceCode) with
      | none => none                                            -- unknown code: refused
      | some d =>
        if d.client != p.clientID then none                     -- another client's code: refused
        else if d.denied then (if code == "access_denied" then none else some "denied-not-access_denied")
        else if d.approvedBy.isSome then some "approved-but-refused"
        else if now > d.expires then (if code == "expired_token" then none else some "expired-not-expired_token")
        else (if code == "authorization_pending" then none else some "pending-not-authorization_pending")

def judge (m : MonState) (e : Event) : Option String :=
  match e with
  | .auth now _ _ obs => judgeAuth m now obs
  | .poll now p code fault obs => judgePoll m now p code fault obs
  | _ => none

/-- what the observer remembers -/
def update (m : MonState) (e : Event) : MonState :=
  match e with
  | .auth _ p scopes (.ok r) =>
    { m with devs := m.devs ++ [{ code := r.deviceCode, userCode := r.userCode, client := p.clientID, scopes := scopes,
                                   expires := r.storedExpires }] }
  | .approve code subject => { m with devs := m.devs.map fun d => if d.code == code then { d with approvedBy := some subject } else d }
  | .deny code => { m with devs := m.devs.map fun d => if d.code == code then { d with denied := true } else d }
  | .expire code expires => { m with devs := m.devs.map fun d => if d.code == code then { d with expires := expires } else d }
  | _ => m

/-- all judgements along a history -/
def judgeAll (m : MonState) : List Event → List (Option String)
  | [] => []
  | e :: es => judge m e :: judgeAll (update m e) es

end C16
