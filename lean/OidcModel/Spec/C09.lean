/-
  C09 — malformed requests, tokens and provider answers yield an error response / a returned error:
  never a panic, never two responses, never grant logic after the error was answered.

  The monitors judge what was OBSERVED (by the response recorder, the journalling storage and recover());
  they know nothing about how the code computes its answer.
-/
import OidcModel.Model.C09

namespace C09

/-- what the recorder saw of ONE request to a handler -/
structure HObs where
  panic : Bool              -- ServeHTTP panicked (recover())
  commits : Nat             -- responses committed: WriteHeader calls (an implicit 200 counts once)
  logicAfterErr : Nat       -- storage / grant-logic calls journalled after an error response was committed
  deriving Repr, DecidableEq

/-- a request is answered exactly once, and after an error answer nothing else happens -/
def handlerOK (o : HObs) : Option String :=
  if o.panic then some "panic"
  else if o.commits == 0 then some "no-response"
  else if o.commits > 1 then some "second-response"
  else if o.logicAfterErr > 0 then some "continued-after-error"
  else none

/-- the same observation, read off an event sequence: every explicit commit counts, body bytes commit an implicit 200
    when nothing was committed before -/
def commitsFrom (committed : Bool) : List HEv → Nat
  | [] => 0
  | .wr _ :: t => 1 + commitsFrom true t
  | .body :: t => (if committed then 0 else 1) + commitsFrom true t
  | .logic :: t => commitsFrom committed t

def logicAfterErrFrom (errd : Bool) : List HEv → Nat
  | [] => 0
  | .wr e :: t => logicAfterErrFrom (errd || e) t
  | .body :: t => logicAfterErrFrom errd t
  | .logic :: t => (if errd then 1 else 0) + logicAfterErrFrom errd t

def obsOfTrace (tr : List HEv) : HObs :=
  { panic := false, commits := commitsFrom false tr, logicAfterErr := logicAfterErrFrom false tr }

/-- a function that receives the ResponseWriter: it answers exactly once — or, where it hands an error back to its
    caller instead (`some .err`), it has written nothing; never logic after an error answer -/
def traceOK (tr : List HEv) (o : Option HRet) : Bool :=
  let ob := obsOfTrace tr
  ob.logicAfterErr == 0 && (if o == some .err then ob.commits == 0 else ob.commits == 1)

/-- decoders, verifiers, client helpers: a value or an error; never a panic, never "nil and no error" -/
def outcomeOK : Cls → Option String
  | .panic => some "panic"
  | .nilnil => some "nil-without-error"
  | _ => none

end C09
