/-
  C07 / C04 for token requests as they travel (any placement of the parameters) and for registrations that
  change in the middle of a history.  Extends the observer of Spec/FlowObs.lean by two events; nothing here says
  how the provider reads a request.

  INTERPRETATION (the property text is silent about it).  RFC 6749 forbids repeating a parameter; when a request
  nevertheless presents a parameter with two different values (say, one in the body and one in the query) the
  onlooker cannot know which one counts.  The monitors therefore judge such a request under EVERY reading (one
  presented value per parameter):
    * tokens were handed out  - acceptable iff SOME reading justifies them (as a code exchange to the C04 monitor
      or as a refresh to the C07 monitor); the journal of the storage tells which grant was served (a refresh
      hands the presented token to the storage for rotation), so a refresh reading can only justify a response for
      which exactly its token was handed over, a code reading only one for which none was;
    * the request was refused - the clause "fails only because of its scope => invalid_scope, nothing issued"
      is demanded only when EVERY reading is a refresh request to which the clause applies.
  A request that presents one value per parameter has one reading, and the judgement is that of Spec/C07.lean /
  Spec/C04.lean, wherever the parameters travel.
  The registration that counts is the CURRENT one ("... only if that client is registered for the refresh grant").
-/
import OidcModel.Spec.FlowObs
import OidcModel.Model.C07WireTypes

namespace FlowObs

/-- one way to read a token request: one presented value per parameter -/
structure Reading where
  grant : String := ""
  p : C04.Presented := {}
  rt : String := ""
  requested : List String := []
  deriving Repr, Inhabited

/-- the values a request presents for a parameter; an absent parameter reads as the empty string -/
def presentedVals (w : WireReq) (k : String) : List String :=
  match w.vals k with
  | [] => [""]
  | vs => vs

/-- the client assertions a request presents: a `client_assertion` announced (by a `client_assertion_type`) as a JWT bearer
    assertion; `none`: presented without one -/
def seenAssertions (w : WireReq) : List (Option Token) :=
  (presentedVals w "client_assertion").flatMap fun a => (presentedVals w "client_assertion_type").map fun t =>
    if t == Const.ClientAssertionTypeJWTAssertion then some (w.tokenOf a) else none

/-- client ids / secrets a request presents: the Basic header and the parameters -/
def seenIDs (w : WireReq) : List String :=
  match w.basicSeen with
  | some (u, _) => u :: w.vals "client_id"
  | none => presentedVals w "client_id"
def seenSecrets (w : WireReq) : List String :=
  match w.basicSeen with
  | some (_, p) => p :: w.vals "client_secret"
  | none => presentedVals w "client_secret"

/-- every reading of a request -/
def readings (w : WireReq) : List Reading :=
  (presentedVals w "grant_type").flatMap fun g => (seenIDs w).flatMap fun id => (seenSecrets w).flatMap fun sec =>
  (presentedVals w "code").flatMap fun code => (presentedVals w "redirect_uri").flatMap fun ru =>
  (presentedVals w "code_verifier").flatMap fun v => (presentedVals w "refresh_token").flatMap fun rt =>
  (presentedVals w "scope").flatMap fun sc => (seenAssertions w).map fun ass =>
    { grant := g, rt := rt, requested := tokScopes sc,
      p := { clientID := id, secret := sec, assertion := ass, code := code, redirectURI := ru, verifier := v } }

/-- what the provider answered and what the storage did while it served the request -/
structure Answer where
  /-- `some` = 200 with tokens (subject / client / scopes as the access token says, nonce as the ID token says) -/
  tokens : Option C04.Tokens := none
  /-- audience of the access token -/
  audience : List String := []
  /-- `sub` and `auth_time` of the ID token, when the response carries one -/
  idSubject : Option String := none
  idAuthTime : Option Int := none
  /-- the refresh token the storage created (delivered with the response, or left behind by a request that failed) -/
  minted : Option C07.RT := none
  /-- the refresh token the storage was handed for rotation -/
  handed : Option String := none
  /-- OAuth error code of a refusal -/
  err : String := ""
  /-- the storage was asked to create tokens -/
  created : Bool := false
  deriving Repr, Inhabited

/-- the answer as the result of a refresh of token `rt` -/
def resultOf (a : Answer) (rt : String) : Option C07.Result :=
  a.tokens.map fun _ =>
    let t : C07.RT := a.minted.getD { token := "", client := "", subject := "", scopes := [] }
    { newRT := t.token, scopes := t.scopes, client := t.client, subject := t.subject, audience := t.audience, authTime := t.authTime,
      handedOver := a.handed == some rt }

def judge04 (s : ObsState) (now : Int) (a : Answer) (ρ : Reading) : Option String := C04.judge s.m04 now ρ.p a.tokens
/-- the C07 judgement of one reading; on success also what the property says about the NEW TOKENS themselves: the access
    token and the ID token carry the subject / client / scopes / audience / authentication time of the grant as it is
    recorded with the new refresh token (which `C07.judge` has compared with the grant of the presented one) -/
def judge07 (s : ObsState) (now : Int) (a : Answer) (ρ : Reading) : Option String :=
  match C07.judge s.m07 now ρ.p ρ.rt ρ.requested (resultOf a ρ.rt) a.err a.created with
  | some v => some v
  | none =>
    match a.tokens, resultOf a ρ.rt with
    | some tk, some r =>
      if tk.subject != r.subject then some "tokens:access-token-subject"
      else if tk.client != r.client then some "tokens:access-token-client"
      else if tk.scopes != r.scopes then some "tokens:access-token-scopes"
      else if a.audience != r.audience then some "tokens:access-token-audience"
      else if (match a.idSubject with | some x => x != r.subject | none => false) then some "tokens:id_token-subject"
      else if (match a.idAuthTime with | some x => x != r.authTime | none => false) then some "tokens:id_token-auth_time"
      else none
    | _, _ => none

def isCode (ρ : Reading) : Bool := ρ.grant == Const.GrantTypeCode
def isRefresh (ρ : Reading) : Bool := ρ.grant == Const.GrantTypeRefreshToken

/-- the monitors learn a refresh token the storage created -/
def learn (s : ObsState) (a : Answer) : ObsState :=
  { s with m07 := match a.minted with | some t => C07.onIssue s.m07 t | none => s.m07 }

/-- replace the registration with the same client id -/
def reRegister (cs : List OPClient) (c : OPClient) : List OPClient := cs.map fun x => if x.id == c.id then c else x

inductive EventX
  | base (e : Event)
  /-- a token request as it travelled, and its answer -/
  | token (w : WireReq) (a : Answer)
  /-- the registration of client `c.id` was replaced by `c` -/
  | registered (c : OPClient)
  deriving Repr, Inhabited

/-- one event at instant `now`: new observer state, C04 verdict, C07 verdict -/
def observeX (now : Int) (s : ObsState) : EventX → ObsState × Option String × Option String
  | .base e => observe now s e
  | .registered c =>
    ({ s with m04 := { s.m04 with clients := reRegister s.m04.clients c },
              m07 := { s.m07 with base := { s.m07.base with clients := reRegister s.m07.base.clients c } } }, none, none)
  | .token w a =>
    let rs := readings w
    match a.tokens with
    | none =>
      -- refused: C04 demands nothing of a refusal; C07's clauses about refusals bind only if they bind under every reading
      (learn s a, none,
       if rs.all (fun ρ => isRefresh ρ && (judge07 s now a ρ).isSome) then (rs.head?.bind (judge07 s now a)) else none)
    | some _ =>
      let just04 := if a.handed.isNone then (rs.filter isCode).find? (fun ρ => (judge04 s now a ρ).isNone) else none
      let just07 := (rs.filter isRefresh).find? (fun ρ => (judge07 s now a ρ).isNone)
      match just04, just07 with
      | some ρ, _ => ({ learn s a with m04 := C04.onExchange s.m04 ρ.p a.tokens }, none, none)
      | none, some ρ => ({ s with m07 := C07.onRefresh s.m07 ρ.rt (resultOf a ρ.rt) }, none, none)
      | none, none =>
        -- tokens no reading justifies: the verdicts are those of the first code reading / the first refresh reading; the
        -- monitors follow what the storage did (the token it rotated, else the first code presented)
        let s' := match a.handed with
          | some t => { s with m07 := C07.onRefresh s.m07 t (resultOf a t) }
          | none => match (rs.filter isCode).head? with
            | some ρ => { learn s a with m04 := C04.onExchange s.m04 ρ.p a.tokens }
            | none => learn s a
        -- (a response without rotation to a request that can be read as a code exchange is C04's business)
        (s', if a.handed.isNone then (rs.filter isCode).head?.bind (judge04 s now a) else none,
             if a.handed.isSome || (rs.filter isCode).isEmpty then (rs.filter isRefresh).head?.bind (judge07 s now a) else none)

end FlowObs
