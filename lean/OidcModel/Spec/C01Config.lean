/-
  C01 — what "the configured verifier" MEANS (part of the property's vocabulary; nothing here mentions how the code builds it).

  An application configures a relying party with a list of `rp.Option`s, one of which (`WithVerifierOpts`) carries a list of
  `rp.VerifierOption`s.  Both are described as data (`ROptD`, `VOptD`); `rpConfigured` reads off such a list what the application
  asked for: the LAST option of a kind wins, a later `WithVerifierOpts` replaces an earlier one as a whole, the discovered
  allow-list is appended when `WithSigningAlgsFromDiscovery` occurs anywhere, everything else keeps the library default.
  Proofs/C01Construct proves that the regenerated construction path arrives at exactly this verifier; the driver evaluates
  `rpConfigured` on the option lists of every relying-party case of the stream and compares it with the harness's own reading.
-/
import OidcModel.Model.RPConstruct

namespace C01
open Go

/-- the value the last element of `l` selected by `sel` carries; `d` when there is none -/
def lastOf {α β : Type} (sel : β → Option α) (l : List β) (d : α) : α := (l.reverse.findSome? sel).getD d

/-- an `rp.VerifierOption`, described -/
inductive VOptD
  | offset (d : Int)
  | iatMaxAge (d : Int)
  | nonce (f : Option (Unit → String))
  | acr (f : Option (String → Go.R Unit))
  | authMaxAge (d : Int)
  | algs (l : List String)

namespace VOptD
def offset? : VOptD → Option Int | .offset d => some d | _ => none
def iatMaxAge? : VOptD → Option Int | .iatMaxAge d => some d | _ => none
def nonce? : VOptD → Option (Option (Unit → String)) | .nonce f => some f | _ => none
def acr? : VOptD → Option (Option (String → Go.R Unit)) | .acr f => some f | _ => none
def authMaxAge? : VOptD → Option Int | .authMaxAge d => some d | _ => none
def algs? : VOptD → Option (List String) | .algs l => some l | _ => none
end VOptD

/-- what a verifier `v0` asks for after the options `opts` (in this order): nobody touches issuer, client id and key set;
    every requirement is the one of the LAST option of its kind, else what `v0` had -/
def configuredFrom (v0 : RPCVerifierGo) (opts : List VOptD) : RPCVerifierGo :=
  { Issuer := v0.Issuer, ClientID := v0.ClientID, KeySet := v0.KeySet,
    Offset := lastOf VOptD.offset? opts v0.Offset,
    MaxAgeIAT := lastOf VOptD.iatMaxAge? opts v0.MaxAgeIAT,
    MaxAge := lastOf VOptD.authMaxAge? opts v0.MaxAge,
    Nonce := lastOf VOptD.nonce? opts v0.Nonce,
    ACR := lastOf VOptD.acr? opts v0.ACR,
    SupportedSignAlgs := lastOf VOptD.algs? opts v0.SupportedSignAlgs }

/-- the library defaults: one second of offset, the nonce function that answers "" -/
def verifierDefaults (issuer clientID : String) (ks : RPCKeySet) : RPCVerifierGo :=
  { Issuer := issuer, ClientID := clientID, KeySet := ks, Offset := second, Nonce := some (fun _ => "") }

/-- THE CONFIGURED VERIFIER: what an application that passes `opts` asks for -/
def configured (issuer clientID : String) (ks : RPCKeySet) (opts : List VOptD) : RPCVerifierGo :=
  configuredFrom (verifierDefaults issuer clientID ks) opts

/-- an `rp.Option`, described -/
inductive ROptD
  | customDiscoveryUrl (u : String)
  | cookieHandler (h : Option Nat)
  | pkce (h : Option Nat)
  | httpClient (c : RPCHttpClient)
  | errorHandler (h : Option Nat)
  | unauthorizedHandler (h : Option Nat)
  | authStyle (s : Int)
  | verifierOpts (l : List VOptD)
  | jwtProfile (s : Go.R Nat)
  | logger (l : Option Nat)
  | signingAlgsFromDiscovery

namespace ROptD
def url? : ROptD → Option String | .customDiscoveryUrl u => some u | _ => none
def cookie? : ROptD → Option (Option Nat) | .cookieHandler h => some h | .pkce h => some h | _ => none
def pkce? : ROptD → Option Bool | .pkce _ => some true | _ => none
def httpClient? : ROptD → Option RPCHttpClient | .httpClient c => some c | _ => none
def errorHandler? : ROptD → Option (Option Nat) | .errorHandler h => some h | _ => none
def unauthorizedHandler? : ROptD → Option (Option Nat) | .unauthorizedHandler h => some h | _ => none
def authStyle? : ROptD → Option Int | .authStyle s => some s | _ => none
def vopts? : ROptD → Option (List VOptD) | .verifierOpts l => some l | _ => none
def signer? : ROptD → Option (Option Nat) | .jwtProfile (.ok s) => some (some s) | _ => none
def logger? : ROptD → Option (Option Nat) | .logger l => some l | _ => none
def algsFromDiscovery? : ROptD → Option Bool | .signingAlgsFromDiscovery => some true | _ => none
/-- the error an option returns (only `WithJWTProfile` with a failing key source does) -/
def error? : ROptD → Option String | .jwtProfile (.error e) => some e | _ => none
end ROptD

/-- the verifier options in force for a relying party configured with `opts`, given the discovery document `d`: the list of the
    LAST `WithVerifierOpts` (none: empty), followed — if `WithSigningAlgsFromDiscovery` occurs anywhere — by the discovered allow-list -/
def effectiveVOpts (opts : List ROptD) (d : RPCDiscoveryConfiguration) : List VOptD :=
  lastOf ROptD.vopts? opts [] ++
    (if lastOf ROptD.algsFromDiscovery? opts false then [VOptD.algs d.IDTokenSigningAlgValuesSupported] else [])

/-- the http client a relying party configured with `opts` talks through -/
def clientOf (opts : List ROptD) : RPCHttpClient := lastOf ROptD.httpClient? opts Const.RPCDefaultHTTPClient

/-- THE VERIFIER A RELYING PARTY IS CONFIGURED FOR -/
def rpConfigured (issuer clientID : String) (opts : List ROptD) (d : RPCDiscoveryConfiguration) : RPCVerifierGo :=
  configured issuer clientID (.remote (clientOf opts) d.JwksURI) (effectiveVOpts opts d)

end C01
