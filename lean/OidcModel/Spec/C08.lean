/-
  C08 — Only live tokens are honoured; revocation and logout take effect everywhere.
  Reference monitor over observed histories.  It knows the tokens the provider handed out (access AND refresh
  tokens, with the issuer they were issued under) and judges every answer of userinfo, introspection,
  revocation, end_session, token exchange and the refresh grant.  It never looks at how the answer was computed.
-/
import OidcModel.Spec.C04

namespace C08

/-- a token the provider handed out, as far as the observer knows -/
structure Tok where
  label : String
  client : String
  subject : String
  audience : List String := []
  issuer : String := ""          -- the issuer the token response came from
  refresh : Bool := false        -- a refresh token (else an access token)
  jwt : Bool := false            -- an access token handed out as a JWT (self-contained: it names its issuer in `iss`), else opaque
  grant : String := ""           -- tokens of one token response share it
  exp : Int := 0                 -- the expiration the storage gave the token (ns since the epoch; 0 = not known to the observer)
  live : Bool := true
  deriving Repr, Inhabited

structure MonState where
  base : C04.MonState := {}
  toks : List Tok := []
  /-- the provider derives its issuer from the request and its storage keeps ONE token table for all of these issuers (it does not
      partition its records by `op.IssuerFromContext(ctx)`; the documented Storage contract does not demand that) -/
  flat : Bool := false
  deriving Repr, Inhabited

inductive Ev
  | issued (t : Tok)
  | expired (label : String)
  /-- `iss` = the issuer the request was addressed to; `tok` = label of the genuine token the presented string stands for
      ("" = none: forged, tampered, garbage, foreign key); `subject` = the `sub` member of a 2xx answer; `claims` = the 2xx answer
      carries claims at all (its JSON body has a member) -/
  | userinfo (iss tok : String) (status : Nat) (subject : Option String) (claims : Bool := subject.isSome)
  | introspect (iss : String) (p : C04.Presented) (tok : String) (status : Nat) (active : Bool) (members : List String)
  /-- `fault`: a storage call of this request was made to fail (an input of the history, like the clock);
      `usable`: immediately before the request the provider honoured the presented string (userinfo at the token's own issuer answered 2xx);
      `effect`: after the request the storage no longer holds the token as usable (its record is revoked / removed / expired), or the
      provider does not honour the string -/
  | revoke (iss : String) (p : C04.Presented) (tok : String) (status : Nat) (performed : Bool) (fault : Bool := false) (effect : Bool := true)
      (usable : Bool := true)
  | endSession (iss subject client : String) (status : Nat) (terminated : Bool)
  /-- `hasActor`: the request also carried an actor_token (delegation); `actor` = label of the genuine token it stands for ("" = none) -/
  | exchange (iss tok : String) (success : Bool) (hasActor : Bool := false) (actor : String := "")
  /-- the refresh grant by the owning client; `rotated` = the response replaced the refresh token by a new one -/
  | refresh (iss tok : String) (success rotated : Bool)
  deriving Repr

def find (m : MonState) (label : String) : Option Tok := m.toks.find? (·.label == label)

/-- who the caller of introspection / revocation is authenticated as (none: nobody) -/
def callerOf (m : MonState) (now : Int) (p : C04.Presented) (allowPublic : Bool) : Option OPClient :=
  m.base.clients.find? fun c => C04.callerIs m.base now c p && (allowPublic || c.auth != "none")

/-- the clock of the request is past the expiration the storage gave the token -/
def pastExpiry (t : Tok) (now : Int) : Bool := t.exp != 0 && decide (now > t.exp)

/-- the token is in its last second (or past it): expirations travel in tokens as whole seconds (`oidc.Time`), so within that second the
    provider may already treat a self-contained token as expired; "still live" is only demanded of a token before it -/
def lastSecond (t : Tok) (now : Int) : Bool := t.exp != 0 && decide (now + 1000000000 > t.exp)

/-- is the token a token of the provider AT issuer `iss`: it was issued there - or it carries no issuer (an opaque access token, a
    refresh token) and the storage is flat, i.e. keeps one table for all issuers of the provider and finds it under each of them.
    A JWT access token names its issuer and belongs to that issuer alone, whatever the storage does -/
def visibleAt (m : MonState) (t : Tok) (iss : String) : Bool := t.issuer == iss || (m.flat && !(t.jwt && !t.refresh))

/-- a token may be honoured at `iss` only if the provider issued it, there, and it is neither expired, revoked nor logged out;
    expired: the observer was told so, or the clock of the request is past the expiration the storage gave the token.
    "There" (`token-of-other-issuer`): a JWT access token names its issuer, and the LIBRARY checks that name against the issuer the
    request is addressed to - so the clause holds for JWT access tokens over EVERY storage.  An opaque access token and a refresh token
    carry no issuer: for them the storage is the only check, a flat storage (one table for all issuers of the provider) finds them under
    every issuer, and honouring them there is the storage's doing, not the library's - on flat-storage histories the clause is therefore
    raised for JWT access tokens only (over a partitioning storage, as before, for every token kind) -/
def honourable (m : MonState) (now : Int) (ep unknown dead iss tok : String) (wantAccess : Bool) : Option String :=
  match find m tok with
  | none => some (ep ++ unknown)
  | some t =>
    if wantAccess && t.refresh then some (ep ++ unknown)
    else if !visibleAt m t iss then some (ep ++ ":token-of-other-issuer")
    else if !t.live then some (ep ++ dead)
    else if pastExpiry t now then some (ep ++ ":expired-token-honoured")
    else none

def judge (m : MonState) (now : Int) (e : Ev) : Option String :=
  match e with
  | .issued _ | .expired _ => none
  | .userinfo iss tok _ subject claims =>
    -- "UserInfo returns claims only for a token the provider actually issued that is neither expired, revoked nor ...": judged is every
    -- answer that carries claims (any member, not only `sub`).  A 2xx answer WITHOUT claims (the body `{}` of a token that was granted no
    -- scope with claims, e.g. one issued by a token exchange without `scope`) returns nothing and is not judged
    if claims || subject.isSome then
      match honourable m now "userinfo" ":claims-for-unknown-token" ":dead-token-honoured" iss tok true with
      | some v => some v
      | none =>
        match subject with
        | some sub => if (find m tok).any (·.subject != sub) then some "userinfo:wrong-subject" else none
        | none => none
    else none
  | .introspect iss p tok _ active members =>
    if active then
      match honourable m now "introspect" ":active-for-unknown-token" ":dead-token-active" iss tok true with
      | some v => some v
      | none =>
        match callerOf m now p false with
        | none => some "introspect:unauthenticated-caller"
        | some c => if (find m tok).any (!·.audience.contains c.id) then some "introspect:caller-not-in-audience" else none
    else if members != [] && members != ["active"] then some "introspect:inactive-answer-discloses-fields" else none
  | .revoke iss p tok status performed fault effect usable =>
    -- (a storage fault excuses an error answer, never a success answer: what was answered 200 has taken effect, see `update`)
    match find m tok with
    | none => if (callerOf m now p true).isSome && status != 200 && !fault then some "revoke:unknown-token-not-200" else none
    | some t =>
      if !visibleAt m t iss then none       -- another issuer's token: unknown there, no demand on the answer
      else match callerOf m now p true with
      | none => if performed then some "revoke:by-unauthenticated-caller" else none
      | some c =>
        if c.id == t.client then
          (if status != 200 && !fault then some "revoke:owner-refused"            -- whatever the hint
           -- what was answered 200 has taken effect: the owner's revocation of a token that was still usable leaves it unusable
           -- (`usable`: a token the provider honours nowhere - before and after - is unusable "from then on" whatever the storage holds)
           else if status == 200 && t.live && !lastSecond t now && usable && !effect then some "revoke:answered-200-without-effect"
           else none)
        -- another client's attempt on a token that is in use is refused; on a string the provider honours nowhere it is an attempt
        -- on an unknown token ("revoking an unknown or garbage token still answers 200")
        else if status == 200 && t.live && !lastSecond t now && usable then some "revoke:foreign-client-not-refused" else none
  | .endSession _ _ _ status terminated => if status < 400 && !terminated then some "end_session:session-not-terminated" else none
  | .exchange iss tok success hasActor actor =>
    if success then
      match honourable m now "exchange" ":unknown-subject-token-accepted" ":dead-subject-token-accepted" iss tok false with
      | some v => some v
      | none =>
        -- an actor token is accepted on the same terms as a subject token (here: always presented as an access token)
        if hasActor then honourable m now "exchange" ":unknown-actor-token-accepted" ":dead-actor-token-accepted" iss actor true else none
    else none
  | .refresh iss tok success _ =>
    if success then
      match honourable m now "refresh" ":unknown-token-honoured" ":dead-token-honoured" iss tok false with
      | some v => some v
      | none => if (find m tok).any (!·.refresh) then some "refresh:unknown-token-honoured" else none
    else none

def kill (m : MonState) (p : Tok → Bool) : MonState := { m with toks := m.toks.map fun x => if p x then { x with live := false } else x }

def update (m : MonState) (now : Int) (e : Ev) : MonState :=
  match e with
  | .issued t => { m with toks := m.toks ++ [t] }
  | .expired l => kill m (·.label == l)
  | .revoke iss p tok status _ _ _ _ =>
    match find m tok, callerOf m now p true with
    | some t, some c =>
      if c.id == t.client && status == 200 && visibleAt m t iss then
        -- revoked by its owner: the token is dead from now on; a refresh token takes the access token of its grant with it
        kill m fun x => x.label == tok || (t.refresh && x.grant == t.grant)
      else m
    | _, _ => m
  | .endSession iss sub cl status _ =>
    -- a logout ends the session at the issuer it is addressed to (another issuer of the same provider is another tenant).
    -- An operation that answered success has taken effect: once the success redirect was given, the tokens of that session
    -- must not be honoured any more - whatever happened between the provider and its storage
    -- (a flat storage has ONE session per user and client: it ends for all issuers of the provider)
    if status < 400 then kill m fun x => x.subject == sub && x.client == cl && (x.issuer == iss || m.flat) else m
  | .refresh _ tok success rotated =>
    match find m tok with
    | some t => if success && rotated then kill m (·.grant == t.grant) else m     -- replaced by the tokens of the response
    | none => m
  | _ => m

end C08
