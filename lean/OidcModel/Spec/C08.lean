/-
  C08 — Only live tokens are honoured; revocation and logout take effect everywhere.
  Reference monitor over observed histories.
-/
import OidcModel.Spec.C04

namespace C08

/-- an access token the provider handed out, as far as the observer knows -/
structure Tok where
  label : String
  client : String
  subject : String
  audience : List String := []
  live : Bool := true
  deriving Repr, Inhabited

structure MonState where
  base : C04.MonState := {}
  toks : List Tok := []
  deriving Repr, Inhabited

inductive Ev
  | issued (t : Tok)
  | expired (label : String)
  /-- `tok` = label of the genuine token the presented string stands for ("" = none: forged, garbage, foreign) -/
  | userinfo (tok : String) (status : Nat) (subject : Option String)
  | introspect (p : C04.Presented) (tok : String) (status : Nat) (active : Bool) (members : List String)
  | revoke (p : C04.Presented) (tok : String) (status : Nat) (performed : Bool)
  | endSession (subject client : String) (status : Nat) (terminated : Bool)
  | exchange (tok : String) (success : Bool)
  deriving Repr

def find (m : MonState) (label : String) : Option Tok := m.toks.find? (·.label == label)

/-- who the caller of introspection / revocation is authenticated as (none: nobody) -/
def callerOf (m : MonState) (now : Int) (p : C04.Presented) (allowPublic : Bool) : Option OPClient :=
  m.base.clients.find? fun c => C04.callerIs m.base now c p && (allowPublic || c.auth != "none")

def judge (m : MonState) (now : Int) (e : Ev) : Option String :=
  match e with
  | .issued _ | .expired _ => none
  | .userinfo tok status subject =>
    match subject with
    | some sub =>
      match find m tok with
      | none => some "userinfo:claims-for-unknown-token"
      | some t => if !t.live then some "userinfo:dead-token-honoured"
                  else if sub != t.subject then some "userinfo:wrong-subject" else none
    | none => if status ≥ 200 ∧ status < 300 then some "userinfo:2xx-without-claims" else none
  | .introspect p tok _ active members =>
    if active then
      match find m tok with
      | none => some "introspect:active-for-unknown-token"
      | some t =>
        if !t.live then some "introspect:dead-token-active"
        else match callerOf m now p false with
          | none => some "introspect:unauthenticated-caller"
          | some c => if !t.audience.contains c.id then some "introspect:caller-not-in-audience" else none
    else if members != [] && members != ["active"] then some "introspect:inactive-answer-discloses-fields" else none
  | .revoke p tok status performed =>
    match find m tok with
    | none => if (callerOf m now p true).isSome && status != 200 then some "revoke:unknown-token-not-200" else none
    | some t =>
      match callerOf m now p true with
      | none => if performed then some "revoke:by-unauthenticated-caller" else none
      | some c =>
        if c.id == t.client then (if status != 200 then some "revoke:owner-refused" else none)
        else if status == 200 && t.live then some "revoke:foreign-client-not-refused" else none
  | .endSession _ _ status terminated => if status < 400 && !terminated then some "end_session:session-not-terminated" else none
  | .exchange tok success =>
    if success then
      match find m tok with
      | none => some "exchange:unknown-subject-token-accepted"
      | some t => if !t.live then some "exchange:dead-subject-token-accepted" else none
    else none

def update (m : MonState) (now : Int) (e : Ev) : MonState :=
  match e with
  | .issued t => { m with toks := m.toks ++ [t] }
  | .expired l => { m with toks := m.toks.map fun t => if t.label == l then { t with live := false } else t }
  | .revoke p tok status _ =>
    match find m tok, callerOf m now p true with
    | some t, some c => if c.id == t.client && status == 200 then
        { m with toks := m.toks.map fun x => if x.label == tok then { x with live := false } else x } else m
    | _, _ => m
  | .endSession sub cl status terminated =>
    if status < 400 && terminated then
      { m with toks := m.toks.map fun x => if x.subject == sub && x.client == cl then { x with live := false } else x } else m
  | _ => m

end C08
