/-
  C06 — Every token the OP issues is well-formed and passes the library's own verifiers.
  Monitor over one token response: the verdicts of the library's REAL verifiers on the issued tokens (run
  by the observer against the provider's published key set) plus the claim bindings the statement lists.
-/
import OidcModel.Spec.C01

namespace C06

/-- what the observer established about one response that contained tokens -/
structure Obs where
  flow : String := ""
  hasIDToken : Bool := false
  rpVerifies : Bool := false            -- rp.VerifyTokens (with the access token of the same response) accepted the ID token
  idClaims : Claims := {}               -- its decoded claims
  amr : List String := []
  cHashOK : Bool := true                -- c_hash absent (no code in this response) or the hash of exactly that code
  atHashOK : Bool := true               -- at_hash absent or the OIDC Core 3.1.3.6 hash of exactly the access token of this response
                                        -- (computed by the observer with the standard library, not with the library under test)
  userClaims : List String := []        -- user-claim names present in the ID token
  jwtAccessToken : Bool := false
  atVerifies : Bool := true             -- op.VerifyAccessToken accepted the JWT access token
  atClaims : Claims := {}
  opaqueOK : Bool := true               -- the opaque token decrypts (provider key) to "<stored id>:<subject>" and does not under another key
  expiresInOK : Bool := true            -- expires_in agrees with the stored expiry (± 2 s + skew)
  scopeOK : Bool := true                -- `scope` in the response equals the stored scopes
  deriving Repr, Inhabited

/-- what the underlying request was -/
structure Req where
  issuer : String := ""
  client : String := ""
  subject : String := ""
  nonce : String := ""
  authTime : Int := 0                   -- seconds, 0 = none
  amr : List String := []
  scopes : List String := []
  lifetime : Int := 0                   -- ID-token lifetime, seconds
  skew : Int := 0                       -- client clock skew, seconds
  assertUserinfo : Bool := false        -- IDTokenUserinfoClaimsAssertion
  withAccessToken : Bool := true        -- the response also carries an access token (then userinfo scopes are stripped unless asserted)
  deriving Repr, Inhabited

/-- user claims a scope entitles to -/
def claimsOf (scope : String) : List String :=
  if scope == "profile" then ["name", "preferred_username", "family_name", "given_name", "nickname", "locale", "updated_at", "picture", "profile", "website", "gender", "birthdate", "zoneinfo"]
  else if scope == "email" then ["email", "email_verified"]
  else if scope == "phone" then ["phone_number", "phone_number_verified"]
  else if scope == "address" then ["address"]
  else if scope == "custom_scope" then ["custom_claim"]
  else []

def allowedUserClaims (r : Req) : List String :=
  let effective := if r.withAccessToken && !r.assertUserinfo then r.scopes.filter (fun s => !["profile", "email", "phone", "address"].contains s) else r.scopes
  effective.flatMap claimsOf

def judge (r : Req) (o : Obs) : Option String :=
  (if o.hasIDToken then
    let c := o.idClaims
    if !o.rpVerifies then some "id_token-rejected-by-the-library's-RP-verifier"
    else if c.iss != r.issuer then some "id_token:iss"
    else if !c.aud.contains r.client then some "id_token:aud"
    else if c.azp != r.client then some "id_token:azp"
    else if c.sub != r.subject then some "id_token:sub"
    else if c.nonce != r.nonce then some "id_token:nonce"
    else if c.authTime != (if r.authTime == 0 then 0 else r.authTime - r.skew) then some "id_token:auth_time"
    else if o.amr != r.amr then some "id_token:amr"
    else if !(decide (c.exp - c.iat ≥ r.lifetime + 2 * r.skew - 1) && decide (c.exp - c.iat ≤ r.lifetime + 2 * r.skew + 1)) then some "id_token:lifetime"
    else if r.withAccessToken && c.atHash == "" then some "id_token:at_hash-missing"
    else if !o.cHashOK then some "id_token:c_hash"
    else if !o.atHashOK then some "id_token:at_hash"
    else if !(o.userClaims.all (allowedUserClaims r).contains) then some "id_token:user-claims-beyond-granted-scopes"
    else none
  else none)
  |>.orElse fun _ =>
  (if o.jwtAccessToken then
    if !o.atVerifies then some "access_token-rejected-by-op.VerifyAccessToken"
    else if o.atClaims.iss != r.issuer then some "access_token:iss"
    else if o.atClaims.sub != r.subject then some "access_token:sub"
    else none
  else if !o.opaqueOK then some "opaque-token-does-not-decrypt-to-id:subject" else none)
  |>.orElse fun _ =>
    if !o.expiresInOK then some "expires_in" else if !o.scopeOK then some "scope" else none

end C06
