/-
  C06 — Every token the OP issues is well-formed and passes the library's own verifiers.
  Monitor over one token response: the verdicts of the library's REAL verifiers on the issued tokens (run
  by the observer against the provider's published key set) plus the claim bindings the statement lists.
-/
import OidcModel.Spec.C01

namespace C06

/-- what the observer established about one response that contained tokens -/
structure Obs where
  flow : String := ""
  hasIDToken : Bool := false
  rpVerifies : Bool := false            -- rp.VerifyTokens (with the access token of the same response) accepted the ID token
  idClaims : Claims := {}               -- its decoded claims
  amr : List String := []
  cHashOK : Bool := true                -- c_hash absent (no code in this response) or the hash of exactly that code
  atHashOK : Bool := true               -- at_hash absent or the OIDC Core 3.1.3.6 hash of exactly the access token of this response
                                        -- (computed by the observer with the standard library, not with the library under test)
  userClaims : List String := []        -- user-claim names present in the ID token
  jwtAccessToken : Bool := false
  atVerifies : Bool := true             -- op.VerifyAccessToken accepted the JWT access token
  atClaims : Claims := {}
  opaqueOK : Bool := true               -- the opaque token decrypts (provider key) to "<stored id>:<subject>" and does not under another key
  expiresInOK : Bool := true            -- expires_in agrees with the stored expiry (± 2 s + skew)
  scopeOK : Bool := true                -- `scope` in the response equals the stored scopes
  atUserClaims : List String := []      -- private (non-registered) claim names present in the JWT access token
  -- who signed: the key pair (number in the observer's key ring; -1: none of them) whose public key verifies the signature
  -- of the token (go-jose `Verify` against every public key of the ring), and the algorithm its protected header names
  idSigner : Int := -1
  idAlg : String := ""
  atSigner : Int := -1
  atAlg : String := ""
  deriving Repr, Inhabited

/-- what the underlying request was -/
structure Req where
  issuer : String := ""
  client : String := ""
  subject : String := ""
  nonce : String := ""
  authTime : Int := 0                   -- seconds, 0 = none
  amr : List String := []
  scopes : List String := []
  lifetime : Int := 0                   -- ID-token lifetime, seconds
  skew : Int := 0                       -- client clock skew, seconds
  assertUserinfo : Bool := false        -- IDTokenUserinfoClaimsAssertion
  withAccessToken : Bool := true        -- the response also carries an access token (then userinfo scopes are stripped unless asserted)
  -- the client's registration may restrict which of the granted scopes yield claims, separately per token kind
  -- (`RestrictAdditionalIdTokenScopes` / `RestrictAdditionalAccessTokenScopes`): the granted scopes as restricted for ...
  idScopes : List String := []          -- ... ID tokens
  atScopes : List String := []          -- ... JWT access tokens
  -- the storage maps every scope it is asked about to its claims, so the claims of an ALLOWED scope must show ...
  storageFillsID : Bool := false        -- ... in the ID token (userinfo setters)
  storageFillsAT : Bool := false        -- ... in the JWT access token (private-claims getters)
  -- the provider's CURRENT signing key: what its storage returns from `SigningKey` at the token-issuing request
  -- (key pair number in the observer's ring, algorithm); `curKey = -1`: not recorded (lines of older streams)
  curKey : Int := -1
  curAlg : String := ""
  -- when the signing key changed INSIDE the token-issuing request (between two of its storage calls): the further keys (key
  -- pair, algorithm) that were the provider's current signing key at some moment of that request (empty otherwise)
  alsoCur : List (Int × String) := []
  deriving Repr, Inhabited

/-- user claims a scope entitles to -/
def claimsOf (scope : String) : List String :=
  if scope == "profile" then ["name", "preferred_username", "family_name", "given_name", "nickname", "locale", "updated_at", "picture", "profile", "website", "gender", "birthdate", "zoneinfo"]
  else if scope == "email" then ["email", "email_verified"]
  else if scope == "phone" then ["phone_number", "phone_number_verified"]
  else if scope == "address" then ["address"]
  else if scope == "custom_scope" then ["custom_claim"]
  else if scope == "custom_scope2" then ["custom_claim2"]
  else []

def userinfoScopes : List String := ["profile", "email", "phone", "address"]

/-- the scopes whose claims an ID token may carry: the granted scopes as the client restricts them FOR ID TOKENS, minus the
    userinfo scopes when an access token is delivered alongside and the client does not ask for userinfo claims in the ID token -/
def idTokenScopes (restricted : List String) (withAccessToken assertUserinfo : Bool) : List String :=
  if withAccessToken && !assertUserinfo then restricted.filter (fun s => !userinfoScopes.contains s) else restricted

/-- the scopes whose claims a JWT access token may carry: the granted scopes as the client restricts them FOR ACCESS TOKENS;
    userinfo claims never go into an access token -/
def accessTokenScopes (restricted : List String) : List String :=
  restricted.filter (fun s => !userinfoScopes.contains s)

def allowedUserClaims (r : Req) : List String :=
  (idTokenScopes r.idScopes r.withAccessToken r.assertUserinfo).flatMap claimsOf

def allowedAccessTokenClaims (r : Req) : List String :=
  (accessTokenScopes r.atScopes).flatMap claimsOf

/-- claims a storage that fills in every scope it is asked about (the reference storage) always yields for a scope -/
def filledClaimsOf (scope : String) : List String :=
  if scope == "profile" then ["name", "preferred_username"]
  else if scope == "email" then ["email"]
  else if scope == "phone" then ["phone_number"]
  else if scope == "custom_scope" then ["custom_claim"]
  else if scope == "custom_scope2" then ["custom_claim2"]
  else []

/-- with such a storage the claims of every ALLOWED scope must show in the token -/
def expectedClaims (scopes : List String) : List String := scopes.flatMap filledClaimsOf

/-- "signed with the provider's current signing key": the key pair that made the signature is the one the storage returns
    for THIS issuance, used with the algorithm that key specifies.  When the key changed while the request was being served,
    "current" is any ONE key that was current at some moment of the request: the signature's key pair AND the header's algorithm
    must belong to the same such key (the binding of at_hash / c_hash to that header algorithm and the verification against the
    key set published when the answer arrives are separate clauses of `judge`) -/
def signedWithCurrent (r : Req) (signer : Int) (alg : String) : Bool :=
  r.curKey == -1 || (signer == r.curKey && alg == r.curAlg) || r.alsoCur.any (fun k => signer == k.1 && alg == k.2)

def judge (r : Req) (o : Obs) : Option String :=
  (if o.hasIDToken then
    let c := o.idClaims
    if !signedWithCurrent r o.idSigner o.idAlg then some "id_token:not-signed-with-the-current-signing-key"
    else if !o.rpVerifies then some "id_token-rejected-by-the-library's-RP-verifier"
    else if c.iss != r.issuer then some "id_token:iss"
    else if !c.aud.contains r.client then some "id_token:aud"
    else if c.azp != r.client then some "id_token:azp"
    else if c.sub != r.subject then some "id_token:sub"
    else if c.nonce != r.nonce then some "id_token:nonce"
    else if c.authTime != (if r.authTime == 0 then 0 else r.authTime - r.skew) then some "id_token:auth_time"
    else if o.amr != r.amr then some "id_token:amr"
    else if !(decide (c.exp - c.iat ≥ r.lifetime + 2 * r.skew - 1) && decide (c.exp - c.iat ≤ r.lifetime + 2 * r.skew + 1)) then some "id_token:lifetime"
    else if r.withAccessToken && c.atHash == "" then some "id_token:at_hash-missing"
    else if !o.cHashOK then some "id_token:c_hash"
    else if !o.atHashOK then some "id_token:at_hash"
    else if !(o.userClaims.all (allowedUserClaims r).contains) then some "id_token:user-claims-beyond-granted-scopes"
    else if r.storageFillsID && !((expectedClaims (idTokenScopes r.idScopes r.withAccessToken r.assertUserinfo)).all o.userClaims.contains) then
      some "id_token:claims-of-an-allowed-scope-missing"
    else none
  else none)
  |>.orElse fun _ =>
  (if o.jwtAccessToken then
    if !signedWithCurrent r o.atSigner o.atAlg then some "access_token:not-signed-with-the-current-signing-key"
    else if !o.atVerifies then some "access_token-rejected-by-op.VerifyAccessToken"
    else if o.atClaims.iss != r.issuer then some "access_token:iss"
    else if o.atClaims.sub != r.subject then some "access_token:sub"
    else if !(o.atUserClaims.all (allowedAccessTokenClaims r).contains) then some "access_token:claims-beyond-granted-scopes"
    else if r.storageFillsAT && !((expectedClaims (accessTokenScopes r.atScopes)).all o.atUserClaims.contains) then
      some "access_token:claims-of-an-allowed-scope-missing"
    else none
  else if !o.opaqueOK then some "opaque-token-does-not-decrypt-to-id:subject" else none)
  |>.orElse fun _ =>
    if !o.expiresInOK then some "expires_in" else if !o.scopeOK then some "scope" else none

end C06
