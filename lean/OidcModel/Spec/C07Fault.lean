/-
  C07 (deep4) - what the property says about the ANSWER ITSELF of a refresh request, whatever happened inside the provider
  (a storage call that failed, a second refresh with the same token served at the same time):

    "On success the presented refresh token is handed to the storage for rotation and the response carries the storage's
     new refresh token ... otherwise ... nothing is issued."

  The onlooker sees the HTTP answer (status, which token members the body carries) and, through the storage, the rotation the
  storage performed WHILE IT SERVED THIS REQUEST.  `judgeBody`:
    * a 200 answer carries a non-empty access token, and its refresh token is the one the storage created in this very
      request's rotation call (a 200 without rotation, or with any other refresh token string, is flagged);
    * any other answer carries no token of any kind.
  Everything else (who may refresh, scopes, subject / audience / auth time of the new tokens, the presented token handed
  over) stays with Spec/C07.lean / Spec/C07Wire.lean; `observeF` asks them first.  Nothing here says how the provider
  computes its answer.
-/
import OidcModel.Spec.C07Wire

namespace FlowObs

/-- the literal HTTP answer to a token request, and the rotation the storage performed while it served the request -/
structure Body where
  /-- HTTP 200 -/
  ok200 : Bool := false
  /-- the body has a non-empty `access_token` member -/
  accessToken : Bool := false
  /-- the `refresh_token` member ("" = none) -/
  refreshToken : String := ""
  /-- the body has a non-empty `id_token` member -/
  idToken : Bool := false
  /-- the refresh token the storage created in this request's rotation call (`none`: the storage rotated nothing) -/
  rotatedTo : Option String := none
  deriving Repr, Inhabited, DecidableEq

/-- a request that is a refresh request under every reading -/
def isRefreshRequest (w : WireReq) : Bool := (readings w).all isRefresh

def judgeBody (b : Body) : Option String :=
  if b.ok200 then
    if !b.accessToken then some "success-without-access-token"
    else match b.rotatedTo with
      | none => some "success-without-rotation"
      | some t => if b.refreshToken != t then some "response-refresh-token-is-not-the-storage's" else none
  else if b.accessToken || b.idToken || b.refreshToken != "" then some "tokens-in-refused-response"
  else none

inductive EventF
  | x (e : EventX)
  /-- a refresh request as it travelled, its answer as Spec/C07Wire.lean reads it, and the literal answer -/
  | refresh (w : WireReq) (a : Answer) (b : Body)
  deriving Repr, Inhabited

/-- a request that ended WITHOUT tokens although the storage rotated while it served it (the journal shows the token it was
    handed, the storage holds a successor nobody was given): the onlooker knows that the handed token is gone -/
def consumed (m : C07.MonState) (a : Answer) : C07.MonState :=
  match a.tokens, a.handed, a.minted with
  | none, some old, some _ => { m with rts := m.rts.map fun x => if x.token == old then { x with live := false } else x }
  | _, _, _ => m

/-- one event at instant `now`: new observer state, C04 verdict, C07 verdict -/
def observeF (now : Int) (s : ObsState) : EventF → ObsState × Option String × Option String
  | .x e => observeX now s e
  | .refresh w a b =>
    let r := observeX now { s with m07 := consumed s.m07 a } (.token w a)
    let v := observeX now s (.token w a)
    -- a 200 that carries no access token is no success the reader of Spec/C07Wire.lean could judge: the literal answer first
    let early := if isRefreshRequest w && b.ok200 && a.tokens.isNone then judgeBody b else none
    (r.1, v.2.1, match early, v.2.2 with
      | some x, _ => some x
      | none, some x => some x
      | none, none => if isRefreshRequest w then judgeBody b else none)

end FlowObs
